/-
  C04 — Masks are sets of component IDs; filters match exactly per their definition.

  All statements are about the *regenerated* word-level definitions (ArcheGen.Build256 for the
  default build, ArcheGen.Build64 for `-tags tiny`), i.e. about what ecs/bitmask*.go,
  ecs/filter.go and filter/filter.go say now. `mem m i` is the set view of a mask.
  The theorems quantify over every mask (2^256 / 2^64) and every ID.
-/
import ArcheGen.Build256
import ArcheGen.Build64
import ArcheProofs.Lemmas.Bits

namespace Arche.Props.C04
open Arche.Bits

/-! ## default build: 4 × 64-bit words -/
namespace B256
open ArcheGen.M256

def wordOf (m : Mask) : Nat → BitVec 64
  | 0 => m.b0
  | 1 => m.b1
  | 2 => m.b2
  | _ => m.b3

/-- the set view: is component id `i` a member of mask `m`? -/
def mem (m : Mask) (i : Nat) : Bool := decide (i < 256) && (wordOf m (i / 64)).getLsbD (i % 64)

theorem idx_toNat (bit : BitVec 8) : (bit / 64#8).toNat = bit.toNat / 64 := by
  simp [BitVec.toNat_udiv]

theorem off_toNat (bit : BitVec 8) : (bit - 64#8 * (bit / 64#8)).toNat = bit.toNat % 64 := by
  have h := bit.isLt
  simp [BitVec.toNat_sub, BitVec.toNat_mul, BitVec.toNat_udiv]
  omega

theorem word_eq (m : Mask) (i : BitVec 8) (h : i.toNat < 4) : Mask.word m i = wordOf m i.toNat := by
  unfold Mask.word
  have h0 : (i == 0#8) = decide (i.toNat = 0) := by
    rw [Bool.eq_iff_iff]; simp [BitVec.toNat_eq]
  have h1 : (i == 1#8) = decide (i.toNat = 1) := by
    rw [Bool.eq_iff_iff]; simp [BitVec.toNat_eq]
  have h2 : (i == 2#8) = decide (i.toNat = 2) := by
    rw [Bool.eq_iff_iff]; simp [BitVec.toNat_eq]
  rw [h0, h1, h2]
  have : i.toNat = 0 ∨ i.toNat = 1 ∨ i.toNat = 2 ∨ i.toNat = 3 := by omega
  rcases this with h | h | h | h <;> simp [h, wordOf]

theorem wordOf_setWord (m : Mask) (i : BitVec 8) (v : BitVec 64) (h : i.toNat < 4) (k : Nat) (hk : k < 4) :
    wordOf (Mask.setWord m i v) k = if k = i.toNat then v else wordOf m k := by
  unfold Mask.setWord
  have h0 : (i == 0#8) = decide (i.toNat = 0) := by
    rw [Bool.eq_iff_iff]; simp [BitVec.toNat_eq]
  have h1 : (i == 1#8) = decide (i.toNat = 1) := by
    rw [Bool.eq_iff_iff]; simp [BitVec.toNat_eq]
  have h2 : (i == 2#8) = decide (i.toNat = 2) := by
    rw [Bool.eq_iff_iff]; simp [BitVec.toNat_eq]
  rw [h0, h1, h2]
  have hi : i.toNat = 0 ∨ i.toNat = 1 ∨ i.toNat = 2 ∨ i.toNat = 3 := by omega
  have hk' : k = 0 ∨ k = 1 ∨ k = 2 ∨ k = 3 := by omega
  rcases hi with h | h | h | h <;> rcases hk' with g | g | g | g <;> simp [h, g, wordOf]

/-- `Mask.Get` is membership. -/
theorem get_eq_mem (m : Mask) (bit : BitVec 8) : m.Get bit = mem m bit.toNat := by
  have hb := bit.isLt
  unfold Mask.Get mem
  simp only []
  rw [word_eq m _ (by rw [idx_toNat]; omega), idx_toNat, off_toNat,
      and_one_shl_beq _ _ (Nat.mod_lt _ (by decide))]
  simp [hb]

/-- `Mask.Set` changes exactly the addressed member. -/
theorem set_spec (m : Mask) (bit : BitVec 8) (v : Bool) (j : Nat) :
    mem (m.Set bit v) j = if j = bit.toNat then v else mem m j := by
  have hb := bit.isLt
  have hidx : (bit / 64#8).toNat < 4 := by rw [idx_toNat]; omega
  unfold Mask.Set mem
  simp only []
  by_cases hj : j < 256
  · have hj4 : j / 64 < 4 := by omega
    cases v
    · simp only [Bool.false_eq_true, ↓reduceIte]
      rw [wordOf_setWord _ _ _ hidx _ hj4, word_eq m _ hidx, idx_toNat, off_toNat]
      by_cases hw : j / 64 = bit.toNat / 64
      · rw [if_pos hw, getLsbD_and_not_one_shl _ _ _ (Nat.mod_lt _ (by decide)) (Nat.mod_lt _ (by decide)), hw]
        by_cases hjb : j = bit.toNat
        · subst hjb; simp
        · have : ¬ (j % 64 = bit.toNat % 64) := by omega
          simp [hjb, this, hj, hw]
      · rw [if_neg hw]
        have : j ≠ bit.toNat := by intro h; subst h; exact hw rfl
        simp [this]
    · simp only [↓reduceIte]
      rw [wordOf_setWord _ _ _ hidx _ hj4, word_eq m _ hidx, idx_toNat, off_toNat]
      by_cases hw : j / 64 = bit.toNat / 64
      · rw [if_pos hw, getLsbD_or_one_shl _ _ _ (Nat.mod_lt _ (by decide)), hw]
        by_cases hjb : j = bit.toNat
        · subst hjb; simp [hj]
        · have : ¬ (j % 64 = bit.toNat % 64) := by omega
          simp [hjb, this, hj, hw]
      · rw [if_neg hw]
        have : j ≠ bit.toNat := by intro h; subst h; exact hw rfl
        simp [this]
  · have : j ≠ bit.toNat := by omega
    simp [hj, this]


/-! ### pointwise operations -/

theorem wordOf_cases (P : Nat → Prop) (h0 : P 0) (h1 : P 1) (h2 : P 2) (h3 : ∀ k, P (k + 3)) : ∀ k, P k
  | 0 => h0 | 1 => h1 | 2 => h2 | k + 3 => h3 k

theorem wordOf_not (m : Mask) (k : Nat) : wordOf m.Not k = ~~~ wordOf m k := by
  revert k; apply wordOf_cases <;> simp [wordOf, Mask.Not]
theorem wordOf_and (a b : Mask) (k : Nat) : wordOf (a.And b) k = wordOf a k &&& wordOf b k := by
  revert k; apply wordOf_cases <;> simp [wordOf, Mask.And]
theorem wordOf_or (a b : Mask) (k : Nat) : wordOf (a.Or b) k = wordOf a k ||| wordOf b k := by
  revert k; apply wordOf_cases <;> simp [wordOf, Mask.Or]
theorem wordOf_xor (a b : Mask) (k : Nat) : wordOf (a.Xor b) k = wordOf a k ^^^ wordOf b k := by
  revert k; apply wordOf_cases <;> simp [wordOf, Mask.Xor]

theorem not_mem (m : Mask) (j : Nat) : mem m.Not j = (decide (j < 256) && !mem m j) := by
  unfold mem; rw [wordOf_not, BitVec.getLsbD_not]
  have : j % 64 < 64 := Nat.mod_lt _ (by decide)
  by_cases hj : j < 256 <;> simp [hj, this]
theorem and_mem (a b : Mask) (j : Nat) : mem (a.And b) j = (mem a j && mem b j) := by
  unfold mem; rw [wordOf_and, BitVec.getLsbD_and]
  by_cases hj : j < 256 <;> simp [hj]
theorem or_mem (a b : Mask) (j : Nat) : mem (a.Or b) j = (mem a j || mem b j) := by
  unfold mem; rw [wordOf_or, BitVec.getLsbD_or]
  by_cases hj : j < 256 <;> simp [hj]
theorem xor_mem (a b : Mask) (j : Nat) : mem (a.Xor b) j = (mem a j != mem b j) := by
  unfold mem; rw [wordOf_xor, BitVec.getLsbD_xor]
  by_cases hj : j < 256 <;> simp [hj]

theorem reset_spec (m : Mask) (j : Nat) : mem m.Reset j = false := by
  unfold mem Mask.Reset
  have : ∀ k, wordOf ({ b0 := 0#64, b1 := 0#64, b2 := 0#64, b3 := 0#64 } : Mask) k = 0#64 := by
    apply wordOf_cases <;> simp [wordOf]
  simp [this]

/-- a statement about all members is a statement about the four words -/
theorem forall_mem_iff (P : Nat → BitVec 64 → Prop) (m : Mask) :
    (∀ k, k < 4 → P k (wordOf m k)) ↔ (P 0 m.b0 ∧ P 1 m.b1 ∧ P 2 m.b2 ∧ P 3 m.b3) := by
  constructor
  · intro h; exact ⟨h 0 (by decide), h 1 (by decide), h 2 (by decide), h 3 (by decide)⟩
  · intro ⟨h0, h1, h2, h3⟩ k hk
    have : k = 0 ∨ k = 1 ∨ k = 2 ∨ k = 3 := by omega
    rcases this with h | h | h | h <;> subst h <;> assumption

theorem mem_of_word (m : Mask) (k i : Nat) (hk : k < 4) (hi : i < 64) :
    mem m (64 * k + i) = (wordOf m k).getLsbD i := by
  unfold mem
  have h1 : (64 * k + i) / 64 = k := by omega
  have h2 : (64 * k + i) % 64 = i := by omega
  have h3 : 64 * k + i < 256 := by omega
  simp [h1, h2, h3]

/-- `Contains` is the subset relation. -/
theorem contains_iff (a b : Mask) : a.Contains b = true ↔ ∀ j, mem b j = true → mem a j = true := by
  unfold Mask.Contains
  simp only [Bool.and_eq_true, beq_iff_eq, and_eq_right_iff]
  constructor
  · intro ⟨⟨⟨h0, h1⟩, h2⟩, h3⟩ j hj
    unfold mem at *
    simp only [Bool.and_eq_true, decide_eq_true_eq] at *
    refine ⟨hj.1, ?_⟩
    have hm : j % 64 < 64 := Nat.mod_lt _ (by decide)
    have : j / 64 = 0 ∨ j / 64 = 1 ∨ j / 64 = 2 ∨ j / 64 = 3 := by omega
    rcases this with h | h | h | h <;> simp only [h, wordOf] at * <;> first | exact h0 _ hm hj.2 | exact h1 _ hm hj.2 | exact h2 _ hm hj.2 | exact h3 _ hm hj.2
  · intro h
    have key : ∀ k, k < 4 → ∀ i, i < 64 → (wordOf b k).getLsbD i = true → (wordOf a k).getLsbD i = true := by
      intro k hk i hi hb
      have := h (64 * k + i) (by rw [mem_of_word _ _ _ hk hi]; exact hb)
      rwa [mem_of_word _ _ _ hk hi] at this
    exact ⟨⟨⟨key 0 (by decide), key 1 (by decide)⟩, key 2 (by decide)⟩, key 3 (by decide)⟩

/-- `ContainsAny` is non-empty intersection. -/
theorem containsAny_iff (a b : Mask) : a.ContainsAny b = true ↔ ∃ j, mem a j = true ∧ mem b j = true := by
  unfold Mask.ContainsAny
  simp only [Bool.or_eq_true, bne_iff_ne, ne_eq]
  have e : ∀ k, k < 4 → ((wordOf a k &&& wordOf b k) ≠ 0#64 ↔ ∃ i, i < 64 ∧ mem a (64 * k + i) = true ∧ mem b (64 * k + i) = true) := by
    intro k hk
    rw [and_ne_zero_iff]
    constructor
    · intro ⟨i, hi, h1, h2⟩
      exact ⟨i, hi, by rw [mem_of_word _ _ _ hk hi]; exact h1, by rw [mem_of_word _ _ _ hk hi]; exact h2⟩
    · intro ⟨i, hi, h1, h2⟩
      rw [mem_of_word _ _ _ hk hi] at h1 h2
      exact ⟨i, hi, h1, h2⟩
  constructor
  · intro h
    rcases h with ((h | h) | h) | h
    · obtain ⟨i, _, h1, h2⟩ := (e 0 (by decide)).1 h; exact ⟨_, h1, h2⟩
    · obtain ⟨i, _, h1, h2⟩ := (e 1 (by decide)).1 h; exact ⟨_, h1, h2⟩
    · obtain ⟨i, _, h1, h2⟩ := (e 2 (by decide)).1 h; exact ⟨_, h1, h2⟩
    · obtain ⟨i, _, h1, h2⟩ := (e 3 (by decide)).1 h; exact ⟨_, h1, h2⟩
  · intro ⟨j, h1, h2⟩
    have hj : j < 256 := by unfold mem at h1; simp at h1; exact h1.1
    have hm : j % 64 < 64 := Nat.mod_lt _ (by decide)
    have hdecomp : j = 64 * (j / 64) + j % 64 := by omega
    have : j / 64 = 0 ∨ j / 64 = 1 ∨ j / 64 = 2 ∨ j / 64 = 3 := by omega
    rcases this with h | h | h | h
    · left; left; left; exact (e 0 (by decide)).2 ⟨j % 64, hm, by rw [← h, ← hdecomp]; exact h1, by rw [← h, ← hdecomp]; exact h2⟩
    · left; left; right; exact (e 1 (by decide)).2 ⟨j % 64, hm, by rw [← h, ← hdecomp]; exact h1, by rw [← h, ← hdecomp]; exact h2⟩
    · left; right; exact (e 2 (by decide)).2 ⟨j % 64, hm, by rw [← h, ← hdecomp]; exact h1, by rw [← h, ← hdecomp]; exact h2⟩
    · right; exact (e 3 (by decide)).2 ⟨j % 64, hm, by rw [← h, ← hdecomp]; exact h1, by rw [← h, ← hdecomp]; exact h2⟩

/-- `IsZero` is emptiness. -/
theorem isZero_iff (m : Mask) : m.IsZero = true ↔ ∀ j, mem m j = false := by
  unfold Mask.IsZero
  simp only [Bool.and_eq_true, beq_iff_eq, eq_zero_iff]
  constructor
  · intro ⟨⟨⟨h0, h1⟩, h2⟩, h3⟩ j
    unfold mem
    by_cases hj : j < 256
    · have hm : j % 64 < 64 := Nat.mod_lt _ (by decide)
      have : j / 64 = 0 ∨ j / 64 = 1 ∨ j / 64 = 2 ∨ j / 64 = 3 := by omega
      rcases this with h | h | h | h <;> simp [h, wordOf, hj, h0 _ hm, h1 _ hm, h2 _ hm, h3 _ hm]
    · simp [hj]
  · intro h
    have key : ∀ k, k < 4 → ∀ i, i < 64 → (wordOf m k).getLsbD i = false := by
      intro k hk i hi
      rw [← mem_of_word _ _ _ hk hi]; exact h _
    exact ⟨⟨⟨key 0 (by decide), key 1 (by decide)⟩, key 2 (by decide)⟩, key 3 (by decide)⟩


/-! ### All, TotalBitsSet -/

theorem mem_default (j : Nat) : mem (default : Mask) j = false := by
  unfold mem
  have : ∀ k, wordOf (default : Mask) k = 0#64 := by
    apply wordOf_cases <;> (try intro _) <;> rfl
  simp [this]

theorem foldl_set_mem (ids : List (BitVec 8)) (m : Mask) (j : Nat) :
    mem (ids.foldl (fun m id => m.Set id true) m) j = (mem m j || ids.any (fun id => id.toNat == j)) := by
  induction ids generalizing m with
  | nil => simp
  | cons id rest ih =>
    simp only [List.foldl_cons, List.any_cons]
    rw [ih, set_spec]
    by_cases h : j = id.toNat
    · subst h; simp
    · have : (id.toNat == j) = false := by simp; omega
      simp [h, this]

/-- `All(ids...)` is the set of the given ids. -/
theorem all_spec (ids : List (BitVec 8)) (j : Nat) : mem (All ids) j = ids.any (fun id => id.toNat == j) := by
  unfold All
  simp only []
  rw [foldl_set_mem, mem_default]
  simp

theorem range4 : List.range 4 = [0, 1, 2, 3] := by rfl

set_option maxRecDepth 100000 in
theorem range256 : List.range 256 = (List.range 4).flatMap (fun k => (List.range 64).map (fun i => 64 * k + i)) := by
  decide

/-- `TotalBitsSet` is the cardinality. -/
theorem totalBitsSet_eq_card (m : Mask) :
    m.TotalBitsSet = Int.ofNat ((List.range 256).filter (fun j => mem m j)).length := by
  have hw : ∀ k, k < 4 → (((List.range 64).map (fun i => 64 * k + i)).filter (fun j => mem m j)).length
      = ((List.range 64).filter (fun i => (wordOf m k).getLsbD i)).length := by
    intro k hk
    rw [List.filter_map, List.length_map]
    congr 1
    apply List.filter_congr
    intro i hi
    simp only [List.mem_range] at hi
    simp [mem_of_word _ _ _ hk hi]
  rw [range256, range4]
  simp only [List.flatMap_cons, List.flatMap_nil, List.append_nil, List.filter_append, List.length_append]
  rw [hw 0 (by decide), hw 1 (by decide), hw 2 (by decide), hw 3 (by decide)]
  unfold Mask.TotalBitsSet ArcheGen.popcount64
  simp only [wordOf, Int.ofNat_eq_natCast, Int.natCast_add]
  omega


/-! ### filters -/

theorem mem_lt (m : Mask) (j : Nat) (h : mem m j = true) : j < 256 := by
  unfold mem at h; simp at h; exact h.1

/-- A mask used as a filter matches exactly the component sets containing all its ids. -/
theorem mask_matches_iff (b bits : Mask) :
    F.Matches (.mask b) bits = true ↔ ∀ j, mem b j = true → mem bits j = true := by
  simp only [F.Matches]; exact contains_iff bits b

/-- `MaskFilter`: all included present, none of the excluded present. -/
theorem maskFilter_matches_iff (f : MaskFilter) (bits : Mask) :
    F.Matches (.maskFilter f) bits = true ↔
      (∀ j, mem f.Include j = true → mem bits j = true) ∧ (∀ j, mem f.Exclude j = true → mem bits j = false) := by
  simp only [F.Matches, Bool.and_eq_true, Bool.or_eq_true, Bool.not_eq_true']
  rw [contains_iff]
  constructor
  · intro ⟨h1, h2⟩
    refine ⟨h1, ?_⟩
    intro j hj
    rcases h2 with h2 | h2
    · cases hb : mem bits j
      · rfl
      · have : bits.ContainsAny f.Exclude = true := (containsAny_iff _ _).2 ⟨j, hb, hj⟩
        rw [h2] at this; cases this
    · rw [(isZero_iff _).1 h2 j] at hj; cases hj
  · intro ⟨h1, h2⟩
    refine ⟨h1, ?_⟩
    left
    cases h : bits.ContainsAny f.Exclude
    · rfl
    · obtain ⟨j, ha, hb⟩ := (containsAny_iff _ _).1 h
      rw [h2 j hb] at ha; cases ha

theorem maskFilter_matches_eq (f : MaskFilter) (bits : Mask) :
    F.Matches (.maskFilter f) bits = f.Matches bits := by
  simp [F.Matches, MaskFilter.Matches]

/-- `Exclusive`: exactly the included components. -/
theorem exclusive_matches_iff (b bits : Mask) :
    F.Matches (.maskFilter b.Exclusive) bits = true ↔ ∀ j, mem bits j = mem b j := by
  rw [maskFilter_matches_iff]
  simp only [Mask.Exclusive]
  constructor
  · intro ⟨h1, h2⟩ j
    cases hb : mem b j
    · by_cases hj : j < 256
      · apply h2; rw [not_mem, hb]; simp [hj]
      · unfold mem; simp [hj]
    · exact h1 j hb
  · intro h
    constructor
    · intro j hj; rw [h j]; exact hj
    · intro j hj
      rw [not_mem] at hj
      simp at hj
      rw [h j]; exact hj.2

/-- `Without`: includes the mask, excludes the listed ids. -/
theorem without_matches_iff (b bits : Mask) (comps : List (BitVec 8)) :
    F.Matches (.maskFilter (b.Without comps)) bits = true ↔
      (∀ j, mem b j = true → mem bits j = true) ∧ (∀ id, id ∈ comps → mem bits id.toNat = false) := by
  rw [maskFilter_matches_iff]
  simp only [Mask.Without]
  constructor
  · intro ⟨h1, h2⟩
    refine ⟨h1, ?_⟩
    intro id hid
    apply h2
    rw [all_spec]
    simp only [List.any_eq_true, beq_iff_eq]
    exact ⟨id, hid, rfl⟩
  · intro ⟨h1, h2⟩
    refine ⟨h1, ?_⟩
    intro j hj
    rw [all_spec] at hj
    simp only [List.any_eq_true, beq_iff_eq] at hj
    obtain ⟨id, hid, rfl⟩ := hj
    exact h2 id hid

theorem any_matches_iff (f bits : Mask) :
    F.Matches (.ANY f) bits = true ↔ ∃ j, mem bits j = true ∧ mem f j = true := by
  simp only [F.Matches]; exact containsAny_iff bits f

theorem noneOf_matches_iff (f bits : Mask) :
    F.Matches (.NoneOF f) bits = true ↔ ¬ ∃ j, mem bits j = true ∧ mem f j = true := by
  simp only [F.Matches, Bool.not_eq_true']
  rw [← containsAny_iff]; simp

theorem anyNot_matches_iff (f bits : Mask) :
    F.Matches (.AnyNOT f) bits = true ↔ ¬ ∀ j, mem f j = true → mem bits j = true := by
  simp only [F.Matches, Bool.not_eq_true']
  rw [← contains_iff]; simp

/-- the logic filters are the boolean connectives, under arbitrary nesting -/
theorem and_matches (l r : F) (bits : Mask) : F.Matches (.AND l r) bits = (F.Matches l bits && F.Matches r bits) := by
  simp [F.Matches]
theorem or_matches (l r : F) (bits : Mask) : F.Matches (.OR l r) bits = (F.Matches l bits || F.Matches r bits) := by
  simp [F.Matches]
theorem xor_matches (l r : F) (bits : Mask) : F.Matches (.XOR l r) bits = (F.Matches l bits != F.Matches r bits) := by
  simp [F.Matches]
theorem not_matches (f : F) (bits : Mask) : F.Matches (.NOT f) bits = !F.Matches f bits := by
  simp [F.Matches]
theorem relation_matches (f : F) (a b : Nat) (bits : Mask) : F.Matches (.relation f a b) bits = F.Matches f bits := by
  simp [F.Matches]
theorem cached_matches (f : F) (k : Nat) (bits : Mask) : F.Matches (.cached f k) bits = F.Matches f bits := by
  simp [F.Matches]

/-- Set semantics of a filter expression over component sets `s : Nat → Bool`. -/
def sem : F → (Nat → Bool) → Prop
  | .mask b, s => ∀ j, mem b j = true → s j = true
  | .maskFilter f, s => (∀ j, mem f.Include j = true → s j = true) ∧ (∀ j, mem f.Exclude j = true → s j = false)
  | .relation f _ _, s => sem f s
  | .cached f _, s => sem f s
  | .ANY f, s => ∃ j, s j = true ∧ mem f j = true
  | .NoneOF f, s => ¬ ∃ j, s j = true ∧ mem f j = true
  | .AnyNOT f, s => ¬ ∀ j, mem f j = true → s j = true
  | .AND l r, s => sem l s ∧ sem r s
  | .OR l r, s => sem l s ∨ sem r s
  | .XOR l r, s => ¬ (sem l s ↔ sem r s)
  | .NOT f, s => ¬ sem f s

/-- Every filter expression, however nested, matches a mask iff its boolean definition holds
    of the set the mask denotes. -/
theorem matches_iff_sem (f : F) (bits : Mask) : F.Matches f bits = true ↔ sem f (mem bits) := by
  induction f with
  | mask b => exact mask_matches_iff b bits
  | maskFilter f => exact maskFilter_matches_iff f bits
  | relation f a b ih => rw [relation_matches]; exact ih
  | cached f k ih => rw [cached_matches]; exact ih
  | ANY f => exact any_matches_iff f bits
  | NoneOF f => exact noneOf_matches_iff f bits
  | AnyNOT f => exact anyNot_matches_iff f bits
  | AND l r ihl ihr => rw [and_matches]; simp only [Bool.and_eq_true, sem, ihl, ihr]
  | OR l r ihl ihr => rw [or_matches]; simp only [Bool.or_eq_true, sem, ihl, ihr]
  | XOR l r ihl ihr =>
    rw [xor_matches]; simp only [sem, ← ihl, ← ihr]
    cases F.Matches l bits <;> cases F.Matches r bits <;> simp
  | NOT f ih => rw [not_matches]; simp only [sem, ← ih]; cases F.Matches f bits <;> simp

/-- non-vacuity: a concrete mask over three words, a nested filter, and its verdict -/
example : F.Matches (.AND (.mask (All [3#8, 70#8])) (.NOT (.ANY (All [200#8])))) (All [3#8, 70#8, 130#8]) = true := by decide

end B256

/-! ## `tiny` build: one 64-bit word. IDs are `< 64` (registration rejects more), which is the
    guard of the theorems about single IDs. -/
namespace B64
open ArcheGen.M64

/-- the set view of a tiny mask -/
def mem (m : Mask) (i : Nat) : Bool := decide (i < 64) && m.bits.getLsbD i

theorem get_eq_mem (m : Mask) (bit : BitVec 8) (h : bit.toNat < 64) : m.Get bit = mem m bit.toNat := by
  unfold Mask.Get mem
  simp only []
  rw [and_one_shl_beq _ _ h]; simp [h]

theorem set_spec (m : Mask) (bit : BitVec 8) (v : Bool) (j : Nat) (h : bit.toNat < 64) :
    mem (m.Set bit v) j = if j = bit.toNat then v else mem m j := by
  unfold Mask.Set mem
  by_cases hj : j < 64
  · cases v
    · simp only [Bool.false_eq_true, ↓reduceIte]
      rw [getLsbD_and_not_one_shl _ _ _ h hj]
      by_cases hjb : j = bit.toNat <;> simp [hjb, hj]
    · simp only [↓reduceIte]
      rw [getLsbD_or_one_shl _ _ _ h]
      by_cases hjb : j = bit.toNat
      · subst hjb; simp [hj]
      · simp [hjb, hj]
  · have : j ≠ bit.toNat := by omega
    simp [hj, this]

theorem not_mem (m : Mask) (j : Nat) : mem m.Not j = (decide (j < 64) && !mem m j) := by
  unfold mem Mask.Not; rw [BitVec.getLsbD_not]
  by_cases hj : j < 64 <;> simp [hj]
theorem and_mem (a b : Mask) (j : Nat) : mem (a.And b) j = (mem a j && mem b j) := by
  unfold mem Mask.And; rw [BitVec.getLsbD_and]
  by_cases hj : j < 64 <;> simp [hj]
theorem or_mem (a b : Mask) (j : Nat) : mem (a.Or b) j = (mem a j || mem b j) := by
  unfold mem Mask.Or; rw [BitVec.getLsbD_or]
  by_cases hj : j < 64 <;> simp [hj]
theorem xor_mem (a b : Mask) (j : Nat) : mem (a.Xor b) j = (mem a j != mem b j) := by
  unfold mem Mask.Xor; rw [BitVec.getLsbD_xor]
  by_cases hj : j < 64 <;> simp [hj]
theorem reset_spec (m : Mask) (j : Nat) : mem m.Reset j = false := by
  unfold mem Mask.Reset; simp

theorem contains_iff (a b : Mask) : a.Contains b = true ↔ ∀ j, mem b j = true → mem a j = true := by
  unfold Mask.Contains mem
  simp only [beq_iff_eq, and_eq_right_iff, Bool.and_eq_true, decide_eq_true_eq]
  constructor
  · intro h j ⟨hj, hb⟩; exact ⟨hj, h j hj hb⟩
  · intro h i hi hb; exact (h i ⟨hi, hb⟩).2

theorem containsAny_iff (a b : Mask) : a.ContainsAny b = true ↔ ∃ j, mem a j = true ∧ mem b j = true := by
  unfold Mask.ContainsAny mem
  simp only [bne_iff_ne, ne_eq, Bool.and_eq_true, decide_eq_true_eq]
  rw [show (¬ a.bits &&& b.bits = 0#64) ↔ (a.bits &&& b.bits) ≠ 0#64 from Iff.rfl, and_ne_zero_iff]
  constructor
  · intro ⟨i, hi, h1, h2⟩; exact ⟨i, ⟨hi, h1⟩, ⟨hi, h2⟩⟩
  · intro ⟨i, ⟨hi, h1⟩, ⟨_, h2⟩⟩; exact ⟨i, hi, h1, h2⟩

theorem isZero_iff (m : Mask) : m.IsZero = true ↔ ∀ j, mem m j = false := by
  unfold Mask.IsZero mem
  simp only [beq_iff_eq, eq_zero_iff]
  constructor
  · intro h j
    by_cases hj : j < 64
    · rw [h j hj]; simp
    · simp [hj]
  · intro h i hi
    have := h i; simpa [hi] using this

theorem mem_default (j : Nat) : mem (default : Mask) j = false := by
  unfold mem
  have : (default : Mask).bits = 0#64 := rfl
  simp [this]

theorem foldl_set_mem (ids : List (BitVec 8)) (m : Mask) (j : Nat) (h : ∀ id ∈ ids, id.toNat < 64) :
    mem (ids.foldl (fun m id => m.Set id true) m) j = (mem m j || ids.any (fun id => id.toNat == j)) := by
  induction ids generalizing m with
  | nil => simp
  | cons id rest ih =>
    simp only [List.foldl_cons, List.any_cons]
    rw [ih _ (fun x hx => h x (List.mem_cons_of_mem _ hx)), set_spec _ _ _ _ (h id (List.mem_cons_self))]
    by_cases hj : j = id.toNat
    · subst hj; simp
    · have : (id.toNat == j) = false := by simp; omega
      simp [hj, this]

theorem all_spec (ids : List (BitVec 8)) (j : Nat) (h : ∀ id ∈ ids, id.toNat < 64) :
    mem (All ids) j = ids.any (fun id => id.toNat == j) := by
  unfold All
  simp only []
  rw [foldl_set_mem _ _ _ h, mem_default, Bool.false_or]

theorem totalBitsSet_eq_card (m : Mask) :
    m.TotalBitsSet = Int.ofNat ((List.range 64).filter (fun j => mem m j)).length := by
  unfold Mask.TotalBitsSet ArcheGen.popcount64
  have : (List.range 64).filter (fun i => m.bits.getLsbD i) = (List.range 64).filter (fun j => mem m j) := by
    apply List.filter_congr
    intro i hi
    simp only [List.mem_range] at hi
    simp [mem, hi]
  rw [this]

theorem mask_matches_iff (b bits : Mask) :
    F.Matches (.mask b) bits = true ↔ ∀ j, mem b j = true → mem bits j = true := by
  simp only [F.Matches]; exact contains_iff bits b

theorem maskFilter_matches_iff (f : MaskFilter) (bits : Mask) :
    F.Matches (.maskFilter f) bits = true ↔
      (∀ j, mem f.Include j = true → mem bits j = true) ∧ (∀ j, mem f.Exclude j = true → mem bits j = false) := by
  simp only [F.Matches, Bool.and_eq_true, Bool.or_eq_true, Bool.not_eq_true']
  rw [contains_iff]
  constructor
  · intro ⟨h1, h2⟩
    refine ⟨h1, ?_⟩
    intro j hj
    rcases h2 with h2 | h2
    · cases hb : mem bits j
      · rfl
      · have : bits.ContainsAny f.Exclude = true := (containsAny_iff _ _).2 ⟨j, hb, hj⟩
        rw [h2] at this; cases this
    · rw [(isZero_iff _).1 h2 j] at hj; cases hj
  · intro ⟨h1, h2⟩
    refine ⟨h1, ?_⟩
    left
    cases h : bits.ContainsAny f.Exclude
    · rfl
    · obtain ⟨j, ha, hb⟩ := (containsAny_iff _ _).1 h
      rw [h2 j hb] at ha; cases ha

theorem exclusive_matches_iff (b bits : Mask) :
    F.Matches (.maskFilter b.Exclusive) bits = true ↔ ∀ j, mem bits j = mem b j := by
  rw [maskFilter_matches_iff]
  simp only [Mask.Exclusive]
  constructor
  · intro ⟨h1, h2⟩ j
    cases hb : mem b j
    · by_cases hj : j < 64
      · apply h2; rw [not_mem, hb]; simp [hj]
      · unfold mem; simp [hj]
    · exact h1 j hb
  · intro h
    constructor
    · intro j hj; rw [h j]; exact hj
    · intro j hj
      rw [not_mem] at hj
      simp at hj
      rw [h j]; exact hj.2

def sem : F → (Nat → Bool) → Prop
  | .mask b, s => ∀ j, mem b j = true → s j = true
  | .maskFilter f, s => (∀ j, mem f.Include j = true → s j = true) ∧ (∀ j, mem f.Exclude j = true → s j = false)
  | .relation f _ _, s => sem f s
  | .cached f _, s => sem f s
  | .ANY f, s => ∃ j, s j = true ∧ mem f j = true
  | .NoneOF f, s => ¬ ∃ j, s j = true ∧ mem f j = true
  | .AnyNOT f, s => ¬ ∀ j, mem f j = true → s j = true
  | .AND l r, s => sem l s ∧ sem r s
  | .OR l r, s => sem l s ∨ sem r s
  | .XOR l r, s => ¬ (sem l s ↔ sem r s)
  | .NOT f, s => ¬ sem f s

theorem matches_iff_sem (f : F) (bits : Mask) : F.Matches f bits = true ↔ sem f (mem bits) := by
  induction f with
  | mask b => exact mask_matches_iff b bits
  | maskFilter f => exact maskFilter_matches_iff f bits
  | relation f a b ih => simp only [F.Matches, sem]; exact ih
  | cached f k ih => simp only [F.Matches, sem]; exact ih
  | ANY f => simp only [F.Matches, sem]; exact containsAny_iff bits f
  | NoneOF f => simp only [F.Matches, sem, Bool.not_eq_true']; rw [← containsAny_iff]; simp
  | AnyNOT f => simp only [F.Matches, sem, Bool.not_eq_true']; rw [← contains_iff]; simp
  | AND l r ihl ihr => simp only [F.Matches, Bool.and_eq_true, sem, ihl, ihr]
  | OR l r ihl ihr => simp only [F.Matches, Bool.or_eq_true, sem, ihl, ihr]
  | XOR l r ihl ihr =>
    simp only [F.Matches, sem, ← ihl, ← ihr]
    cases F.Matches l bits <;> cases F.Matches r bits <;> simp
  | NOT f ih => simp only [F.Matches, sem, ← ih]; cases F.Matches f bits <;> simp

example : F.Matches (.OR (.mask (All [3#8, 40#8])) (.NOT (.ANY (All [20#8])))) (All [3#8, 20#8]) = false := by decide

end B64
end Arche.Props.C04
