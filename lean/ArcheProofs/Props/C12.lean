/-
  C12 — Subscriptions and Dispatch deliver exactly the selected part of the event stream.

  Part A (regenerated): both Go copies of `subscribes` (ecs/util.go, listener/util.go) and
  `subscription` are translated from the source on every run; they are proved equal, proved
  to be exactly the documented selection rule (in the set view of masks from C04), and
  monotone in the subscribed types and the component restriction.
  Part B (model): a Dispatch listener forwards to a sub-listener exactly what that listener
  would receive if it were installed alone.
-/
import ArcheProofs.Props.C04
import ArcheModel.Ops

set_option linter.unusedSimpArgs false

namespace Arche.Props.C12

/-! ## Part A, default build -/
namespace B256
open ArcheGen.M256 Arche.Props.C04.B256

abbrev M := ArcheGen.M256.Mask

/-- the two copies are the same function -/
theorem copies_equal : @subscribes = @listener.subscribes := rfl

/-- bit `k` of the trigger mask -/
def bit (t : BitVec 8) (k : Nat) : Bool := t.getLsbD k

/-- The documented selection rule: some subscribed type occurred and, if a component
    restriction `C` is given, a creation/addition type touched an added component in `C`, a
    removal type a removed component in `C`, or a relation/target type a relation component in `C`. -/
def selects (trigger : BitVec 8) (added removed subs : Option M) (oldRel newRel : Option (BitVec 8)) : Prop :=
  trigger ≠ 0#8 ∧
  (subs = none ∨ ∃ C, subs = some C ∧
    ((((trigger &&& 48#8) ≠ 0#8) ∧ ((∃ r, oldRel = some r ∧ mem C r.toNat = true) ∨ (∃ r, newRel = some r ∧ mem C r.toNat = true))) ∨
     (((trigger &&& 5#8) ≠ 0#8) ∧ ∃ A, added = some A ∧ ∃ j, mem C j = true ∧ mem A j = true) ∨
     (((trigger &&& 10#8) ≠ 0#8) ∧ ∃ R, removed = some R ∧ ∃ j, mem C j = true ∧ mem R j = true)))

theorem containsAny_sub (t b : BitVec 8) : Subscription.ContainsAny t b = true ↔ (t &&& b) ≠ 0#8 := by
  unfold Subscription.ContainsAny
  simp only [bne_iff_ne, ne_eq]
  rw [BitVec.and_comm]

/-- `subscribes` is exactly the selection rule. -/
theorem subscribes_iff (trigger : BitVec 8) (added removed subs : Option M) (oldRel newRel : Option (BitVec 8)) :
    subscribes trigger added removed subs oldRel newRel = true ↔ selects trigger added removed subs oldRel newRel := by
  unfold subscribes selects
  by_cases ht : trigger = 0#8
  · simp [ht]
  · cases subs with
    | none => simp [ht]
    | some C =>
      have hrel : ∀ (r : Option (BitVec 8)), (r.isSome && Mask.Get ((some C).getD default) (r.getD default)) = true ↔ ∃ x, r = some x ∧ mem C x.toNat = true := by
        intro r; cases r <;> simp [get_eq_mem]
      have hany : ∀ (m : Option M), (m.isSome && Mask.ContainsAny ((some C).getD default) (m.getD default)) = true ↔ ∃ A, m = some A ∧ ∃ j, mem C j = true ∧ mem A j = true := by
        intro m; cases m <;> simp [containsAny_iff]
      simp only [beq_iff_eq, ht, ↓reduceIte, Option.isNone_some, Bool.false_eq_true, ne_eq, not_false_eq_true, true_and,
        reduceCtorEq, Option.some.injEq, exists_eq_left', false_or]
      by_cases h48 : Subscription.ContainsAny trigger 48#8 = true
      <;> by_cases h5 : Subscription.ContainsAny trigger 5#8 = true
      <;> by_cases h10 : Subscription.ContainsAny trigger 10#8 = true
      <;> by_cases hr : ((oldRel.isSome && Mask.Get ((some C).getD default) (oldRel.getD default)) || (newRel.isSome && Mask.Get ((some C).getD default) (newRel.getD default))) = true
      <;> by_cases ha : (added.isSome && Mask.ContainsAny ((some C).getD default) (added.getD default)) = true
      <;> by_cases hm : (removed.isSome && Mask.ContainsAny ((some C).getD default) (removed.getD default)) = true
      <;> simp only [h48, h5, h10, hr, ha, hm, ↓reduceIte, Bool.false_eq_true, true_iff, false_iff]
      <;> (rw [containsAny_sub] at h48 h5 h10; rw [Bool.or_eq_true, hrel, hrel] at hr; rw [hany] at ha hm)
      <;> simp only [ne_eq] at h48 h5 h10
      <;> simp only [h48, h5, h10, hr, ha, hm, not_true_eq_false, not_false_eq_true, true_and, false_and, or_self, or_true, true_or, or_false, false_or, not_false_iff]


/-- Monotone in the subscribed types: more trigger bits never lose an event. -/
theorem selects_mono_trigger (t t' : BitVec 8) (h : t &&& t' = t) (a r s : Option M) (o n : Option (BitVec 8)) :
    selects t a r s o n → selects t' a r s o n := by
  have hne : ∀ c : BitVec 8, (t &&& c) ≠ 0#8 → (t' &&& c) ≠ 0#8 := by
    intro c hc h0
    apply hc
    rw [← h, BitVec.and_assoc, h0]; simp
  intro ⟨h1, h2⟩
  refine ⟨?_, ?_⟩
  · intro h0; apply h1; rw [← h, h0]; simp
  · rcases h2 with h2 | ⟨C, hC, h2⟩
    · exact Or.inl h2
    · refine Or.inr ⟨C, hC, ?_⟩
      rcases h2 with ⟨h48, hr⟩ | ⟨h5, ha⟩ | ⟨h10, hm⟩
      · exact Or.inl ⟨hne _ h48, hr⟩
      · exact Or.inr (Or.inl ⟨hne _ h5, ha⟩)
      · exact Or.inr (Or.inr ⟨hne _ h10, hm⟩)

/-- Monotone in the component restriction (no restriction is the top element). -/
theorem selects_mono_comps (t : BitVec 8) (a r : Option M) (C C' : M) (o n : Option (BitVec 8))
    (h : ∀ j, mem C j = true → mem C' j = true) :
    selects t a r (some C) o n → selects t a r (some C') o n ∧ selects t a r none o n := by
  intro ⟨h1, h2⟩
  refine ⟨⟨h1, ?_⟩, ⟨h1, Or.inl rfl⟩⟩
  rcases h2 with h2 | ⟨D, hD, h2⟩
  · cases h2
  · cases hD
    refine Or.inr ⟨C', rfl, ?_⟩
    rcases h2 with ⟨h48, hr⟩ | ⟨h5, A, hA, j, hj1, hj2⟩ | ⟨h10, R, hR, j, hj1, hj2⟩
    · refine Or.inl ⟨h48, ?_⟩
      rcases hr with ⟨x, hx, hm⟩ | ⟨x, hx, hm⟩
      · exact Or.inl ⟨x, hx, h _ hm⟩
      · exact Or.inr ⟨x, hx, h _ hm⟩
    · exact Or.inr (Or.inl ⟨h5, A, hA, j, h _ hj1, hj2⟩)
    · exact Or.inr (Or.inr ⟨h10, R, hR, j, h _ hj1, hj2⟩)

/-- `subscription(...)` sets exactly the bits of the flags given. -/
theorem subscription_spec (a b c d e f : Bool) :
    subscription a b c d e f =
      (if a then 1#8 else 0#8) ||| (if b then 2#8 else 0#8) ||| (if c then 4#8 else 0#8) |||
      (if d then 8#8 else 0#8) ||| (if e then 16#8 else 0#8) ||| (if f then 32#8 else 0#8) := by
  cases a <;> cases b <;> cases c <;> cases d <;> cases e <;> cases f <;> decide

/-- the six type bits are the documented constants, and the groups are their unions -/
theorem event_constants :
    event.EntityCreated = 1#8 ∧ event.EntityRemoved = 2#8 ∧ event.ComponentAdded = 4#8 ∧ event.ComponentRemoved = 8#8 ∧
    event.RelationChanged = 16#8 ∧ event.TargetChanged = 32#8 ∧
    event.Entities = event.EntityCreated ||| event.EntityRemoved ∧
    event.Components = event.ComponentAdded ||| event.ComponentRemoved ∧
    event.Relations = event.RelationChanged ||| event.TargetChanged ∧
    event.All = event.Entities ||| event.Components ||| event.Relations := by decide

/-- non-vacuity: a restricted listener is selected by an addition touching its component, not otherwise -/
example : subscribes 4#8 (some (All [3#8])) none (some (All [3#8, 9#8])) none none = true ∧
          subscribes 4#8 (some (All [5#8])) none (some (All [3#8, 9#8])) none none = false := by decide

end B256

/-! ## Part A, `tiny` build -/
namespace B64
open ArcheGen.M64

theorem copies_equal : @subscribes = @listener.subscribes := rfl

theorem subscription_spec (a b c d e f : Bool) :
    subscription a b c d e f =
      (if a then 1#8 else 0#8) ||| (if b then 2#8 else 0#8) ||| (if c then 4#8 else 0#8) |||
      (if d then 8#8 else 0#8) ||| (if e then 16#8 else 0#8) ||| (if f then 32#8 else 0#8) := by
  cases a <;> cases b <;> cases c <;> cases d <;> cases e <;> cases f <;> decide

end B64

/-! ## Part B: the model's listeners (ArcheModel.Events) — Dispatch forwards to each sub-listener
    exactly what it would receive if installed alone. -/
namespace Model
open Arche

/-- `x ⊆ y` on bit masks -/
def Sub (x y : Nat) : Prop := x &&& y = x

theorem sub_and_ne_zero {x y k : Nat} (h : Sub x y) (hx : x &&& k ≠ 0) : y &&& k ≠ 0 := by
  intro h0
  apply hx
  unfold Sub at h
  rw [← h, Nat.and_assoc, h0, Nat.and_zero]

theorem sub_testBit {x y : Nat} (h : Sub x y) (i : Nat) (hx : x.testBit i = true) : y.testBit i = true := by
  unfold Sub at h
  have := congrArg (fun v => v.testBit i) h
  simp only [Nat.testBit_and, hx, Bool.true_and] at this
  exact this

theorem sub_containsAny {x y a : Nat} (h : Sub x y) (hx : Mask.containsAny x a = true) : Mask.containsAny y a = true := by
  unfold Mask.containsAny at *
  simp only [bne_iff_ne, ne_eq] at *
  exact sub_and_ne_zero h hx

theorem sub_refl (x : Nat) : Sub x x := Nat.and_self x
theorem sub_or_left (x y : Nat) : Sub x (x ||| y) := by
  unfold Sub; apply Nat.eq_of_testBit_eq; intro i
  simp only [Nat.testBit_and, Nat.testBit_or]; cases x.testBit i <;> simp
theorem sub_trans {x y z : Nat} (h1 : Sub x y) (h2 : Sub y z) : Sub x z := by
  unfold Sub at *; rw [← h1, Nat.and_assoc, h2]
theorem sub_and {x y : Nat} (h : Sub x y) (k : Nat) : Sub (x &&& k) (y &&& k) := by
  unfold Sub at *
  apply Nat.eq_of_testBit_eq; intro i
  have := congrArg (fun v => v.testBit i) h
  simp only [Nat.testBit_and] at *
  cases hx : x.testBit i <;> cases hk : k.testBit i <;> simp_all

/-- the selection rule of the model's `subscribes`, as a proposition -/
def selects (t : Nat) (a r s : Option Mask) (o n : Option CompId) : Prop :=
  t ≠ 0 ∧ (s = none ∨ ∃ C, s = some C ∧
    ((t &&& Ev.relations ≠ 0 ∧ ((∃ x, o = some x ∧ Mask.get C x = true) ∨ (∃ x, n = some x ∧ Mask.get C x = true))) ∨
     (t &&& (Ev.created ||| Ev.compAdded) ≠ 0 ∧ ∃ A, a = some A ∧ Mask.containsAny C A = true) ∨
     (t &&& (Ev.removed ||| Ev.compRemoved) ≠ 0 ∧ ∃ R, r = some R ∧ Mask.containsAny C R = true)))

theorem subscribes_iff (t : Nat) (a r s : Option Mask) (o n : Option CompId) :
    Ev.subscribes t a r s o n = true ↔ selects t a r s o n := by
  unfold Ev.subscribes selects
  by_cases ht : t = 0
  · simp [ht]
  · cases s with
    | none => simp [ht]
    | some C =>
      simp only [beq_iff_eq, ht, ↓reduceIte, ne_eq, not_false_eq_true, true_and, reduceCtorEq, Option.some.injEq,
        exists_eq_left', false_or]
      cases o <;> cases n <;> cases a <;> cases r <;>
        simp only [Bool.and_eq_true, bne_iff_ne, ne_eq, Bool.or_eq_true, Bool.false_eq_true, and_false, or_false, false_or,
          reduceCtorEq, false_and, exists_false, Option.some.injEq, exists_eq_left', ite_eq_left_iff, Bool.not_eq_true,
          Bool.if_true_left, Bool.if_false_right, Bool.or_false, Bool.and_true, Bool.decide_eq_true, ↓reduceIte, or_self, iff_self] <;>
        (first | simp | (split <;> simp_all))

theorem selects_mono {t t' : Nat} (ht : Sub t t') (a r : Option Mask) (o n : Option CompId) (s s' : Option Mask)
    (hs : s' = none ∨ ∃ C C', s = some C ∧ s' = some C' ∧ Sub C C') :
    selects t a r s o n → selects t' a r s' o n := by
  intro ⟨h1, h2⟩
  refine ⟨?_, ?_⟩
  · intro h0; apply h1; unfold Sub at ht; rw [← ht, h0, Nat.and_zero]
  · rcases hs with hs | ⟨C, C', hC, hC', hsub⟩
    · exact Or.inl hs
    · rcases h2 with h2 | ⟨D, hD, h2⟩
      · rw [hC] at h2; cases h2
      · rw [hC] at hD; cases hD
        refine Or.inr ⟨C', hC', ?_⟩
        rcases h2 with ⟨h48, hr⟩ | ⟨h5, A, hA, hm⟩ | ⟨h10, R, hR, hm⟩
        · refine Or.inl ⟨sub_and_ne_zero ht h48, ?_⟩
          rcases hr with ⟨x, hx, hm⟩ | ⟨x, hx, hm⟩
          · exact Or.inl ⟨x, hx, sub_testBit hsub _ hm⟩
          · exact Or.inr ⟨x, hx, sub_testBit hsub _ hm⟩
        · exact Or.inr (Or.inl ⟨sub_and_ne_zero ht h5, A, hA, sub_containsAny hsub hm⟩)
        · exact Or.inr (Or.inr ⟨sub_and_ne_zero ht h10, R, hR, sub_containsAny hsub hm⟩)

/-- a call site's arguments to `subscribes` agree with the event it builds -/
structure SiteOK (ev : Event) (a r : Option Mask) (o n : Option CompId) : Prop where
  added : a = some ev.added ∨ (a = none ∧ ev.added = 0)
  removed : r = some ev.removed ∨ (r = none ∧ ev.removed = 0)
  oldRel : o = ev.oldRel
  newRel : n = ev.newRel

theorem containsAny_zero (c : Nat) : Mask.containsAny c 0 = false := by
  unfold Mask.containsAny; simp

/-- with consistent site arguments, testing against the event's own fields (what Dispatch does)
    is the same as testing against the site arguments (what the world does) -/
theorem selects_site (t : Nat) (ev : Event) (a r : Option Mask) (o n : Option CompId) (s : Option Mask)
    (h : SiteOK ev a r o n) :
    selects t (some ev.added) (some ev.removed) s ev.oldRel ev.newRel ↔ selects t a r s o n := by
  obtain ⟨ha, hr, ho, hn⟩ := h
  subst ho; subst hn
  unfold selects
  have e1 : ∀ C, (∃ A, some ev.added = some A ∧ Mask.containsAny C A = true) ↔ (∃ A, a = some A ∧ Mask.containsAny C A = true) := by
    intro C
    rcases ha with ha | ⟨ha, h0⟩
    · rw [ha]
    · rw [ha, h0]; simp [containsAny_zero]
  have e2 : ∀ C, (∃ R, some ev.removed = some R ∧ Mask.containsAny C R = true) ↔ (∃ R, r = some R ∧ Mask.containsAny C R = true) := by
    intro C
    rcases hr with hr | ⟨hr, h0⟩
    · rw [hr]
    · rw [hr, h0]; simp [containsAny_zero]
  simp only [e1, e2]

theorem subs_fold_sub (ls : List SubL) (acc : Nat) :
    Sub acc (ls.foldl (fun a l => a ||| l.subs) acc) ∧ ∀ l ∈ ls, Sub l.subs (ls.foldl (fun a l => a ||| l.subs) acc) := by
  induction ls generalizing acc with
  | nil => exact ⟨sub_refl _, by simp⟩
  | cons x xs ih =>
    simp only [List.foldl_cons, List.mem_cons]
    obtain ⟨h1, h2⟩ := ih (acc ||| x.subs)
    refine ⟨sub_trans (sub_or_left _ _) h1, ?_⟩
    intro l hl
    rcases hl with rfl | hl
    · exact sub_trans (by rw [Nat.or_comm]; exact sub_or_left _ _) h1
    · exact h2 l hl

theorem comps_fold_sub (ls : List SubL) (acc : Nat) :
    Sub acc (ls.foldl (fun a l => a ||| l.comps.getD 0) acc) ∧
    ∀ l ∈ ls, ∀ C, l.comps = some C → Sub C (ls.foldl (fun a l => a ||| l.comps.getD 0) acc) := by
  induction ls generalizing acc with
  | nil => exact ⟨sub_refl _, by simp⟩
  | cons x xs ih =>
    simp only [List.foldl_cons, List.mem_cons]
    obtain ⟨h1, h2⟩ := ih (acc ||| x.comps.getD 0)
    refine ⟨sub_trans (sub_or_left _ _) h1, ?_⟩
    intro l hl C hC
    rcases hl with rfl | hl
    · simp only [hC, Option.getD_some] at h1 ⊢
      exact sub_trans (by rw [Nat.or_comm]; exact sub_or_left _ _) h1
    · exact h2 l hl C hC

/-- the gate of a Dispatch is implied by the gate of any of its sub-listeners -/
theorem dispatch_gate (ls : List SubL) (l : SubL) (hl : l ∈ ls) (ev : Event) (a r : Option Mask) (o n : Option CompId) :
    selects (l.subs &&& ev.types) a r l.comps o n →
    selects ((Listener.dispatch ls).subs &&& ev.types) a r (Listener.dispatch ls).comps o n := by
  apply selects_mono
  · exact sub_and ((subs_fold_sub ls 0).2 l hl) _
  · unfold Listener.comps
    by_cases hall : ls.all (fun l => l.comps.isSome) = true
    · simp only [hall, ↓reduceIte]
      right
      have : l.comps.isSome = true := by
        rw [List.all_eq_true] at hall; exact hall l hl
      obtain ⟨C, hC⟩ := Option.isSome_iff_exists.1 this
      exact ⟨C, _, hC, rfl, (comps_fold_sub ls 0).2 l hl C hC⟩
    · simp only [hall, Bool.false_eq_true, ↓reduceIte]; left; trivial

/-- which sub-listeners of the installed listener receive an event emitted at a call site -/
def delivered (L : Listener) (ev : Event) (a r : Option Mask) (o n : Option CompId) : List Nat :=
  let trigger := L.subs &&& ev.types
  if trigger != 0 && Ev.subscribes trigger a r L.comps o n then L.receivers ev else []

theorem emit_subs (w : World) (L : Listener) (ev : Event) (a r : Option Mask) (o n : Option CompId) :
    (({ w with listener := some L } : World).emit ev a r o n).map (·.sub) = delivered L ev a r o n := by
  unfold World.emit delivered
  simp only []
  split <;> simp [World.observe, Function.comp_def]

/-- **Dispatch equivalence.** For a call site whose `subscribes` arguments agree with its event,
    sub-listener `i` of an installed Dispatch receives the event iff the same listener
    installed alone would receive it. -/
theorem dispatch_equiv (ls : List SubL) (i : Nat) (hi : i < ls.length) (ev : Event)
    (a r : Option Mask) (o n : Option CompId) (hs : SiteOK ev a r o n) :
    i ∈ delivered (.dispatch ls) ev a r o n ↔ delivered (.single ls[i]) ev a r o n = [0] := by
  have hsingle : delivered (.single ls[i]) ev a r o n = [0] ↔ selects (ls[i].subs &&& ev.types) a r ls[i].comps o n := by
    unfold delivered
    simp only [Listener.subs, Listener.comps, Listener.receivers]
    rw [← subscribes_iff]
    by_cases hc : (ls[i].subs &&& ev.types != 0 && Ev.subscribes (ls[i].subs &&& ev.types) a r ls[i].comps o n) = true
    · simp only [hc, ↓reduceIte, true_iff]; simp only [Bool.and_eq_true] at hc; exact hc.2
    · simp only [hc, Bool.false_eq_true, ↓reduceIte]
      constructor
      · intro h; cases h
      · intro h; exfalso; apply hc
        have := ((subscribes_iff _ _ _ _ _ _).1 h).1
        simp [this, h]
  rw [hsingle]
  have hrecv : i ∈ (Listener.dispatch ls).receivers ev ↔ selects (ls[i].subs &&& ev.types) a r ls[i].comps o n := by
    unfold Listener.receivers
    simp only [List.mem_filterMap]
    rw [← selects_site _ ev a r o n _ hs, ← subscribes_iff]
    constructor
    · intro ⟨⟨l, k⟩, hmem, hk⟩
      obtain ⟨_, hlt, hl⟩ := List.mem_zipIdx hmem
      simp only [Nat.zero_add, Nat.sub_zero] at hlt hl
      split at hk
      · rename_i hc
        have hki : k = i := Option.some.inj hk
        subst hki
        simp only [Bool.and_eq_true] at hc
        rw [← hl]; exact hc.2
      · cases hk
    · intro h
      refine ⟨(ls[i], i), ?_, ?_⟩
      · rw [List.mem_zipIdx_iff_getElem?]; simp [hi]
      · have hne : (ls[i].subs &&& ev.types != 0) = true := by
          have := ((subscribes_iff _ _ _ _ _ _).1 h).1
          simp [this]
        simp [hne, h]
  unfold delivered
  simp only []
  constructor
  · intro h
    split at h
    · exact hrecv.1 h
    · cases h
  · intro h
    have hg := dispatch_gate ls ls[i] (List.getElem_mem hi) ev a r o n h
    have hne : ((Listener.dispatch ls).subs &&& ev.types != 0) = true := by simp [hg.1]
    rw [← subscribes_iff] at hg
    simp only [hne, hg, Bool.and_self, ↓reduceIte]
    exact hrecv.2 h

/-- also for sub-listeners added later: `AddListener` is appending to the list -/
theorem dispatch_equiv_added (ls : List SubL) (l : SubL) (ev : Event)
    (a r : Option Mask) (o n : Option CompId) (hs : SiteOK ev a r o n) :
    ls.length ∈ delivered (.dispatch (ls ++ [l])) ev a r o n ↔ delivered (.single l) ev a r o n = [0] := by
  have := dispatch_equiv (ls ++ [l]) ls.length (by simp) ev a r o n hs
  simpa using this


/-! ### every notification site of the model passes arguments that agree with its event -/

theorem site_creation (w : World) (t : Nat) (e : Entity) (comps : List CompId) (newRel : Option CompId) (bits : Nat) :
    SiteOK (w.creationEvent t e comps newRel bits) (some (w.tableMask t)) none none newRel :=
  ⟨Or.inl rfl, Or.inr ⟨rfl, rfl⟩, rfl, rfl⟩

theorem site_removal (w : World) (t : Nat) (e : Entity) (bits : Nat) :
    SiteOK (w.removalEvent t e bits) none (some (w.nodeOfTable t).mask) (w.nodeOfTable t).rel none :=
  ⟨Or.inr ⟨rfl, rfl⟩, Or.inl rfl, rfl, rfl⟩

theorem site_exchange (e : Entity) (added removed : Mask) (add rem : List CompId) (o n : Option CompId) (ot : Entity) (bits : Nat) :
    SiteOK { entity := e, added := added, removed := removed, addedIDs := add, removedIDs := rem,
             oldRel := o, newRel := n, oldTarget := ot, types := bits } (some added) (some removed) o n :=
  ⟨Or.inl rfl, Or.inl rfl, rfl, rfl⟩

theorem site_target (e : Entity) (comp : CompId) (ot : Entity) :
    SiteOK { entity := e, oldRel := some comp, newRel := some comp, oldTarget := ot, types := Ev.targetChanged }
      none none (some comp) (some comp) :=
  ⟨Or.inr ⟨rfl, rfl⟩, Or.inr ⟨rfl, rfl⟩, rfl, rfl⟩

/-- non-vacuity: two restricted sub-listeners, an addition event touching component 3 only -/
example : delivered (.dispatch [⟨4, some (Mask.ofList [3])⟩, ⟨4, some (Mask.ofList [5])⟩, ⟨1, none⟩])
    { entity := ⟨1, 0⟩, added := Mask.ofList [3], types := 4 } (some (Mask.ofList [3])) none none none = [0] := by decide

end Model
end Arche.Props.C12
