/-
  C01 (companion, tiny build: 64-bit masks) — the archetype graph walk `World.findOrCreateArchetype`, with `findOrCreateArchetypeSlow` and the
  search `findArchetypeSlow`, REGENERATED from ecs/world_internal.go. Nodes, their masks and their neighbour maps are
  objects outside the translated set (hidden state `Ext`); `createArchetypeNode` is a state-threading parameter.
-/
import ArcheProofs.Props.C01_ExchangeGen64

namespace Arche.Props.C01_FindGen64
open ArcheGen ArcheGen.P64 Arche Arche.Props

section
variable {Ext : Type}
  (archHasRelCompF : Ext → Option Nat → Bool) (archHasRelationF : Ext → Option Nat → Bool)
  (archInitF : Ext → Option Nat → Option Nat → Option Nat → BitVec 32 → Bool → Int → P64.Entity → Ext × Unit)
  (archMaskF : Ext → Option Nat → ArcheGen.M64.Mask) (archNodeF : Ext → Option Nat → Option Nat)
  (archRelCompF : Ext → Option Nat → BitVec 8) (archTargetF : Ext → Option Nat → P64.Entity)
  (createNodeF : Ext → P64.World → ArcheGen.M64.Mask → BitVec 8 → Bool → Ext × P64.World × Option Nat)
  (matchesF : GoAny → ArcheGen.M64.Mask → Bool)
  (nodeCreateArchetypeF : Ext → Option Nat → Int → P64.Entity → Ext × Option Nat)
  (nodeGetArchetypeF : Ext → Option Nat → P64.Entity → Option Nat × Bool) (nodeHasRelationF : Ext → Option Nat → Bool)
  (nodeMaskF : Ext → Option Nat → ArcheGen.M64.Mask)
  (nodeNeighborGetF : Ext → Option Nat → BitVec 8 → Option Nat × Bool)
  (nodeNeighborSetF : Ext → Option Nat → BitVec 8 → Option Nat → Ext × Unit)
  (nodeSetArchetypeF : Ext → Option Nat → Option Nat → Ext × Unit) (pagedAddF : Ext → Nat → Ext × Unit)
  (pagedGetF : Ext → Nat → BitVec 32 → Option Nat) (pagedLenF : Ext → Nat → BitVec 32) (relationTargetF : GoAny → Option P64.Entity)

/-- the search loop of `findArchetypeSlow`, as a function of the list of indices still to visit -/
def searchBody (mask : M64.Mask) (w : P64.World) (ext : Ext) :
    Option (Option Nat × Bool) → Nat → Option (Option (Option Nat × Bool)) :=
  fun found iN =>
    if found.isSome = true then pure found
    else
      let i : BitVec 32 := BitVec.ofNat 32 iN
      let nd := pagedGetF ext w.nodes i
      do
        let _ ← nd
        if (nodeMaskF ext nd == mask) = true then pure (some (nd, true)) else pure none

theorem search_found (mask : M64.Mask) (w : P64.World) (ext : Ext) (l : List Nat) (r : Option Nat × Bool)
    (res : Option (Option Nat × Bool))
    (h : List.foldlM (searchBody nodeMaskF pagedGetF mask w ext) (some r) l = some res) : res = some r := by
  induction l with
  | nil => simp only [List.foldlM_nil, pure, Option.some.injEq] at h; exact h.symm
  | cons k l ih =>
    rw [List.foldlM_cons] at h
    simp only [searchBody, Option.isSome_some, ↓reduceIte, pure, bind, Option.bind] at h
    exact ih h

/-- what the search returns: the first node (in index order) whose mask is the one looked for, or nothing when
    no node in the list has it; every node visited before is a non-nil node with a different mask -/
theorem search_spec (mask : M64.Mask) (w : P64.World) (ext : Ext) (l : List Nat)
    (res : Option (Option Nat × Bool))
    (h : List.foldlM (searchBody nodeMaskF pagedGetF mask w ext) none l = some res) :
    (∀ nd ok, res = some (nd, ok) → ok = true ∧ nd.isSome = true ∧ nodeMaskF ext nd = mask ∧
        ∃ i ∈ l, nd = pagedGetF ext w.nodes (BitVec.ofNat 32 i)) ∧
    (res = none → ∀ i ∈ l, nodeMaskF ext (pagedGetF ext w.nodes (BitVec.ofNat 32 i)) ≠ mask) := by
  induction l with
  | nil =>
    simp only [List.foldlM_nil, pure, Option.some.injEq] at h
    subst h
    exact ⟨fun _ _ h => (by cases h), fun _ i hi => (by cases hi)⟩
  | cons k l ih =>
    rw [List.foldlM_cons] at h
    cases hn : pagedGetF ext w.nodes (BitVec.ofNat 32 k) with
    | none => simp [searchBody, hn, bind, Option.bind] at h
    | some n =>
      by_cases hm : nodeMaskF ext (some n) = mask
      · have hb : (searchBody nodeMaskF pagedGetF mask w ext none k) = some (some (some n, true)) := by
          simp [searchBody, hn, hm, bind, Option.bind]
        rw [hb] at h
        simp only [bind, Option.bind] at h
        have := search_found nodeMaskF pagedGetF mask w ext l _ _ h
        subst this
        refine ⟨?_, fun h => (by cases h)⟩
        intro nd ok hr
        simp only [Option.some.injEq, Prod.mk.injEq] at hr
        obtain ⟨h1, h2⟩ := hr
        subst h1; subst h2
        exact ⟨rfl, rfl, hm, k, List.mem_cons_self, hn.symm⟩
      · have hb : (searchBody nodeMaskF pagedGetF mask w ext none k) = some none := by
          simp [searchBody, hn, hm, bind, Option.bind]
        rw [hb] at h
        simp only [bind, Option.bind] at h
        obtain ⟨ih1, ih2⟩ := ih h
        refine ⟨?_, ?_⟩
        · intro nd ok hr
          obtain ⟨a, b, c, i, hi, e⟩ := ih1 nd ok hr
          exact ⟨a, b, c, i, List.mem_cons_of_mem _ hi, e⟩
        · intro hr i hi
          rcases List.mem_cons.mp hi with rfl | hi
          · rw [hn]; exact hm
          · exact ih2 hr i hi

/-- `findArchetypeSlow` never changes anything; it answers `(nd, true)` with a non-nil node whose mask is the
    requested one, or `(nil, false)` when no node has that mask -/
theorem findSlow_spec (w w' : P64.World) (mask : M64.Mask) (ext ext' : Ext) (nd : Option Nat) (ok : Bool)
    (h : P64.World.findArchetypeSlow nodeMaskF pagedGetF pagedLenF w mask ext = some (w', ext', (nd, ok))) :
    w' = w ∧ ext' = ext ∧
    (ok = true → nd.isSome = true ∧ nodeMaskF ext nd = mask ∧
        ∃ i < (pagedLenF ext w.nodes).toInt.toNat, nd = pagedGetF ext w.nodes (BitVec.ofNat 32 i)) ∧
    (ok = false → nd = none ∧
        ∀ i < (pagedLenF ext w.nodes).toInt.toNat, nodeMaskF ext (pagedGetF ext w.nodes (BitVec.ofNat 32 i)) ≠ mask) := by
  unfold P64.World.findArchetypeSlow at h
  simp only [Option.bind_eq_bind, pure] at h
  obtain ⟨res, hres, h⟩ := Option.bind_eq_some_iff.mp h
  have hres' : List.foldlM (searchBody nodeMaskF pagedGetF mask w ext) none
      (List.range (pagedLenF ext w.nodes).toInt.toNat) = some res := by
    rw [← hres]; rfl
  obtain ⟨s1, s2⟩ := search_spec nodeMaskF pagedGetF mask w ext _ _ hres'
  cases res with
  | none =>
    simp only [Option.some.injEq, Prod.mk.injEq] at h
    obtain ⟨hw, he, hn, hk⟩ := h
    subst hw; subst he; subst hn; subst hk
    refine ⟨rfl, rfl, fun h => (by cases h), fun _ => ⟨rfl, ?_⟩⟩
    intro i hi
    exact s2 rfl i (List.mem_range.mpr hi)
  | some r =>
    obtain ⟨rn, rk⟩ := r
    simp only [Option.some.injEq, Prod.mk.injEq] at h
    obtain ⟨hw, he, hn, hk⟩ := h
    subst hw; subst he; subst hn; subst hk
    obtain ⟨a, b, c, i, hi, e⟩ := s1 _ _ rfl
    subst a
    exact ⟨rfl, rfl, fun _ => ⟨b, c, i, List.mem_range.mp hi, e⟩, fun h => (by cases h)⟩

/-! ### frame: the walk touches filter cache and node lists only -/

/-- nothing of the world view changed but the filter cache and the two node lists -/
def NodesOnly (w w' : P64.World) : Prop :=
  w' = { w with filterCache := w'.filterCache, nodePointers := w'.nodePointers, relationNodes := w'.relationNodes }

theorem NodesOnly.refl (w : P64.World) : NodesOnly w w := rfl
theorem NodesOnly.trans {a b c : P64.World} (h1 : NodesOnly a b) (h2 : NodesOnly b c) : NodesOnly a c := by
  unfold NodesOnly at *
  rw [h2, h1]
theorem NodesOnly.of_cache {a b : P64.World} (h : C02_Remove64.CacheOnly a b) : NodesOnly a b := by
  unfold NodesOnly; unfold C02_Remove64.CacheOnly at h
  rw [h]

/-- what is assumed about `createArchetypeNode` (the node lists of the world are all it touches in the view) -/
def NodeFrame : Prop :=
  ∀ (ext : Ext) (w : P64.World) (m : M64.Mask) (r : BitVec 8) (hr : Bool), NodesOnly w (createNodeF ext w m r hr).2.1

theorem slow_frame (hN : NodeFrame createNodeF) (w w' : P64.World) (mask : M64.Mask) (rel : BitVec 8) (hasRel : Bool)
    (ext ext' : Ext) (r : Option Nat × Bool)
    (h : P64.World.findOrCreateArchetypeSlow createNodeF nodeMaskF pagedGetF pagedLenF w mask rel hasRel ext = some (w', ext', r)) :
    NodesOnly w w' := by
  unfold P64.World.findOrCreateArchetypeSlow at h
  simp only [Option.bind_eq_bind, pure] at h
  obtain ⟨⟨w1, e1, n1, k1⟩, hs, hq⟩ := Option.bind_eq_some_iff.mp h
  clear h; have h := hq; clear hq
  obtain ⟨hw, he, _⟩ := findSlow_spec nodeMaskF pagedGetF pagedLenF _ _ _ _ _ _ _ hs
  subst hw; subst he
  try dsimp only at h
  split at h
  · simp only [Option.some.injEq, Prod.mk.injEq] at h
    rw [← h.1]; exact NodesOnly.refl _
  · simp only [Option.some.injEq, Prod.mk.injEq] at h
    rw [← h.1]; exact hN _ _ _ _ _

/-- one step of the walk (follow the neighbour edge, or look the node up / create it and link both ways) -/
def walkStep (w : P64.World) (ext : Ext) (mask : M64.Mask) (rel : BitVec 8) (hasRel : Bool) (curr : Option Nat) (id : BitVec 8) :
    Option (P64.World × Ext × M64.Mask × BitVec 8 × Bool × Option Nat) :=
  if (nodeNeighborGetF ext curr id).2 = true then
    some (w, ext, mask, rel, hasRel, (nodeNeighborGetF ext curr id).1)
  else
    (P64.World.findOrCreateArchetypeSlow createNodeF nodeMaskF pagedGetF pagedLenF w mask rel hasRel ext).bind fun x2 =>
      x2.2.2.1.bind fun _ => curr.bind fun _ =>
        some (x2.1, (nodeNeighborSetF (nodeNeighborSetF x2.2.1 x2.2.2.1 id curr).1 curr id x2.2.2.1).1, mask, rel, hasRel, x2.2.2.1)

theorem walkStep_frame (hN : NodeFrame createNodeF) (w : P64.World) (ext : Ext) (mask : M64.Mask) (rel : BitVec 8) (hasRel : Bool)
    (curr : Option Nat) (id : BitVec 8) (s' : P64.World × Ext × M64.Mask × BitVec 8 × Bool × Option Nat)
    (h : walkStep createNodeF nodeMaskF nodeNeighborGetF nodeNeighborSetF pagedGetF pagedLenF w ext mask rel hasRel curr id = some s') :
    NodesOnly w s'.1 := by
  unfold walkStep at h
  split at h
  · simp only [Option.some.injEq] at h
    rw [← h]; exact NodesOnly.refl _
  · obtain ⟨⟨w2, e2, n2, k2⟩, hslow, hq⟩ := Option.bind_eq_some_iff.mp h
    clear h; have h := hq; clear hq
    obtain ⟨_, _, hq⟩ := Option.bind_eq_some_iff.mp h
    clear h; have h := hq; clear hq
    obtain ⟨_, _, hq⟩ := Option.bind_eq_some_iff.mp h
    clear h; have h := hq; clear hq
    simp only [Option.some.injEq] at h
    rw [← h]
    exact slow_frame createNodeF nodeMaskF pagedGetF pagedLenF hN _ _ _ _ _ _ _ _ hslow

theorem find_frame (hN : NodeFrame createNodeF) (w w' : P64.World) (start : Option Nat) (add rem : GoSlice (BitVec 8))
    (target : P64.Entity) (ext ext' : Ext) (r : Option Nat)
    (h : P64.World.findOrCreateArchetype archHasRelCompF archHasRelationF archInitF archMaskF archNodeF archRelCompF archTargetF
          createNodeF matchesF nodeCreateArchetypeF nodeGetArchetypeF nodeHasRelationF nodeMaskF nodeNeighborGetF nodeNeighborSetF
          nodeSetArchetypeF pagedAddF pagedGetF pagedLenF relationTargetF w start add rem target ext = some (w', ext', r)) :
    NodesOnly w w' := by
  unfold P64.World.findOrCreateArchetype at h
  simp only [Option.bind_eq_bind, pure] at h
  obtain ⟨_, _, hq⟩ := Option.bind_eq_some_iff.mp h
  clear h; have h := hq; clear hq
  obtain ⟨_, _, hq⟩ := Option.bind_eq_some_iff.mp h
  clear h; have h := hq; clear hq
  obtain ⟨_, _, hq⟩ := Option.bind_eq_some_iff.mp h
  clear h; have h := hq; clear hq
  obtain ⟨_, _, hq⟩ := Option.bind_eq_some_iff.mp h
  clear h; have h := hq; clear hq
  obtain ⟨⟨w1, e1, m1, r1, hr1, c1⟩, hrem, hq⟩ := Option.bind_eq_some_iff.mp h
  clear h; have h := hq; clear hq
  have hw1 : NodesOnly w w1 := by
    have := C02_Remove64.foldlM_inv (fun (s : P64.World × Ext × M64.Mask × BitVec 8 × Bool × Option Nat) => NodesOnly w s.1) _ ?_ _ _ _ (NodesOnly.refl w) hrem
    · exact this
    · intro s k s' hs hk
      obtain ⟨sw, se, sm, sr, sh, sc⟩ := s
      obtain ⟨id, hid, hq⟩ := Option.bind_eq_some_iff.mp hk
      clear hk; have hk := hq; clear hq
      obtain ⟨⟨xw, xe, xm, xr, xh, xc⟩, hx, hq⟩ := Option.bind_eq_some_iff.mp hk
      clear hk; have hk := hq; clear hq
      have hxw : xw = sw := by
        split at hx <;> (simp only [Option.some.injEq, Prod.mk.injEq] at hx; exact hx.1.symm)
      subst hxw
      obtain ⟨_, _, hq⟩ := Option.bind_eq_some_iff.mp hk
      clear hk; have hk := hq; clear hq
      dsimp only at hk
      obtain ⟨y, hy, hq⟩ := Option.bind_eq_some_iff.mp hk
      have hys : y = s' := by simpa using hq
      subst hys
      exact NodesOnly.trans hs (walkStep_frame createNodeF nodeMaskF nodeNeighborGetF nodeNeighborSetF pagedGetF pagedLenF hN _ _ _ _ _ _ _ _ hy)
  dsimp only at h
  obtain ⟨⟨w2, e2, m2, r2, hr2, c2⟩, hadd, hq⟩ := Option.bind_eq_some_iff.mp h
  clear h; have h := hq; clear hq
  have hw2 : NodesOnly w w2 := by
    have := C02_Remove64.foldlM_inv (fun (s : P64.World × Ext × M64.Mask × BitVec 8 × Bool × Option Nat) => NodesOnly w s.1) _ ?_ _ _ _ hw1 hadd
    · exact this
    · intro s k s' hs hk
      obtain ⟨sw, se, sm, sr, sh, sc⟩ := s
      obtain ⟨id, hid, hq⟩ := Option.bind_eq_some_iff.mp hk
      clear hk; have hk := hq; clear hq
      dsimp only at hk
      split at hk
      · cases hk
      obtain ⟨_, _, hq⟩ := Option.bind_eq_some_iff.mp hk
      clear hk; have hk := hq; clear hq
      split at hk
      · cases hk
      split at hk
      · split at hk
        · cases hk
        obtain ⟨_, _, hq⟩ := Option.bind_eq_some_iff.mp hk
        clear hk; have hk := hq; clear hq
        obtain ⟨y, hy, hq⟩ := Option.bind_eq_some_iff.mp hk
        have hys : y = s' := by simpa using hq
        subst hys
        exact NodesOnly.trans hs (walkStep_frame createNodeF nodeMaskF nodeNeighborGetF nodeNeighborSetF pagedGetF pagedLenF hN _ _ _ _ _ _ _ _ hy)
      · obtain ⟨_, _, hq⟩ := Option.bind_eq_some_iff.mp hk
        clear hk; have hk := hq; clear hq
        obtain ⟨y, hy, hq⟩ := Option.bind_eq_some_iff.mp hk
        have hys : y = s' := by simpa using hq
        subst hys
        exact NodesOnly.trans hs (walkStep_frame createNodeF nodeMaskF nodeNeighborGetF nodeNeighborSetF pagedGetF pagedLenF hN _ _ _ _ _ _ _ _ hy)
  dsimp only at h
  obtain ⟨_, _, hq⟩ := Option.bind_eq_some_iff.mp h
  clear h; have h := hq; clear hq
  obtain ⟨⟨w3, e3, m3, r3, hr3, c3, a3⟩, hj, hq⟩ := Option.bind_eq_some_iff.mp h
  clear h; have h := hq; clear hq
  simp only [Option.some.injEq, Prod.mk.injEq] at h
  obtain ⟨hw', _, _⟩ := h
  subst hw'
  split at hj
  · obtain ⟨⟨wc, ec, ac⟩, hcreate, hq⟩ := Option.bind_eq_some_iff.mp hj
    simp only [Option.some.injEq, Prod.mk.injEq] at hq
    rw [← hq.1]
    exact NodesOnly.trans hw2 (NodesOnly.of_cache (C05_SetRelGen64.createArchetype_frame archHasRelationF archInitF archMaskF archTargetF matchesF
      nodeCreateArchetypeF nodeHasRelationF nodeSetArchetypeF pagedAddF pagedGetF pagedLenF relationTargetF _ _ _ _ _ _ _ _ hcreate))
  · simp only [Option.some.injEq, Prod.mk.injEq] at hj
    rw [← hj.1]; exact hw2

/-- the regenerated walk as the state-threading function the callers (`exchangeNoNotify`, `NewEntity`,
    `newEntitiesNoNotify`) take as a parameter; a panicking walk is mapped to "nothing happened" (the callers'
    theorems speak about successful calls) -/
def totalFind (ext : Ext) (w : P64.World) (start : Option Nat) (add rem : GoSlice (BitVec 8)) (target : P64.Entity) :
    Ext × P64.World × Option Nat :=
  match P64.World.findOrCreateArchetype archHasRelCompF archHasRelationF archInitF archMaskF archNodeF archRelCompF archTargetF
          createNodeF matchesF nodeCreateArchetypeF nodeGetArchetypeF nodeHasRelationF nodeMaskF nodeNeighborGetF nodeNeighborSetF
          nodeSetArchetypeF pagedAddF pagedGetF pagedLenF relationTargetF w start add rem target ext with
  | some (w', ext', r) => (ext', w', r)
  | none => (ext, w, none)

/-- **the frame hypothesis `FindFrame` of the exchange / creation theorems holds for the regenerated walk** (given the
    frame of `createArchetypeNode`) -/
theorem find_satisfies_FindFrame (hN : NodeFrame createNodeF) :
    C01_ExchangeGen64.FindFrame (totalFind archHasRelCompF archHasRelationF archInitF archMaskF archNodeF archRelCompF archTargetF
          createNodeF matchesF nodeCreateArchetypeF nodeGetArchetypeF nodeHasRelationF nodeMaskF nodeNeighborGetF nodeNeighborSetF
          nodeSetArchetypeF pagedAddF pagedGetF pagedLenF relationTargetF) := by
  intro ext w a add rem tg
  unfold totalFind
  split
  · rename_i w' ext' r heq
    have := find_frame archHasRelCompF archHasRelationF archInitF archMaskF archNodeF archRelCompF archTargetF
          createNodeF matchesF nodeCreateArchetypeF nodeGetArchetypeF nodeHasRelationF nodeMaskF nodeNeighborGetF nodeNeighborSetF
          nodeSetArchetypeF pagedAddF pagedGetF pagedLenF relationTargetF hN _ _ _ _ _ _ _ _ _ heq
    exact this
  · rfl

/-- a nil start table panics -/
theorem find_nil (w : P64.World) (add rem : GoSlice (BitVec 8)) (target : P64.Entity) (ext : Ext) :
    P64.World.findOrCreateArchetype archHasRelCompF archHasRelationF archInitF archMaskF archNodeF archRelCompF archTargetF
          createNodeF matchesF nodeCreateArchetypeF nodeGetArchetypeF nodeHasRelationF nodeMaskF nodeNeighborGetF nodeNeighborSetF
          nodeSetArchetypeF pagedAddF pagedGetF pagedLenF relationTargetF w none add rem target ext = none := by
  unfold P64.World.findOrCreateArchetype
  simp [bind, Option.bind]

end
end Arche.Props.C01_FindGen64
