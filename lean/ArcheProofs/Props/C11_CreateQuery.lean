/-
  C11 (companion) — the Q variant of batch creation REGENERATED (`World.newEntitiesQuery`: Batch.NewQ and the builders'
  NewBatchQ) and put together with the regenerated `World.closeQuery`.

  * `newEntitiesQuery_eq`: silent creation, ONE lock, and a batch query over a record with exactly one entry — the table
    the entities went into, no old table, rows `startIdx … Len` — whose `Added` is that table's component list;
  * `newEntitiesQuery_close`: closing that query releases the bit and then calls the deferred notifier once with that
    record, if a listener is installed (premise: the record reads back out of the query as stored).
-/
import ArcheProofs.Props.C11_BatchQuery

namespace Arche.Props.C11_CreateQuery
open ArcheGen ArcheGen.P256 Arche Arche.Props

section
variable {Ext : Type}
  (archAllocNF : Ext → Option Nat → BitVec 32 → Ext × Unit)
  (archComponentsF : Ext → Option Nat → GoSlice (BitVec 8))
  (archHasComponentF : Ext → Option Nat → BitVec 8 → Bool)
  (archLenF : Ext → Option Nat → BitVec 32)
  (archNodeF : Ext → Option Nat → Option Nat)
  (archSetEntityF : Ext → Option Nat → BitVec 32 → P256.Entity → Ext × Unit)
  (findOrCreateF : Ext → P256.World → Option Nat → GoSlice (BitVec 8) → GoSlice (BitVec 8) → P256.Entity → Ext × P256.World × Option Nat)
  (nodeHasRelationF : Ext → Option Nat → Bool)
  (nodeRelationF : Ext → Option Nat → BitVec 8)
  (ofBatchF : P256.batchArchetypes → GoAny)
  (pagedGetF : Ext → Nat → BitVec 32 → Option Nat)
  (staleF : Nat → P256.entityIndex)
  (asBatchF : GoAny → Option P256.batchArchetypes)
  (notifyQueryF : Ext → P256.World → P256.batchArchetypes → Ext × P256.World × Unit)

/-- the record of moves of a batch creation: one entry -/
def createRecord (e1 : Ext) (arch : Option Nat) (startIdx : BitVec 32) : Option P256.batchArchetypes :=
  P256.batchArchetypes.Add
    ({ Added := archComponentsF e1 arch, Removed := default, Archetype := default, StartIndex := default, EndIndex := default, OldArchetype := default } : P256.batchArchetypes)
    arch default startIdx (archLenF e1 arch)

theorem newEntitiesQuery_eq (w : P256.World) (count : Int) (targetID : BitVec 8) (hasTarget : Bool) (target : P256.Entity) (comps : GoSlice (BitVec 8)) (ext : Ext) :
    P256.World.newEntitiesQuery archAllocNF archComponentsF archHasComponentF archLenF archNodeF archSetEntityF findOrCreateF nodeHasRelationF nodeRelationF ofBatchF pagedGetF staleF w count targetID hasTarget target comps ext =
    (P256.World.newEntitiesNoNotify archAllocNF archHasComponentF archLenF archNodeF archSetEntityF findOrCreateF nodeHasRelationF nodeRelationF pagedGetF staleF w count targetID hasTarget target comps ext).bind
      (fun r => (P256.World.lock r.1).bind (fun wl => r.2.2.1.bind (fun _ =>
        (createRecord archComponentsF archLenF r.2.1 r.2.2.1 r.2.2.2).map (fun b => (wl.1, r.2.1, C11_BatchQuery.batchQuery ofBatchF wl.2 b))))) := by
  unfold P256.World.newEntitiesQuery createRecord
  simp only [Option.bind_eq_bind, pure, C11_BatchQuery.newBatchQuery_eq, Option.bind_some]
  cases P256.World.newEntitiesNoNotify archAllocNF archHasComponentF archLenF archNodeF archSetEntityF findOrCreateF nodeHasRelationF nodeRelationF pagedGetF staleF w count targetID hasTarget target comps ext with
  | none => rfl
  | some r =>
    obtain ⟨w1, e1, arch, start⟩ := r
    simp only [Option.bind_some]
    cases P256.World.lock w1 with
    | none => rfl
    | some wl =>
      simp only [Option.bind_some]
      cases arch with
      | none => rfl
      | some a =>
        simp only [Option.bind_some]
        cases P256.batchArchetypes.Add _ (some a) default start (archLenF e1 (some a)) <;> rfl

/-- **closing the query of a batch creation tells the listener once, about that one record** -/
theorem newEntitiesQuery_close (hinj : ∀ b, asBatchF (ofBatchF b) = some b)
    (w2 w3 : P256.World) (lock : BitVec 8) (b : P256.batchArchetypes) (e1 : Ext)
    (hu : P256.World.unlock w2 lock = some w3) :
    (P256.World.closeQuery asBatchF notifyQueryF w2 (C11_BatchQuery.batchQuery ofBatchF lock b) e1).map (fun r => (r.1, r.2.2)) =
      some (if w3.listener.isSome then ((notifyQueryF e1 w3 b).2.1, (notifyQueryF e1 w3 b).1) else (w3, e1)) := by
  rw [C09_CloseGen.closeQuery_eq asBatchF notifyQueryF w2 w3 (C11_BatchQuery.batchQuery ofBatchF lock b) e1 hu]
  simp only [Option.map_some, C11_BatchQuery.batchQuery, hinj]
  cases w3.listener.isSome <;> rfl

end
end Arche.Props.C11_CreateQuery
