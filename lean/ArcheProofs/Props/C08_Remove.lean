/-
  C08 (companion) — `Batch.RemoveEntities` equals `World.RemoveEntity` applied to the matching
  entities one by one.

  * `Lemmas/BatchRemove.ginv_removeEntities` — a successful call on a world satisfying the global
    invariant removes exactly the entities of the selected tables (each table emptied, the empty
    tables of dead targets retired), returns their number, keeps the invariant; the handles leave
    the live set and are recycled in table / row order.
  * `removeBatch_eq_singles` — removing the same entities one by one **in the order the batch
    visits them** yields a world that reports the same for every entity id **and has the same
    entity pool**, hence issues the same handles afterwards (for another order the reports are
    still equal — `rmSingles_views` — but the free list, and so the future handle sequence, differs).
-/
import ArcheProofs.Lemmas.BatchRemove

namespace Arche.Props.C08.Remove
open Arche Arche.World Arche.Arr Arche.Storage Arche.IndexInv Arche.SameRows Arche.Graph Arche.Closed Arche.TInv Arche.KInv Arche.Move Arche.Remove Arche.Cov Arche.Cache Arche.SInv Arche.DInv Arche.Create Arche.Frames Arche.GInv Arche.GOps Arche.BatchRemove
open Arche.Props.C01 (At)
open Arche.Props.C08 (view mkView view_of_at at_of_view view_none EView)

/-- a successful `RemoveEntity` was made on an unlocked world for an alive handle -/
theorem removeEntity_ok (w : World) (e : Entity) (h : (w.removeEntity e).out = .ok ()) : w.isLocked = false ∧ w.checkAlive e = none := by
  unfold removeEntity at h
  by_cases hl : w.isLocked = true
  · simp [hl, World.fail] at h
  · simp only [hl, Bool.false_eq_true, ↓reduceIte] at h
    cases hc : w.checkAlive e with
    | none => exact ⟨by simpa using hl, rfl⟩
    | some p => simp [hc, World.fail] at h

/-- one single removal, on views -/
theorem removeEntity_views (w : World) (issued live : List Entity) (G : GInv w issued live) (e : Entity) (hi : e ∈ issued)
    (hl : w.isLocked = false) (ha : w.checkAlive e = none) :
    view (w.removeEntity e).w e.id = none ∧ (∀ id, id ≠ e.id → view (w.removeEntity e).w id = view w id) ∧
    (w.removeEntity e).w.pool = w.pool.recycle e := by
  obtain ⟨_, hloc, hent⟩ := alive_issued w issued live G e hi ha
  obtain ⟨_, hgone, hoth, hf, _, _, hpool, hmeta⟩ := Arche.Props.C06.remove_spec w e G.k hl ha hloc hent
  refine ⟨view_none _ _ hgone, ?_, hpool⟩
  intro id hid
  cases hl0 : loc w id with
  | some l0 =>
    obtain ⟨l', a, b, c⟩ := hoth id hid l0 hl0
    have hv := (G.k.idx.fwd id l0 hl0).1
    obtain ⟨_, m2, m3⟩ := hmeta l0.tbl hv.1
    rw [view_of_at w id l0.tbl _ ⟨l0, hl0, rfl, rfl⟩, view_of_at _ id l0.tbl (rowAt w l0.tbl l0.row) ⟨l', a, b, c⟩]
    unfold mkView
    rw [m3, m2, (hf l0.tbl).1]
  | none =>
    rw [view_none w id hl0]
    apply view_none
    -- an id that is not stored before the removal is not stored after it
    obtain ⟨_, lk, hw⟩ := removeEntity_w w e hl ha
    rw [hw]
    have hK0 : KInv ({ w with locks := lk } : World) := kinv_congr (w := w) rfl rfl rfl G.k
    have hloc0 : loc ({ w with locks := lk } : World) e.id = some (w.locOf e) := hloc
    have hent0 : (rowAt ({ w with locks := lk } : World) (w.locOf e).tbl (w.locOf e).row).ent = e := hent
    have hv := (hK0.idx.fwd _ _ hloc0).1
    rw [(removeCore_loc _ e (w.locOf e) hK0 hloc0 hent0 id).1, loc_dropRow _ hK0.idx _ _ hv, hent0, if_neg hid]
    split
    · rename_i hc
      exfalso
      have := hK0.idx.bwd _ _ (⟨hv.1, by have := hv.2; omega⟩ : validRow ({ w with locks := lk } : World) (w.locOf e).tbl (((({ w with locks := lk } : World)).tableOf (w.locOf e).tbl).rows.size - 1))
      rw [← hc.2] at this
      have h2 : loc ({ w with locks := lk } : World) id = none := hl0
      rw [h2] at this; cases this
    · exact hl0

/-- `World.RemoveEntity` applied to the entities of a list, one after the other; `none` if one
    of the calls panics -/
def rmSingles : List Entity → World → Option World
  | [], w => some w
  | e :: es, w =>
    match (w.removeEntity e).out with
    | .ok _ => rmSingles es (w.removeEntity e).w
    | .error _ => none

theorem rmSingles_views : ∀ (es : List Entity) (w ws : World) (issued live : List Entity), GInv w issued live → (es.map (·.id)).Nodup →
    (∀ e ∈ es, e ∈ issued) → rmSingles es w = some ws →
    GInv ws issued (es.foldl List.erase live) ∧
    (∀ id, view ws id = if id ∈ es.map (·.id) then none else view w id) ∧ ws.pool = recycleAll w.pool es := by
  intro es
  induction es with
  | nil =>
    intro w ws issued live G _ _ h
    simp only [rmSingles, Option.some.injEq] at h
    subst h
    exact ⟨G, fun _ => by simp, rfl⟩
  | cons e es ih =>
    intro w ws issued live G hnd hiss h
    unfold rmSingles at h
    cases hout : (w.removeEntity e).out with
    | error p => rw [hout] at h; cases h
    | ok u =>
      rw [hout] at h
      simp only [] at h
      obtain ⟨hl, ha⟩ := removeEntity_ok w e hout
      have hi := hiss e List.mem_cons_self
      obtain ⟨_, G1⟩ := ginv_removeEntity w issued live G e hi hl ha
      obtain ⟨v1, v2, v3⟩ := removeEntity_views w issued live G e hi hl ha
      simp only [List.map_cons, List.nodup_cons] at hnd
      obtain ⟨G2, a2, a3⟩ := ih (w.removeEntity e).w ws issued (live.erase e) G1 hnd.2 (fun x hx => hiss x (List.mem_cons_of_mem _ hx)) h
      refine ⟨by simpa using G2, ?_, by rw [a3, v3]; rfl⟩
      intro id
      rw [a2]
      simp only [List.map_cons, List.mem_cons]
      by_cases h2 : id ∈ es.map (·.id)
      · simp [h2]
      · simp only [h2, ↓reduceIte, or_false]
        by_cases h3 : id = e.id
        · rw [h3, v1]; simp
        · rw [v2 id h3]; simp [h3]

/-- **batch removal = one-by-one removal in the batch's order**: same reports for every entity
    id, same entity pool (so the same handles are issued afterwards), and the count returned is
    the number of entities removed -/
theorem removeBatch_eq_singles (w : World) (issued live : List Entity) (G : GInv w issued live) (f : Filter) (n : Nat)
    (hok : (w.removeEntities f).out = .ok n) :
    ∃ ts, w.getTables f = some ts ∧ n = (BatchRemove.selEnts w ts).length ∧
      ∀ ws, (∀ e ∈ BatchRemove.selEnts w ts, e ∈ issued) → rmSingles (BatchRemove.selEnts w ts) w = some ws →
        (∀ id, view (w.removeEntities f).w id = view ws id) ∧ (w.removeEntities f).w.pool = ws.pool := by
  obtain ⟨ts, hg, _, hn, _, hpool, hviews⟩ := ginv_removeEntities w issued live G f n hok
  refine ⟨ts, hg, hn, ?_⟩
  intro ws hiss hs
  obtain ⟨hnd, hmem⟩ := Arche.Props.C08.selection w G.k G.s f ts hg
  have hids : ((BatchRemove.selEnts w ts).map (·.id)).Nodup := by
    exact (Arche.Props.C08.selEnts_ok w G.k ts (fun t ht => ((hmem t).1 ht).1) hnd).1
  obtain ⟨_, b2, b3⟩ := rmSingles_views (BatchRemove.selEnts w ts) w ws issued live G hids hiss hs
  exact ⟨fun id => by rw [hviews id, b2 id], by rw [hpool, b3]⟩

end Arche.Props.C08.Remove
