/-
  C08 (companion) — `Batch.SetRelation` / `Relations.SetBatch` (and, before their lock is taken,
  the Q variants) equal the single-entity `Relations.Set` applied one by one.

  * `setRelationBatch_spec` — a successful call on a world satisfying the global invariant:
    the tables processed are the tables the filter selects; the count returned is the number of
    **matching** entities (also those whose target already is the new one); tables that are empty
    or already have the new target are skipped; every entity of every other selected table ends
    in a table of the same relation node whose target is the new one, with all its values;
    nobody else moves; one batch entry per processed table, the entity of source row `i` at row
    `start + i` — so the Q variant iterates exactly the entities **whose target changed**
    (C03.visit_batch). The global invariant is kept (`ginv_setRelationBatch`).
  * `setRelBatch_eq_singles` — for any list of the matching entities (each once), the fold of
    `Relations.Set` over it yields a world that reports for **every entity id** the same handle,
    component set, values and relation target as the batch call does.
-/
import ArcheProofs.Lemmas.SetRelLoop
import ArcheProofs.Props.C05_SetRel

namespace Arche.Props.C08.SetRel
open Arche Arche.World Arche.Arr Arche.Storage Arche.IndexInv Arche.SameRows Arche.Graph Arche.Closed Arche.TInv Arche.KInv Arche.Move Arche.Remove Arche.Cov Arche.Cache Arche.SInv Arche.DInv Arche.Create Arche.Frames Arche.Batch Arche.BatchOps Arche.GInv Arche.GOps Arche.GVals Arche.MoveTail Arche.SetRel Arche.SetRelBatch Arche.SetRelLoop
open Arche.Props.C01 (At)
open Arche.Props.C08 (view mkView view_of_at at_of_view view_none EView plain selection lensOf)

/-- a successful `setRelationBatchNoNotify` is the loop over the selected tables -/
theorem setRelationBatch_world (w : World) (f : Filter) (comp : CompId) (target : Entity) (n : Nat) (bs : Array BatchEntry)
    (hok : (w.setRelationBatchNoNotify f comp target).out = .ok (n, bs)) :
    w.isLocked = false ∧ w.checkTarget target = none ∧
    ∃ ts, w.getTables f = some ts ∧ n = ((lensOf w ts).map (·.2)).sum ∧
      w.setRelationLoop comp target (lensOf w ts) #[] = ((w.setRelationBatchNoNotify f comp target).w, .ok bs) := by
  unfold setRelationBatchNoNotify at hok ⊢
  by_cases hl : w.isLocked = true
  · simp [hl, World.fail] at hok
  simp only [hl, Bool.false_eq_true, ↓reduceIte] at hok ⊢
  cases hct : w.checkTarget target with
  | some p => simp [hct, World.fail] at hok
  | none =>
    simp only [hct] at hok ⊢
    cases hg : w.getTables f with
    | none => simp [hg, World.fail] at hok
    | some ts =>
      simp only [hg] at hok ⊢
      refine ⟨trivial, trivial, ts, rfl, ?_⟩
      unfold lensOf
      generalize hloop : w.setRelationLoop comp target (ts.map (fun t => (t, (w.tableOf t).rows.size))) #[] = r at hok ⊢
      obtain ⟨w1, o⟩ := r
      cases o with
      | error p => simp [World.fail] at hok
      | ok bs' =>
        simp only [Except.ok.injEq, Prod.mk.injEq] at hok
        obtain ⟨h1, h2⟩ := hok
        subst h2
        exact ⟨h1.symm, rfl⟩

/-- **the batch target change** -/
theorem setRelationBatch_spec (w : World) (issued live : List Entity) (G : GInv w issued live) (f : Filter) (comp : CompId) (target : Entity)
    (n : Nat) (bs : Array BatchEntry) (hok : (w.setRelationBatchNoNotify f comp target).out = .ok (n, bs)) :
    ∃ ts, w.getTables f = some ts ∧ ts.Nodup ∧ (∀ t, t ∈ ts ↔ Cache.Sel w (plain w f) t) ∧
      n = (ts.map (fun t => (w.tableOf t).rows.size)).sum ∧ RLensOK w target (lensOf w ts) ∧
      RelPost w (w.setRelationBatchNoNotify f comp target).w issued live target (lensOf w ts) bs.toList := by
  obtain ⟨_, _, ts, hg, hn, hloop⟩ := setRelationBatch_world w f comp target n bs hok
  obtain ⟨hnd, hmem⟩ := selection w G.k G.s f ts hg
  have hL : RLensOK w target (lensOf w ts) := by
    refine ⟨?_, ?_⟩
    · unfold lensOf; rw [List.map_map]
      have : ((fun x : Nat × Nat => x.1) ∘ fun t => (t, (w.tableOf t).rows.size)) = id := by funext t; rfl
      rw [this, List.map_id]; exact hnd
    · intro p hp hnz
      unfold lensOf at hp
      rw [List.mem_map] at hp
      obtain ⟨t, ht, rfl⟩ := hp
      have hsel := (hmem t).1 ht
      exact ⟨hsel.1, hsel.2.1, fun _ => rfl⟩
  obtain ⟨news, hbs, hP⟩ := setRelationLoop_spec comp target issued live (lensOf w ts) w #[] _ bs G hL hloop
  refine ⟨ts, hg, hnd, hmem, ?_, hL, ?_⟩
  · rw [hn]; unfold lensOf; rw [List.map_map]; rfl
  · have : bs.toList = news := by rw [hbs]; simp
    rw [this]; exact hP

/-- `Batch.SetRelation` / `Relations.SetBatch` keep the global invariant -/
theorem ginv_setRelationBatch (w : World) (issued live : List Entity) (G : GInv w issued live) (f : Filter) (comp : CompId) (target : Entity)
    (n : Nat) (bs : Array BatchEntry) (hok : (w.setRelationBatchNoNotify f comp target).out = .ok (n, bs)) :
    GInv (w.setRelationBatchNoNotify f comp target).w issued live := by
  obtain ⟨_, _, _, _, _, _, hP⟩ := setRelationBatch_spec w issued live G f comp target n bs hok
  exact hP.ginv

/-! ## on views -/

/-- what a target change does to one entity, as a relation between its views: everything kept,
    the target is the new one -/
def RXf (target : Entity) (v v' : EView) : Prop :=
  v'.ent = v.ent ∧ v'.mask = v.mask ∧ (∀ c, v'.comps c = v.comps c) ∧ v'.target = target

theorem RXf_functional (target : Entity) (v v1 v2 : EView) (h1 : RXf target v v1) (h2 : RXf target v v2) : v1 = v2 := by
  obtain ⟨a1, a2, a3, a4⟩ := h1
  obtain ⟨b1, b2, b3, b4⟩ := h2
  exact Arche.Props.C08.EView.ext' _ _ (by rw [a1, b1]) (by rw [a2, b2]) (fun c => by rw [a3, b3]) (by rw [a4, b4])

/-- every recorded row, whatever the target of its table -/
def ASel (w : World) (lens : List (Nat × Nat)) (id : Nat) : Prop :=
  ∃ p ∈ lens, p.2 ≠ 0 ∧ ∃ i, i < p.2 ∧ (rowAt w p.1 i).ent.id = id

/-- after the batch: every matching entity reports the new target and otherwise what it
    reported before; every other id reports what it reported before -/
theorem relLoop_views (w w' : World) (issued live : List Entity) (target : Entity) (lens : List (Nat × Nat)) (news : List BatchEntry)
    (G : GInv w issued live) (hL : RLensOK w target lens)
    (hsz : ∀ p ∈ lens, p.2 = (w.tableOf p.1).rows.size)
    (hP : RelPost w w' issued live target lens news) :
    (∀ id, ASel w lens id → ∃ v v', view w id = some v ∧ view w' id = some v' ∧ RXf target v v') ∧
    (∀ id, ¬ ASel w lens id → view w' id = view w id) := by
  have hkeep : ∀ id l, ¬ RSel w target lens id → loc w id = some l → view w' id = view w id := by
    intro id l hns hl
    obtain ⟨a, b, c⟩ := hP.others id l hns hl
    have hv := (G.k.idx.fwd id l hl).1
    obtain ⟨q1, q2, _, _⟩ := hP.old l.tbl hv.1
    rw [view_of_at w id l.tbl (rowAt w l.tbl l.row) ⟨l, hl, rfl, rfl⟩, view_of_at w' id l.tbl (rowAt w l.tbl l.row) ⟨l, a, rfl, b⟩]
    unfold mkView
    rw [q1, q2, c]
  refine ⟨?_, ?_⟩
  · rintro id ⟨p, hp, hnz, i, hi, hid⟩
    obtain ⟨hplt, _, _⟩ := hL.ok p hp hnz
    have hvr : validRow w p.1 i := ⟨hplt, by rw [← hsz p hp]; exact hi⟩
    have hloc : loc w id = some ⟨p.1, i⟩ := by rw [← hid]; exact G.k.idx.bwd p.1 i hvr
    have hview : view w id = some (mkView w p.1 (rowAt w p.1 i)) := view_of_at w id p.1 _ ⟨⟨p.1, i⟩, hloc, rfl, rfl⟩
    by_cases hdp : (w.tableOf p.1).target = target
    · -- skipped: nothing changes, and the target already is the new one
      have hns : ¬ RSel w target lens id := by
        rintro ⟨q, hq, hqnz, hqd, j, hj, hje⟩
        obtain ⟨hqlt, _, _⟩ := hL.ok q hq hqnz
        have h1 := G.k.idx.bwd q.1 j ⟨hqlt, by rw [← hsz q hq]; exact hj⟩
        rw [hje, hloc] at h1
        simp only [Option.some.injEq, Loc.mk.injEq] at h1
        rw [← h1.1] at hqd; exact hqd hdp
      refine ⟨_, _, hview, by rw [hkeep id _ hns hloc]; exact hview, rfl, rfl, fun _ => rfl, hdp⟩
    · obtain ⟨b, _, _, hblt, m3, m4, m5, m6⟩ := hP.moved p hp hnz hdp i hi
      rw [hid] at m3
      refine ⟨_, _, hview, view_of_at w' id b.tbl _ ⟨⟨b.tbl, b.start + i⟩, m3, rfl, m4⟩, rfl, ?_, ?_, m5⟩
      · show w'.tableMask b.tbl = w.tableMask p.1
        have hn' : w'.nodeOf (w'.tableOf b.tbl).node = w'.nodeOf (w.tableOf p.1).node := by rw [m6]
        unfold tableMask nodeOfTable
        rw [hn']
        have := (hP.old p.1 hplt)
        have h2 : w'.tableMask p.1 = w.tableMask p.1 := this.2.1
        unfold tableMask nodeOfTable at h2
        rw [this.2.2.2] at h2
        exact h2
      · intro c
        have hids : w'.tableIds b.tbl = w.tableIds p.1 := by
          have hn' : w'.nodeOf (w'.tableOf b.tbl).node = w'.nodeOf (w.tableOf p.1).node := by rw [m6]
          unfold tableIds nodeOfTable
          rw [hn']
          have := (hP.old p.1 hplt)
          have h2 : w'.tableIds p.1 = w.tableIds p.1 := this.1
          unfold tableIds nodeOfTable at h2
          rw [this.2.2.2] at h2
          exact h2
        show (colOf (w'.tableIds b.tbl) c).map _ = (colOf (w.tableIds p.1) c).map _
        rw [hids]
        cases hc : colOf (w.tableIds p.1) c with
        | none => rfl
        | some k =>
          simp only [Option.map_some, Option.some.injEq]
          rw [movedVals_get _ _ _ c k hc, hc]
  · intro id hns
    have hns' : ¬ RSel w target lens id := by
      rintro ⟨q, hq, hqnz, _, j, hj, hje⟩
      exact hns ⟨q, hq, hqnz, j, hj, hje⟩
    cases hl : loc w id with
    | none => rw [view_none w id hl, view_none w' id (by rw [hP.locs id hns']; exact hl)]
    | some l => exact hkeep id l hns' hl

/-! ## the fold of single-entity target changes -/

/-- `Relations.Set(e, comp, target)` applied to the entities of a list, one after the other;
    `none` if one of the calls panics -/
def relSingles (comp : CompId) (target : Entity) : List Entity → World → Option World
  | [], w => some w
  | e :: es, w =>
    match (w.setRelation e comp target).out with
    | .ok _ => relSingles comp target es (w.setRelation e comp target).w
    | .error _ => none

theorem relSingles_views (comp : CompId) (target : Entity) (issued live : List Entity) :
    ∀ (es : List Entity) (w ws : World), GInv w issued live → (es.map (·.id)).Nodup → (∀ e ∈ es, e ∈ issued) →
      relSingles comp target es w = some ws →
      GInv ws issued live ∧
      (∀ e ∈ es, ∃ v v', view w e.id = some v ∧ view ws e.id = some v' ∧ RXf target v v') ∧
      (∀ id, (∀ e ∈ es, e.id ≠ id) → view ws id = view w id) := by
  intro es
  induction es with
  | nil =>
    intro w ws G _ _ h
    simp only [relSingles, Option.some.injEq] at h
    subst h
    refine ⟨G, ?_, ?_⟩
    · intro e he; cases he
    · intro _ _; rfl
  | cons e es ih =>
    intro w ws G hnd hiss h
    unfold relSingles at h
    cases hout : (w.setRelation e comp target).out with
    | error p => rw [hout] at h; cases h
    | ok u =>
      rw [hout] at h
      simp only [] at h
      have hout' : (w.setRelation e comp target).out = .ok () := hout
      have hi : e ∈ issued := hiss e List.mem_cons_self
      have G1 := ginv_setRelation w issued live G e hi comp target hout'
      obtain ⟨_, ha, _, _, _, _⟩ := setRelation_world w e comp target hout'
      obtain ⟨_, hloc, hent⟩ := alive_issued w issued live G e hi ha
      have hview : view w e.id = some (mkView w (w.locOf e).tbl (rowAt w (w.locOf e).tbl (w.locOf e).row)) :=
        view_of_at w e.id _ _ ⟨w.locOf e, hloc, rfl, rfl⟩
      -- the step, on views
      have hstep : (∃ v v', view w e.id = some v ∧ view (w.setRelation e comp target).w e.id = some v' ∧ RXf target v v') ∧
          (∀ id, id ≠ e.id → view (w.setRelation e comp target).w id = view w id) := by
        by_cases hsame : (w.tableOf (w.locOf e).tbl).target = target
        · rw [Arche.Props.C05.SetRel.setRelation_same w e comp target hout' hsame]
          exact ⟨⟨_, _, hview, hview, rfl, rfl, fun _ => rfl, hsame⟩, fun _ _ => rfl⟩
        · obtain ⟨⟨v, v', a1, a2, a3, a4, a5, a6, a7⟩, hoth⟩ :=
            Arche.Props.C05.SetRel.setRelation_view w issued live G e hi comp target hout' hsame
          exact ⟨⟨v, v', a1, a2, by rw [a3, a4], a5, a6, a7⟩, hoth⟩
      obtain ⟨⟨v, v', hv, hv', hxf⟩, hoth⟩ := hstep
      generalize (w.setRelation e comp target).w = w1 at *
      simp only [List.map_cons, List.nodup_cons] at hnd
      have hnotin : ∀ e' ∈ es, e'.id ≠ e.id := by
        intro e' he' heq; exact hnd.1 (by rw [← heq]; exact List.mem_map_of_mem he')
      obtain ⟨G2, hsel2, hoth2⟩ := ih w1 ws G1 hnd.2 (fun e' he' => hiss e' (List.mem_cons_of_mem _ he')) h
      refine ⟨G2, ?_, ?_⟩
      · intro e' he'
        rcases List.mem_cons.1 he' with rfl | he'
        · exact ⟨v, v', hv, by rw [hoth2 e'.id (fun e2 he2 => hnotin e2 he2)]; exact hv', hxf⟩
        · obtain ⟨va, vb, a, b, c⟩ := hsel2 e' he'
          exact ⟨va, vb, by rw [← hoth e'.id (hnotin e' he')]; exact a, b, c⟩
      · intro id hid
        rw [hoth2 id (fun e2 he2 => hid e2 (List.mem_cons_of_mem _ he2)), hoth id (fun h => hid e List.mem_cons_self h.symm)]

/-- **batch target change = fold of single target changes.** For any list of the matching
    entities (handles the world issued, each once), the world after `Batch.SetRelation` and the
    world after the fold of `Relations.Set` report the same for every entity id; the pools are
    equal. -/
theorem setRelBatch_eq_singles (w : World) (issued live : List Entity) (G : GInv w issued live)
    (f : Filter) (comp : CompId) (target : Entity) (n : Nat) (bs : Array BatchEntry)
    (hok : (w.setRelationBatchNoNotify f comp target).out = .ok (n, bs))
    (es : List Entity) (hnd : (es.map (·.id)).Nodup) (hiss : ∀ e ∈ es, e ∈ issued)
    (hsel : ∀ ts, w.getTables f = some ts → ∀ id, ASel w (lensOf w ts) id ↔ ∃ e ∈ es, e.id = id)
    (ws : World) (hs : relSingles comp target es w = some ws) :
    ∀ id, view (w.setRelationBatchNoNotify f comp target).w id = view ws id := by
  obtain ⟨ts, hg, _, _, _, hL, hP⟩ := setRelationBatch_spec w issued live G f comp target n bs hok
  have hsz : ∀ p ∈ lensOf w ts, p.2 = (w.tableOf p.1).rows.size := by
    intro p hp; unfold lensOf at hp; rw [List.mem_map] at hp; obtain ⟨t, _, rfl⟩ := hp; rfl
  obtain ⟨hbsel, hboth⟩ := relLoop_views w _ issued live target (lensOf w ts) bs.toList G hL hsz hP
  obtain ⟨_, hssel, hsoth⟩ := relSingles_views comp target issued live es w ws G hnd hiss hs
  intro id
  by_cases hsl : ASel w (lensOf w ts) id
  · obtain ⟨e, he, heid⟩ := (hsel ts hg id).1 hsl
    obtain ⟨v, v1, a1, a2, a3⟩ := hbsel id hsl
    obtain ⟨v0, v2, b1, b2, b3⟩ := hssel e he
    rw [heid] at b1 b2
    rw [a1] at b1; simp only [Option.some.injEq] at b1; subst b1
    rw [a2, b2, RXf_functional _ _ _ _ a3 b3]
  · rw [hboth id hsl, hsoth id]
    intro e he heid
    exact hsl ((hsel ts hg id).2 ⟨e, he, heid⟩)

end Arche.Props.C08.SetRel
