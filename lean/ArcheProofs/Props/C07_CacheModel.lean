/-
  C07 companion — the link between the regenerated `Cache.addArchetype` and the hand-written
  world model: under an interpretation of the function parameters of the regenerated code (what
  a filter token matches, which filter tokens are relation filters with which target, what mask /
  target / relation a table token has) by the corresponding functions of the world model,
  the per-entry update `addStep` of `C07_CacheMaint` is, entry for entry, the update `World.cacheAdd`
  performs (`addStep_model`), hence `Cache.addArchetype` maps to `World.cacheAdd` on the abstraction
  of the whole entry list (`addArchetype_model`).
-/
import ArcheProofs.Props.C07_CacheMaint

namespace Arche.Props.C07_CacheModel
open ArcheGen ArcheGen.P256 Arche Arche.World Arche.Props

/-- the model's per-entry update in `World.cacheAdd`, as a function of its own -/
def cacheAddUpd (w : World) (t : Nat) (e : CacheEntry) : CacheEntry :=
  let hasRel := (w.tableRel t).isSome
  let tgt := (w.tableOf t).target
  let m := w.tableMask t
  if !e.filter.sat m then e
  else if !hasRel then { e with archs := e.archs.push t }
  else match e.filter.relTarget? with
    | some ft =>
      if ft == tgt then
        { e with archs := e.archs.push t,
                 indices := e.indices.map (fun ix => assocSet ix t e.archs.size) }
      else e
    | none =>
      { e with archs := e.archs.push t,
               indices := e.indices.map (fun ix => assocSet ix t e.archs.size) }

theorem cacheAdd_eq (w : World) (t : Nat) : w.cacheAdd t = { w with cache := w.cache.map (cacheAddUpd w t) } := rfl

/-- generated entities as model entities -/
def toModelE (e : P256.Entity) : Arche.Entity := ⟨e.id.toNat, e.gen.toNat⟩

/-- the position map of an entry -/
def absIx (m : GoMap (Option Nat) Int) : Option (List (Nat × Nat)) :=
  if m.nonNil = true then some (m.entries.map (fun p => (p.1.getD 0, p.2.toNat))) else none

/-- a cache entry of the regenerated code as a cache entry of the model, given what each filter
    token stands for -/
def absEntry (fl : GoAny → Filter) (e : cacheEntry) : CacheEntry :=
  { id := e.ID.toNat, filter := fl e.Filter, archs := e.Archetypes.pointers.arr.map (fun a => a.getD 0), indices := absIx e.Indices }

/-- the function parameters of the regenerated code mean what the model computes -/
structure Interp (w : World) (fl : GoAny → Filter) (hasRel : Option Nat → Bool) (maskOf : Option Nat → M256.Mask)
    (targetOf : Option Nat → P256.Entity) (matches_ : GoAny → M256.Mask → Bool) (relTarget : GoAny → Option P256.Entity) : Prop where
  matches_ok : ∀ f t, matches_ f (maskOf (some t)) = (fl f).sat (w.tableMask t)
  hasRel_ok : ∀ t, hasRel (some t) = (w.tableRel t).isSome
  target_ok : ∀ t, toModelE (targetOf (some t)) = (w.tableOf t).target
  rel_ok : ∀ f, (relTarget f).map toModelE = (fl f).relTarget?

theorem toModelE_inj (a b : P256.Entity) (h : toModelE a = toModelE b) : a = b := by
  cases a; cases b
  simp only [toModelE, Entity.mk.injEq] at h
  congr
  · exact BitVec.eq_of_toNat_eq h.1
  · exact BitVec.eq_of_toNat_eq h.2

/-- keys of a well-formed position map are table tokens (never nil) -/
def KeysOK (m : GoMap (Option Nat) Int) : Prop := ∀ p ∈ m.entries, p.1.isSome = true

theorem filter_keys (m : GoMap (Option Nat) Int) (t : Nat) (hk : KeysOK m) :
    (m.delete (some t)).entries.map (fun p => (p.1.getD 0, p.2.toNat)) =
      (m.entries.map (fun p => (p.1.getD 0, p.2.toNat))).filter (fun p => p.1 != t) := by
  unfold GoMap.delete KeysOK at *
  simp only []
  generalize m.entries = l at hk
  induction l with
  | nil => rfl
  | cons a l ih =>
    have ha := hk a List.mem_cons_self
    have ih' := ih (fun p hp => hk p (List.mem_cons_of_mem _ hp))
    obtain ⟨k, v⟩ := a
    cases k with
    | none => cases ha
    | some x =>
      simp only [List.filter_cons, List.map_cons, Option.getD_some]
      by_cases hx : x = t
      · subst hx
        simp [ih']
      · rw [← ih']
        simp [hx]

theorem size_cast (n : Nat) (h : n + 1 < 2 ^ 31) : ((BitVec.ofInt 32 ((n + 1 : Nat) : Int)) - 1#32).toInt = (n : Int) := by
  have h1 : (BitVec.ofInt 32 ((n + 1 : Nat) : Int)) - 1#32 = BitVec.ofNat 32 n := by
    apply BitVec.eq_of_toNat_eq
    rw [BitVec.toNat_sub]
    simp only [BitVec.toNat_ofInt, BitVec.toNat_ofNat]
    omega
  rw [h1, BitVec.toInt_eq_toNat_cond]
  simp only [BitVec.toNat_ofNat]
  have : n % 2 ^ 32 = n := Nat.mod_eq_of_lt (by omega)
  rw [this]
  split <;> omega

/-- **entry for entry, `addStep` is the model's update** -/
theorem addStep_model (w : World) (fl : GoAny → Filter) (hasRel : Option Nat → Bool) (maskOf : Option Nat → M256.Mask)
    (targetOf : Option Nat → P256.Entity) (matches_ : GoAny → M256.Mask → Bool) (relTarget : GoAny → Option P256.Entity)
    (I : Interp w fl hasRel maskOf targetOf matches_ relTarget) (t : Nat) (e : cacheEntry)
    (hk : KeysOK e.Indices) (hsz : e.Archetypes.pointers.arr.size + 1 < 2 ^ 31) :
    absEntry fl (C07_CacheMaint.addStep hasRel maskOf targetOf matches_ relTarget (some t) e) = cacheAddUpd w t (absEntry fl e) := by
  have hidx : absIx (C07_CacheMaint.addIdx (some t) e).Indices =
      (absIx e.Indices).map (fun ix => assocSet ix t (e.Archetypes.pointers.arr.map (fun a => a.getD 0)).size) := by
    unfold C07_CacheMaint.addIdx absIx
    simp only []
    cases hn : e.Indices.nonNil
    · simp [hn]
    · simp only [if_true, Option.map_some, List.map_cons, Option.getD_some, assocSet, Array.size_map]
      rw [size_cast _ hsz]
      congr 2
      exact filter_keys e.Indices t hk
  have haddIdx : absEntry fl (C07_CacheMaint.addIdx (some t) e) =
      { absEntry fl e with archs := (absEntry fl e).archs.push t,
                           indices := (absEntry fl e).indices.map (fun ix => assocSet ix t (absEntry fl e).archs.size) } := by
    unfold absEntry
    rw [hidx]
    simp [C07_CacheMaint.addIdx, GoSlice.append]
  have hfilter : (absEntry fl e).filter = fl e.Filter := rfl
  unfold C07_CacheMaint.addStep cacheAddUpd
  rw [I.matches_ok, I.hasRel_ok, hfilter]
  by_cases hm : (fl e.Filter).sat (w.tableMask t) = true
  · have hm' : ¬ ((fl e.Filter).sat (w.tableMask t) = false) := by simp [hm]
    rw [if_neg hm']
    simp only [hm, Bool.not_true, Bool.false_eq_true, if_false]
    by_cases hr : (w.tableRel t).isSome = true
    · have hr' : ¬ ((w.tableRel t).isSome = false) := by simp [hr]
      rw [if_neg hr']
      simp only [hr, Bool.not_true, Bool.false_eq_true, if_false]
      have hrel := I.rel_ok e.Filter
      cases hrt : relTarget e.Filter with
      | none =>
        rw [hrt] at hrel
        simp only [Option.map_none] at hrel
        rw [← hrel]
        exact haddIdx
      | some ft =>
        rw [hrt] at hrel
        simp only [Option.map_some] at hrel
        rw [← hrel]
        simp only []
        by_cases hft : ft = targetOf (some t)
        · have hb : (toModelE ft == (w.tableOf t).target) = true := by rw [hft, I.target_ok]; simp
          rw [if_pos hft, hb]
          simp only [if_true]
          exact haddIdx
        · have hb : (toModelE ft == (w.tableOf t).target) = false := by
            rw [← I.target_ok]
            simp only [beq_eq_false_iff_ne, ne_eq]
            exact fun hc => hft (toModelE_inj _ _ hc)
          rw [if_neg hft, hb]
          simp
    · have hr' : (w.tableRel t).isSome = false := by simpa using hr
      rw [if_pos hr']
      simp only [hr', Bool.not_false, if_true]
      simp [absEntry, GoSlice.append]
  · have hm' : (fl e.Filter).sat (w.tableMask t) = false := by simpa using hm
    rw [if_pos hm']
    simp [hm']

/-- **`Cache.addArchetype` is `World.cacheAdd`** on the abstraction of the entry list -/
theorem addArchetype_model (w : World) (fl : GoAny → Filter) (hasRel : Option Nat → Bool) (maskOf : Option Nat → M256.Mask)
    (targetOf : Option Nat → P256.Entity) (matches_ : GoAny → M256.Mask → Bool) (relTarget : GoAny → Option P256.Entity)
    (I : Interp w fl hasRel maskOf targetOf matches_ relTarget) (t : Nat) (c : Cache)
    (hrep : c.filters.arr.map (absEntry fl) = w.cache)
    (hk : ∀ (i : Nat) (e : cacheEntry), c.filters.arr[i]? = some e → KeysOK e.Indices ∧ e.Archetypes.pointers.arr.size + 1 < 2 ^ 31) :
    ∃ c', Cache.addArchetype hasRel maskOf targetOf matches_ relTarget c (some t) = some c' ∧
      c'.filters.arr.map (absEntry fl) = (w.cacheAdd t).cache := by
  refine ⟨_, C07_CacheMaint.addArchetype_map hasRel maskOf targetOf matches_ relTarget c (some t), ?_⟩
  rw [cacheAdd_eq, C07_CacheMaint.withArr_arr, ← hrep]
  simp only [Array.map_map]
  apply Array.ext_getElem?
  intro i
  rw [Array.getElem?_map, Array.getElem?_map]
  cases he : c.filters.arr[i]? with
  | none => rfl
  | some e =>
    obtain ⟨h1, h2⟩ := hk i e he
    simp only [Option.map_some, Function.comp]
    rw [addStep_model w fl hasRel maskOf targetOf matches_ relTarget I t e h1 h2]

end Arche.Props.C07_CacheModel
