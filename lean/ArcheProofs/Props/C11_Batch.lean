/-
  C11 (companion) — batch operations emit the same events as the equivalent single operations.

  The deferred batch notifier (`notifyQuery`, run after a batch call or when the Q variant's
  query is closed / exhausted) walks the recorded batch entries. `notifyQuery_exchange_entry`:
  for an entry with a source table, the deliveries are, entity by entity over the recorded row
  range, exactly those of the single-entity notifier `notifyExchange` given the record a single
  exchange of that entity would return — old component set, old relation, old target of the
  source table, the destination table — with the same added / removed id lists. Hence every
  field, type bit and subscription decision of a batch event is the one C11.exchange_event_diff
  / exchange_bits prove correct for the single operation. `notifyQuery_append`: entries are
  notified one after the other, in the order they were recorded.
  (The record is read from the world as it is when the events are delivered; that the source
  table's mask, relation and target still are what they were when the entities left it follows
  from the frame clauses of C08 — tables keep mask and relation, retired tables keep their
  target until recycled, and a legal batch exchange never recycles one of its own sources.)
-/
import ArcheProofs.Props.C11

namespace Arche.Props.C11.Batch
open Arche Arche.World

theorem notifyQuery_append (w : World) (a b : List BatchEntry) (added removed : List CompId) :
    w.notifyQuery (a ++ b).toArray added removed = w.notifyQuery a.toArray added removed ++ w.notifyQuery b.toArray added removed := by
  unfold notifyQuery
  simp only [List.toList_toArray, List.flatMap_append]

/-- **one batch entry = the single-entity notifier applied to each moved entity** -/
theorem notifyQuery_exchange_entry (w : World) (b : BatchEntry) (o : Nat) (hb : b.old = some o) (add rem : List CompId) :
    w.notifyQuery #[b] add rem =
      ((List.range (b.stop - b.start)).map (fun i => (w.tableOf b.tbl).getEntity (b.start + i))).flatMap
        (fun e => w.notifyExchange ⟨b.tbl, w.tableMask o, (w.tableOf o).target, w.tableRel o⟩ e add rem) := by
  unfold notifyQuery notifyExchange emit
  simp only [List.flatMap_cons, List.flatMap_nil, List.append_nil, hb, Option.isNone_some]
  have hx : w.tableMask b.tbl ^^^ w.tableMask o = w.tableMask o ^^^ w.tableMask b.tbl := Nat.xor_comm _ _
  have ha : (w.tableMask b.tbl ^^^ w.tableMask o) &&& w.tableMask b.tbl = w.tableMask b.tbl &&& (w.tableMask o ^^^ w.tableMask b.tbl) := by
    rw [hx, Nat.and_comm]
  have hr : (w.tableMask b.tbl ^^^ w.tableMask o) &&& w.tableMask o = w.tableMask o &&& (w.tableMask o ^^^ w.tableMask b.tbl) := by
    rw [hx, Nat.and_comm]
  cases hl : w.listener with
  | none => simp
  | some L =>
    simp only [ha, hr]
    split
    · rfl
    · simp

end Arche.Props.C11.Batch
