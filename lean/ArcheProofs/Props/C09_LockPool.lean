/-
  C09 companion — the lock-bit pool and the lock mask of the Go source, REGENERATED on every run
  (extract/imper.go → ArcheGen/Pool256.lean: `bitPool`, `lockMask` over the regenerated
  `Mask`), refine `BitPool` / `LockMask` of the world model: `bitPool_get_refines` (same bit, same
  pool, runs out of bits exactly when the model does), `bitPool_recycle_refines`,
  `lock_refines`, `unlock_refines` (same refusal of an unbalanced unlock), `isLocked_refines`,
  `lockReset_refines`. `natOf` reads the four mask words as the natural number the world model
  uses for masks (`testBit_natOf`: bit j of it is membership of j).
-/
import ArcheGen.Pool256
import ArcheModel
import ArcheProofs.Lemmas.NatMask
import ArcheProofs.Props.C04

namespace Arche.Props.C09_LockPool
open ArcheGen ArcheGen.P256 Arche

def absBP (p : bitPool) : BitPool :=
  { bits := p.bits.map (·.toNat), length := p.length.toNat, next := p.next.toNat, available := p.available.toNat }

theorem bv_ne_zero_toNat {n : Nat} (a : BitVec n) (h : a ≠ 0) : 0 < a.toNat := by
  rcases Nat.eq_zero_or_pos a.toNat with h1 | h1
  · exact absurd (BitVec.eq_of_toNat_eq (by simpa using h1)) h
  · exact h1

/-- **`bitPool.Get` is `BitPool.get`**: the same bit and the same pool, and it panics (runs out
    of bits) exactly when the model does -/
theorem bitPool_get_refines (p : bitPool) (hs : p.bits.size = 256) :
    (bitPool.Get p).map (fun r => (absBP r.1, r.2.toNat)) = BitPool.get (absBP p) := by
  have hnx : p.next.toNat < p.bits.size := by rw [hs]; exact p.next.isLt
  by_cases h0 : p.available = 0#16
  · have ha : ((absBP p).available == 0) = true := by simp [absBP, h0]
    unfold BitPool.get
    rw [if_pos ha]
    by_cases hl : 256 ≤ p.length.toNat
    · have hule : BitVec.ule 256#16 p.length = true := by simp [BitVec.ule]; exact hl
      have hge : (absBP p).length ≥ (absBP p).bits.size := by simp [absBP, hs]; exact hl
      rw [if_pos hge]
      simp [bitPool.Get, h0, bitPool.getNew, hule, bind, Option.bind]
    · have hule : BitVec.ule 256#16 p.length = false := by simp [BitVec.ule]; omega
      have hge : ¬ (absBP p).length ≥ (absBP p).bits.size := by simp [absBP, hs]; omega
      rw [if_neg hge]
      have hin : p.length.toNat < p.bits.size := by omega
      have hw : (BitVec.setWidth 8 p.length).toNat = p.length.toNat := by
        simp [BitVec.toNat_setWidth]; omega
      have hinc : (p.length + 1#16).toNat = p.length.toNat + 1 := by
        rw [BitVec.toNat_add]; simp; omega
      simp only [bitPool.Get, h0, bitPool.getNew, hule, bind, Option.bind, pure, GoArr.set, hin, if_true, Bool.false_eq_true, if_false,
        Option.map, beq_self_eq_true]
      simp only [absBP, Array.map_setIfInBounds, hw, hinc, h0]
  · have hpos := bv_ne_zero_toNat p.available h0
    have hne : (p.available == 0#16) = false := by simpa using h0
    have ha : ((absBP p).available == 0) = false := by
      simp only [absBP, beq_eq_false_iff_ne, ne_eq]; omega
    have hsub : (p.available - 1#16).toNat = p.available.toNat - 1 := by
      rw [BitVec.toNat_sub]; simp; omega
    have hg : p.bits[p.next.toNat]? = some p.bits[p.next.toNat] := Array.getElem?_eq_getElem hnx
    unfold BitPool.get
    simp only [ha, Bool.false_eq_true, if_false]
    simp only [bitPool.Get, hne, bind, Option.bind, pure, GoArr.get, GoArr.set, hg, hnx, if_true, Bool.false_eq_true, if_false, Option.map,
      Array.getElem?_setIfInBounds_self_of_lt hnx]
    simp only [absBP, Array.map_setIfInBounds, hsub]
    congr 3
    rw [Array.getD_eq_getD_getElem?, Array.getElem?_eq_getElem (by simp; exact hnx)]
    simp

theorem bitPool_recycle_refines (p : bitPool) (b : BitVec 8) (hs : p.bits.size = 256) (hav : p.available.toNat < 2 ^ 16 - 1) :
    (bitPool.Recycle p b).map absBP = some (BitPool.recycle (absBP p) b.toNat) := by
  have hb : b.toNat < p.bits.size := by rw [hs]; exact b.isLt
  have hinc : (p.available + 1#16).toNat = p.available.toNat + 1 := by
    rw [BitVec.toNat_add]; simp; omega
  simp only [bitPool.Recycle, bind, Option.bind, pure, GoArr.set, hb, if_true, Option.map]
  simp only [absBP, BitPool.recycle, Array.map_setIfInBounds, hinc]

theorem bitPool_reset_refines (p : bitPool) : (bitPool.Reset p).map absBP = some (BitPool.reset (absBP p)) := by
  simp [bitPool.Reset, bind, Option.bind, pure, absBP, BitPool.reset]

theorem model_get_size (p : BitPool) (r : BitPool × Nat) (h : p.get = some r) : r.1.bits.size = p.bits.size := by
  unfold BitPool.get at h
  split at h
  · split at h
    · cases h
    · cases h; simp
  · cases h; simp

theorem bitPool_get_size (p : bitPool) (hs : p.bits.size = 256) (r : bitPool × BitVec 8) (h : bitPool.Get p = some r) :
    r.1.bits.size = p.bits.size := by
  have h1 := bitPool_get_refines p hs
  rw [h] at h1
  have h2 := model_get_size _ _ h1.symm
  simpa [absBP] using h2

end Arche.Props.C09_LockPool

namespace Arche.Props.C09_LockPool
open ArcheGen ArcheGen.P256 Arche Arche.Props

/-! ## the mask of the default build as the natural number the world model uses -/

def natOf (m : M256.Mask) : Nat :=
  m.b0.toNat ||| (m.b1.toNat <<< 64) ||| (m.b2.toNat <<< 128) ||| (m.b3.toNat <<< 192)

theorem testBit_natOf (m : M256.Mask) (j : Nat) : (natOf m).testBit j = C04.B256.mem m j := by
  unfold natOf C04.B256.mem
  simp only [Nat.testBit_or, Nat.testBit_shiftLeft, BitVec.getLsbD, ge_iff_le]
  have lt0 := m.b0.isLt
  have lt1 := m.b1.isLt
  have lt2 := m.b2.isLt
  have lt3 := m.b3.isLt
  have big : ∀ (x : BitVec 64) (k : Nat), 64 ≤ k → x.toNat.testBit k = false := by
    intro x k hk
    apply Nat.testBit_lt_two_pow
    exact Nat.lt_of_lt_of_le x.isLt (Nat.pow_le_pow_right (by decide) hk)
  by_cases h0 : j < 64
  · have e1 : j / 64 = 0 := by omega
    have e2 : j % 64 = j := by omega
    simp [e1, e2, C04.B256.wordOf, show ¬ 64 ≤ j by omega, show ¬ 128 ≤ j by omega, show ¬ 192 ≤ j by omega, show j < 256 by omega]
  · by_cases h1 : j < 128
    · have e1 : j / 64 = 1 := by omega
      have e2 : j % 64 = j - 64 := by omega
      simp [e1, e2, C04.B256.wordOf, big _ j (by omega), show 64 ≤ j by omega, show ¬ 128 ≤ j by omega, show ¬ 192 ≤ j by omega, show j < 256 by omega]
    · by_cases h2 : j < 192
      · have e1 : j / 64 = 2 := by omega
        have e2 : j % 64 = j - 128 := by omega
        simp [e1, e2, C04.B256.wordOf, big _ j (by omega), big _ (j - 64) (by omega), show 64 ≤ j by omega, show 128 ≤ j by omega, show ¬ 192 ≤ j by omega, show j < 256 by omega]
      · by_cases h3 : j < 256
        · have e1 : j / 64 = 3 := by omega
          have e2 : j % 64 = j - 192 := by omega
          simp [e1, e2, C04.B256.wordOf, big _ j (by omega), big _ (j - 64) (by omega), big _ (j - 128) (by omega), show 64 ≤ j by omega, show 128 ≤ j by omega, show 192 ≤ j by omega, h3]
        · simp [big _ j (by omega), big _ (j - 64) (by omega), big _ (j - 128) (by omega), big _ (j - 192) (by omega), h3]

end Arche.Props.C09_LockPool

namespace Arche.Props.C09_LockPool
open ArcheGen ArcheGen.P256 Arche Arche.Props

theorem get_natOf (m : M256.Mask) (j : Nat) : Mask.get (natOf m) j = C04.B256.mem m j := testBit_natOf m j

theorem natOf_set (l : M256.Mask) (b : BitVec 8) (v : Bool) : natOf (l.Set b v) = Mask.set (natOf l) b.toNat v := by
  apply Nat.eq_of_testBit_eq
  intro j
  have h1 := get_natOf (l.Set b v) j
  have h2 := Arche.NatMask.get_set (natOf l) b.toNat j v
  unfold Mask.get at h1 h2
  rw [h1, h2, C04.B256.set_spec, testBit_natOf]

theorem natOf_get (l : M256.Mask) (b : BitVec 8) : l.Get b = Mask.get (natOf l) b.toNat := by
  rw [C04.B256.get_eq_mem, get_natOf]

theorem natOf_isZero (l : M256.Mask) : (!l.IsZero) = (natOf l != 0) := by
  rw [Bool.eq_iff_iff, Bool.not_eq_true', ← Bool.not_eq_true, C04.B256.isZero_iff, bne_iff_ne, Arche.NatMask.ne_zero_iff]
  constructor
  · intro h
    apply Classical.byContradiction
    intro hn
    apply h
    intro j
    cases hj : C04.B256.mem l j
    · rfl
    · exact absurd ⟨j, by rw [get_natOf]; exact hj⟩ hn
  · rintro ⟨j, hj⟩ h
    rw [get_natOf, h j] at hj
    cases hj

theorem natOf_default : natOf (default : M256.Mask) = 0 := by decide

def absLM (m : lockMask) : LockMask := { locks := natOf m.locks, pool := absBP m.bitPool }

/-- **`lockMask.Lock` is `LockMask.lock`** -/
theorem lock_refines (m : lockMask) (hs : m.bitPool.bits.size = 256) :
    (lockMask.Lock m).map (fun r => (absLM r.1, r.2.toNat)) = LockMask.lock (absLM m) := by
  have hg := bitPool_get_refines m.bitPool hs
  unfold LockMask.lock
  rw [show (absLM m).pool = absBP m.bitPool from rfl, ← hg]
  unfold lockMask.Lock
  cases hget : bitPool.Get m.bitPool with
  | none => simp [bind, Option.bind]
  | some r =>
    obtain ⟨o, b⟩ := r
    simp only [bind, Option.bind, pure, Option.map, absLM, natOf_set]

/-- **`lockMask.Unlock` is `LockMask.unlock`** (same refusal of an unbalanced unlock) -/
theorem unlock_refines (m : lockMask) (l : BitVec 8) (hs : m.bitPool.bits.size = 256) (hav : m.bitPool.available.toNat < 2 ^ 16 - 1) :
    (lockMask.Unlock m l).map absLM = LockMask.unlock (absLM m) l.toNat := by
  unfold lockMask.Unlock LockMask.unlock
  rw [show (absLM m).locks = natOf m.locks from rfl, ← natOf_get]
  cases hb : M256.Mask.Get m.locks l
  · simp [bind, Option.bind]
  · have hr := bitPool_recycle_refines m.bitPool l hs hav
    cases hrec : bitPool.Recycle m.bitPool l with
    | none => rw [hrec] at hr; cases hr
    | some o =>
      rw [hrec] at hr
      simp only [Option.map, Option.some.injEq] at hr
      simp only [Bool.not_true, Bool.false_eq_true, if_false, bind, Option.bind, pure, hrec, Option.map, absLM, natOf_set, hr]

theorem isLocked_refines (m : lockMask) : (lockMask.IsLocked m).map (·.2) = some (LockMask.isLocked (absLM m)) := by
  simp only [lockMask.IsLocked, bind, Option.bind, pure, Option.map, LockMask.isLocked, absLM, natOf_isZero]

theorem lockReset_refines (m : lockMask) : (lockMask.Reset m).map absLM = some (LockMask.reset (absLM m)) := by
  have hr := bitPool_reset_refines m.bitPool
  cases hrec : bitPool.Reset m.bitPool with
  | none => rw [hrec] at hr; cases hr
  | some o =>
    rw [hrec] at hr
    simp only [Option.map, Option.some.injEq] at hr
    simp only [lockMask.Reset, bind, Option.bind, pure, hrec, Option.map, LockMask.reset, absLM, natOf_default, hr]

end Arche.Props.C09_LockPool
