/-
  C02 companion — the entity pool of the Go source, REGENERATED on every run by the imperative
  translator (extract/imper.go → ArcheGen/Pool256.lean: `entityPool` with its slice, 32-bit ids,
  generations and counters, statement by statement, `none` = panic), refines the hand-written
  pool of the world model (`ArcheModel/Pool.lean`, natural numbers, total functions):

    Get      — `get_refines`      (pool below 2³² slots; free-list head inside the pool)
    Recycle  — `recycle_refines`  (non-zero id inside the pool; generation and counter below
                                    2³²−1 — the excluded point is the known finding K1, shown by
                                    `recycle_wraps`), `recycle_zero` (the reserved entity panics)
    Alive    — `alive_refines`    (same answer, same index panic beyond the pool)
    Reset / Len / newEntityPool — `reset_refines`, `len_refines`, `init_refines`

  Every theorem of C02 about `Pool` therefore speaks about what ecs/pool.go says today; a change
  to pool.go changes the regenerated definitions and these proofs are re-checked against them.
-/
import ArcheGen.Pool256
import ArcheModel

namespace Arche.Props.C02_Pool
open ArcheGen ArcheGen.P256 Arche

def absE (e : P256.Entity) : Arche.Entity := ⟨e.id.toNat, e.gen.toNat⟩
def absPool (p : entityPool) : Pool :=
  { ents := p.entities.arr.map absE, next := p.next.toNat, available := p.available.toNat }

theorem absPool_size (p : entityPool) : (absPool p).ents.size = p.entities.arr.size := by
  simp [absPool]

theorem copy_full {α : Type} (dst src : GoSlice α) (h : dst.arr.size = src.arr.size) : (GoSlice.copy dst src).arr = src.arr := by
  unfold GoSlice.copy
  apply Array.ext
  · simp [h]
  · intro i h1 h2
    simp [h2]

/-- `getNew` appends the new handle, whatever the capacity -/
theorem getNew_spec (p : entityPool) :
    ∃ c, entityPool.getNew p = some ({ p with entities := ⟨p.entities.arr.push ⟨BitVec.ofInt 32 p.entities.arr.size, 0#32⟩, c⟩ },
      ⟨BitVec.ofInt 32 p.entities.arr.size, 0#32⟩) := by
  have hm : GoSlice.make (α := P256.Entity) (p.entities.arr.size : Int) ((p.entities.arr.size : Int) + (p.capacityIncrement.toNat : Int))
      = some ⟨Array.replicate p.entities.arr.size default, p.entities.arr.size + p.capacityIncrement.toNat⟩ := by
    unfold GoSlice.make
    rw [if_pos ⟨by omega, by omega⟩]
    simp
    omega
  by_cases hcap : (((p.entities.arr.size : Nat) : Int) == ((p.entities.cap : Nat) : Int)) = true
  · refine ⟨if p.entities.arr.size < p.entities.arr.size + p.capacityIncrement.toNat then p.entities.arr.size + p.capacityIncrement.toNat else p.entities.arr.size + 1, ?_⟩
    simp only [entityPool.getNew, newEntity, bind, Option.bind, pure, GoSlice.size, hcap, ↓reduceIte, GoSlice.append]
    rw [hm]
    simp only []
    rw [copy_full _ _ (by simp)]
    simp [GoSlice.copy]
  · refine ⟨if p.entities.arr.size < p.entities.cap then p.entities.cap else p.entities.arr.size + 1, ?_⟩
    simp only [entityPool.getNew, newEntity, bind, Option.bind, pure, GoSlice.size, hcap, GoSlice.append]
    simp

theorem absE_inj_fields (e : P256.Entity) : (absE e).id = e.id.toNat ∧ (absE e).gen = e.gen.toNat := ⟨rfl, rfl⟩

theorem abs_getD (p : entityPool) (i : Nat) (h : i < p.entities.arr.size) :
    (absPool p).ents.getD i default = absE (p.entities.arr[i]) := by
  unfold absPool
  simp only []
  rw [Array.getD_eq_getD_getElem?, Array.getElem?_eq_getElem (by simp; exact h)]
  simp

theorem get_fresh (p : entityPool) (h0 : p.available = 0#32) :
    ∃ c, entityPool.Get p = some ({ p with entities := ⟨p.entities.arr.push ⟨BitVec.ofInt 32 p.entities.arr.size, 0#32⟩, c⟩ },
      ⟨BitVec.ofInt 32 p.entities.arr.size, 0#32⟩) := by
  obtain ⟨c, hc⟩ := getNew_spec p
  refine ⟨c, ?_⟩
  simp only [entityPool.Get, h0, bind, Option.bind, pure, hc]
  rfl

theorem get_recycled (p : entityPool) (h0 : p.available ≠ 0#32) (hn : p.next.toNat < p.entities.arr.size) :
    entityPool.Get p = some ({ p with
        entities := { p.entities with arr := p.entities.arr.setIfInBounds p.next.toNat { p.entities.arr[p.next.toNat] with id := p.next } },
        next := p.entities.arr[p.next.toNat].id, available := p.available - 1#32 },
      { p.entities.arr[p.next.toNat] with id := p.next }) := by
  have hne : (p.available == 0#32) = false := by simpa using h0
  have hg : p.entities.arr[p.next.toNat]? = some p.entities.arr[p.next.toNat] := Array.getElem?_eq_getElem hn
  simp only [entityPool.Get, hne, bind, Option.bind, pure, GoSlice.get, GoSlice.set, hg, hn, if_true, Bool.false_eq_true, if_false,
    Array.size_setIfInBounds, Array.getElem?_setIfInBounds_self_of_lt hn]

/-- **`entityPool.Get` refines `Pool.get`** as long as the pool has fewer than 2³² slots (the free
    list, when non-empty, starts inside the pool — part of the pool invariant) -/
theorem get_refines (p : entityPool) (hsz : p.entities.arr.size < 2 ^ 32)
    (hav : p.available ≠ 0#32 → p.next.toNat < p.entities.arr.size) :
    ∃ p' e, entityPool.Get p = some (p', e) ∧ absPool p' = (Pool.get (absPool p)).1 ∧ absE e = (Pool.get (absPool p)).2 := by
  by_cases h0 : p.available = 0#32
  · obtain ⟨c, hc⟩ := get_fresh p h0
    have ha : ((absPool p).available == 0) = true := by simp [absPool, h0]
    have hid : (BitVec.ofInt 32 (p.entities.arr.size : Int)).toNat = p.entities.arr.size := by
      simp only [BitVec.toNat_ofInt]
      omega
    refine ⟨_, _, hc, ?_, ?_⟩
    · unfold Pool.get
      rw [if_pos ha]
      simp only [absPool, Array.map_push, absE, hid, Array.size_map]
      rfl
    · unfold Pool.get
      rw [if_pos ha]
      simp only [absPool, absE, hid, Array.size_map]
      rfl
  · have hn := hav h0
    have ha : ((absPool p).available == 0) = false := by
      simp only [absPool, beq_eq_false_iff_ne, ne_eq]
      intro hc
      exact h0 (BitVec.eq_of_toNat_eq (by simpa using hc))
    have hpos : 0 < p.available.toNat := by
      rcases Nat.eq_zero_or_pos p.available.toNat with h | h
      · exact absurd (BitVec.eq_of_toNat_eq (by simpa using h)) h0
      · exact h
    have hsub : (p.available - 1#32).toNat = p.available.toNat - 1 := by
      rw [BitVec.toNat_sub]
      simp
      omega
    refine ⟨_, _, get_recycled p h0 hn, ?_, ?_⟩
    · unfold Pool.get
      simp only [ha, Bool.false_eq_true, if_false]
      rw [show (absPool p).next = p.next.toNat from rfl, abs_getD p _ hn]
      simp only [absPool, hsub, absE, Array.map_setIfInBounds]
    · unfold Pool.get
      simp only [ha, Bool.false_eq_true, if_false]
      rw [show (absPool p).next = p.next.toNat from rfl, abs_getD p _ hn]
      rfl

theorem recycle_zero (p : entityPool) (e : P256.Entity) (h : e.id = 0#32) : entityPool.Recycle p e = none := by
  simp [entityPool.Recycle, h]

theorem recycle_eq (p : entityPool) (e : P256.Entity) (h0 : e.id ≠ 0#32) (hin : e.id.toNat < p.entities.arr.size) :
    entityPool.Recycle p e = some { p with
      entities := { p.entities with arr := p.entities.arr.setIfInBounds e.id.toNat ⟨p.next, p.entities.arr[e.id.toNat].gen + 1#32⟩ },
      next := e.id, available := p.available + 1#32 } := by
  have hne : (e.id == 0#32) = false := by simpa using h0
  have hg : p.entities.arr[e.id.toNat]? = some p.entities.arr[e.id.toNat] := Array.getElem?_eq_getElem hin
  simp only [entityPool.Recycle, hne, bind, Option.bind, pure, GoSlice.get, GoSlice.set, hg, hin, if_true, Bool.false_eq_true, if_false,
    Array.size_setIfInBounds, Array.getElem?_setIfInBounds_self_of_lt hin, Array.setIfInBounds_setIfInBounds]

/-- **`entityPool.Recycle` refines `Pool.recycle`** for a non-zero handle inside the pool, as long
    as neither the slot's generation nor the free-list counter is at its 32-bit maximum. The
    generation bound is where the known finding K1 lives: see `recycle_wraps`. -/
theorem recycle_refines (p : entityPool) (e : P256.Entity) (h0 : e.id ≠ 0#32) (hin : e.id.toNat < p.entities.arr.size)
    (hgen : p.entities.arr[e.id.toNat].gen.toNat < 2 ^ 32 - 1) (hav : p.available.toNat < 2 ^ 32 - 1) :
    ∃ p', entityPool.Recycle p e = some p' ∧ absPool p' = Pool.recycle (absPool p) (absE e) := by
  refine ⟨_, recycle_eq p e h0 hin, ?_⟩
  unfold Pool.recycle
  rw [show (absE e).id = e.id.toNat from rfl, abs_getD p _ hin]
  have h1 : (p.entities.arr[e.id.toNat].gen + 1#32).toNat = p.entities.arr[e.id.toNat].gen.toNat + 1 := by
    rw [BitVec.toNat_add]; simp; omega
  have h2 : (p.available + 1#32).toNat = p.available.toNat + 1 := by
    rw [BitVec.toNat_add]; simp; omega
  simp only [absPool, Array.map_setIfInBounds, absE, h1, h2]

/-- the excluded point is real (known finding K1): recycling a slot whose generation is 2³²−1
    wraps to generation 0 in the Go code, while the unbounded model moves on to 2³² -/
theorem recycle_wraps :
    let p : entityPool := { entities := ⟨#[⟨0#32, 4294967295#32⟩, ⟨1#32, 4294967295#32⟩], 2⟩, next := 0#32, available := 0#32, capacityIncrement := 1#32 }
    (entityPool.Recycle p ⟨1#32, 4294967295#32⟩).map (fun q => (absPool q).ents.map (·.gen)) = some #[4294967295, 0] ∧
    ((Pool.recycle (absPool p) ⟨1, 4294967295⟩).ents.map (·.gen)) = #[4294967295, 4294967296] := by
  decide +kernel

/-- `entityPool.Alive` is `Pool.alive?`: the same answer, and the same index panic for an id
    beyond the pool -/
theorem alive_refines (p : entityPool) (e : P256.Entity) :
    (entityPool.Alive p e).map (·.2) = Pool.alive? (absPool p) (absE e) ∧ (∀ r, entityPool.Alive p e = some r → r.1 = p) := by
  unfold entityPool.Alive Pool.alive?
  simp only [bind, Option.bind, pure, GoSlice.get, absPool_size]
  by_cases hin : e.id.toNat < p.entities.arr.size
  · rw [Array.getElem?_eq_getElem hin]
    simp only [Option.map, show (absE e).id = e.id.toNat from rfl, dif_pos hin]
    refine ⟨?_, fun r hr => by cases hr; rfl⟩
    congr 1
    have : (absPool p).ents[e.id.toNat]'(by rw [absPool_size]; exact hin) = absE p.entities.arr[e.id.toNat] := by
      simp [absPool]
    rw [this]
    simp only [absE]
    rw [Bool.eq_iff_iff, beq_iff_eq, beq_iff_eq, BitVec.toNat_inj]
  · rw [Array.getElem?_eq_none (by omega)]
    simp only [Option.map, show (absE e).id = e.id.toNat from rfl, dif_neg hin]
    exact ⟨by first | rfl | trivial, fun r hr => by cases hr⟩

theorem reset_refines (p : entityPool) (h1 : 1 ≤ p.entities.arr.size) :
    ∃ p', entityPool.Reset p = some p' ∧ absPool p' = Pool.reset (absPool p) := by
  have hp : GoSlice.prefix p.entities (1 : Int) = some ⟨p.entities.arr.extract 0 1, p.entities.cap⟩ := by
    unfold GoSlice.prefix
    rw [if_pos ⟨by omega, by simpa using h1⟩]
    rfl
  refine ⟨{ p with entities := ⟨p.entities.arr.extract 0 1, p.entities.cap⟩, next := 0#32, available := 0#32 }, ?_, ?_⟩
  · simp only [entityPool.Reset, bind, Option.bind, pure, hp]
  · simp [absPool, Pool.reset]

theorem len_refines (p : entityPool) (h : p.available.toNat + 1 ≤ p.entities.arr.size) :
    (entityPool.Len p).map (·.2) = some ((Pool.len (absPool p) : Nat) : Int) := by
  simp only [entityPool.Len, bind, Option.bind, pure, Option.map, GoSlice.size, Pool.len, absPool_size]
  congr 1
  simp only [absPool]
  omega

theorem init_refines (inc : BitVec 32) (h : 0 < inc.toNat) :
    ∃ p, newEntityPool inc = some p ∧ absPool p = Pool.init := by
  have hm : GoSlice.make (α := P256.Entity) (1 : Int) ((inc.toNat : Nat) : Int) = some ⟨Array.replicate 1 default, inc.toNat⟩ := by
    unfold GoSlice.make
    rw [if_pos ⟨by omega, by omega⟩]
    rfl
  refine ⟨_, by simp only [newEntityPool, bind, Option.bind, pure, hm, GoInt.toIndex, GoSlice.set]; rfl, ?_⟩
  simp [absPool, Pool.init, absE]

def poolView (p : Pool) : List (Nat × Nat) := p.ents.toList.map (fun e => (e.id, e.gen)) ++ [(p.next, p.available)]

abbrev DemoOut := List Nat × Bool × List (Nat × Nat)

def demoRun : Option DemoOut := do
  let p ← newEntityPool 4#32
  let (p, a) ← entityPool.Get p
  let (p, b) ← entityPool.Get p
  let p ← entityPool.Recycle p a
  let (p, c) ← entityPool.Get p
  let (_, al) ← entityPool.Alive p a
  pure ([(absE a).id, (absE a).gen, (absE b).id, (absE c).id, (absE c).gen], al, poolView (absPool p))

def demoModel : Option DemoOut :=
  some ([1, 0, 2, 1, 1], false, poolView (((Pool.init.get.1.get.1.recycle ⟨1, 0⟩).get).1))

/-- the premises are satisfiable and the regenerated code runs: create two entities, remove the
    first, create again — the recycled id comes back with the next generation, exactly as in the
    model (a closed test, evaluated by the kernel) -/
theorem demo_agrees : demoRun = demoModel := by decide +kernel

end Arche.Props.C02_Pool
