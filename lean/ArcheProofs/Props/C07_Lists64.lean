/-
  C07 companion — the two containers behind the filter cache, REGENERATED on every run
  (ArcheGen/Pool64.lean):

  * `intPool[uint32]` (ecs/pool.go) hands out the filter ids. `Cache` never recycles an id, so
    `available` stays 0 and every `Get` returns the number of ids handed out so far
    (`get_fresh`, `gets_fresh`): ids of registrations are pairwise different for the whole life of
    the world, which is what makes a stale `CachedFilter` unusable rather than silently bound to a
    later registration. This is the model's counter `cacheNext`.
  * `pointers[T]` (ecs/archetypes.go) holds the tables of a cache entry. `Add` appends, `RemoveAt`
    is the model's `removeAt` (move the last element into the gap, report whether something
    moved): `add_refines`, `removeAt_refines`, `get_refines`, `len_refines`.
-/
import ArcheGen.Pool64
import ArcheModel
import ArcheProofs.Props.C02_Pool64

namespace Arche.Props.C07_Lists64
open ArcheGen ArcheGen.P64 Arche

/-! ## filter ids -/

theorem intPool_getNew (p : intPool) :
    ∃ c, intPool.getNew p = some ({ p with pool := ⟨p.pool.arr.push (BitVec.ofInt 32 p.pool.arr.size), c⟩ }, BitVec.ofInt 32 p.pool.arr.size) := by
  have hm : GoSlice.make (α := BitVec 32) (p.pool.arr.size : Int) ((p.pool.arr.size : Int) + (p.capacityIncrement.toNat : Int))
      = some ⟨Array.replicate p.pool.arr.size default, p.pool.arr.size + p.capacityIncrement.toNat⟩ := by
    unfold GoSlice.make
    rw [if_pos ⟨by omega, by omega⟩]
    simp
    omega
  by_cases hcap : (((p.pool.arr.size : Nat) : Int) == ((p.pool.cap : Nat) : Int)) = true
  · refine ⟨if p.pool.arr.size < p.pool.arr.size + p.capacityIncrement.toNat then p.pool.arr.size + p.capacityIncrement.toNat else p.pool.arr.size + 1, ?_⟩
    simp only [intPool.getNew, bind, Option.bind, pure, GoSlice.size, hcap, ↓reduceIte, GoSlice.append]
    rw [hm]
    simp only []
    rw [C02_Pool64.copy_full _ _ (by simp)]
    simp [GoSlice.copy]
  · refine ⟨if p.pool.arr.size < p.pool.cap then p.pool.cap else p.pool.arr.size + 1, ?_⟩
    simp only [intPool.getNew, bind, Option.bind, pure, GoSlice.size, hcap, GoSlice.append]
    simp

/-- with nothing recycled, `Get` returns the number of ids handed out so far -/
theorem get_fresh (p : intPool) (h0 : p.available = 0#32) :
    ∃ p', intPool.Get p = some (p', BitVec.ofInt 32 p.pool.arr.size) ∧ p'.available = 0#32 ∧ p'.pool.arr.size = p.pool.arr.size + 1 := by
  obtain ⟨c, hc⟩ := intPool_getNew p
  have hb : (p.available == 0#32) = true := by simp [h0]
  refine ⟨{ p with pool := ⟨p.pool.arr.push (BitVec.ofInt 32 p.pool.arr.size), c⟩ }, ?_, h0, by simp⟩
  simp only [intPool.Get, hb, if_true, bind, Option.bind, pure, hc]

/-- the ids of `n` registrations -/
def gets : Nat → intPool → Option (intPool × List (BitVec 32))
  | 0, p => some (p, [])
  | n + 1, p => do
    let (p, id) ← intPool.Get p
    let (p, ids) ← gets n p
    pure (p, id :: ids)

/-- **registrations get the ids `k, k+1, …`** (k = ids handed out before): pairwise different -/
theorem gets_fresh (n : Nat) (p : intPool) (h0 : p.available = 0#32) :
    ∃ p', gets n p = some (p', (List.range' p.pool.arr.size n).map (fun (i : Nat) => BitVec.ofInt 32 (i : Int))) ∧ p'.available = 0#32 ∧
      p'.pool.arr.size = p.pool.arr.size + n := by
  induction n generalizing p with
  | zero => exact ⟨p, rfl, h0, rfl⟩
  | succ n ih =>
    obtain ⟨p1, h1, a1, s1⟩ := get_fresh p h0
    obtain ⟨p2, h2, a2, s2⟩ := ih p1 a1
    refine ⟨p2, ?_, a2, by omega⟩
    simp only [gets, bind, Option.bind, pure, h1, h2, s1, List.range'_succ, List.map_cons]

theorem new_pool (inc : BitVec 32) : ∃ p, newIntPool inc = some p ∧ p.available = 0#32 ∧ p.pool.arr.size = 0 := by
  have hm : GoSlice.make (α := BitVec 32) (0 : Int) ((inc.toNat : Nat) : Int) = some ⟨#[], inc.toNat⟩ := by
    unfold GoSlice.make
    rw [if_pos ⟨by omega, by omega⟩]
    rfl
  exact ⟨{ pool := ⟨#[], inc.toNat⟩, next := 0#32, available := 0#32, capacityIncrement := inc }, by simp only [newIntPool, bind, Option.bind, pure, hm], rfl, rfl⟩

/-! ## the table lists of cache entries -/
section
variable {T : Type} [Inhabited T]

/-- a list of non-nil pointers -/
def Rep (a : _root_.ArcheGen.P64.pointers Nat) (l : Array Nat) : Prop := a.pointers.arr = l.map some

theorem add_refines (a : _root_.ArcheGen.P64.pointers Nat) (l : Array Nat) (h : Rep a l) (t : Nat) :
    ∃ a', pointers.Add a (some t) = some a' ∧ Rep a' (l.push t) := by
  refine ⟨_, rfl, ?_⟩
  unfold Rep at *
  simp [GoSlice.append, h]

theorem len_refines (a : _root_.ArcheGen.P64.pointers Nat) (l : Array Nat) (h : Rep a l) :
    pointers.Len a = some (a, BitVec.ofInt 32 (l.size : Int)) := by
  unfold Rep at h
  simp [pointers.Len, pure, GoSlice.size, h]

theorem get_refines (a : _root_.ArcheGen.P64.pointers Nat) (l : Array Nat) (h : Rep a l) (i : Nat) (hi : i < l.size) (h31 : i < 2 ^ 31) :
    pointers.Get a (BitVec.ofNat 32 i) = some (a, some l[i]) := by
  unfold Rep at h
  have hint : (BitVec.ofNat 32 i).toInt = (i : Int) := by
    rw [BitVec.toInt_eq_toNat_cond]
    simp only [BitVec.toNat_ofNat]
    have : i % 2 ^ 32 = i := Nat.mod_eq_of_lt (by omega)
    rw [this]
    split <;> omega
  simp only [pointers.Get, bind, Option.bind, pure, hint, GoInt.toIndex, GoSlice.get, h]
  rw [if_pos (by omega)]
  simp [hi]

/-- **`RemoveAt` is the model's `removeAt`** -/
theorem removeAt_refines (a : _root_.ArcheGen.P64.pointers Nat) (l : Array Nat) (h : Rep a l) (i : Nat) (hi : i < l.size) :
    ∃ a', pointers.RemoveAt a (i : Int) = some (a', (World.removeAt l i).2) ∧ Rep a' (World.removeAt l i).1 := by
  unfold Rep at h
  have hsz : a.pointers.arr.size = l.size := by rw [h]; simp
  have hsz' : a.pointers.size = l.size := hsz
  unfold World.removeAt
  by_cases hlast : i + 1 = l.size
  · have hb : (i + 1 == l.size) = true := by simpa using hlast
    have hc : (((i : Nat) : Int) == (((a.pointers.size : Nat) : Int) - 1)) = true := by
      rw [beq_iff_eq, hsz']; omega
    have hpre : GoSlice.prefix ({ a.pointers with arr := a.pointers.arr.setIfInBounds i none } : GoSlice (Option Nat)) (i : Int) =
        some ⟨(a.pointers.arr.setIfInBounds i none).extract 0 i, a.pointers.cap⟩ := by
      unfold GoSlice.prefix
      rw [if_pos ⟨by omega, by simp; omega⟩]
      rfl
    refine ⟨⟨⟨(a.pointers.arr.setIfInBounds i none).extract 0 i, a.pointers.cap⟩⟩, ?_, ?_⟩
    · simp only [pointers.RemoveAt, bind, Option.bind, pure, hc, if_true, GoInt.toIndex, GoSlice.set]
      rw [if_pos (by omega : (0 : Int) ≤ (i : Int))]
      simp only [Int.toNat_natCast, show i < a.pointers.arr.size by omega, if_true, hpre, hb]
    · rw [if_pos hb]
      unfold Rep
      simp only []
      apply Array.ext_getElem?
      intro j
      rw [Array.getElem?_extract, Array.getElem?_map, Array.getElem?_pop]
      simp only [Nat.zero_add, Nat.sub_zero, Array.size_setIfInBounds, hsz]
      by_cases hj : j < i
      · rw [if_pos (by omega), if_pos (by omega), Array.getElem?_setIfInBounds_ne (by omega), h, Array.getElem?_map]
      · rw [if_neg (by omega), if_neg (by omega)]; rfl
  · have hb : (i + 1 == l.size) = false := by simpa using hlast
    have hc : (((i : Nat) : Int) == (((a.pointers.size : Nat) : Int) - 1)) = false := by
      rw [beq_eq_false_iff_ne, hsz']; omega
    have hl1 : ((((a.pointers.size : Nat) : Int) - 1)).toNat = l.size - 1 := by rw [hsz']; omega
    have hl0 : (0 : Int) ≤ ((a.pointers.size : Nat) : Int) - 1 := by rw [hsz']; omega
    have hgl : a.pointers.arr[l.size - 1]? = some (some (l.getD (l.size - 1) 0)) := by
      rw [h, Array.getElem?_map, Array.getElem?_eq_getElem (by omega)]
      simp [Array.getD_eq_getD_getElem?, Array.getElem?_eq_getElem (show l.size - 1 < l.size by omega)]
    have hpre : ∀ (arr : Array (Option Nat)), arr.size = l.size →
        GoSlice.prefix (⟨arr, a.pointers.cap⟩ : GoSlice (Option Nat)) (((a.pointers.size : Nat) : Int) - 1) =
        some ⟨arr.extract 0 (l.size - 1), a.pointers.cap⟩ := by
      intro arr harr
      unfold GoSlice.prefix
      rw [if_pos ⟨hl0, by rw [hl1]; simp; omega⟩, hl1]
    refine ⟨⟨⟨((a.pointers.arr.setIfInBounds i (some (l.getD (l.size - 1) 0))).setIfInBounds (l.size - 1) none).extract 0 (l.size - 1), a.pointers.cap⟩⟩, ?_, ?_⟩
    · simp only [pointers.RemoveAt, bind, Option.bind, pure, hc, Bool.false_eq_true, if_false, GoInt.toIndex, GoSlice.set, GoSlice.get]
      rw [if_pos (by omega : (0 : Int) ≤ (i : Int)), if_pos hl0]
      simp only [Int.toNat_natCast, hl1, hgl, show i < a.pointers.arr.size by omega, if_true, Array.size_setIfInBounds,
        show l.size - 1 < a.pointers.arr.size by omega]
      rw [hpre _ (by rw [Array.size_setIfInBounds, Array.size_setIfInBounds]; exact hsz)]
      simp only [hb, Bool.false_eq_true, if_false]
    · rw [if_neg (by simpa using hlast)]
      unfold Rep
      simp only []
      apply Array.ext_getElem?
      intro j
      rw [Array.getElem?_extract, Array.getElem?_map, Array.getElem?_pop]
      simp only [Nat.zero_add, Nat.sub_zero, Array.size_setIfInBounds, hsz]
      by_cases hj : j < l.size - 1
      · rw [if_pos (by omega), if_pos (by omega), Array.getElem?_setIfInBounds_ne (by omega)]
        rw [Array.getElem?_setIfInBounds, Array.getElem?_setIfInBounds]
        by_cases hji : i = j
        · rw [if_pos hji, if_pos hji, if_pos (by omega), if_pos (by omega)]; rfl
        · rw [if_neg hji, if_neg hji, h, Array.getElem?_map]
      · rw [if_neg (by omega), if_neg (by omega)]; rfl
end

end Arche.Props.C07_Lists64
