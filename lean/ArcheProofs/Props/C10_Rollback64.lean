/-
  C10 companion — a component registration refused in a locked world. `World.componentID`
  registers the type first and rolls the registration back (`unregisterLastComponent`) when the
  world turns out to be locked, before it panics. On the registry REGENERATED from ecs/registry.go
  that roll-back is exact (`C16_Registry64.rollback_exact`); restated here as the C10 clause: after
  the refused call every observable of the registry — the id of every type, the number of types,
  which ids are used, which are relations, the type table and the id list — is what it was before.
-/
import ArcheProofs.Props.C16_Registry64

namespace Arche.Props.C10_Rollback64
open ArcheGen ArcheGen.P64 Arche Arche.Props

/-- **a refused registration leaves the registry as it was** -/
theorem refused_registration_leaves_no_trace (isRel : GoAny → Bool) (r : componentRegistry) (I : C16_Registry64.RInv r) (tp : GoAny)
    (hn : r.Components.len < 64) (hnew : r.Components.find tp = none) :
    ∃ r1 id r2, componentRegistry.ComponentID isRel r tp = some (r1, (id, true)) ∧
      componentRegistry.unregisterLastComponent r1 = some r2 ∧
      (∀ tp', r2.Components.find tp' = r.Components.find tp') ∧ r2.Components.len = r.Components.len ∧
      r2.Used = r.Used ∧ r2.IsRelation = r.IsRelation ∧ r2.Types = r.Types ∧ r2.IDs.arr = r.IDs.arr := by
  obtain ⟨r2, h2, hc, ht, hi, hu, hr⟩ := C16_Registry64.rollback_exact isRel r I tp hn hnew
  exact ⟨_, _, r2, C16_Registry64.componentID_new isRel r I tp hn hnew, h2, fun _ => by rw [hc], by rw [hc], hu, hr, ht, hi⟩

/-- a type the registry already knows is not registered again, so nothing needs rolling back -/
theorem known_type_untouched (isRel : GoAny → Bool) (r : componentRegistry) (tp : GoAny) (id : BitVec 8)
    (h : r.Components.find tp = some id) :
    componentRegistry.ComponentID isRel r tp = some (r, (id, false)) :=
  C16_Registry64.componentID_known isRel r tp id h

end Arche.Props.C10_Rollback64
