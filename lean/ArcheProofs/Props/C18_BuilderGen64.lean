/-
  C18 (companion, tiny build: 64-bit masks) — the generic filter builder REGENERATED from the source: `compiledQuery` (generic/compiled.go:
  Compile, Reset, Register, Unregister) and `Filter0` (generic/query_generated.go: With, Without, Exclusive,
  WithRelation, Filter, Register, Unregister) as the representative of the generated FilterN family (the fact tables
  of C18 show that the N variants have the same bodies). The world (`toIds`, `toMask`, `TypeID`, the filter cache),
  reflection and the core filter types are outside the module: state-threading / uninterpreted parameters.

  What is proved: what a builder call does to the configuration and when it is refused; that every accepted builder
  call invalidates the compilation; that a compilation is a function of the CURRENT configuration only (nothing of an
  earlier compilation survives in the filter, the mask filter, the ids or the relation fields); that a fixed relation
  target is sticky; the refusals of `Filter` with a target; and the registration cycle.
-/
import ArcheGen.Gen64

namespace Arche.Props.C18_BuilderGen64
open ArcheGen ArcheGen.P64 ArcheGen.G64

/-! ### builder calls -/

/-- the compilation is invalidated -/
def invalidate (q : compiledQuery) : compiledQuery := { q with compiled := false }

/-- `With`: refused on a registered filter; otherwise the components join the included ones, the compilation is
    invalidated and nothing else changes -/
theorem with_eq (f : Filter0) (m : GoSlice GoAny) :
    Filter0.With f m = if f.compiled.locked = true then none
      else some { f with included := GoSlice.appendAll f.included m, compiled := invalidate f.compiled } := by
  unfold Filter0.With compiledQuery.Reset invalidate
  split <;> rfl

/-- `Without`: refused on a registered or exclusive filter -/
theorem without_eq (f : Filter0) (m : GoSlice GoAny) :
    Filter0.Without f m = if f.compiled.locked = true then none else if f.exclusive = true then none
      else some { f with exclude := GoSlice.appendAll f.exclude m, compiled := invalidate f.compiled } := by
  unfold Filter0.Without compiledQuery.Reset invalidate
  split
  · rfl
  · split <;> rfl

/-- `Exclusive`: refused on a registered filter and on one that already excludes components -/
theorem exclusive_eq (f : Filter0) :
    Filter0.Exclusive f = if f.compiled.locked = true then none else if 0 < f.exclude.size then none
      else some { f with exclusive := true, compiled := invalidate f.compiled } := by
  unfold Filter0.Exclusive compiledQuery.Reset invalidate
  split
  · rfl
  · by_cases he : 0 < f.exclude.size
    · have : (0 : Int) < ((f.exclude.size : Nat) : Int) := by omega
      simp [he, this]
    · have : ¬ (0 : Int) < ((f.exclude.size : Nat) : Int) := by omega
      simp only [this, he, decide_false, Bool.false_eq_true, ↓reduceIte]
      rfl

/-- `WithRelation`: refused on a registered filter; otherwise the relation type is set, and a target — if one is
    given — becomes the fixed target; **without a target argument a target fixed earlier stays fixed** -/
theorem withRelation_eq (f : Filter0) (c : GoAny) (t : GoSlice Entity) :
    Filter0.WithRelation f c t = if f.compiled.locked = true then none
      else match t.arr[0]? with
        | some e => some { f with targetType := c, target := e, hasTarget := true, compiled := invalidate f.compiled }
        | none => some { f with targetType := c, compiled := invalidate f.compiled } := by
  unfold Filter0.WithRelation compiledQuery.Reset invalidate
  split
  · rfl
  · cases ht : t.arr[0]? with
    | none =>
      have hs : t.arr.size = 0 := by
        rcases Nat.eq_zero_or_pos t.arr.size with h0 | h0
        · exact h0
        · simp [Array.getElem?_eq_getElem h0] at ht
      have : ¬ (0 : Int) < ((t.size : Nat) : Int) := by unfold GoSlice.size; omega
      simp only [this, decide_false, Bool.false_eq_true, ↓reduceIte]
      rfl
    | some e =>
      have hs : 0 < t.arr.size := by
        rcases Nat.eq_zero_or_pos t.arr.size with h0 | h0
        · simp [h0] at ht
        · exact h0
      have : (0 : Int) < ((t.size : Nat) : Int) := by unfold GoSlice.size; omega
      simp only [this, decide_true, ↓reduceIte, GoInt.toIndex, GoSlice.get]
      simp [ht]

/-- every accepted builder call invalidates the compilation, so the next use compiles the new configuration -/
theorem builder_invalidates (f f' : Filter0) (m : GoSlice GoAny) (c : GoAny) (t : GoSlice Entity)
    (h : Filter0.With f m = some f' ∨ Filter0.Without f m = some f' ∨ Filter0.Exclusive f = some f' ∨ Filter0.WithRelation f c t = some f') :
    f'.compiled.compiled = false ∧ f'.compiled.locked = false := by
  rcases h with h | h | h | h
  · rw [with_eq] at h; split at h
    · cases h
    · rename_i hl; simp only [Option.some.injEq] at h; subst h; exact ⟨rfl, by simpa [invalidate] using hl⟩
  · rw [without_eq] at h; split at h
    · cases h
    · split at h
      · cases h
      · rename_i hl _; simp only [Option.some.injEq] at h; subst h; exact ⟨rfl, by simpa [invalidate] using hl⟩
  · rw [exclusive_eq] at h; split at h
    · cases h
    · split at h
      · cases h
      · rename_i hl _; simp only [Option.some.injEq] at h; subst h; exact ⟨rfl, by simpa [invalidate] using hl⟩
  · rw [withRelation_eq] at h; split at h
    · cases h
    · rename_i hl
      split at h <;> (simp only [Option.some.injEq] at h; subst h; exact ⟨rfl, by simpa [invalidate] using hl⟩)

/-- **a fixed relation target is sticky**: a later `WithRelation` without a target keeps it -/
theorem fixed_target_sticky (f f' : Filter0) (c : GoAny) (t : GoSlice Entity) (ht : t.arr[0]? = none)
    (h : Filter0.WithRelation f c t = some f') : f'.hasTarget = f.hasTarget ∧ f'.target = f.target ∧ f'.targetType = c := by
  rw [withRelation_eq] at h
  split at h
  · cases h
  · rw [ht] at h
    simp only [Option.some.injEq] at h
    subst h
    exact ⟨rfl, rfl, rfl⟩

/-! ### compilation -/

section
variable {Ext : Type}
  (isRelationTypeF : GoAny → Bool) (ofMaskF : M64.Mask → GoAny) (ofMaskFilterF : M64.MaskFilter → GoAny)
  (relFilterF : M64.MaskFilter → Entity → GoAny) (toIdsF : Ext → GoSlice GoAny → Ext × GoSlice (BitVec 8))
  (toMaskF : Ext → GoSlice GoAny → Ext × M64.Mask) (toMaskOptionalF : Ext → GoSlice (BitVec 8) → GoSlice GoAny → Ext × M64.Mask)
  (typeIDF : Ext → GoAny → Ext × BitVec 8)
  (cacheRegisterF : Ext → GoAny → Ext × CachedFilter) (cacheUnregisterF : Ext → CachedFilter → Ext × GoAny)
  (ofCachedF : CachedFilter → GoAny) (asCachedFilterF : GoAny → Option CachedFilter)

/-- a compiled query is not compiled again -/
theorem compile_cached (q : compiledQuery) (w : Option Nat) (inc opt exc : GoSlice GoAny) (excl : Bool) (tt : GoAny) (tg : Entity) (ht : Bool) (ext : Ext)
    (h : q.compiled = true) :
    compiledQuery.Compile isRelationTypeF ofMaskF ofMaskFilterF relFilterF toIdsF toMaskF toMaskOptionalF typeIDF q w inc opt exc excl tt tg ht ext = some (q, ext) := by
  simp [compiledQuery.Compile, h]

/-- the mask filter a configuration describes (include mask without the optional ids; exclude mask, or the complement
    of the include mask for an exclusive filter), with the hidden state after the ids were looked up -/
def maskFilterOf (inc opt exc : GoSlice GoAny) (excl : Bool) (ext : Ext) : Ext × M64.MaskFilter :=
  let r1 := toIdsF ext inc
  let r2 := toMaskOptionalF r1.1 r1.2 opt
  if excl then (r2.1, ⟨r2.2, r2.2.Not⟩)
  else
    let r3 := toMaskF r2.1 exc
    (r3.1, ⟨r2.2, r3.2⟩)

/-- the filter value a configuration describes -/
def filterOf (mf : M64.MaskFilter) (noExclude : Bool) (tt : GoAny) (tg : Entity) (ht : Bool) : GoAny :=
  if tt.isNone || !ht then (if noExclude then ofMaskF mf.Include else ofMaskFilterF mf) else relFilterF mf tg

/-- **a compilation is a function of the current configuration only**: whenever an uncompiled query compiles, its
    mask filter, ids, relation fields and filter value are those the arguments describe — nothing of what the
    fields held before (an earlier compilation of the same object) survives — and it is marked compiled; the
    registration fields are untouched -/
theorem compile_spec (q q' : compiledQuery) (w : Option Nat) (inc opt exc : GoSlice GoAny) (excl : Bool) (tt : GoAny) (tg : Entity) (ht : Bool)
    (ext ext' : Ext) (hc : q.compiled = false)
    (h : compiledQuery.Compile isRelationTypeF ofMaskF ofMaskFilterF relFilterF toIdsF toMaskF toMaskOptionalF typeIDF q w inc opt exc excl tt tg ht ext = some (q', ext')) :
    let mf := (maskFilterOf toIdsF toMaskF toMaskOptionalF inc opt exc excl ext)
    q'.compiled = true ∧ q'.maskFilter = mf.2 ∧ q'.Ids = (toIdsF ext inc).2 ∧
    q'.filter = filterOf ofMaskF ofMaskFilterF relFilterF mf.2 (!excl && exc.size == 0) tt tg ht ∧
    q'.HasRelation = tt.isSome ∧ q'.locked = q.locked ∧ q'.cachedFilter = q.cachedFilter ∧
    (tt.isSome = true → q'.Relation = (typeIDF mf.1 tt).2 ∧ mf.2.Include.Get (typeIDF mf.1 tt).2 = true ∧ isRelationTypeF tt = true ∧
        (ht = true → q'.Target = tg)) := by
  unfold compiledQuery.Compile at h
  simp only [hc, Bool.false_eq_true, ↓reduceIte, Option.bind_eq_bind, pure] at h
  unfold maskFilterOf filterOf
  have hsz : ((((exc.size : Nat) : Int) == 0) = (exc.size == 0)) := by
    cases hn : exc.size with
    | zero => rfl
    | succ n => simp; omega
  simp only [hsz] at h
  repeat' (first | split at h | (simp only [Option.bind_some] at h))
  all_goals (first | (cases h; done) | skip)
  all_goals (simp only [Option.some.injEq, Prod.mk.injEq] at h; obtain ⟨hq, he⟩ := h; subst hq; subst he)
  all_goals (try simp_all)
  all_goals (cases tt <;> simp_all)

/-- a relation type that is not among the included components, or is not a relation, refuses the compilation -/
theorem compile_refuses (q : compiledQuery) (w : Option Nat) (inc opt exc : GoSlice GoAny) (excl : Bool) (tt : GoAny) (tg : Entity) (ht : Bool)
    (ext : Ext) (hc : q.compiled = false) (htt : tt.isSome = true)
    (hbad : (maskFilterOf toIdsF toMaskF toMaskOptionalF inc opt exc excl ext).2.Include.Get
              (typeIDF (maskFilterOf toIdsF toMaskF toMaskOptionalF inc opt exc excl ext).1 tt).2 = false ∨ isRelationTypeF tt = false) :
    compiledQuery.Compile isRelationTypeF ofMaskF ofMaskFilterF relFilterF toIdsF toMaskF toMaskOptionalF typeIDF q w inc opt exc excl tt tg ht ext = none := by
  cases hres : compiledQuery.Compile isRelationTypeF ofMaskF ofMaskFilterF relFilterF toIdsF toMaskF toMaskOptionalF typeIDF q w inc opt exc excl tt tg ht ext with
  | none => rfl
  | some r =>
    obtain ⟨q', ext'⟩ := r
    have := compile_spec isRelationTypeF ofMaskF ofMaskFilterF relFilterF toIdsF toMaskF toMaskOptionalF typeIDF q q' w inc opt exc excl tt tg ht ext ext' hc hres
    obtain ⟨_, _, _, _, _, _, _, h8⟩ := this
    obtain ⟨_, h2, h3, _⟩ := h8 htt
    rcases hbad with hb | hb
    · rw [hb] at h2; cases h2
    · rw [hb] at h3; cases h3

/-! ### registration -/

theorem register_eq (q : compiledQuery) (w : Option Nat) (ext : Ext) :
    compiledQuery.Register cacheRegisterF ofCachedF q w ext =
      some ({ q with cachedFilter := (cacheRegisterF ext q.filter).2, filter := ofCachedF (cacheRegisterF ext q.filter).2, locked := true },
            (cacheRegisterF ext q.filter).1) := rfl

/-- **unregistering a filter that is not registered panics** (the query's filter is not a cached filter) and is the
    only refusal -/
theorem unregister_eq (q : compiledQuery) (w : Option Nat) (ext : Ext) :
    compiledQuery.Unregister asCachedFilterF cacheUnregisterF q w ext =
      match asCachedFilterF q.filter with
      | none => none
      | some cf => some ({ q with filter := (cacheUnregisterF ext cf).2, locked := false }, (cacheUnregisterF ext cf).1) := by
  unfold compiledQuery.Unregister
  cases h : asCachedFilterF q.filter <;> simp [h, bind, Option.bind, pure]

/-- a filter value produced by a compilation is never a cached filter: `Unregister` on a compiled but unregistered
    query panics, whatever the cache holds (hypotheses: the injections of the other filter kinds are not cached filters) -/
theorem unregister_unregistered (q q' : compiledQuery) (w : Option Nat) (inc opt exc : GoSlice GoAny) (excl : Bool) (tt : GoAny) (tg : Entity) (ht : Bool)
    (ext ext' : Ext) (hc : q.compiled = false)
    (h1 : ∀ m, asCachedFilterF (ofMaskF m) = none) (h2 : ∀ m, asCachedFilterF (ofMaskFilterF m) = none) (h3 : ∀ m e, asCachedFilterF (relFilterF m e) = none)
    (h : compiledQuery.Compile isRelationTypeF ofMaskF ofMaskFilterF relFilterF toIdsF toMaskF toMaskOptionalF typeIDF q w inc opt exc excl tt tg ht ext = some (q', ext')) :
    compiledQuery.Unregister asCachedFilterF cacheUnregisterF q' w ext' = none := by
  have := compile_spec isRelationTypeF ofMaskF ofMaskFilterF relFilterF toIdsF toMaskF toMaskOptionalF typeIDF q q' w inc opt exc excl tt tg ht ext ext' hc h
  obtain ⟨_, _, _, hf, _⟩ := this
  rw [unregister_eq, hf]
  have hn : asCachedFilterF (filterOf ofMaskF ofMaskFilterF relFilterF (maskFilterOf toIdsF toMaskF toMaskOptionalF inc opt exc excl ext).2
      (!excl && exc.size == 0) tt tg ht) = none := by
    unfold filterOf
    split
    · split
      · exact h1 _
      · exact h2 _
    · exact h3 _ _
  rw [hn]

/-- registering and unregistering hands the original filter back and unlocks the builder (hypotheses: a cached filter
    is recognised as such, and the cache returns what was registered) -/
theorem register_unregister (q : compiledQuery) (w : Option Nat) (ext : Ext)
    (hinj : ∀ c, asCachedFilterF (ofCachedF c) = some c)
    (hcache : ∀ ext f, (cacheUnregisterF (cacheRegisterF ext f).1 (cacheRegisterF ext f).2).2 = f) :
    ∃ q2 e2, compiledQuery.Register cacheRegisterF ofCachedF q w ext = some (q2, e2) ∧ q2.locked = true ∧
      ∃ q3 e3, compiledQuery.Unregister asCachedFilterF cacheUnregisterF q2 w e2 = some (q3, e3) ∧
        q3.filter = q.filter ∧ q3.locked = false ∧ q3.maskFilter = q.maskFilter ∧ q3.compiled = q.compiled := by
  refine ⟨_, _, register_eq cacheRegisterF ofCachedF q w ext, rfl, ?_⟩
  rw [unregister_eq]
  simp only [hinj]
  exact ⟨_, _, rfl, hcache ext q.filter, rfl, rfl, rfl⟩

/-! ### `Filter0.Filter` -/

/-- a target handed to `Filter` / `Query` is refused on a registered filter and on one with a fixed target -/
theorem filter_target_refused (f : Filter0) (w : Option Nat) (t : GoSlice Entity) (ext : Ext) (ht : 0 < t.size)
    (h : f.compiled.locked = true ∨ f.hasTarget = true) :
    Filter0.Filter isRelationTypeF ofMaskF ofMaskFilterF relFilterF toIdsF toMaskF toMaskOptionalF typeIDF f w t ext = none := by
  unfold Filter0.Filter
  cases hcmp : compiledQuery.Compile isRelationTypeF ofMaskF ofMaskFilterF relFilterF toIdsF toMaskF toMaskOptionalF typeIDF f.compiled w f.included
      f.optional f.exclude f.exclusive f.targetType f.target f.hasTarget ext with
  | none => simp [bind, Option.bind]
  | some r =>
    obtain ⟨c, e⟩ := r
    have hz : (0 : Int) < ((t.size : Nat) : Int) := by omega
    have hlock : c.locked = f.compiled.locked := by
      by_cases hc : f.compiled.compiled = true
      · rw [compile_cached _ _ _ _ _ _ _ _ _ _ _ _ _ _ _ _ _ _ hc] at hcmp
        simp only [Option.some.injEq, Prod.mk.injEq] at hcmp
        rw [← hcmp.1]
      · have hc' : f.compiled.compiled = false := by simpa using hc
        have := compile_spec isRelationTypeF ofMaskF ofMaskFilterF relFilterF toIdsF toMaskF toMaskOptionalF typeIDF _ _ _ _ _ _ _ _ _ _ _ _ hc' hcmp
        exact this.2.2.2.2.2.1
    simp only [Option.bind_eq_bind, Option.bind_some, hz, decide_true, ↓reduceIte, hlock]
    rcases h with h | h
    · simp [h]
    · by_cases hl : f.compiled.locked = true <;> simp [h, hl]

/-- without a target `Filter` hands out the compiled filter; with one (on an unregistered filter without a fixed
    target) a relation filter over the compiled mask filter for that target -/
theorem filter_eq (f : Filter0) (w : Option Nat) (t : GoSlice Entity) (ext : Ext) (c : compiledQuery) (e : Ext)
    (hcmp : compiledQuery.Compile isRelationTypeF ofMaskF ofMaskFilterF relFilterF toIdsF toMaskF toMaskOptionalF typeIDF f.compiled w f.included
      f.optional f.exclude f.exclusive f.targetType f.target f.hasTarget ext = some (c, e)) :
    Filter0.Filter isRelationTypeF ofMaskF ofMaskFilterF relFilterF toIdsF toMaskF toMaskOptionalF typeIDF f w t ext =
      match t.arr[0]? with
      | none => some ({ f with compiled := c }, e, c.filter)
      | some tg => if c.locked = true then none else if f.hasTarget = true then none
          else some ({ f with compiled := c }, e, relFilterF c.maskFilter tg) := by
  unfold Filter0.Filter
  simp only [hcmp, Option.bind_eq_bind, Option.bind_some, pure]
  cases ht : t.arr[0]? with
  | none =>
    have hs : t.arr.size = 0 := by
      rcases Nat.eq_zero_or_pos t.arr.size with h0 | h0
      · exact h0
      · simp [Array.getElem?_eq_getElem h0] at ht
    have hz : t.size = 0 := hs
    simp [hz]
  | some tg =>
    have hs : 0 < t.arr.size := by
      rcases Nat.eq_zero_or_pos t.arr.size with h0 | h0
      · simp [h0] at ht
      · exact h0
    have : (0 : Int) < ((t.size : Nat) : Int) := by unfold GoSlice.size; omega
    simp only [this, decide_true, ↓reduceIte, GoInt.toIndex, GoSlice.get]
    split
    · rfl
    · split
      · rfl
      · simp [ht]

end

/-! ### a concrete run: refine a used filter, the next compilation forgets the old one -/

def demoIds (_ : Unit) (l : GoSlice GoAny) : Unit × GoSlice (BitVec 8) := ((), ⟨l.arr.map (fun a => BitVec.ofNat 8 (a.getD 0)), l.cap⟩)
def demoMask (_ : Unit) (l : GoSlice GoAny) : Unit × M64.Mask := ((), l.arr.foldl (fun m a => m.Set (BitVec.ofNat 8 (a.getD 0)) true) default)
def demoMaskOpt (_ : Unit) (ids : GoSlice (BitVec 8)) (_ : GoSlice GoAny) : Unit × M64.Mask := ((), ids.arr.foldl (fun m a => m.Set a true) default)
def demoRun : Option (Bool × Bool × Bool) := do
  let f : Filter0 := default
  let f ← Filter0.With f ⟨#[some 3, some 7], 2⟩
  let f ← Filter0.WithRelation f (some 7) ⟨#[⟨5#32, 0#32⟩], 1⟩
  let (f, _, flt1) ← Filter0.Filter (fun _ => true) (fun m => some (m.bits.toNat)) (fun m => some (1000 + m.Include.bits.toNat + 7 * m.Exclude.bits.toNat))
      (fun m e => some (5000 + m.Include.bits.toNat + 7 * m.Exclude.bits.toNat + 100000 * e.id.toNat)) demoIds demoMask demoMaskOpt (fun _ a => ((), BitVec.ofNat 8 (a.getD 0))) f none default ()
  let f ← Filter0.Without f ⟨#[some 9], 1⟩
  let f ← Filter0.WithRelation f (some 7) default
  let (f, _, flt2) ← Filter0.Filter (fun _ => true) (fun m => some (m.bits.toNat)) (fun m => some (1000 + m.Include.bits.toNat + 7 * m.Exclude.bits.toNat))
      (fun m e => some (5000 + m.Include.bits.toNat + 7 * m.Exclude.bits.toNat + 100000 * e.id.toNat)) demoIds demoMask demoMaskOpt (fun _ a => ((), BitVec.ofNat 8 (a.getD 0))) f none default ()
  pure (flt1 == some (5000 + 136 + 500000), flt2 == some (5000 + 136 + 7 * 512 + 500000), f.hasTarget)

/-- the second compilation excludes component 9 and still carries the fixed target 5 -/
theorem demo_run : demoRun = some (true, true, true) := by decide +kernel

end Arche.Props.C18_BuilderGen64
