/-
  C07 companion — `Cache.Register` / `Cache.Unregister` (ecs/cache.go), REGENERATED on every run
  (ArcheGen/Pool256.lean; filters and tables are tokens, the world callback `getArchetypes` and
  the type test "is already a CachedFilter" are function parameters). The cache keeps a hidden
  map from filter ids to positions in its entry list; `CInv` says the map and the list agree:

    `register_spec`     — a filter that is not yet a registered one gets the next fresh id (the
                          number of registrations so far), its entry is appended, every other
                          entry keeps its position, `CInv` is kept
    `register_cached`   — registering a `CachedFilter` panics
    `unregister_spec`   — unregistering a known id returns that entry's filter, swap-removes the
                          entry (the model's `cacheUnregister`), forgets the id, keeps `CInv`
    `unregister_unknown`— an id the cache does not know (never issued, or already unregistered:
                          ids are never re-issued) panics
-/
import ArcheGen.Pool256
import ArcheModel
import ArcheProofs.Props.C07_Lists
import ArcheProofs.Props.C16_Registry

namespace Arche.Props.C07_CacheIds
open ArcheGen ArcheGen.P256 Arche

/-! ## association-list facts -/

theorem find_delete {K V : Type} [DecidableEq K] (m : GoMap K V) (k k' : K) :
    (m.delete k).find k' = if k' = k then none else m.find k' := by
  unfold GoMap.delete GoMap.find
  simp only []
  obtain ⟨l, nn⟩ := m
  simp only []
  induction l with
  | nil => simp
  | cons a l ih =>
    rw [List.filter_cons]
    by_cases hak : a.1 = k
    · simp only [hak, beq_self_eq_true, Bool.not_true, Bool.false_eq_true, if_false]
      rw [ih, List.find?_cons]
      by_cases hk : k' = k
      · simp [hk]
      · have : (a.1 == k') = false := by rw [hak]; simpa using (fun h => hk h.symm)
        simp [hk, this]
    · have hb : (a.1 == k) = false := by simpa using hak
      simp only [hb, Bool.not_false, if_true, List.find?_cons]
      by_cases hk' : a.1 = k'
      · have : ¬ k' = k := fun h => hak (hk'.trans h)
        simp [hk', this]
      · have hb' : (a.1 == k') = false := by simpa using hk'
        simp only [hb']
        exact ih

theorem find_set {K V : Type} [DecidableEq K] (m : GoMap K V) (k k' : K) (v : V) (hn : m.nonNil = true) :
    ∃ m', m.set k v = some m' ∧ m'.nonNil = true ∧ m'.find k' = if k' = k then some v else m.find k' := by
  refine ⟨⟨(k, v) :: (m.delete k).entries, m.nonNil⟩, by unfold GoMap.set; rw [if_pos hn], hn, ?_⟩
  show GoMap.find ⟨(k, v) :: (m.delete k).entries, m.nonNil⟩ k' = _
  rw [C16_Registry.find_cons]
  by_cases h : k = k'
  · rw [if_pos h, if_pos h.symm]
  · rw [if_neg h, if_neg (fun hh => h hh.symm)]
    have := find_delete m k k'
    rw [if_neg (fun hh => h hh.symm)] at this
    exact this

/-! ## the invariant: ids ↔ positions -/

structure CInv (c : Cache) : Prop where
  fwd : ∀ id pos, c.indices.find id = some pos → 0 ≤ pos ∧ ∃ e, c.filters.arr[pos.toNat]? = some e ∧ e.ID = id
  bwd : ∀ (pos : Nat) (e : cacheEntry), c.filters.arr[pos]? = some e → c.indices.find e.ID = some (pos : Int)
  issued : ∀ (pos : Nat) (e : cacheEntry), c.filters.arr[pos]? = some e → e.ID.toNat < c.intPool.pool.arr.size
  avail : c.intPool.available = 0#32
  small : c.intPool.pool.arr.size < 2 ^ 32
  nonNil : c.indices.nonNil = true

theorem ofInt_toNat (n : Nat) (h : n < 2 ^ 32) : (BitVec.ofInt 32 (n : Int)).toNat = n := by
  simp only [BitVec.toNat_ofInt]
  omega

/-- **`Register`** -/
theorem register_spec (getA : GoAny → GoSlice (Option Nat)) (isC : GoAny → Bool) (c : Cache) (I : CInv c) (f : GoAny)
    (hf : isC f = false) (hroom : c.intPool.pool.arr.size + 1 < 2 ^ 32) :
    ∃ c' cf, Cache.Register getA isC c f = some (c', cf) ∧ cf.filter = f ∧ cf.id.toNat = c.intPool.pool.arr.size ∧
      c'.filters.arr = c.filters.arr.push ⟨f, default, ⟨getA f⟩, cf.id⟩ ∧ CInv c' ∧
      (∀ (pos : Nat) (e : cacheEntry), c.filters.arr[pos]? = some e → e.ID ≠ cf.id) := by
  obtain ⟨p', hget, hav, hsz⟩ := C07_Lists.get_fresh c.intPool I.avail
  have hid := ofInt_toNat _ I.small
  let id : BitVec 32 := BitVec.ofInt 32 (c.intPool.pool.arr.size : Int)
  let e : cacheEntry := ⟨f, default, ⟨getA f⟩, id⟩
  obtain ⟨m', hset, hnn', hfind⟩ : ∃ m', c.indices.set id (((c.filters.arr.size + 1 : Nat) : Int) - 1) = some m' ∧ m'.nonNil = true ∧
      ∀ k', m'.find k' = if k' = id then some (((c.filters.arr.size + 1 : Nat) : Int) - 1) else c.indices.find k' := by
    obtain ⟨m2, h2, h2n, _⟩ := find_set c.indices id id (((c.filters.arr.size + 1 : Nat) : Int) - 1) I.nonNil
    refine ⟨m2, h2, h2n, fun k' => ?_⟩
    obtain ⟨m3, h3, _, h4⟩ := find_set c.indices id k' (((c.filters.arr.size + 1 : Nat) : Int) - 1) I.nonNil
    rw [h2] at h3
    cases h3
    exact h4
  have hnew : ∀ (pos : Nat) (e' : cacheEntry), c.filters.arr[pos]? = some e' → e'.ID ≠ id := by
    intro pos e' he' hc
    have := I.issued pos e' he'
    rw [hc] at this
    show False
    have : id.toNat = c.intPool.pool.arr.size := hid
    omega
  refine ⟨{ c with intPool := p', filters := GoSlice.append c.filters e, indices := m' }, ⟨f, id⟩, ?_, rfl, hid, rfl, ?_, hnew⟩
  · simp only [Cache.Register, hf, Bool.false_eq_true, if_false, bind, Option.bind, pure, hget, GoSlice.size, GoSlice.append, Array.size_push]
    rw [hset]
  · refine ⟨?_, ?_, ?_, hav, by rw [hsz]; omega, hnn'⟩
    · intro k pos hk
      rw [hfind] at hk
      by_cases hki : k = id
      · rw [if_pos hki] at hk
        cases hk
        refine ⟨by omega, e, ?_, hki.symm⟩
        show (c.filters.arr.push e)[_]? = some e
        rw [show ((((c.filters.arr.size + 1 : Nat) : Int) - 1)).toNat = c.filters.arr.size by omega, Array.getElem?_push_size]
      · rw [if_neg hki] at hk
        obtain ⟨h0, e', he', hid'⟩ := I.fwd k pos hk
        refine ⟨h0, e', ?_, hid'⟩
        show (c.filters.arr.push e)[_]? = some e'
        have hlt : pos.toNat < c.filters.arr.size := by
          rcases Nat.lt_or_ge pos.toNat c.filters.arr.size with h | h
          · exact h
          · rw [Array.getElem?_eq_none h] at he'; cases he'
        rw [Array.getElem?_push_lt hlt, ← Array.getElem?_eq_getElem hlt]; exact he'
    · intro pos e' he'
      have he'' : (c.filters.arr.push e)[pos]? = some e' := he'
      rw [hfind]
      rcases Nat.lt_or_ge pos c.filters.arr.size with h | h
      · rw [Array.getElem?_push_lt h, ← Array.getElem?_eq_getElem h] at he''
        rw [if_neg (hnew pos e' he'')]
        exact I.bwd pos e' he''
      · rcases Nat.eq_or_lt_of_le h with h1 | h1
        · rw [← h1, Array.getElem?_push_size] at he''
          cases he''
          rw [if_pos rfl, ← h1]
          congr 1
          omega
        · rw [Array.getElem?_eq_none (by simp; omega)] at he''; cases he''
    · intro pos e' he'
      have he'' : (c.filters.arr.push e)[pos]? = some e' := he'
      show e'.ID.toNat < p'.pool.arr.size
      rw [hsz]
      rcases Nat.lt_or_ge pos c.filters.arr.size with h | h
      · rw [Array.getElem?_push_lt h, ← Array.getElem?_eq_getElem h] at he''
        have := I.issued pos e' he''
        omega
      · rcases Nat.eq_or_lt_of_le h with h1 | h1
        · rw [← h1, Array.getElem?_push_size] at he''
          cases he''
          show id.toNat < _
          rw [hid]; omega
        · rw [Array.getElem?_eq_none (by simp; omega)] at he''; cases he''

theorem register_cached (getA : GoAny → GoSlice (Option Nat)) (isC : GoAny → Bool) (c : Cache) (f : GoAny) (hf : isC f = true) :
    Cache.Register getA isC c f = none := by
  simp [Cache.Register, hf]

theorem unregister_unknown (c : Cache) (f : CachedFilter) (h : c.indices.find f.id = none) : Cache.Unregister c f = none := by
  simp [Cache.Unregister, h]

/-- the entry list after removing position `idx` the way the model's `cacheUnregister` does -/
def swapRemove (a : Array cacheEntry) (idx : Nat) : Array cacheEntry :=
  (if idx ≠ a.size - 1 then a.setIfInBounds idx (a.getD (a.size - 1) default) else a).pop

theorem swapRemove_get (a : Array cacheEntry) (idx pos : Nat) (hidx : idx < a.size) :
    (swapRemove a idx)[pos]? = if pos < a.size - 1 then (if pos = idx then a[a.size - 1]? else a[pos]?) else none := by
  unfold swapRemove
  rw [Array.getElem?_pop]
  by_cases hl : idx ≠ a.size - 1
  · rw [if_pos hl]
    simp only [Array.size_setIfInBounds]
    by_cases hp : pos < a.size - 1
    · rw [if_pos hp, if_pos hp, Array.getElem?_setIfInBounds]
      by_cases hpi : idx = pos
      · rw [if_pos hpi, if_pos hidx, if_pos hpi.symm, Array.getD_eq_getD_getElem?, Array.getElem?_eq_getElem (by omega)]; rfl
      · rw [if_neg hpi, if_neg (fun h => hpi h.symm)]
    · rw [if_neg hp, if_neg hp]
  · rw [if_neg hl]
    have hl' : idx = a.size - 1 := by omega
    by_cases hp : pos < a.size - 1
    · rw [if_pos hp, if_pos hp, if_neg (by omega)]
    · rw [if_neg hp, if_neg hp]

/-- the array the regenerated code ends with is the swap-removed list -/
theorem final_arr (a : Array cacheEntry) (idx : Nat) (hidx : idx < a.size) (hne : idx ≠ a.size - 1) (e : cacheEntry) :
    ((((a.setIfInBounds idx (a.getD (a.size - 1) default)).setIfInBounds (a.size - 1) e).setIfInBounds (a.size - 1) default).extract 0 (a.size - 1))
      = swapRemove a idx := by
  apply Array.ext_getElem?
  intro j
  rw [swapRemove_get a idx j hidx, Array.getElem?_extract]
  simp only [Nat.zero_add, Nat.sub_zero, Array.size_setIfInBounds]
  by_cases hj : j < a.size - 1
  · rw [if_pos (by omega), if_pos hj, Array.getElem?_setIfInBounds_ne (by omega), Array.getElem?_setIfInBounds_ne (by omega),
      Array.getElem?_setIfInBounds]
    by_cases hji : idx = j
    · rw [if_pos hji, if_pos hidx, if_pos hji.symm, Array.getD_eq_getD_getElem?, Array.getElem?_eq_getElem (by omega)]; rfl
    · rw [if_neg hji, if_neg (fun h => hji h.symm)]
  · rw [if_neg (by omega), if_neg hj]

theorem final_arr_last (a : Array cacheEntry) (hpos : 0 < a.size) :
    ((a.setIfInBounds (a.size - 1) default).extract 0 (a.size - 1)) = swapRemove a (a.size - 1) := by
  apply Array.ext_getElem?
  intro j
  rw [swapRemove_get a _ j (by omega), Array.getElem?_extract]
  simp only [Nat.zero_add, Nat.sub_zero, Array.size_setIfInBounds]
  by_cases hj : j < a.size - 1
  · rw [if_pos (by omega), if_pos hj, if_neg (by omega), Array.getElem?_setIfInBounds_ne (by omega)]
  · rw [if_neg (by omega), if_neg hj]

/-- **`Unregister`** of a known id -/
theorem unregister_spec (c : Cache) (I : CInv c) (f : CachedFilter) (idx : Int) (h : c.indices.find f.id = some idx) :
    ∃ c' e, c.filters.arr[idx.toNat]? = some e ∧ Cache.Unregister c f = some (c', e.Filter) ∧
      c'.filters.arr = swapRemove c.filters.arr idx.toNat ∧ c'.indices.find f.id = none ∧ CInv c' := by
  obtain ⟨h0, e, he, heid⟩ := I.fwd _ _ h
  have hidx : idx.toNat < c.filters.arr.size := by
    rcases Nat.lt_or_ge idx.toNat c.filters.arr.size with h1 | h1
    · exact h1
    · rw [Array.getElem?_eq_none h1] at he; cases he
  have hidxI : GoInt.toIndex idx = some idx.toNat := by unfold GoInt.toIndex; rw [if_pos h0]
  have hlast0 : (0 : Int) ≤ ((c.filters.arr.size : Nat) : Int) - 1 := by omega
  have hlastI : GoInt.toIndex (((c.filters.arr.size : Nat) : Int) - 1) = some (c.filters.arr.size - 1) := by
    unfold GoInt.toIndex; rw [if_pos hlast0]; congr 1; omega
  have hgl : c.filters.arr[c.filters.arr.size - 1]? = some (c.filters.arr.getD (c.filters.arr.size - 1) default) := by
    rw [Array.getD_eq_getD_getElem?, Array.getElem?_eq_getElem (by omega)]; rfl
  have hpre : ∀ (arr : Array cacheEntry), arr.size = c.filters.arr.size →
      GoSlice.prefix (⟨arr, c.filters.cap⟩ : GoSlice cacheEntry) (((c.filters.arr.size : Nat) : Int) - 1) =
      some ⟨arr.extract 0 (c.filters.arr.size - 1), c.filters.cap⟩ := by
    intro arr harr
    unfold GoSlice.prefix
    have ht : ((((c.filters.arr.size : Nat) : Int) - 1)).toNat = c.filters.arr.size - 1 := by omega
    rw [if_pos ⟨hlast0, by rw [ht]; show _ ≤ arr.size; omega⟩, ht]
  by_cases hne : idx = ((c.filters.arr.size : Nat) : Int) - 1
  · -- the last entry
    have hnat : idx.toNat = c.filters.arr.size - 1 := by omega
    have hb : (idx != ((c.filters.arr.size : Nat) : Int) - 1) = false := by simp [hne]
    refine ⟨{ c with indices := c.indices.delete f.id,
                     filters := ⟨(c.filters.arr.setIfInBounds (c.filters.arr.size - 1) default).extract 0 (c.filters.arr.size - 1), c.filters.cap⟩ },
      e, he, ?_, ?_, ?_, ?_⟩
    · simp only [Cache.Unregister, h, Option.getD_some, Option.isSome_some, Bool.not_true, Bool.false_eq_true, if_false, bind, Option.bind, pure,
        hidxI, GoSlice.get, he, GoSlice.size, hb, hlastI, GoSlice.set, show c.filters.arr.size - 1 < c.filters.arr.size by omega, if_true]
      rw [hpre _ (by simp)]
    · show (c.filters.arr.setIfInBounds _ default).extract 0 _ = _
      rw [hnat]; exact final_arr_last _ (by omega)
    · show (c.indices.delete f.id).find f.id = none
      rw [find_delete, if_pos rfl]
    · have harr : ∀ pos, ((c.filters.arr.setIfInBounds (c.filters.arr.size - 1) default).extract 0 (c.filters.arr.size - 1))[pos]? =
          if pos < c.filters.arr.size - 1 then c.filters.arr[pos]? else none := by
        intro pos
        rw [final_arr_last _ (by omega), swapRemove_get _ _ _ (by omega)]
        by_cases hp : pos < c.filters.arr.size - 1
        · rw [if_pos hp, if_pos hp, if_neg (by omega)]
        · rw [if_neg hp, if_neg hp]
      refine ⟨?_, ?_, ?_, I.avail, I.small, I.nonNil⟩
      · intro k pos hk
        have hk' : (c.indices.delete f.id).find k = some pos := hk
        rw [find_delete] at hk'
        by_cases hkf : k = f.id
        · rw [if_pos hkf] at hk'; cases hk'
        · rw [if_neg hkf] at hk'
          obtain ⟨p0, e', he', hid'⟩ := I.fwd k pos hk'
          refine ⟨p0, e', ?_, hid'⟩
          show ((c.filters.arr.setIfInBounds _ default).extract 0 _)[pos.toNat]? = some e'
          rw [harr]
          have hlt : pos.toNat < c.filters.arr.size := by
            rcases Nat.lt_or_ge pos.toNat c.filters.arr.size with h1 | h1
            · exact h1
            · rw [Array.getElem?_eq_none h1] at he'; cases he'
          have : pos.toNat ≠ c.filters.arr.size - 1 := by
            intro hc
            rw [hc, ← hnat, he] at he'
            cases he'
            exact hkf (hid'.symm.trans heid)
          rw [if_pos (by omega)]; exact he'
      · intro pos e' he'
        have he'' : ((c.filters.arr.setIfInBounds _ default).extract 0 _)[pos]? = some e' := he'
        rw [harr] at he''
        by_cases hp : pos < c.filters.arr.size - 1
        · rw [if_pos hp] at he''
          show (c.indices.delete f.id).find e'.ID = _
          rw [find_delete]
          have hb' := I.bwd pos e' he''
          by_cases hid' : e'.ID = f.id
          · exfalso
            rw [hid', h] at hb'
            cases hb'
            omega
          · rw [if_neg hid']; exact hb'
        · rw [if_neg hp] at he''; cases he''
      · intro pos e' he'
        have he'' : ((c.filters.arr.setIfInBounds _ default).extract 0 _)[pos]? = some e' := he'
        rw [harr] at he''
        by_cases hp : pos < c.filters.arr.size - 1
        · rw [if_pos hp] at he''; exact I.issued pos e' he''
        · rw [if_neg hp] at he''; cases he''
  · -- an entry in the middle: the last entry moves into the gap
    have hnat : idx.toNat ≠ c.filters.arr.size - 1 := by omega
    have hb : (idx != ((c.filters.arr.size : Nat) : Int) - 1) = true := by simp [hne]
    let lastE := c.filters.arr.getD (c.filters.arr.size - 1) default
    have hlastFind : c.indices.find lastE.ID = some ((c.filters.arr.size - 1 : Nat) : Int) := I.bwd _ _ hgl
    have hlastNe : lastE.ID ≠ f.id := by
      intro hc
      rw [hc, h] at hlastFind
      cases hlastFind
      omega
    obtain ⟨m', hset, hnn', hfind⟩ : ∃ m', (c.indices.delete f.id).set lastE.ID idx = some m' ∧ m'.nonNil = true ∧
        ∀ k, m'.find k = if k = lastE.ID then some idx else (if k = f.id then none else c.indices.find k) := by
      have hdn : (c.indices.delete f.id).nonNil = true := I.nonNil
      obtain ⟨m2, h2, h2n, _⟩ := find_set (c.indices.delete f.id) lastE.ID lastE.ID idx hdn
      refine ⟨m2, h2, h2n, fun k => ?_⟩
      obtain ⟨m3, h3, _, h4⟩ := find_set (c.indices.delete f.id) lastE.ID k idx hdn
      rw [h2] at h3
      cases h3
      rw [h4, find_delete]
    have hswapped : ((c.filters.arr.setIfInBounds idx.toNat lastE).setIfInBounds (c.filters.arr.size - 1) e)[idx.toNat]? = some lastE := by
      rw [Array.getElem?_setIfInBounds_ne (by omega), Array.getElem?_setIfInBounds_self_of_lt hidx]
    refine ⟨{ c with indices := m',
                     filters := ⟨(((c.filters.arr.setIfInBounds idx.toNat lastE).setIfInBounds (c.filters.arr.size - 1) e).setIfInBounds
                        (c.filters.arr.size - 1) default).extract 0 (c.filters.arr.size - 1), c.filters.cap⟩ },
      e, he, ?_, ?_, ?_, ?_⟩
    · simp only [Cache.Unregister, h, Option.getD_some, Option.isSome_some, Bool.not_true, Bool.false_eq_true, if_false, bind, Option.bind, pure,
        hidxI, GoSlice.get, he, GoSlice.size, hb, if_true, hlastI, hgl, GoSlice.set, hidx, Array.size_setIfInBounds,
        show c.filters.arr.size - 1 < c.filters.arr.size by omega, hswapped]
      rw [show (c.filters.arr.getD (c.filters.arr.size - 1) default) = lastE from rfl, hswapped]
      simp only []
      rw [hset]
      simp only []
      rw [hpre _ (by simp)]
    · exact final_arr _ _ hidx hnat e
    · show m'.find f.id = none
      rw [hfind, if_neg (fun hc => hlastNe hc.symm), if_pos rfl]
    · have harr : ∀ pos, ((((c.filters.arr.setIfInBounds idx.toNat lastE).setIfInBounds (c.filters.arr.size - 1) e).setIfInBounds
            (c.filters.arr.size - 1) default).extract 0 (c.filters.arr.size - 1))[pos]? =
          if pos < c.filters.arr.size - 1 then (if pos = idx.toNat then some lastE else c.filters.arr[pos]?) else none := by
        intro pos
        rw [final_arr _ _ hidx hnat e, swapRemove_get _ _ _ hidx, hgl]
      refine ⟨?_, ?_, ?_, I.avail, I.small, hnn'⟩
      · intro k pos hk
        have hk' : m'.find k = some pos := hk
        rw [hfind] at hk'
        by_cases hkl : k = lastE.ID
        · rw [if_pos hkl] at hk'
          cases hk'
          refine ⟨h0, lastE, ?_, hkl.symm⟩
          show (Array.extract _ 0 _)[idx.toNat]? = some lastE
          rw [harr, if_pos (by omega), if_pos rfl]
        · rw [if_neg hkl] at hk'
          by_cases hkf : k = f.id
          · rw [if_pos hkf] at hk'; cases hk'
          · rw [if_neg hkf] at hk'
            obtain ⟨p0, e', he', hid'⟩ := I.fwd k pos hk'
            refine ⟨p0, e', ?_, hid'⟩
            show (Array.extract _ 0 _)[pos.toNat]? = some e'
            rw [harr]
            have hlt : pos.toNat < c.filters.arr.size := by
              rcases Nat.lt_or_ge pos.toNat c.filters.arr.size with h1 | h1
              · exact h1
              · rw [Array.getElem?_eq_none h1] at he'; cases he'
            have hnl : pos.toNat ≠ c.filters.arr.size - 1 := by
              intro hc
              rw [hc, hgl] at he'
              cases he'
              exact hkl hid'.symm
            have hni : pos.toNat ≠ idx.toNat := by
              intro hc
              rw [hc, he] at he'
              cases he'
              exact hkf (hid'.symm.trans heid)
            rw [if_pos (by omega), if_neg hni]; exact he'
      · intro pos e' he'
        have he'' : (Array.extract _ 0 _)[pos]? = some e' := he'
        rw [harr] at he''
        show m'.find e'.ID = _
        rw [hfind]
        by_cases hp : pos < c.filters.arr.size - 1
        · rw [if_pos hp] at he''
          by_cases hpi : pos = idx.toNat
          · rw [if_pos hpi] at he''
            cases he''
            rw [if_pos rfl, hpi]
            congr 1
            omega
          · rw [if_neg hpi] at he''
            have hb' := I.bwd pos e' he''
            have h1 : e'.ID ≠ lastE.ID := by
              intro hc
              rw [hc, hlastFind] at hb'
              cases hb'
              omega
            have h2 : e'.ID ≠ f.id := by
              intro hc
              rw [hc, h] at hb'
              cases hb'
              omega
            rw [if_neg h1, if_neg h2]; exact hb'
        · rw [if_neg hp] at he''; cases he''
      · intro pos e' he'
        have he'' : (Array.extract _ 0 _)[pos]? = some e' := he'
        rw [harr] at he''
        by_cases hp : pos < c.filters.arr.size - 1
        · rw [if_pos hp] at he''
          by_cases hpi : pos = idx.toNat
          · rw [if_pos hpi] at he''
            cases he''
            exact I.issued _ _ hgl
          · rw [if_neg hpi] at he''; exact I.issued pos e' he''
        · rw [if_neg hp] at he''; cases he''

end Arche.Props.C07_CacheIds
