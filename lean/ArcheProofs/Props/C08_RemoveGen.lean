/-
  C08 / C02 companion — `World.removeEntities` (the worker of `Batch.RemoveEntities` and the generic
  `MapN.RemoveEntities`; ecs/world_internal.go), REGENERATED on every run on a view of the `World` struct, with the
  selection (`World.getArchetypes`, regenerated too), the tables, the graph nodes and the listener as a hidden
  state: nested loops over the selected tables and their rows, notification of a listener under the lock,
  retirement of tables of dead targets.

  * `getArchetypes_same`: selecting tables never changes the world;
  * `removeEntities_locked`: a locked world refuses;
  * `removeEntities_effect`: whenever the call succeeds, nothing but pool, index, target flags, filter cache and lock
    pool changed, index and pool keep their lengths, and **every pool slot that changed (every handle that was
    recycled) has its index entry cleared** — what single removals do (`C02_Remove.remove_effect_gen`), so the
    unchecked accessors treat batch-removed and singly removed entities alike.
-/
import ArcheProofs.Props.C01_ExchangeGen

namespace Arche.Props.C08_RemoveGen
open ArcheGen ArcheGen.P256 Arche Arche.Props

theorem cacheGet_same (c c' : Cache) (f : CachedFilter) (e : cacheEntry) (h : Cache.get c f = some (c', e)) : c' = c := by
  unfold Cache.get at h
  simp only [Option.bind_eq_bind, pure] at h
  split at h
  · obtain ⟨_, _, h⟩ := Option.bind_eq_some_iff.mp h
    obtain ⟨_, _, h⟩ := Option.bind_eq_some_iff.mp h
    simp only [Option.some.injEq, Prod.mk.injEq] at h
    exact h.1.symm
  · cases h

theorem getArchetypes_same (archActiveF : Option Nat → Bool) (archsGetF : GoAny → BitVec 32 → Option Nat) (archsLenF : GoAny → BitVec 32)
    (asCachedFilterF : GoAny → Option CachedFilter) (nodeActiveF : Option Nat → Bool)
    (nodeArchMapF : Option Nat → P256.Entity → Option (Option Nat)) (nodeArchetypesF : Option Nat → GoAny)
    (nodeHasRelationF : Option Nat → Bool) (nodeMatchesF : Option Nat → GoAny → Bool) (relationTargetF : GoAny → Option P256.Entity)
    (w w' : P256.World) (f : GoAny) (r : GoSlice (Option Nat))
    (h : P256.World.getArchetypes archActiveF archsGetF archsLenF asCachedFilterF nodeActiveF nodeArchMapF nodeArchetypesF
      nodeHasRelationF nodeMatchesF relationTargetF w f = some (w', r)) : w' = w := by
  unfold P256.World.getArchetypes at h
  simp only [Option.bind_eq_bind, pure] at h
  split at h
  · obtain ⟨⟨c, e⟩, hg, h⟩ := Option.bind_eq_some_iff.mp h
    have := cacheGet_same _ _ _ _ hg
    simp only [Option.some.injEq, Prod.mk.injEq] at h
    rw [← h.1, this]
  · obtain ⟨⟨w1, a1⟩, hloop, h⟩ := Option.bind_eq_some_iff.mp h
    simp only [Option.some.injEq, Prod.mk.injEq] at h
    rw [← h.1]
    have := C02_Remove.foldlM_inv (fun (s : P256.World × GoSlice (Option Nat)) => s.1 = w) _ ?_ _ _ _ rfl hloop
    · exact this
    · intro s k s' hs hk
      obtain ⟨nd, _, hk⟩ := Option.bind_eq_some_iff.mp hk
      split at hk
      · simp only [Option.some.injEq] at hk; rw [← hk]; exact hs
      · split at hk
        · split at hk <;> (simp only [Option.some.injEq] at hk; rw [← hk]; exact hs)
        · obtain ⟨⟨w2, a2⟩, hin, hk⟩ := Option.bind_eq_some_iff.mp hk
          simp only [Option.some.injEq] at hk
          rw [← hk]
          have := C02_Remove.foldlM_inv (fun (s2 : P256.World × GoSlice (Option Nat)) => s2.1 = w) _ ?_ _ _ _ hs hin
          · exact this
          · intro s2 k2 s2' hs2 hk2
            split at hk2 <;> (simp only [Option.some.injEq] at hk2; rw [← hk2]; exact hs2)

/-! ### what `removeEntities` keeps -/

/-- only pool, index, target flags, filter cache and lock pool may differ -/
def Frame (w w' : P256.World) : Prop :=
  w' = { w with entityPool := w'.entityPool, entities := w'.entities, targetEntities := w'.targetEntities,
                filterCache := w'.filterCache, locks := w'.locks }

/-- index and pool keep their lengths, and every pool slot that differs from before has a cleared index entry -/
def Cleared (w0 w : P256.World) : Prop :=
  w.entities.arr.size = w0.entities.arr.size ∧ w.entityPool.entities.arr.size = w0.entityPool.entities.arr.size ∧
  ∀ id : Nat, w.entityPool.entities.arr[id]? ≠ w0.entityPool.entities.arr[id]? → ∃ x : entityIndex, w.entities.arr[id]? = some x ∧ x.arch = none

def Inv (w0 w : P256.World) : Prop := Frame w0 w ∧ Cleared w0 w

theorem Inv.refl (w : P256.World) : Inv w w := ⟨rfl, rfl, rfl, fun _ h => absurd rfl h⟩

theorem Inv.cacheOnly {w0 w w1 : P256.World} (h : Inv w0 w) (hc : C02_Remove.CacheOnly w w1) : Inv w0 w1 := by
  unfold C02_Remove.CacheOnly at hc
  obtain ⟨hf, hs1, hs2, hcl⟩ := h
  refine ⟨?_, ?_, ?_, ?_⟩
  · unfold Frame at *; rw [hc, hf]
  · rw [hc]; exact hs1
  · rw [hc]; exact hs2
  · intro id hid; rw [hc] at hid ⊢; exact hcl id hid

theorem Inv.locks {w0 w : P256.World} (h : Inv w0 w) (l : lockMask) : Inv w0 { w with locks := l } := by
  obtain ⟨hf, hs1, hs2, hcl⟩ := h
  refine ⟨?_, hs1, hs2, hcl⟩
  unfold Frame at *
  rw [hf]

theorem Inv.flags {w0 w : P256.World} (h : Inv w0 w) (t : bitSet) : Inv w0 { w with targetEntities := t } := by
  obtain ⟨hf, hs1, hs2, hcl⟩ := h
  refine ⟨?_, hs1, hs2, hcl⟩
  unfold Frame at *
  rw [hf]

/-- a successful `Recycle` changes exactly the slot of the handle -/
theorem recycle_inv (p p' : entityPool) (e : P256.Entity) (h : entityPool.Recycle p e = some p') :
    e.id.toNat < p.entities.arr.size ∧ p'.entities.arr.size = p.entities.arr.size ∧
    ∀ id, id ≠ e.id.toNat → p'.entities.arr[id]? = p.entities.arr[id]? := by
  by_cases h0 : e.id = 0#32
  · rw [C02_Pool.recycle_zero p e h0] at h; cases h
  · by_cases hin : e.id.toNat < p.entities.arr.size
    · rw [C02_Pool.recycle_eq p e h0 hin] at h
      simp only [Option.some.injEq] at h
      rw [← h]
      refine ⟨hin, by simp, ?_⟩
      intro id hid
      simp only [Array.getElem?_setIfInBounds]
      have : ¬ e.id.toNat = id := fun hc => hid hc.symm
      simp [this]
    · exfalso
      unfold entityPool.Recycle at h
      have hne : (e.id == 0#32) = false := by simpa using h0
      simp only [hne, Bool.false_eq_true, ↓reduceIte, bind, Option.bind, GoSlice.get] at h
      rw [Array.getElem?_eq_none (by omega)] at h
      cases h

/-- one removed row: the index entry is cleared, the flag (if set) is cleared after the tables of that target were
    retired, the handle is recycled -/
theorem row_inv {Ext : Type} (archHasRelationF : Ext → Option Nat → Bool) (archLenF : Ext → Option Nat → BitVec 32)
    (archMaskF : Ext → Option Nat → ArcheGen.M256.Mask) (archNodeF : Ext → Option Nat → Option Nat)
    (matchesF : GoAny → ArcheGen.M256.Mask → Bool) (nodeArchMapF : Ext → Option Nat → P256.Entity → Option (Option Nat))
    (nodeRemoveArchetypeF : Ext → Option Nat → Option Nat → Ext × Unit)
    (w0 w w' : P256.World) (ext ext' : Ext) (entity : P256.Entity) (count count' : BitVec 32) (bits bits' : BitVec 8) (listen listen' : Bool)
    (hI : Inv w0 w)
    (h : (do
            let i10 := ((entity).id).toNat
            let c11 ← GoSlice.get (w).entities i10
            let u12 ← GoSlice.set (w).entities i10 ({ c11 with arch := (none : Option Nat) })
            let w := { w with entities := u12 }
            let (o13, r14) ← bitSet.Get (w).targetEntities (entity).id
            let w := { w with targetEntities := o13 }
            let (w, ext, count, bits, listen) ← (do
                if r14 then
                  let (o15, ext) ← P256.World.cleanupArchetypes archHasRelationF archLenF archMaskF archNodeF matchesF nodeArchMapF nodeRemoveArchetypeF w entity ext
                  let w := o15
                  let o16 ← bitSet.Set (w).targetEntities (entity).id false
                  let w := { w with targetEntities := o16 }
                  pure (w, ext, count, bits, listen)
                else
                  pure (w, ext, count, bits, listen)
              )
            let o17 ← entityPool.Recycle (w).entityPool entity
            let w := { w with entityPool := o17 }
            pure (w, ext, count, bits, listen)) = some (w', ext', count', bits', listen')) :
    Inv w0 w' := by
  simp only [Option.bind_eq_bind, pure] at h
  obtain ⟨c11, hc11, hq1⟩ := Option.bind_eq_some_iff.mp h
  obtain ⟨u12, hu12, hq2⟩ := Option.bind_eq_some_iff.mp hq1
  obtain ⟨⟨o13, r14⟩, hget, hq3⟩ := Option.bind_eq_some_iff.mp hq2
  obtain ⟨⟨w3, e3, c3, b3, l3⟩, hjoin, hq4⟩ := Option.bind_eq_some_iff.mp hq3
  obtain ⟨o17, hrec, hq5⟩ := Option.bind_eq_some_iff.mp hq4
  simp only [Option.some.injEq, Prod.mk.injEq] at hq5
  -- the index entry
  have hidlt : entity.id.toNat < w.entities.arr.size := by
    simp only [GoSlice.get] at hc11
    exact (Array.getElem?_eq_some_iff.mp hc11).1
  have hu : u12 = { w.entities with arr := w.entities.arr.setIfInBounds entity.id.toNat { c11 with arch := none } } := by
    simp only [GoSlice.set, hidlt, ↓reduceIte, Option.some.injEq] at hu12
    exact hu12.symm
  obtain ⟨ho13, _, _⟩ := C02_Remove.bitGet_inv _ _ _ _ hget
  -- the world before the flag handling
  have hI1 : Inv w0 { w with entities := u12, targetEntities := o13 } ∧
      ∃ xx, ({ w with entities := u12, targetEntities := o13 } : P256.World).entities.arr[entity.id.toNat]? = some xx ∧ xx.arch = none := by
    obtain ⟨hf, hs1, hs2, hcl⟩ := hI
    refine ⟨⟨?_, ?_, hs2, ?_⟩, ?_⟩
    · unfold Frame at *; simp only; rw [hf]
    · simp only [hu, Array.size_setIfInBounds]; exact hs1
    · intro id hid
      simp only at hid
      obtain ⟨xx, hxx, harch⟩ := hcl id hid
      simp only [hu, Array.getElem?_setIfInBounds]
      by_cases heq : entity.id.toNat = id
      · subst heq; simp [hidlt]
      · simp only [heq, ↓reduceIte]; exact ⟨xx, hxx, harch⟩
    · simp only [hu, Array.getElem?_setIfInBounds_self_of_lt hidlt]
      exact ⟨_, rfl, rfl⟩
  obtain ⟨hI1a, xx, hxx, hxarch⟩ := hI1
  -- after the flag handling: index unchanged
  have hI3 : Inv w0 w3 ∧ w3.entities = u12 ∧ w3.entityPool = w.entityPool := by
    split at hjoin
    · obtain ⟨⟨o15, e15⟩, hcl, hj⟩ := Option.bind_eq_some_iff.mp hjoin
      obtain ⟨o16, hset, hj⟩ := Option.bind_eq_some_iff.mp hj
      simp only [Option.some.injEq, Prod.mk.injEq] at hj
      have hfr := C02_Remove.cleanupArchetypes_frame archHasRelationF archLenF archMaskF archNodeF matchesF nodeArchMapF nodeRemoveArchetypeF _ _ _ _ _ hcl
      have hIa := Inv.flags (Inv.cacheOnly hI1a hfr) o16
      unfold C02_Remove.CacheOnly at hfr
      refine ⟨?_, ?_, ?_⟩
      · rw [← hj.1]; exact hIa
      · rw [← hj.1]; simp only; rw [hfr]
      · rw [← hj.1]; simp only; rw [hfr]
    · simp only [Option.some.injEq, Prod.mk.injEq] at hjoin
      rw [← hjoin.1]
      exact ⟨hI1a, rfl, rfl⟩
  obtain ⟨hI3a, hent3, hpool3⟩ := hI3
  -- the handle is recycled
  rw [hpool3] at hrec
  obtain ⟨_, hsz, hother⟩ := recycle_inv _ _ _ hrec
  rw [← hq5.1]
  obtain ⟨hf, hs1, hs2, hcl⟩ := hI3a
  refine ⟨?_, hs1, ?_, ?_⟩
  · unfold Frame at *; simp only; rw [hf]
  · simp only; rw [hsz]; rw [← hpool3]; exact hs2
  · intro id hid
    simp only at hid ⊢
    by_cases heq : id = entity.id.toNat
    · subst heq
      rw [hent3, hu]
      simp only [Array.getElem?_setIfInBounds_self_of_lt hidlt]
      exact ⟨_, rfl, rfl⟩
    · rw [hother id heq, ← hpool3] at hid
      exact hcl id hid

section
variable {Ext : Type}
  (archActiveF : Ext → Option Nat → Bool) (archGetEntityF : Ext → Option Nat → BitVec 32 → P256.Entity)
  (archHasRelCompF : Ext → Option Nat → Bool) (archHasRelationF : Ext → Option Nat → Bool)
  (archLenF : Ext → Option Nat → BitVec 32) (archMaskF : Ext → Option Nat → ArcheGen.M256.Mask)
  (archNodeF : Ext → Option Nat → Option Nat) (archRelCompF : Ext → Option Nat → BitVec 8)
  (archResetF : Ext → Option Nat → Ext × Unit) (archTargetF : Ext → Option Nat → P256.Entity)
  (archsGetF : GoAny → BitVec 32 → Option Nat) (archsLenF : GoAny → BitVec 32) (asCachedFilterF : GoAny → Option CachedFilter)
  (lstCompsF : Ext → GoAny → Option (ArcheGen.M256.Mask)) (lstSubsF : Ext → GoAny → BitVec 8)
  (matchesF : GoAny → ArcheGen.M256.Mask → Bool) (nodeActiveF : Ext → Option Nat → Bool)
  (nodeArchMapF : Ext → Option Nat → P256.Entity → Option (Option Nat)) (nodeArchetypesF : Ext → Option Nat → GoAny)
  (nodeHasRelationF : Ext → Option Nat → Bool) (nodeIdsF : Ext → Option Nat → GoSlice (BitVec 8))
  (nodeMatchesF : Ext → Option Nat → GoAny → Bool) (nodeRemoveArchetypeF : Ext → Option Nat → Option Nat → Ext × Unit)
  (notifyF : Ext → GoAny → EntityEvent → Ext × Unit) (relationTargetF : GoAny → Option P256.Entity)

theorem removeEntities_locked (w : P256.World) (f : GoAny) (ext : Ext)
    (h : LockMask.isLocked (C09_LockPool.absLM w.locks) = true) :
    P256.World.removeEntities archActiveF archGetEntityF archHasRelCompF archHasRelationF archLenF archMaskF archNodeF archRelCompF archResetF
      archTargetF archsGetF archsLenF asCachedFilterF lstCompsF lstSubsF matchesF nodeActiveF nodeArchMapF nodeArchetypesF nodeHasRelationF
      nodeIdsF nodeMatchesF nodeRemoveArchetypeF notifyF relationTargetF w f ext = none := by
  unfold P256.World.removeEntities
  rw [C09_WorldLock.checkLocked_spec]
  simp [h, bind, Option.bind]

/-- **what a successful `Batch.RemoveEntities` does to the world** -/
theorem removeEntities_effect (w w' : P256.World) (f : GoAny) (ext ext' : Ext) (n : Int)
    (h : P256.World.removeEntities archActiveF archGetEntityF archHasRelCompF archHasRelationF archLenF archMaskF archNodeF archRelCompF archResetF
      archTargetF archsGetF archsLenF asCachedFilterF lstCompsF lstSubsF matchesF nodeActiveF nodeArchMapF nodeArchetypesF nodeHasRelationF
      nodeIdsF nodeMatchesF nodeRemoveArchetypeF notifyF relationTargetF w f ext = some (w', ext', n)) :
    LockMask.isLocked (C09_LockPool.absLM w.locks) = false ∧ Inv w w' := by
  unfold P256.World.removeEntities at h
  rw [C09_WorldLock.checkLocked_spec] at h
  by_cases hlk : LockMask.isLocked (C09_LockPool.absLM w.locks) = true
  · simp [hlk, bind, Option.bind] at h
  have hlk' : LockMask.isLocked (C09_LockPool.absLM w.locks) = false := by simpa using hlk
  refine ⟨hlk', ?_⟩
  simp only [hlk', Bool.false_eq_true, ↓reduceIte, Option.bind_eq_bind, Option.bind_some, pure] at h
  obtain ⟨⟨wa, arches⟩, hga, hq1⟩ := Option.bind_eq_some_iff.mp h
  have hwa := getArchetypes_same _ _ _ _ _ _ _ _ _ _ _ _ _ _ hga
  subst hwa
  obtain ⟨⟨wl, lk⟩, hlock, hq2⟩ := Option.bind_eq_some_iff.mp hq1
  have hwl := C02_Remove.lock_only _ _ _ hlock
  obtain ⟨⟨wf, ef, cf, bf, lf⟩, hloop, hq3⟩ := Option.bind_eq_some_iff.mp hq2
  obtain ⟨wu, hun, hq4⟩ := Option.bind_eq_some_iff.mp hq3
  simp only [Option.some.injEq, Prod.mk.injEq] at hq4
  have hwu := C02_Remove.unlock_only _ _ _ hun
  have hI0 : Inv wa wl := by rw [hwl]; exact Inv.locks (Inv.refl wa) _
  have hIf : Inv wa wf := by
    have := C02_Remove.foldlM_inv (fun (s : P256.World × Ext × BitVec 32 × BitVec 8 × Bool) => Inv wa s.1) _ ?_ _ _ _ hI0 hloop
    · exact this
    · intro s k s' hs hk
      obtain ⟨sw, se, sc, sb, sl⟩ := s
      simp only at hs hk
      obtain ⟨n6, _, hk1⟩ := Option.bind_eq_some_iff.mp hk
      obtain ⟨arch, _, hk2⟩ := Option.bind_eq_some_iff.mp hk1
      obtain ⟨a, ha, hk3⟩ := Option.bind_eq_some_iff.mp hk2
      subst ha
      simp only [Option.bind_some] at hk3
      split at hk3
      · simp only [Option.some.injEq] at hk3; rw [← hk3]; exact hs
      · -- listener bookkeeping: the world is not touched
        obtain ⟨⟨w1, e1, c1, b1, l1, r1, i1⟩, hj1, hk4⟩ := Option.bind_eq_some_iff.mp hk3
        have hw1 : w1 = sw := by
          split at hj1
          · obtain ⟨⟨w2, e2, c2, b2, l2, r2⟩, hj2, hj1⟩ := Option.bind_eq_some_iff.mp hj1
            have hw2 : sw = w2 := by
              split at hj2 <;> (simp only [Option.some.injEq, Prod.mk.injEq] at hj2; exact hj2.1)
            subst hw2
            dsimp only at hj1
            obtain ⟨nn, hnn, hj1⟩ := Option.bind_eq_some_iff.mp hj1
            obtain ⟨⟨w3, e3, c3, b3, l3, i3⟩, hj3, hj1⟩ := Option.bind_eq_some_iff.mp hj1
            have hw3 : sw = w3 := by
              split at hj3
              · obtain ⟨_, _, hj3⟩ := Option.bind_eq_some_iff.mp hj3
                simp only [Option.some.injEq, Prod.mk.injEq] at hj3; exact hj3.1
              · simp only [Option.some.injEq, Prod.mk.injEq] at hj3; exact hj3.1
            subst hw3
            dsimp only at hj1
            obtain ⟨_, _, hj1⟩ := Option.bind_eq_some_iff.mp hj1
            simp only [Option.some.injEq, Prod.mk.injEq] at hj1; exact hj1.1.symm
          · simp only [Option.some.injEq, Prod.mk.injEq] at hj1; exact hj1.1.symm
        subst hw1
        -- notifying the listener: the world is not touched
        obtain ⟨⟨w4, e4, c4, b4, l4, j4⟩, hj4, hk5⟩ := Option.bind_eq_some_iff.mp hk4
        have hw4 : w4 = w1 := by
          split at hj4
          · obtain ⟨⟨w5, e5, c5, b5, l5⟩, hnl, hj4⟩ := Option.bind_eq_some_iff.mp hj4
            simp only [Option.some.injEq, Prod.mk.injEq] at hj4
            rw [← hj4.1]
            have := C02_Remove.foldlM_inv (fun (s2 : P256.World × Ext × BitVec 32 × BitVec 8 × Bool) => s2.1 = w1) _ ?_ _ _ _ rfl hnl
            · exact this
            · intro s2 k2 s2' hs2 hk2
              simp only [Option.some.injEq] at hk2
              rw [← hk2]; exact hs2
          · simp only [Option.some.injEq, Prod.mk.injEq] at hj4; exact hj4.1.symm
        subst hw4
        -- the rows
        obtain ⟨⟨w6, e6, c6, b6, l6⟩, hrows, hk6⟩ := Option.bind_eq_some_iff.mp hk5
        have hI6 : Inv wa w6 := by
          have := C02_Remove.foldlM_inv (fun (s2 : P256.World × Ext × BitVec 32 × BitVec 8 × Bool) => Inv wa s2.1) _ ?_ _ _ _ hs hrows
          · exact this
          · intro s2 k2 s2' hs2 hk2
            obtain ⟨w7, e7, c7, b7, l7⟩ := s2
            obtain ⟨w8, e8, c8, b8, l8⟩ := s2'
            exact row_inv archHasRelationF archLenF archMaskF archNodeF matchesF nodeArchMapF nodeRemoveArchetypeF
              wa w7 w8 e7 e8 _ c7 c8 b7 b8 l7 l8 hs2 hk2
        -- emptying the table and retiring it
        obtain ⟨⟨w9, e9⟩, hcl, hk8⟩ := Option.bind_eq_some_iff.mp hk6
        simp only [Option.some.injEq] at hk8
        rw [← hk8]
        exact Inv.cacheOnly hI6 (C02_Remove.cleanupArchetype_frame archActiveF archHasRelationF archLenF archMaskF archNodeF archTargetF matchesF
          nodeHasRelationF nodeRemoveArchetypeF _ _ _ _ _ hcl)
  rw [← hq4.1, hwu]
  exact Inv.locks hIf _

end

end Arche.Props.C08_RemoveGen
