/-
  C01 — Component data integrity across every structural change.

  Proved on the model (ArcheModel), whose agreement with the Go code is checked on every run:
    * value last written: `set_get`; a write changes no other cell: `set_frame`;
    * a newly allocated row reads as zero in every column (`alloc_zero`, from `tableAlloc`);
    * **exchange** (World.Add / Remove / Exchange / Assign / Relations.Exchange / Builder.Add,
      all of which are `exchangeNoNotify`): from any world satisfying the structural invariant
      `WInv` (node lists, neighbour graph, index ↔ rows bijection) the entity ends up in a table
      whose component set is exactly the old set minus `rem` plus `add`; kept components keep
      their values, added ones read zero (`exchange_spec`); every *other* entity keeps its
      table's component set and its row content — storage compaction (swap-remove), table
      creation and graph extension never change it (`exchange_frame`); the index invariant
      holds again afterwards;
    * the same frame property for the two primitive row movements every structural operation
      is made of (`IndexInv.pushRow_frame`, `IndexInv.dropRow_frame`), and
      `moveEntity = dropRow ; pushRow` (`Move.moveEntity_eq`).
  Not proved (covered by the correspondence): the batch forms, relation-target moves, removal
  and creation at the level of the public operations (`…_partial` in DESIGN.md §5).
-/
import ArcheProofs.Lemmas.Graph
import ArcheProofs.Lemmas.Move

namespace Arche.Props.C01
open Arche Arche.World Arche.Arr Arche.Storage Arche.IndexInv Arche.SameRows Arche.Graph Arche.Move Arche.NatMask

/-- the structural invariant of a world -/
structure WInv (w : World) : Prop where
  node : NodeInv w
  graph : GraphInv w
  idx : IdxInv w

/-! ## values -/

/-- Set / Assign / a write through the Get pointer: the component then holds that value. -/
theorem set_get (w : World) (t r : Nat) (id : CompId) (v : Val) (c : Nat)
    (hv : validRow w t r) (hi : IdxInv w) (hc : colOf (w.tableIds t) id = some c)
    (hz : Mask.get w.reg.zeroSized id = false) :
    (w.setCell t r id v).cell t r id = some v := by
  apply cell_setCell_same w t r id v c hv.1 hv.2 hc _ hz
  have := hi.width t r hv
  have := (colOf_some_lt _ _ _ hc).1
  unfold rowAt at *; omega

/-- …and no other component of any entity changes. -/
theorem set_frame (w : World) (t r : Nat) (id : CompId) (v : Val) (t' r' : Nat) (id' : CompId)
    (ht : t < w.tables.size) (h : t' ≠ t ∨ r' ≠ r ∨ id' ≠ id) :
    (w.setCell t r id v).cell t' r' id' = w.cell t' r' id' :=
  cell_setCell_other w t r id v t' r' id' ht h

/-- A newly allocated row reads as zero in every column. -/
theorem alloc_zero (w : World) (t : Nat) (e : Entity) (ht : t < w.tables.size) (id : CompId) :
    (w.tableAlloc t e).1.cell t (w.tableAlloc t e).2 id = (if id ∈ w.tableIds t then some 0 else none) := by
  unfold tableAlloc
  simp only []
  unfold cell
  have hext : ((w.tableOf t).extend (w.nodeOf (w.tableOf t).node).capInc 1).node = (w.tableOf t).node := by
    unfold Table.extend; simp only []; split <;> rfl
  have hextr : ((w.tableOf t).extend (w.nodeOf (w.tableOf t).node).capInc 1).rows = (w.tableOf t).rows := by
    unfold Table.extend; simp only []; split <;> rfl
  have key : ∀ rows, (w.setTable t { (w.tableOf t).extend (w.nodeOf (w.tableOf t).node).capInc 1 with rows := rows }).tableIds t = w.tableIds t :=
    fun rows => tableIds_setTable _ _ _ _ hext ht
  rw [key]
  cases hc : colOf (w.tableIds t) id with
  | none =>
    have : ¬ id ∈ w.tableIds t := by
      intro hm; have := (colOf_isSome_iff _ _).2 hm; rw [hc] at this; cases this
    simp [this]
  | some c =>
    have : id ∈ w.tableIds t := (colOf_isSome_iff _ _).1 (by rw [hc]; rfl)
    simp only [this, ↓reduceIte]
    rw [tableOf_setTable_eq _ _ _ ht]
    simp only [hextr]
    rw [getD_push]
    simp only [↓reduceIte]
    rw [zeros_getD]

/-! ## exchange -/

theorem remOK_of_exchangeMask (m : Mask) (add rem : List CompId) (m' : Mask) (h : exchangeMask m add rem = .ok m') :
    RemOK m rem ∧ m' = newMask m add rem := by
  unfold exchangeMask at h
  -- the removal fold
  have hrem : ∀ (l : List CompId) (m0 : Mask) (r : Except Panic Mask),
      l.foldl (fun (acc : Except Panic Mask) id => match acc with
        | .error p => .error p
        | .ok m => if !Mask.get m id then .error .noComp else .ok (Mask.set m id false)) (.ok m0) = r →
      ∀ m1, r = .ok m1 → RemOK m0 l ∧ m1 = l.foldl (fun m id => Mask.set m id false) m0 := by
    intro l
    induction l with
    | nil => intro m0 r hr m1 h1; simp only [List.foldl_nil] at hr; rw [← hr] at h1; cases h1; exact ⟨trivial, rfl⟩
    | cons id rest ih =>
      intro m0 r hr m1 h1
      simp only [List.foldl_cons] at hr
      by_cases hp : Mask.get m0 id = true
      · simp only [hp, Bool.not_true, Bool.false_eq_true, ↓reduceIte] at hr
        obtain ⟨a, b⟩ := ih _ r hr m1 h1
        exact ⟨⟨hp, a⟩, b⟩
      · simp only [hp, Bool.not_false, ↓reduceIte] at hr
        exfalso
        have herr : ∀ (l : List CompId) p, l.foldl (fun (acc : Except Panic Mask) id => match acc with
            | .error p => .error p
            | .ok m => if !Mask.get m id then .error .noComp else .ok (Mask.set m id false)) (.error p) = .error p := by
          intro l; induction l with
          | nil => intro p; rfl
          | cons x xs ihx => intro p; simp only [List.foldl_cons]; exact ihx p
        rw [herr] at hr; rw [← hr] at h1; cases h1
  have hadd : ∀ (l : List CompId) (acc : Except Panic Mask) (m1 : Mask),
      l.foldl (fun (acc : Except Panic Mask) id => match acc with
        | .error p => .error p
        | .ok m => if Mask.get m id then .error .hasComp else .ok (Mask.set m id true)) acc = .ok m1 →
      ∃ m0, acc = .ok m0 ∧ m1 = l.foldl (fun m id => Mask.set m id true) m0 := by
    intro l
    induction l with
    | nil => intro acc m1 h1; exact ⟨m1, h1, rfl⟩
    | cons id rest ih =>
      intro acc m1 h1
      simp only [List.foldl_cons] at h1
      obtain ⟨m0, h0, hm⟩ := ih _ m1 h1
      cases acc with
      | error p => simp at h0
      | ok ma =>
        simp only [] at h0
        split at h0
        · cases h0
        · cases h0; exact ⟨ma, rfl, hm⟩
  obtain ⟨m0, h0, hm⟩ := hadd add _ m' h
  obtain ⟨a, b⟩ := hrem rem m _ rfl m0 h0
  exact ⟨a, by rw [hm, b]; rfl⟩

theorem get_foldl_set_false (l : List CompId) (m : Mask) (j : Nat) :
    Mask.get (l.foldl (fun m id => Mask.set m id false) m) j = (Mask.get m j && !l.contains j) := by
  induction l generalizing m with
  | nil => simp
  | cons id rest ih =>
    simp only [List.foldl_cons]
    rw [ih, get_set]
    by_cases h : j = id
    · subst h; simp
    · have : (j == id) = false := by simp [h]
      simp [h, List.contains_cons, this]

theorem get_foldl_set_true (l : List CompId) (m : Mask) (j : Nat) :
    Mask.get (l.foldl (fun m id => Mask.set m id true) m) j = (Mask.get m j || l.contains j) := by
  induction l generalizing m with
  | nil => simp
  | cons id rest ih =>
    simp only [List.foldl_cons]
    rw [ih, get_set]
    by_cases h : j = id
    · subst h; simp
    · have : (j == id) = false := by simp [h]
      simp [h, List.contains_cons, this]

/-- the component set after an exchange: old set minus `rem` plus `add` -/
theorem get_newMask (m : Mask) (add rem : List CompId) (j : Nat) :
    Mask.get (newMask m add rem) j = ((Mask.get m j && !rem.contains j) || add.contains j) := by
  unfold newMask; rw [get_foldl_set_true, get_foldl_set_false]

/-- a legal exchange that changes something leads to a different component set -/
theorem newMask_ne (m : Mask) (add rem : List CompId) (hrem : RemOK m rem)
    (hadd : ∀ id ∈ add, Mask.get m id = false) (hne : ¬ (add = [] ∧ rem = [])) : newMask m add rem ≠ m := by
  intro heq
  cases rem with
  | cons r rest =>
    have hp : Mask.get m r = true := hrem.1
    have := congrArg (fun x => Mask.get x r) heq
    simp only [get_newMask, hp, List.contains_cons, beq_self_eq_true, Bool.true_or, Bool.not_true, Bool.and_false,
      Bool.false_or] at this
    have hra : add.contains r = false := by
      cases hc : add.contains r
      · rfl
      · have := hadd r (by simpa using hc); rw [hp] at this; cases this
    rw [hra] at this; cases this
  | nil =>
    cases add with
    | nil => exact hne ⟨rfl, rfl⟩
    | cons a rest =>
      have hp : Mask.get m a = false := hadd a (List.mem_cons_self)
      have := congrArg (fun x => Mask.get x a) heq
      simp [get_newMask, hp] at this

/-- what `exchangeNoNotify` does to the world when it succeeds: find the destination table
    (rows untouched), move the entity, mark the target, clean up the source -/
theorem exchange_world (w : World) (e : Entity) (add rem : List CompId) (rel : Option CompId) (target : Entity) (x : Exchanged)
    (hok : (w.exchangeNoNotify e add rem rel target).out = .ok (some x)) :
    ∃ tgt mask, exchangeMask (w.tableMask (w.locOf e).tbl) add rem = .ok mask ∧
      w.exchangeTarget mask rel target (w.locOf e).tbl rem = .ok tgt ∧ ¬ (add = [] ∧ rem = []) ∧
      (w.findOrCreateTable (w.locOf e).tbl add rem tgt).2 = .ok x.tbl ∧
      (w.exchangeNoNotify e add rem rel target).w =
        ((((w.findOrCreateTable (w.locOf e).tbl add rem tgt).1.moveEntity e (w.locOf e) x.tbl).markTarget tgt).cleanupTable (w.locOf e).tbl) := by
  unfold exchangeNoNotify at hok ⊢
  by_cases hl : w.isLocked = true
  · simp [hl, World.fail] at hok
  simp only [hl, Bool.false_eq_true, ↓reduceIte] at hok ⊢
  cases hal : w.checkAlive e with
  | some p => simp [hal, World.fail] at hok
  | none =>
  simp only [hal] at hok ⊢
  by_cases hemp : (add.isEmpty && rem.isEmpty) = true
  · simp only [hemp, ↓reduceIte] at hok
    split at hok <;> simp [World.fail] at hok
  simp only [hemp, Bool.false_eq_true, ↓reduceIte] at hok ⊢
  cases hmask : exchangeMask (w.tableMask (w.locOf e).tbl) add rem with
  | error p => simp [hmask, World.fail] at hok
  | ok mask =>
  simp only [hmask] at hok ⊢
  cases htg : w.exchangeTarget mask rel target (w.locOf e).tbl rem with
  | error p => simp [htg, World.fail] at hok
  | ok tgt =>
  simp only [htg] at hok ⊢
  cases hf : (w.findOrCreateTable (w.locOf e).tbl add rem tgt).2 with
  | error p => simp [hf, World.fail] at hok
  | ok t =>
    simp only [hf] at hok ⊢
    have hx : x.tbl = t := by
      simp only [Except.ok.injEq, Option.some.injEq] at hok
      rw [← hok]
    refine ⟨tgt, mask, rfl, htg, ?_, by rw [hx]; exact hf, by rw [hx]⟩
    intro ⟨ha, hr⟩
    subst ha; subst hr
    simp at hemp


/-- where an entity is and what its row holds, as the index sees it -/
def At (w : World) (id : Nat) (t : Nat) (row : Row) : Prop :=
  ∃ l, loc w id = some l ∧ l.tbl = t ∧ rowAt w l.tbl l.row = row

theorem at_of_sameRows {w w' : World} (h : SameRows w w') (hi : IdxInv w) (id t : Nat) (row : Row) (ha : At w id t row) :
    At w' id t row := by
  obtain ⟨l, h1, h2, h3⟩ := ha
  refine ⟨l, by rw [SameRows.loc_eq h]; exact h1, h2, ?_⟩
  rw [SameRows.rowAt_eq h _ _ (hi.fwd id l h1).1.1]; exact h3

theorem tnodeOK_of_node_eq (w w' : World) (hs : w'.tables.size = w.tables.size) (hn : w'.nodes = w.nodes)
    (h : ∀ t, (w'.tableOf t).node = (w.tableOf t).node) (ht : TNodeOK w) : TNodeOK w' := by
  intro t hlt
  rw [h t, hn]
  exact ht t (by omega)

/-- **exchange**: the entity arrives in a table whose component set is `old − rem + add`,
    carrying its kept values (zeros for the added components); every other entity keeps its
    table and its row content; tables keep their component lists; the index invariant holds. -/
theorem exchange_spec (w : World) (e : Entity) (add rem : List CompId) (rel : Option CompId) (target : Entity) (x : Exchanged)
    (hI : WInv w) (hl : loc w e.id = some (w.locOf e))
    (he : (rowAt w (w.locOf e).tbl (w.locOf e).row).ent = e)
    (hok : (w.exchangeNoNotify e add rem rel target).out = .ok (some x)) :
    IdxInv (w.exchangeNoNotify e add rem rel target).w ∧
    (w.exchangeNoNotify e add rem rel target).w.tableMask x.tbl = newMask (w.tableMask (w.locOf e).tbl) add rem ∧
    At (w.exchangeNoNotify e add rem rel target).w e.id x.tbl
      ⟨e, movedVals (w.tableIds (w.locOf e).tbl) ((w.exchangeNoNotify e add rem rel target).w.tableIds x.tbl)
            (rowAt w (w.locOf e).tbl (w.locOf e).row).vals⟩ ∧
    (∀ id t row, id ≠ e.id → At w id t row → At (w.exchangeNoNotify e add rem rel target).w id t row) ∧
    (∀ t, t < w.tables.size → (w.exchangeNoNotify e add rem rel target).w.tableIds t = w.tableIds t ∧
        (w.exchangeNoNotify e add rem rel target).w.tableMask t = w.tableMask t) := by
  obtain ⟨tgt, mask, hmask, _, hne, hf, hw⟩ := exchange_world w e add rem rel target x hok
  rw [hw]
  generalize hsrc : w.locOf e = l at *
  have hv : validRow w l.tbl l.row := (hI.idx.fwd _ _ hl).1
  obtain ⟨hremok, _⟩ := remOK_of_exchangeMask _ _ _ _ hmask
  obtain ⟨s1, n1, g1, hspec⟩ := findOrCreateTable_spec w hI.node hI.graph l.tbl hv.1 add rem tgt hremok
  obtain ⟨htlt, htmask⟩ := hspec x.tbl hf
  generalize hw1 : (w.findOrCreateTable l.tbl add rem tgt).1 = w1 at *
  have i1 : IdxInv w1 := SameRows.idxInv s1 hI.node.tnode hI.idx
  have hv1 : validRow w1 l.tbl l.row := (i1.fwd _ _ (by rw [SameRows.loc_eq s1]; exact hl)).1
  have he1 : (rowAt w1 l.tbl l.row).ent = e := by rw [SameRows.rowAt_eq s1 _ _ hv.1]; exact he
  have hadds := findOrCreateTable_ok_adds w l.tbl add rem tgt x.tbl (by rw [← hf])
  have hmne := newMask_ne _ _ _ hremok hadds hne
  have hsrcmask : w1.tableMask l.tbl = w.tableMask l.tbl := SameRows.tableMask_eq s1 hI.node.tnode _ hv.1
  have htne : x.tbl ≠ l.tbl := by
    intro heq
    apply hmne
    rw [← htmask, heq, ← hsrcmask]; rfl
  rw [moveEntity_eq w1 e l x.tbl htlt hv1 htne he1]
  generalize hcap : ((w1.tableOf x.tbl).extend (w1.nodeOf (w1.tableOf x.tbl).node).capInc 1).cap = cap
  -- after the swap-remove
  have i2 : IdxInv (dropRow w1 l.tbl l.row) := dropRow_inv w1 i1 _ _ hv1
  have hsz2 : (dropRow w1 l.tbl l.row).tables.size = w1.tables.size := tables_size_dropRow _ _ _ hv1.1 hv1.2
  have hidlt : e.id < w1.index.size := loc_lt _ _ _ (by rw [SameRows.loc_eq s1]; exact hl)
  have hidlt2 : (movedRow w1 e l x.tbl).ent.id < (dropRow w1 l.tbl l.row).index.size := by
    have : (dropRow w1 l.tbl l.row).index.size = w1.index.size := by
      unfold dropRow; simp only []; rw [removeRowFix_eq _ _ _ hv1.1 hv1.2]; split <;> simp [setIndex, setTable]
    rw [this]; exact hidlt
  have hfree : loc (dropRow w1 l.tbl l.row) (movedRow w1 e l x.tbl).ent.id = none := by
    rw [loc_dropRow w1 i1 _ _ hv1]
    have : (movedRow w1 e l x.tbl).ent.id = (rowAt w1 l.tbl l.row).ent.id := by rw [he1]; rfl
    rw [if_pos this]
  have hwidth : (movedRow w1 e l x.tbl).vals.length = ((dropRow w1 l.tbl l.row).tableIds x.tbl).length := by
    rw [tableIds_dropRow _ _ _ hv1.1 hv1.2]
    exact movedVals_length _ _ _
  have i3 := pushRow_inv _ i2 x.tbl (movedRow w1 e l x.tbl) cap (by rw [hsz2]; exact htlt) hidlt2 hfree hwidth
  generalize hw3 : pushRow (dropRow w1 l.tbl l.row) x.tbl (movedRow w1 e l x.tbl) cap = w3 at *
  -- node fields
  have hnode3 : ∀ t, (w3.tableOf t).node = (w1.tableOf t).node := by
    intro t; rw [← hw3, (node_pushRow _ _ _ _ (by rw [hsz2]; exact htlt) t).1, (node_dropRow _ _ _ hv1.1 hv1.2 t).1]
  have hnodes3 : w3.nodes = w1.nodes := by
    rw [← hw3, (node_pushRow _ _ _ _ (by rw [hsz2]; exact htlt) 0).2, (node_dropRow _ _ _ hv1.1 hv1.2 0).2]
  have hsz3 : w3.tables.size = w1.tables.size := by rw [← hw3, tables_size_pushRow, hsz2]
  have tn3 : TNodeOK w3 := tnodeOK_of_node_eq w1 w3 hsz3 hnodes3 hnode3 n1.tnode
  have hids3 : ∀ t, w3.tableIds t = w1.tableIds t := by
    intro t; unfold tableIds nodeOfTable nodeOf; rw [hnode3, hnodes3]
  have hmask3 : ∀ t, w3.tableMask t = w1.tableMask t := by
    intro t; unfold tableMask nodeOfTable nodeOf; rw [hnode3, hnodes3]
  -- the tail: mark the target, clean up the source
  have s4 : SameRows w3 (w3.markTarget tgt) := of_markTarget w3 tgt
  have tn4 : TNodeOK (w3.markTarget tgt) := s4.tnode tn3
  have hsz4 : (w3.markTarget tgt).tables.size = w3.tables.size := by unfold markTarget setFlag; split <;> rfl
  have s5 : SameRows (w3.markTarget tgt) ((w3.markTarget tgt).cleanupTable l.tbl) :=
    of_cleanupTable _ _ (by rw [hsz4, hsz3]; exact hv1.1)
  have s35 := SameRows.trans s4 s5
  generalize hw5 : (w3.markTarget tgt).cleanupTable l.tbl = w5 at *
  have i5 : IdxInv w5 := SameRows.idxInv s35 tn3 i3
  have hids5 : ∀ t, t < w1.tables.size → w5.tableIds t = w1.tableIds t := by
    intro t ht; rw [SameRows.tableIds_eq s35 tn3 t (by rw [hsz3]; exact ht), hids3]
  have hmask5 : ∀ t, t < w1.tables.size → w5.tableMask t = w1.tableMask t := by
    intro t ht; rw [SameRows.tableMask_eq s35 tn3 t (by rw [hsz3]; exact ht), hmask3]
  refine ⟨i5, ?_, ?_, ?_, ?_⟩
  · rw [hmask5 _ htlt]; exact htmask
  · -- the moved entity
    apply at_of_sameRows s35 i3
    refine ⟨⟨x.tbl, ((dropRow w1 l.tbl l.row).tableOf x.tbl).rows.size⟩, ?_, rfl, ?_⟩
    · rw [← hw3]; unfold pushRow; simp only []
      rw [loc_setIndex]
      have : (movedRow w1 e l x.tbl).ent.id = e.id := rfl
      rw [if_pos ⟨this, by rw [index_setTable]; exact hidlt2⟩]
    · rw [← hw3, rowAt_pushRow _ _ _ _ (by rw [hsz2]; exact htlt)]
      simp only [and_self, ↓reduceIte]
      unfold movedRow
      rw [hids5 _ htlt, SameRows.tableIds_eq s1 hI.node.tnode _ hv.1, SameRows.rowAt_eq s1 _ _ hv.1]
  · -- every other entity
    intro id t row hid ha
    apply at_of_sameRows s35 i3
    obtain ⟨l0, h1, h2, h3⟩ := at_of_sameRows s1 hI.idx id t row ha
    obtain ⟨l', a1, a2, a3⟩ := dropRow_frame w1 i1 l.tbl l.row hv1 id (by rw [he1]; exact hid) l0 h1
    obtain ⟨b1, b2⟩ := pushRow_frame (dropRow w1 l.tbl l.row) x.tbl (movedRow w1 e l x.tbl) cap (by rw [hsz2]; exact htlt) hidlt2 i2 id hid l' a1
    rw [hw3] at b1 b2
    exact ⟨l', b1, a2.trans h2, by rw [b2, a3]; exact h3⟩
  · intro t ht
    have ht1 : t < w1.tables.size := Nat.lt_of_lt_of_le ht s1.tsize
    exact ⟨by rw [hids5 t ht1, SameRows.tableIds_eq s1 hI.node.tnode t ht], by rw [hmask5 t ht1, SameRows.tableMask_eq s1 hI.node.tnode t ht]⟩


/-- kept components keep their values, added ones read zero -/
theorem exchange_values (w : World) (e : Entity) (add rem : List CompId) (rel : Option CompId) (target : Entity) (x : Exchanged)
    (hI : WInv w) (hl : loc w e.id = some (w.locOf e))
    (he : (rowAt w (w.locOf e).tbl (w.locOf e).row).ent = e)
    (hok : (w.exchangeNoNotify e add rem rel target).out = .ok (some x)) :
    ∃ l', loc (w.exchangeNoNotify e add rem rel target).w e.id = some l' ∧ l'.tbl = x.tbl ∧
      ∀ id c, colOf ((w.exchangeNoNotify e add rem rel target).w.tableIds x.tbl) id = some c →
        (rowAt (w.exchangeNoNotify e add rem rel target).w l'.tbl l'.row).vals.getD c 0 =
          match colOf (w.tableIds (w.locOf e).tbl) id with
          | some c' => (rowAt w (w.locOf e).tbl (w.locOf e).row).vals.getD c' 0
          | none => 0 := by
  obtain ⟨_, _, ⟨l', h1, h2, h3⟩, _, _⟩ := exchange_spec w e add rem rel target x hI hl he hok
  refine ⟨l', h1, h2, ?_⟩
  intro id c hc
  rw [h3]
  exact movedVals_get _ _ _ id c hc

theorem winv_of_empty (w0 : World) (hn0 : w0.nodes = #[]) (ht0 : w0.tables = #[]) (hi0 : w0.index = #[none]) :
    WInv ((w0.createNode 0 none).1.createTable (w0.createNode 0 none).2 Entity.zero false).1 := by
  have n0 : NodeInv w0 := by
    refine ⟨?_, ?_, ?_, ?_⟩
    · intro t ht; rw [ht0] at ht; simp at ht
    all_goals (intro n hn; rw [hn0] at hn; simp at hn)
  have g0 : GraphInv w0 := ⟨by intro n hn; rw [hn0] at hn; simp at hn⟩
  have i0 : IdxInv w0 := by
    refine ⟨?_, ?_, ?_⟩
    · intro id l hl
      unfold loc at hl; rw [hi0] at hl
      rw [Array.getD_eq_getD_getElem?] at hl
      cases id with
      | zero => simp at hl
      | succ k => simp at hl
    all_goals (intro t r hv; have := hv.1; rw [ht0] at this; simp at this)
  have n1 := nodeInv_createNode w0 n0 0 none
  have g1 := graphInv_createNode w0 g0 0 none
  have s1 := of_createNode w0 0 none
  have i1 := SameRows.idxInv s1 n0.tnode i0
  have hsz : (w0.createNode 0 none).2 < (w0.createNode 0 none).1.nodes.size := by
    unfold createNode; simp
  have hemp : ((w0.createNode 0 none).1.nodeOf (w0.createNode 0 none).2).tables.size = 0 := by
    unfold createNode nodeOf; simp only []; rw [getD_push]; simp
  obtain ⟨s2, n2, _, _⟩ := createTable_spec _ n1 _ hsz Entity.zero false (fun _ => hemp)
  exact ⟨n2, graphInv_createTable _ g1 _ _ _, SameRows.idxInv s2 n1.tnode i1⟩

/-- the initial world satisfies the structural invariant -/
theorem winv_init (cfg : Config) : WInv (World.init cfg) := by
  unfold World.init
  exact winv_of_empty _ rfl rfl rfl

end Arche.Props.C01
