/-
  C05 companion, tiny build (64-bit masks) — `World.setRelation` (the worker of `Relations.Set` and the generic `Map.SetRelation`) and
  `World.createArchetype` (ecs/world_internal.go), REGENERATED on every run on a view of the `World` struct; tables,
  graph nodes and the listener are a hidden state (reads see it, `Alloc`, `SetPointer`, `Remove`, `CreateArchetype`,
  `Notify` … act on it), a member access through a nil table pointer panics.

  * `setRelation_locked`, `setRelation_dead`, `setRelation_dead_target`: the three refusals that come first —
    a locked world, an entity the pool does not call alive, a non-zero target the pool does not call alive;
  * `createArchetype_frame`: creating a table changes the filter cache and the hidden state only;
  * `setRelation_effect`: whenever the call succeeds, the pool is untouched; either the table of the entity already has
    that target and NOTHING changes, or: the entity is indexed under the table returned for the new target (found in the
    node or created) with the row `Alloc` returned, the entity swapped into its old row — and only that one — takes
    that row, the flag of the new target is set (if it is not the zero entity) and no other flag changes, and nothing
    else but the filter cache changes (the old table is retired only through `cleanupArchetype`).
-/
import ArcheProofs.Props.C02_Remove64

namespace Arche.Props.C05_SetRelGen64
open ArcheGen ArcheGen.P64 Arche Arche.Props

section
variable {Ext : Type}
  (archActiveF : Ext → Option Nat → Bool) (archAllocF : Ext → Option Nat → P64.Entity → Ext × BitVec 32)
  (archGetEntityF : Ext → Option Nat → BitVec 32 → P64.Entity) (archGetF : Ext → Option Nat → BitVec 32 → BitVec 8 → GoAny)
  (archHasComponentF : Ext → Option Nat → BitVec 8 → Bool) (archHasRelationF : Ext → Option Nat → Bool)
  (archInitF : Ext → Option Nat → Option Nat → Option Nat → BitVec 32 → Bool → Int → P64.Entity → Ext × Unit)
  (archLenF : Ext → Option Nat → BitVec 32) (archMaskF : Ext → Option Nat → ArcheGen.M64.Mask)
  (archNodeF : Ext → Option Nat → Option Nat) (archRemoveF : Ext → Option Nat → BitVec 32 → Ext × Bool)
  (archSetPointerF : Ext → Option Nat → BitVec 32 → BitVec 8 → GoAny → Ext × Unit) (archTargetF : Ext → Option Nat → P64.Entity)
  (lstCompsF : Ext → GoAny → Option (ArcheGen.M64.Mask)) (lstSubsF : Ext → GoAny → BitVec 8)
  (matchesF : GoAny → ArcheGen.M64.Mask → Bool)
  (nodeCreateArchetypeF : Ext → Option Nat → Int → P64.Entity → Ext × Option Nat)
  (nodeGetArchetypeF : Ext → Option Nat → P64.Entity → Option Nat × Bool) (nodeHasRelationF : Ext → Option Nat → Bool)
  (nodeIdsF : Ext → Option Nat → GoSlice (BitVec 8)) (nodeRelationF : Ext → Option Nat → BitVec 8)
  (nodeRemoveArchetypeF : Ext → Option Nat → Option Nat → Ext × Unit) (nodeSetArchetypeF : Ext → Option Nat → Option Nat → Ext × Unit)
  (notifyF : Ext → GoAny → EntityEvent → Ext × Unit) (pagedAddF : Ext → Nat → Ext × Unit)
  (pagedGetF : Ext → Nat → BitVec 32 → Option Nat) (pagedLenF : Ext → Nat → BitVec 32) (relationTargetF : GoAny → Option P64.Entity)

theorem createArchetype_frame (w w' : P64.World) (node : Option Nat) (target : P64.Entity) (fs : Bool) (ext ext' : Ext) (a : Option Nat)
    (h : P64.World.createArchetype archHasRelationF archInitF archMaskF archTargetF matchesF nodeCreateArchetypeF nodeHasRelationF
          nodeSetArchetypeF pagedAddF pagedGetF pagedLenF relationTargetF w node target fs ext = some (w', ext', a)) :
    C02_Remove64.CacheOnly w w' := by
  unfold P64.World.createArchetype at h
  simp only [componentRegistry.Count, Option.bind_eq_bind, Option.bind_some, pure] at h
  obtain ⟨n, hn, h⟩ := Option.bind_eq_some_iff.mp h
  obtain ⟨⟨w1, e1, a1⟩, hj, h⟩ := Option.bind_eq_some_iff.mp h
  try dsimp only at h
  obtain ⟨c, hc, h⟩ := Option.bind_eq_some_iff.mp h
  simp only [Option.some.injEq, Prod.mk.injEq] at h
  have hw1 : w = w1 := by
    split at hj
    · obtain ⟨_, _, hj⟩ := Option.bind_eq_some_iff.mp hj
      simp only [Option.some.injEq, Prod.mk.injEq] at hj
      exact hj.1
    · obtain ⟨_, _, hj⟩ := Option.bind_eq_some_iff.mp hj
      obtain ⟨_, _, hj⟩ := Option.bind_eq_some_iff.mp hj
      simp only [Option.some.injEq, Prod.mk.injEq] at hj
      exact hj.1
  subst hw1
  unfold C02_Remove64.CacheOnly
  rw [← h.1]

theorem setRelation_locked (w : P64.World) (e : P64.Entity) (comp : BitVec 8) (target : P64.Entity) (ext : Ext)
    (h : LockMask.isLocked (C09_LockPool64.absLM w.locks) = true) :
    P64.World.setRelation archActiveF archAllocF archGetEntityF archGetF archHasComponentF archHasRelationF archInitF archLenF archMaskF
      archNodeF archRemoveF archSetPointerF archTargetF lstCompsF lstSubsF matchesF nodeCreateArchetypeF nodeGetArchetypeF nodeHasRelationF
      nodeIdsF nodeRelationF nodeRemoveArchetypeF nodeSetArchetypeF notifyF pagedAddF pagedGetF pagedLenF relationTargetF
      w e comp target ext = none := by
  unfold P64.World.setRelation
  rw [C09_WorldLock64.checkLocked_spec]
  simp [h, bind, Option.bind]

theorem setRelation_dead (w : P64.World) (e : P64.Entity) (comp : BitVec 8) (target : P64.Entity) (ext : Ext)
    (h : Pool.alive? (C02_Pool64.absPool w.entityPool) (C02_Pool64.absE e) ≠ some true) :
    P64.World.setRelation archActiveF archAllocF archGetEntityF archGetF archHasComponentF archHasRelationF archInitF archLenF archMaskF
      archNodeF archRemoveF archSetPointerF archTargetF lstCompsF lstSubsF matchesF nodeCreateArchetypeF nodeGetArchetypeF nodeHasRelationF
      nodeIdsF nodeRelationF nodeRemoveArchetypeF nodeSetArchetypeF notifyF pagedAddF pagedGetF pagedLenF relationTargetF
      w e comp target ext = none := by
  unfold P64.World.setRelation
  rw [C09_WorldLock64.checkLocked_spec]
  by_cases hl : LockMask.isLocked (C09_LockPool64.absLM w.locks) = true
  · simp [hl, bind, Option.bind]
  · simp only [hl, Bool.false_eq_true, ↓reduceIte, bind, Option.bind]
    cases ha : Pool.alive? (C02_Pool64.absPool w.entityPool) (C02_Pool64.absE e) with
    | none => simp only [C02_Create64.alive_none _ _ ha]
    | some b =>
      cases b with
      | true => exact absurd ha h
      | false => simp only [C02_Create64.alive_eq _ _ _ ha, Bool.not_false, ↓reduceIte]

theorem setRelation_dead_target (w : P64.World) (e : P64.Entity) (comp : BitVec 8) (target : P64.Entity) (ext : Ext)
    (hz : target.id ≠ 0#32)
    (h : Pool.alive? (C02_Pool64.absPool w.entityPool) (C02_Pool64.absE target) ≠ some true) :
    P64.World.setRelation archActiveF archAllocF archGetEntityF archGetF archHasComponentF archHasRelationF archInitF archLenF archMaskF
      archNodeF archRemoveF archSetPointerF archTargetF lstCompsF lstSubsF matchesF nodeCreateArchetypeF nodeGetArchetypeF nodeHasRelationF
      nodeIdsF nodeRelationF nodeRemoveArchetypeF nodeSetArchetypeF notifyF pagedAddF pagedGetF pagedLenF relationTargetF
      w e comp target ext = none := by
  unfold P64.World.setRelation
  rw [C09_WorldLock64.checkLocked_spec]
  by_cases hl : LockMask.isLocked (C09_LockPool64.absLM w.locks) = true
  · simp [hl, bind, Option.bind]
  · simp only [hl, Bool.false_eq_true, ↓reduceIte, bind, Option.bind]
    cases hae : Pool.alive? (C02_Pool64.absPool w.entityPool) (C02_Pool64.absE e) with
    | none => simp only [C02_Create64.alive_none _ _ hae]
    | some b =>
      cases b with
      | false => simp only [C02_Create64.alive_eq _ _ _ hae, Bool.not_false, ↓reduceIte]
      | true =>
        have hz' : (target.id == 0#32) = false := by simpa using hz
        simp only [C02_Create64.alive_eq _ _ _ hae, Bool.not_true, Bool.false_eq_true, ↓reduceIte, Entity.IsZero, pure, hz', Bool.not_false]
        cases ha : Pool.alive? (C02_Pool64.absPool w.entityPool) (C02_Pool64.absE target) with
        | none => simp only [C02_Create64.alive_none _ _ ha]
        | some b =>
          cases b with
          | true => exact absurd ha h
          | false => simp only [C02_Create64.alive_eq _ _ _ ha, Bool.not_false, ↓reduceIte]

theorem checkRelation_same (hasF : Option Nat → BitVec 8 → Bool) (nodeF : Option Nat → Option Nat) (hasRelF : Option Nat → Bool)
    (relF : Option Nat → BitVec 8) (w w1 : P64.World) (arch : Option Nat) (comp : BitVec 8)
    (h : P64.World.checkRelation hasF nodeF hasRelF relF w arch comp = some w1) : w1 = w := by
  unfold P64.World.checkRelation P64.World.relationError at h
  simp only [Option.bind_eq_bind, pure] at h
  obtain ⟨_, _, h⟩ := Option.bind_eq_some_iff.mp h
  obtain ⟨_, _, h⟩ := Option.bind_eq_some_iff.mp h
  obtain ⟨b1, _, h⟩ := Option.bind_eq_some_iff.mp h
  cases b1 with
  | true =>
    simp only [↓reduceIte] at h
    obtain ⟨_, hc, _⟩ := Option.bind_eq_some_iff.mp h
    obtain ⟨_, _, hc⟩ := Option.bind_eq_some_iff.mp hc
    split at hc <;> cases hc
  | false =>
    simp only [Bool.false_eq_true, ↓reduceIte, Option.some.injEq] at h
    exact h.symm

/-- the index after `setRelation`: the entity swapped into the freed row takes that row, the moved entity points to
    its new table and row -/
def indexAfter (arr : Array entityIndex) (id : Nat) (swapped : Bool) (sid : Nat) (arch : Option Nat) (row : BitVec 32) : Array entityIndex :=
  let a1 := if swapped then arr.setIfInBounds sid { (arr.getD sid default) with index := (arr.getD id default).index } else arr
  a1.setIfInBounds id ⟨arch, row⟩

/-- **what a successful `setRelation` does** -/
theorem setRelation_effect (w w' : P64.World) (e : P64.Entity) (comp : BitVec 8) (target : P64.Entity) (ext ext' : Ext)
    (x : entityIndex) (t : Nat) (hx : w.entities.arr[e.id.toNat]? = some x) (ht : x.arch = some t)
    (h : P64.World.setRelation archActiveF archAllocF archGetEntityF archGetF archHasComponentF archHasRelationF archInitF archLenF archMaskF
      archNodeF archRemoveF archSetPointerF archTargetF lstCompsF lstSubsF matchesF nodeCreateArchetypeF nodeGetArchetypeF nodeHasRelationF
      nodeIdsF nodeRelationF nodeRemoveArchetypeF nodeSetArchetypeF notifyF pagedAddF pagedGetF pagedLenF relationTargetF
      w e comp target ext = some (w', ext')) :
    LockMask.isLocked (C09_LockPool64.absLM w.locks) = false ∧
    Pool.alive? (C02_Pool64.absPool w.entityPool) (C02_Pool64.absE e) = some true ∧
    ((archTargetF ext (some t) = target ∧ w' = w ∧ ext' = ext) ∨
     (archTargetF ext (some t) ≠ target ∧
      ∃ (arch' : Nat) (row : BitVec 32) (swapped : Bool) (sid : Nat),
        w'.entities = ⟨indexAfter w.entities.arr e.id.toNat swapped sid (some arch') row, w.entities.cap⟩ ∧
        (∀ j, C06_BitSet64.bget w'.targetEntities j =
          if target.id ≠ 0#32 ∧ j = target.id.toNat then true else C06_BitSet64.bget w.targetEntities j) ∧
        w' = { w with entities := w'.entities, targetEntities := w'.targetEntities, filterCache := w'.filterCache })) := by
  unfold P64.World.setRelation at h
  rw [C09_WorldLock64.checkLocked_spec] at h
  by_cases hlk : LockMask.isLocked (C09_LockPool64.absLM w.locks) = true
  · simp [hlk, bind, Option.bind] at h
  have hlk' : LockMask.isLocked (C09_LockPool64.absLM w.locks) = false := by simpa using hlk
  simp only [hlk', Bool.false_eq_true, ↓reduceIte, Option.bind_eq_bind, Option.bind_some] at h
  cases ha : Pool.alive? (C02_Pool64.absPool w.entityPool) (C02_Pool64.absE e) with
  | none => simp [C02_Create64.alive_none _ _ ha] at h
  | some b =>
    cases b with
    | false => simp [C02_Create64.alive_eq _ _ _ ha] at h
    | true =>
      simp only [C02_Create64.alive_eq _ _ _ ha, Option.bind_some, Bool.not_true, Bool.false_eq_true, ↓reduceIte, Entity.IsZero, pure] at h
      obtain ⟨⟨b7, w1⟩, hb7, h⟩ := Option.bind_eq_some_iff.mp h
      have hw1 : w = w1 := by
        split at hb7
        · obtain ⟨⟨p, b⟩, hal, hb7⟩ := Option.bind_eq_some_iff.mp hb7
          have hp := (C02_Pool64.alive_refines w.entityPool target).2 _ hal
          simp only at hp
          simp only [Option.some.injEq, Prod.mk.injEq] at hb7
          rw [← hb7.2, hp]
        · simp only [Option.some.injEq, Prod.mk.injEq] at hb7
          exact hb7.2
      subst hw1
      try dsimp only at h
      cases b7 with
      | true => simp at h
      | false =>
        simp only [Bool.false_eq_true, ↓reduceIte, GoSlice.get, hx, Option.bind_some] at h
        obtain ⟨w2, hcr, h⟩ := Option.bind_eq_some_iff.mp h
        have hw2 := (checkRelation_same _ _ _ _ _ _ _ _ hcr).symm
        subst hw2
        simp only [GoSlice.get, hx, Option.bind_some, ht] at h
        by_cases heq : (archTargetF ext (some t) == target) = true
        · simp only [heq, ↓reduceIte, Option.some.injEq, Prod.mk.injEq] at h
          refine ⟨hlk', rfl, Or.inl ⟨by simpa using heq, h.1.symm, h.2.symm⟩⟩
        · simp only [heq, Bool.false_eq_true, ↓reduceIte] at h
          refine ⟨hlk', rfl, Or.inr ⟨by simpa using heq, ?_⟩⟩
          obtain ⟨n, hn, hq1⟩ := Option.bind_eq_some_iff.mp h
          clear h
          have h := hq1
          clear hq1
          obtain ⟨⟨w3, e3, arch3⟩, hj, hq2⟩ := Option.bind_eq_some_iff.mp h
          clear h
          have h := hq2
          clear hq2
          try dsimp only at h
          have hw3 : C02_Remove64.CacheOnly w w3 := by
            split at hj
            · obtain ⟨⟨wc, ec, ac⟩, hcreate, hj⟩ := Option.bind_eq_some_iff.mp hj
              simp only [Option.some.injEq, Prod.mk.injEq] at hj
              rw [← hj.1]
              exact createArchetype_frame archHasRelationF archInitF archMaskF archTargetF matchesF nodeCreateArchetypeF nodeHasRelationF
                nodeSetArchetypeF pagedAddF pagedGetF pagedLenF relationTargetF _ _ _ _ _ _ _ _ hcreate
            · simp only [Option.some.injEq, Prod.mk.injEq] at hj
              rw [← hj.1]; exact C02_Remove64.CacheOnly.refl _
          obtain ⟨a', ha', hq3⟩ := Option.bind_eq_some_iff.mp h
          clear h
          have h := hq3
          clear hq3
          subst ha'
          obtain ⟨_, _, hq4⟩ := Option.bind_eq_some_iff.mp h
          clear h
          have h := hq4
          clear hq4
          obtain ⟨⟨w4, e4⟩, hloop, hq5⟩ := Option.bind_eq_some_iff.mp h
          clear h
          have h := hq5
          clear hq5
          have hw4 : w4 = w3 := by
            have := C02_Remove64.foldlM_inv (fun (s : P64.World × Ext) => s.1 = w3) _ ?_ _ _ _ rfl hloop
            · exact this
            · intro s k s' hs hk
              obtain ⟨_, _, hk⟩ := Option.bind_eq_some_iff.mp hk
              obtain ⟨_, _, hk⟩ := Option.bind_eq_some_iff.mp hk
              obtain ⟨_, _, hk⟩ := Option.bind_eq_some_iff.mp hk
              simp only [Option.bind_some, Option.some.injEq] at hk
              rw [← hk]; exact hs
          subst hw4
          try dsimp only at h
          unfold C02_Remove64.CacheOnly at hw3
          have hent : w4.entities = w.entities := by rw [hw3]
          have hflg : w4.targetEntities = w.targetEntities := by rw [hw3]
          simp only [hent, hx, Option.bind_some] at h
          -- the swap
          obtain ⟨⟨w5, e5⟩, hsw, hq6⟩ := Option.bind_eq_some_iff.mp h
          clear h
          have h := hq6
          clear hq6
          try dsimp only at h
          generalize hswp : (archRemoveF e4 (some t) x.index).2 = swapped at hsw
          generalize hsidg : (archGetEntityF (archRemoveF e4 (some t) x.index).1 (some t) x.index).id.toNat = sid at hsw
          have hidlt : e.id.toNat < w.entities.arr.size := (Array.getElem?_eq_some_iff.mp hx).1
          have hxD : w.entities.arr.getD e.id.toNat default = x := by
            rw [Array.getD_eq_getD_getElem?, hx]; rfl
          have hw5 : ∃ a1 : Array entityIndex, a1.size = w.entities.arr.size ∧
              w5 = { w4 with entities := ⟨a1, w.entities.cap⟩ } ∧
              a1 = (if swapped then w.entities.arr.setIfInBounds sid { (w.entities.arr.getD sid default) with index := x.index } else w.entities.arr) := by
            cases swapped with
            | false =>
              simp only [Bool.false_eq_true, ↓reduceIte, Option.some.injEq, Prod.mk.injEq] at hsw
              refine ⟨w.entities.arr, rfl, ?_, by simp⟩
              rw [← hsw.1, ← hent]
            | true =>
              simp only [↓reduceIte] at hsw
              obtain ⟨c23, hc23, hsw⟩ := Option.bind_eq_some_iff.mp hsw
              obtain ⟨u24, hu24, hsw⟩ := Option.bind_eq_some_iff.mp hsw
              simp only [Option.some.injEq, Prod.mk.injEq] at hsw
              have hslt : sid < w.entities.arr.size := (Array.getElem?_eq_some_iff.mp hc23).1
              have hsD : w.entities.arr.getD sid default = c23 := by
                rw [Array.getD_eq_getD_getElem?, hc23]; rfl
              simp only [GoSlice.set, hent, hslt, ↓reduceIte, Option.some.injEq] at hu24
              refine ⟨w.entities.arr.setIfInBounds sid { arch := c23.arch, index := x.index }, by simp, ?_, by simp [hsD]⟩
              rw [← hsw.1, ← hu24]
          obtain ⟨a1, ha1, hw5eq, ha1eq⟩ := hw5
          subst hw5eq
          -- the moved entity
          obtain ⟨u26, hu26, hq7⟩ := Option.bind_eq_some_iff.mp h
          clear h
          have h := hq7
          clear hq7
          have hu26' : u26 = ⟨a1.setIfInBounds e.id.toNat ⟨some a', (archAllocF e3 (some a') e).2⟩, w.entities.cap⟩ := by
            simp only [GoSlice.set, ha1, hidlt, ↓reduceIte, Option.some.injEq] at hu26
            exact hu26.symm
          subst hu26'
          -- the target flag
          obtain ⟨⟨w6, e6⟩, hfl, hq8⟩ := Option.bind_eq_some_iff.mp h
          clear h
          have h := hq8
          clear hq8
          try dsimp only at h
          have hw6 : ∃ ts, w6 = { w4 with entities := ⟨a1.setIfInBounds e.id.toNat ⟨some a', (archAllocF e3 (some a') e).2⟩, w.entities.cap⟩,
                                          targetEntities := ts } ∧
              (∀ j, C06_BitSet64.bget ts j = if target.id ≠ 0#32 ∧ j = target.id.toNat then true else C06_BitSet64.bget w.targetEntities j) := by
            by_cases hz : (target.id == 0#32) = true
            · simp only [hz, Bool.not_true, Bool.false_eq_true, ↓reduceIte, Option.some.injEq, Prod.mk.injEq] at hfl
              refine ⟨w.targetEntities, ?_, ?_⟩
              · rw [← hfl.1, ← hflg]
              · intro j
                have : target.id = 0#32 := by simpa using hz
                simp [this]
            · simp only [hz, Bool.not_false, ↓reduceIte] at hfl
              obtain ⟨o28, ho28, hfl⟩ := Option.bind_eq_some_iff.mp hfl
              simp only [Option.some.injEq, Prod.mk.injEq] at hfl
              simp only [hflg] at ho28
              have hrange : target.id.toNat / 64 < w.targetEntities.data.arr.size := by
                apply Classical.byContradiction
                intro hc
                have : bitSet.Set w.targetEntities target.id true = none := by
                  unfold bitSet.Set
                  simp only [bind, Option.bind, GoSlice.get]
                  rw [C06_BitSet64.div_toNat, Array.getElem?_eq_none (by omega)]
                  simp
                rw [this] at ho28; cases ho28
              obtain ⟨ts, hts, _, htsget⟩ := C06_BitSet64.set_get w.targetEntities target.id true hrange
              rw [hts] at ho28
              have hto : ts = o28 := Option.some.inj ho28
              rw [← hto] at hfl
              refine ⟨ts, hfl.1.symm, ?_⟩
              intro j
              have hne : target.id ≠ 0#32 := by simpa using hz
              rw [htsget j]
              by_cases hj : j = target.id.toNat <;> simp [hj, hne]
          obtain ⟨ts, hw6eq, hts⟩ := hw6
          subst hw6eq
          -- retiring the old table, notifying the listener
          obtain ⟨⟨w7, e7⟩, hcl, hq9⟩ := Option.bind_eq_some_iff.mp h
          clear h
          have h := hq9
          clear hq9
          have hw7 := C02_Remove64.cleanupArchetype_frame archActiveF archHasRelationF archLenF archMaskF archNodeF archTargetF matchesF
            nodeHasRelationF nodeRemoveArchetypeF _ _ _ _ _ hcl
          unfold C02_Remove64.CacheOnly at hw7
          try dsimp only at h
          obtain ⟨⟨w8, e8⟩, hls, hq10⟩ := Option.bind_eq_some_iff.mp h
          clear h
          have h := hq10
          clear hq10
          simp only [Option.some.injEq, Prod.mk.injEq] at h
          have hw8 : w8 = w7 := by
            split at hls
            · obtain ⟨⟨w9, e9⟩, hn9, hls⟩ := Option.bind_eq_some_iff.mp hls
              simp only [Option.some.injEq, Prod.mk.injEq] at hls
              rw [← hls.1]
              split at hn9 <;> simp only [Option.some.injEq, Prod.mk.injEq] at hn9 <;> exact hn9.1.symm
            · simp only [Option.some.injEq, Prod.mk.injEq] at hls
              exact hls.1.symm
          have hfinal : w' = w7 := by rw [← h.1, hw8]
          refine ⟨a', (archAllocF e3 (some a') e).2, swapped, sid, ?_, ?_, ?_⟩
          · rw [hfinal, hw7]; simp only [indexAfter, hxD, ← ha1eq]
          · intro j; rw [hfinal, hw7]; exact hts j
          · rw [hfinal, hw7]; simp only; rw [hw3]

end

/-! ### non-vacuity: a concrete run of the regenerated code -/

def demoPool : entityPool := { entities := ⟨#[⟨0#32, 0#32⟩, ⟨1#32, 0#32⟩, ⟨2#32, 0#32⟩, ⟨3#32, 0#32⟩], 4⟩, next := 0#32, available := 0#32, capacityIncrement := 4#32 }
def demoIdx : GoSlice entityIndex := ⟨#[default, ⟨some 7, 0#32⟩, ⟨some 7, 1#32⟩, ⟨some 0, 0#32⟩], 4⟩
def demoFlags : bitSet := { data := ⟨#[0#64], 1⟩ }
def demoWorld : P64.World := { (default : P64.World) with entityPool := demoPool, entities := demoIdx, targetEntities := demoFlags }
/-- hidden state: a log. Table 7 (relation component 5, no target yet) holds entities 1 and 2; entity 3 is the new
    target. The node has no table for target 3, so one is created (token 9); entity 1 moves there (row 0), entity 2 is
    swapped into its old row 0, the flag of target 3 is set. -/
def demoRun : Option (P64.World × List Nat) :=
  P64.World.setRelation (Ext := List Nat)
    (fun _ _ => true) (fun log a _ => (log ++ [200 + a.getD 0], 0#32)) (fun _ _ _ => ⟨2#32, 0#32⟩) (fun _ _ _ _ => none)
    (fun _ _ _ => true) (fun _ _ => true) (fun log _ _ _ _ _ _ _ => (log, ())) (fun _ _ => 1#32) (fun _ _ => default)
    (fun _ _ => some 3) (fun log a row => (log ++ [100 + a.getD 0, row.toNat], true)) (fun log _ _ _ _ => (log, ()))
    (fun _ _ => default) (fun _ _ => none) (fun _ _ => 0#8) (fun _ _ => false)
    (fun log _ _ _ => (log ++ [900], some 9)) (fun _ _ _ => (none, false)) (fun _ _ => true)
    (fun _ _ => default) (fun _ _ => 5#8) (fun log _ _ => (log ++ [999], ())) (fun log _ _ => (log, ()))
    (fun log _ _ => (log ++ [555], ())) (fun log _ => (log, ())) (fun _ _ _ => none) (fun _ _ => 0#32) (fun _ => none)
    demoWorld ⟨1#32, 0#32⟩ 5#8 ⟨3#32, 0#32⟩ []
def demoOut : Option (List (Nat × Nat) × List Nat) :=
  demoRun.map (fun r =>
    (r.1.entities.arr.toList.map (fun x => (x.arch.getD 99, x.index.toNat)),
     [(r.1.targetEntities.data.arr.getD 0 0#64).toNat, r.1.entityPool.entities.arr.size] ++ r.2))
def demoExpected : Option (List (Nat × Nat) × List Nat) :=
  some ([(99, 0), (9, 0), (7, 0), (0, 0)], [8, 4, 900, 209, 107, 0])
theorem demo_run : demoOut = demoExpected := by decide +kernel

end Arche.Props.C05_SetRelGen64
