/-
  C06 companion — the REGENERATED table-retirement helpers (`removeArchetype`, `cleanupArchetype`,
  `cleanupArchetypes`; proofs in `C02_Remove`), carried as obligations of the C06 check: retiring the tables of a dead
  target changes the filter cache and the tables only — never the entity pool, the entity index, the target flags
  or the locks, so no entity can be corrupted or leaked by it.
-/
import ArcheProofs.Props.C02_Remove

namespace Arche.Props.C06_Retire
open ArcheGen ArcheGen.P256 Arche Arche.Props

theorem removeArchetype_frame {Ext : Type} (archHasRelationF : Ext → Option Nat → Bool) (archMaskF : Ext → Option Nat → ArcheGen.M256.Mask)
    (archNodeF : Ext → Option Nat → Option Nat) (matchesF : GoAny → ArcheGen.M256.Mask → Bool)
    (nodeRemoveArchetypeF : Ext → Option Nat → Option Nat → Ext × Unit)
    (w w' : P256.World) (arch : Option Nat) (ext ext' : Ext)
    (h : P256.World.removeArchetype archHasRelationF archMaskF archNodeF matchesF nodeRemoveArchetypeF w arch ext = some (w', ext')) :
    w' = { w with filterCache := w'.filterCache } :=
  C02_Remove.removeArchetype_frame archHasRelationF archMaskF archNodeF matchesF nodeRemoveArchetypeF w w' arch ext ext' h

theorem cleanupArchetype_frame {Ext : Type} (archActiveF : Ext → Option Nat → Bool) (archHasRelationF : Ext → Option Nat → Bool)
    (archLenF : Ext → Option Nat → BitVec 32) (archMaskF : Ext → Option Nat → ArcheGen.M256.Mask)
    (archNodeF : Ext → Option Nat → Option Nat) (archTargetF : Ext → Option Nat → P256.Entity)
    (matchesF : GoAny → ArcheGen.M256.Mask → Bool) (nodeHasRelationF : Ext → Option Nat → Bool)
    (nodeRemoveArchetypeF : Ext → Option Nat → Option Nat → Ext × Unit)
    (w w' : P256.World) (arch : Option Nat) (ext ext' : Ext)
    (h : P256.World.cleanupArchetype archActiveF archHasRelationF archLenF archMaskF archNodeF archTargetF matchesF nodeHasRelationF
          nodeRemoveArchetypeF w arch ext = some (w', ext')) :
    w' = { w with filterCache := w'.filterCache } :=
  C02_Remove.cleanupArchetype_frame archActiveF archHasRelationF archLenF archMaskF archNodeF archTargetF matchesF nodeHasRelationF
    nodeRemoveArchetypeF w w' arch ext ext' h

theorem cleanupArchetypes_frame {Ext : Type} (archHasRelationF : Ext → Option Nat → Bool) (archLenF : Ext → Option Nat → BitVec 32)
    (archMaskF : Ext → Option Nat → ArcheGen.M256.Mask) (archNodeF : Ext → Option Nat → Option Nat)
    (matchesF : GoAny → ArcheGen.M256.Mask → Bool) (nodeArchMapF : Ext → Option Nat → P256.Entity → Option (Option Nat))
    (nodeRemoveArchetypeF : Ext → Option Nat → Option Nat → Ext × Unit)
    (w w' : P256.World) (target : P256.Entity) (ext ext' : Ext)
    (h : P256.World.cleanupArchetypes archHasRelationF archLenF archMaskF archNodeF matchesF nodeArchMapF
          nodeRemoveArchetypeF w target ext = some (w', ext')) :
    w' = { w with filterCache := w'.filterCache } :=
  C02_Remove.cleanupArchetypes_frame archHasRelationF archLenF archMaskF archNodeF matchesF nodeArchMapF nodeRemoveArchetypeF
    w w' target ext ext' h

end Arche.Props.C06_Retire
