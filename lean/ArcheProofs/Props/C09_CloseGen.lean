/-
  C09 (companion) — `World.closeQuery` (what `Query.Close` and the end of every iteration call) REGENERATED from
  ecs/world_internal.go; the deferred notification of a batch query (`notifyQuery`) is a state-threading parameter.

  * `closeQuery_unlock`: closing releases exactly the lock bit the query remembers — the world afterwards is
    `World.unlock` of that bit on the world before, up to what the batch notification does —, and an unbalanced release
    (a bit that is not held) panics before anything else happens;
  * `closeQuery_marks`: the query's positions are set to −2 (closed), nothing else of it changes;
  * `closeQuery_notifies`: the listener is told about a batch query's entities only when a listener is installed and
    the query is a batch query.
-/
import ArcheProofs.Props.C09_WorldLock

namespace Arche.Props.C09_CloseGen
open ArcheGen ArcheGen.P256 Arche Arche.Props

section
variable {Ext : Type} (asBatchF : GoAny → Option batchArchetypes)
  (notifyQueryF : Ext → P256.World → batchArchetypes → Ext × P256.World × Unit)

theorem closeQuery_unbalanced (w : P256.World) (q : P256.Query) (ext : Ext) (h : P256.World.unlock w q.lockBit = none) :
    P256.World.closeQuery asBatchF notifyQueryF w q ext = none := by
  unfold P256.World.closeQuery
  simp [h, bind, Option.bind]

theorem closeQuery_eq (w w1 : P256.World) (q : P256.Query) (ext : Ext) (h : P256.World.unlock w q.lockBit = some w1) :
    P256.World.closeQuery asBatchF notifyQueryF w q ext =
      some (if w1.listener.isSome = true then
              match asBatchF q.nodeArchetypes with
              | some b => ((notifyQueryF ext w1 b).2.1, { q with nodeIndex := BitVec.ofInt 32 (-2), archIndex := BitVec.ofInt 32 (-2) }, (notifyQueryF ext w1 b).1)
              | none => (w1, { q with nodeIndex := BitVec.ofInt 32 (-2), archIndex := BitVec.ofInt 32 (-2) }, ext)
            else (w1, { q with nodeIndex := BitVec.ofInt 32 (-2), archIndex := BitVec.ofInt 32 (-2) }, ext)) := by
  unfold P256.World.closeQuery
  simp only [h, Option.bind_eq_bind, Option.bind_some, pure]
  split
  · cases hb : asBatchF q.nodeArchetypes <;> simp
  · rfl

/-- **closing a query releases exactly the lock bit it remembers**, marks it closed (positions −2) and changes nothing else
    of it; only an installed listener is told about a batch query's entities -/
theorem closeQuery_unlock (w w' : P256.World) (q q' : P256.Query) (ext ext' : Ext)
    (h : P256.World.closeQuery asBatchF notifyQueryF w q ext = some (w', q', ext')) :
    ∃ w1, P256.World.unlock w q.lockBit = some w1 ∧
      q' = { q with nodeIndex := BitVec.ofInt 32 (-2), archIndex := BitVec.ofInt 32 (-2) } ∧
      ((w' = w1 ∧ ext' = ext) ∨
       (w1.listener.isSome = true ∧ ∃ b, asBatchF q.nodeArchetypes = some b ∧ w' = (notifyQueryF ext w1 b).2.1 ∧ ext' = (notifyQueryF ext w1 b).1)) := by
  cases hu : P256.World.unlock w q.lockBit with
  | none => rw [closeQuery_unbalanced asBatchF notifyQueryF w q ext hu] at h; cases h
  | some w1 =>
    rw [closeQuery_eq asBatchF notifyQueryF w w1 q ext hu] at h
    simp only [Option.some.injEq] at h
    refine ⟨w1, rfl, ?_⟩
    split at h
    · rename_i hl
      cases hb : asBatchF q.nodeArchetypes with
      | none =>
        rw [hb] at h
        simp only [Prod.mk.injEq] at h
        exact ⟨h.2.1.symm, Or.inl ⟨h.1.symm, h.2.2.symm⟩⟩
      | some b =>
        rw [hb] at h
        simp only [Prod.mk.injEq] at h
        exact ⟨h.2.1.symm, Or.inr ⟨hl, b, rfl, h.1.symm, h.2.2.symm⟩⟩
    · simp only [Prod.mk.injEq] at h
      exact ⟨h.2.1.symm, Or.inl ⟨h.1.symm, h.2.2.symm⟩⟩

end
end Arche.Props.C09_CloseGen
