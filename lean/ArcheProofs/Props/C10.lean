/-
  C10 — Illegal operations panic, and single-entity failures change nothing.

  On the model (whose agreement with the Go code — panic class, observable snapshot and hidden
  shape around every failed call — is checked by the fault-injecting correspondence):

  * **failure frame.** Whenever a single-entity operation returns a panic, the world it
    leaves is `Quiet`ly related to the one before: index, pool, registry, every row of every
    table, every existing node's component set, the lock mask, the target flags, resources and
    listener are unchanged; the only thing that may have happened is that the archetype graph
    gained nodes/links or an empty table (which the Go code also keeps — `findOrCreateArchetype`
    runs before the last checks). For removal, relation get/set, component writes, resources,
    filter (un)registration, type registration and queries the world is *equal* to the one
    before (`*_fail`).
  * **illegal ⇒ panic.** Dead / recycled / never-issued entity, adding a present component,
    removing an absent one, duplicate ids in one call, a second relation component, relation
    calls on a missing or non-relation component, a dead target, non-positive batch count,
    out-of-range query index, non-positive step, duplicate / missing resource, registering a
    registered filter, unregistering an unknown one, exceeding the type limit — each is shown
    to return a panic (`*_panics`).
  The characterisation `exchangeMask_ok_iff` states exactly which add/remove lists are legal.
-/
import ArcheProofs.Props.C01
import ArcheProofs.Lemmas.Frame2
import ArcheProofs.Props.C03

namespace Arche.Props.C10
open Arche Arche.World Arche.Arr Arche.Storage Arche.IndexInv Arche.SameRows Arche.Graph Arche.NatMask Arche.Frame
open Arche.Props.C01 (WInv remOK_of_exchangeMask)

/-- "nothing observable changed": rows, index, pool, registry, node component sets, locks,
    flags, resources, listener — only graph nodes / empty tables may have been added -/
structure Quiet (w w' : World) : Prop where
  same : SameRows w w'
  aux : aux w' = aux w
  aux2 : aux2 w' = aux2 w

theorem Quiet.refl (w : World) : Quiet w w := ⟨SameRows.refl w, rfl, rfl⟩
theorem Quiet.of_eq {w w' : World} (h : w' = w) : Quiet w w' := by subst h; exact Quiet.refl _

theorem quiet_findOrCreateTable (w : World) (hI : WInv w) (start : Nat) (hs : start < w.tables.size)
    (add rem : List CompId) (target : Entity) (hrem : RemOK (w.tableMask start) rem) :
    Quiet w (w.findOrCreateTable start add rem target).1 :=
  ⟨(findOrCreateTable_spec w hI.node hI.graph start hs add rem target hrem).1, aux_findOrCreateTable _ _ _ _ _,
   aux2_findOrCreateTable _ _ _ _ _⟩

/-! ## failure frame -/

/-- a failing exchange (Add / Remove / Exchange / Relations.Exchange / Builder.Add) -/
theorem exchangeNoNotify_fail (w : World) (e : Entity) (add rem : List CompId) (rel : Option CompId) (target : Entity) (p : Panic)
    (hI : WInv w) (hl : (w.locOf e).tbl < w.tables.size)
    (h : (w.exchangeNoNotify e add rem rel target).out = .error p) :
    Quiet w (w.exchangeNoNotify e add rem rel target).w := by
  unfold exchangeNoNotify at h ⊢
  by_cases hlk : w.isLocked = true
  · simp only [hlk, ↓reduceIte]; exact Quiet.refl _
  simp only [hlk, Bool.false_eq_true, ↓reduceIte] at h ⊢
  cases hal : w.checkAlive e with
  | some q => simp only []; exact Quiet.refl _
  | none =>
  simp only [hal] at h ⊢
  by_cases hemp : (add.isEmpty && rem.isEmpty) = true
  · simp only [hemp, ↓reduceIte]; split <;> exact Quiet.refl _
  simp only [hemp, Bool.false_eq_true, ↓reduceIte] at h ⊢
  cases hmask : exchangeMask (w.tableMask (w.locOf e).tbl) add rem with
  | error q => simp only []; exact Quiet.refl _
  | ok mask =>
  simp only [hmask] at h ⊢
  cases htg : w.exchangeTarget mask rel target (w.locOf e).tbl rem with
  | error q => simp only []; exact Quiet.refl _
  | ok tgt =>
  simp only [htg] at h ⊢
  have hq := quiet_findOrCreateTable w hI _ hl add rem tgt (remOK_of_exchangeMask _ _ _ _ hmask).1
  cases hf : (w.findOrCreateTable (w.locOf e).tbl add rem tgt).2 with
  | error q => simp only [hf]; exact hq
  | ok t => simp [hf] at h

theorem exchange_fail (w : World) (e : Entity) (add rem : List CompId) (rel : Option CompId) (target : Entity) (p : Panic)
    (hI : WInv w) (hl : (w.locOf e).tbl < w.tables.size)
    (h : (w.exchange e add rem rel target).out = .error p) :
    Quiet w (w.exchange e add rem rel target).w ∧ (w.exchange e add rem rel target).evs = [] := by
  unfold exchange at h ⊢
  simp only [] at h ⊢
  cases ho : (w.exchangeNoNotify e add rem rel target).out with
  | error q =>
    simp only [ho]
    exact ⟨exchangeNoNotify_fail w e add rem rel target q hI hl ho, rfl⟩
  | ok x =>
    rw [ho] at h
    cases x <;> simp at h

/-- a failing removal leaves the world as it was -/
theorem removeEntity_fail (w : World) (e : Entity) (p : Panic) (h : (w.removeEntity e).out = .error p) :
    (w.removeEntity e).w = w ∧ (w.removeEntity e).evs = [] := by
  unfold removeEntity at h ⊢
  by_cases hlk : w.isLocked = true
  · simp only [hlk, ↓reduceIte]; exact ⟨rfl, rfl⟩
  simp only [hlk, Bool.false_eq_true, ↓reduceIte] at h ⊢
  cases hal : w.checkAlive e with
  | some q => exact ⟨rfl, rfl⟩
  | none => simp [hal] at h

theorem getRelation_fail (w : World) (e : Entity) (c : CompId) (p : Panic) (_h : (w.getRelation e c).out = .error p) :
    (w.getRelation e c).w = w := by
  unfold getRelation
  split
  · rfl
  · simp only []; split <;> rfl

/-- `Relations.Get` never changes the world -/
theorem getRelation_pure (w : World) (e : Entity) (c : CompId) : (w.getRelation e c).w = w := by
  unfold getRelation
  split
  · rfl
  · simp only []; split <;> rfl

theorem setRelation_fail (w : World) (e : Entity) (c : CompId) (t : Entity) (p : Panic)
    (h : (w.setRelation e c t).out = .error p) : (w.setRelation e c t).w = w ∧ (w.setRelation e c t).evs = [] := by
  unfold setRelation at h ⊢
  by_cases hlk : w.isLocked = true
  · simp only [hlk, ↓reduceIte]; exact ⟨rfl, rfl⟩
  simp only [hlk, Bool.false_eq_true, ↓reduceIte] at h ⊢
  cases hal : w.checkAlive e with
  | some q => exact ⟨rfl, rfl⟩
  | none =>
  simp only [hal] at h ⊢
  cases htg : w.checkTarget t with
  | some q => exact ⟨rfl, rfl⟩
  | none =>
  simp only [htg] at h ⊢
  cases hr : w.checkRelation (w.locOf e).tbl c with
  | some q => exact ⟨rfl, rfl⟩
  | none =>
    simp only [hr] at h
    split at h <;> simp at h

/-- a failing `Set` (write of a component the entity lacks, dead entity) writes nothing -/
theorem set_fail (w : World) (e : Entity) (id : CompId) (v : Val) (p : Panic) (h : (w.copyTo e id v).2 = some p) :
    (w.copyTo e id v).1 = w := by
  unfold copyTo at h ⊢
  cases hal : w.checkAlive e with
  | some q => rfl
  | none =>
    simp only [hal] at h ⊢
    by_cases hm : (!Mask.get (w.tableMask (w.locOf e).tbl) id) = true
    · simp only [hm, ↓reduceIte]
    · simp [hm] at h

/-- a failing entity creation -/
theorem newEntity_fail (w : World) (comps : List CompId) (p : Panic) (hI : WInv w) (h0 : 0 < w.tables.size)
    (h : (w.newEntity comps).out = .error p) : Quiet w (w.newEntity comps).w ∧ (w.newEntity comps).evs = [] := by
  unfold newEntity at h ⊢
  by_cases hlk : w.isLocked = true
  · simp only [hlk, ↓reduceIte]; exact ⟨Quiet.refl _, rfl⟩
  simp only [hlk, Bool.false_eq_true, ↓reduceIte] at h ⊢
  by_cases hc : comps.isEmpty = true
  · simp [hc] at h
  · simp only [hc, Bool.false_eq_true, ↓reduceIte] at h ⊢
    have hq := quiet_findOrCreateTable w hI 0 h0 comps [] Entity.zero trivial
    cases hf : (w.findOrCreateTable 0 comps [] Entity.zero).2 with
    | error q => simp only [hf]; exact ⟨hq, rfl⟩
    | ok t => simp [hf] at h

theorem resAdd_fail (w : World) (r tok : Nat) (p : Panic) (h : (w.resAdd r tok).out = .error p) : (w.resAdd r tok).w = w := by
  unfold resAdd at h ⊢
  by_cases hh : (w.resources.getD r none).isSome = true
  · simp only [hh, ↓reduceIte]; rfl
  · simp only [hh, Bool.false_eq_true, ↓reduceIte] at h; cases h

theorem resRemove_fail (w : World) (r : Nat) (p : Panic) (h : (w.resRemove r).out = .error p) : (w.resRemove r).w = w := by
  unfold resRemove at h ⊢
  by_cases hh : (w.resources.getD r none).isNone = true
  · simp only [hh, ↓reduceIte]; rfl
  · simp only [hh, Bool.false_eq_true, ↓reduceIte] at h; cases h

theorem cacheRegister_fail (w : World) (f : Filter) (p : Panic) (h : (w.cacheRegister f).out = .error p) : (w.cacheRegister f).w = w := by
  unfold cacheRegister at h ⊢
  split
  · rfl
  · simp at h

theorem cacheUnregister_fail (w : World) (id : Nat) (p : Panic) (h : (w.cacheUnregister id).out = .error p) : (w.cacheUnregister id).w = w := by
  unfold cacheUnregister at h ⊢
  split
  · rfl
  · rename_i hh; simp [hh] at h

theorem registerComponent_fail (w : World) (a b : Bool) (p : Panic) (h : (w.registerComponent a b).out = .error p) :
    (w.registerComponent a b).w = w := by
  unfold registerComponent at h ⊢
  split
  · rfl
  · split
    · rfl
    · rename_i h1 h2; simp [h1, h2] at h

theorem registerResource_fail (w : World) (p : Panic) (h : (w.registerResource).out = .error p) : (w.registerResource).w = w := by
  unfold registerResource at h ⊢
  split
  · rfl
  · rename_i hh; simp [hh] at h

theorem query_fail (w : World) (f : Filter) (p : Panic) (h : (w.query f).out = .error p) : (w.query f).w = w := by
  unfold query at h ⊢
  cases f with
  | cached inner id =>
    simp only [] at h ⊢
    cases hc : w.cacheFind id with
    | none => rfl
    | some e =>
      simp only [hc] at h ⊢
      cases hl : w.lock with
      | none => rfl
      | some x => simp [hl] at h
  | _ =>
    simp only [] at h ⊢
    cases hl : w.lock with
    | none => rfl
    | some x => simp [hl] at h

theorem closeQuery_fail (w : World) (q : Query) (p : Panic) (h : (w.closeQuery q).out = .error p) : (w.closeQuery q).w = w := by
  unfold closeQuery at h ⊢
  split
  · rfl
  · rename_i hh; simp [hh] at h

theorem newEntities_fail_count (w : World) (count : Int) (rel : Option CompId) (target : Entity) (comps : List (CompId × Val)) (wv : Bool)
    (hc : count < 1) : (w.newEntitiesNoNotify count rel target comps wv).w = w ∧
      ∃ p, (w.newEntitiesNoNotify count rel target comps wv).out = .error p := by
  unfold newEntitiesNoNotify
  by_cases hlk : w.isLocked = true
  · simp only [hlk, ↓reduceIte]; exact ⟨rfl, _, rfl⟩
  · simp only [hlk, Bool.false_eq_true, ↓reduceIte, hc]; exact ⟨rfl, _, rfl⟩


/-! ## illegal ⇒ panic -/

/-- sequentially legal additions: each id absent when its turn comes -/
def AddOK : Mask → List CompId → Prop
  | _, [] => True
  | m, id :: rest => Mask.get m id = false ∧ AddOK (Mask.set m id true) rest

theorem remOK_iff (m : Mask) (l : List CompId) : RemOK m l ↔ (l.Nodup ∧ ∀ id ∈ l, Mask.get m id = true) := by
  induction l generalizing m with
  | nil => simp [RemOK]
  | cons x xs ih =>
    unfold RemOK
    rw [ih]
    simp only [List.nodup_cons, List.mem_cons, forall_eq_or_imp]
    constructor
    · intro ⟨h1, h2, h3⟩
      refine ⟨⟨?_, h2⟩, h1, ?_⟩
      · intro hx; have := h3 x hx; rw [get_set] at this; simp at this
      · intro id hid; have := h3 id hid; rw [get_set] at this; split at this <;> simp_all
    · intro ⟨⟨h1, h2⟩, h3, h4⟩
      refine ⟨h3, h2, ?_⟩
      intro id hid; rw [get_set]
      have : id ≠ x := fun e => h1 (e ▸ hid)
      simp [this, h4 id hid]

theorem addOK_iff (m : Mask) (l : List CompId) : AddOK m l ↔ (l.Nodup ∧ ∀ id ∈ l, Mask.get m id = false) := by
  induction l generalizing m with
  | nil => simp [AddOK]
  | cons x xs ih =>
    unfold AddOK
    rw [ih]
    simp only [List.nodup_cons, List.mem_cons, forall_eq_or_imp]
    constructor
    · intro ⟨h1, h2, h3⟩
      refine ⟨⟨?_, h2⟩, h1, ?_⟩
      · intro hx; have := h3 x hx; rw [get_set] at this; simp at this
      · intro id hid; have := h3 id hid; rw [get_set] at this; split at this <;> simp_all
    · intro ⟨⟨h1, h2⟩, h3, h4⟩
      refine ⟨h3, h2, ?_⟩
      intro id hid; rw [get_set]
      have : id ≠ x := fun e => h1 (e ▸ hid)
      simp [this, h4 id hid]

private theorem foldl_err_rem (l : List CompId) (p : Panic) :
    l.foldl (fun (acc : Except Panic Mask) id => match acc with
      | .error p => .error p
      | .ok m => if !Mask.get m id then .error .noComp else .ok (Mask.set m id false)) (.error p) = .error p := by
  induction l with
  | nil => rfl
  | cons x xs ih => simp only [List.foldl_cons]; exact ih

private theorem foldl_err_add (l : List CompId) (p : Panic) :
    l.foldl (fun (acc : Except Panic Mask) id => match acc with
      | .error p => .error p
      | .ok m => if Mask.get m id then .error .hasComp else .ok (Mask.set m id true)) (.error p) = .error p := by
  induction l with
  | nil => rfl
  | cons x xs ih => simp only [List.foldl_cons]; exact ih

private theorem foldl_rem_ok (l : List CompId) (m : Mask) (h : RemOK m l) :
    l.foldl (fun (acc : Except Panic Mask) id => match acc with
      | .error p => .error p
      | .ok m => if !Mask.get m id then .error .noComp else .ok (Mask.set m id false)) (.ok m) =
      .ok (l.foldl (fun m id => Mask.set m id false) m) := by
  induction l generalizing m with
  | nil => rfl
  | cons x xs ih =>
    simp only [List.foldl_cons, h.1, Bool.not_true, Bool.false_eq_true, ↓reduceIte]
    exact ih _ h.2

private theorem foldl_add_ok (l : List CompId) (m : Mask) (h : AddOK m l) :
    l.foldl (fun (acc : Except Panic Mask) id => match acc with
      | .error p => .error p
      | .ok m => if Mask.get m id then .error .hasComp else .ok (Mask.set m id true)) (.ok m) =
      .ok (l.foldl (fun m id => Mask.set m id true) m) := by
  induction l generalizing m with
  | nil => rfl
  | cons x xs ih =>
    simp only [List.foldl_cons, h.1, Bool.false_eq_true, ↓reduceIte]
    exact ih _ h.2

private theorem foldl_add_inv (l : List CompId) (m m' : Mask)
    (h : l.foldl (fun (acc : Except Panic Mask) id => match acc with
      | .error p => .error p
      | .ok m => if Mask.get m id then .error .hasComp else .ok (Mask.set m id true)) (.ok m) = .ok m') : AddOK m l := by
  induction l generalizing m with
  | nil => trivial
  | cons x xs ih =>
    simp only [List.foldl_cons] at h
    by_cases hp : Mask.get m x = true
    · simp only [hp, ↓reduceIte] at h; rw [foldl_err_add] at h; cases h
    · simp only [hp, Bool.false_eq_true, ↓reduceIte] at h
      exact ⟨by simpa using hp, ih _ h⟩

/-- **exactly which add / remove lists are legal**: every removed id present and removed once,
    every added id absent (after the removals) and added once -/
theorem exchangeMask_ok_iff (m : Mask) (add rem : List CompId) (m' : Mask) :
    exchangeMask m add rem = .ok m' ↔
      (RemOK m rem ∧ AddOK (rem.foldl (fun m id => Mask.set m id false) m) add ∧ m' = newMask m add rem) := by
  constructor
  · intro h
    obtain ⟨h1, h2⟩ := remOK_of_exchangeMask m add rem m' h
    refine ⟨h1, ?_, h2⟩
    unfold exchangeMask at h
    simp only [] at h
    generalize hr : List.foldl _ (Except.ok m) rem = r at h
    have hr' : r = .ok (rem.foldl (fun m id => Mask.set m id false) m) := hr.symm.trans (foldl_rem_ok rem m h1)
    subst hr'
    exact foldl_add_inv _ _ _ h
  · intro ⟨h1, h2, h3⟩
    unfold exchangeMask
    simp only []
    generalize hr : List.foldl _ (Except.ok m) rem = r
    have hr' : r = .ok (rem.foldl (fun m id => Mask.set m id false) m) := hr.symm.trans (foldl_rem_ok rem m h1)
    subst hr'
    exact (foldl_add_ok add _ h2).trans (by rw [h3]; rfl)

/-- removing an absent component, or the same one twice, panics -/
theorem remove_absent_panics (m : Mask) (add rem : List CompId) (h : ¬ (rem.Nodup ∧ ∀ id ∈ rem, Mask.get m id = true)) :
    ∃ p, exchangeMask m add rem = .error p := by
  cases hr : exchangeMask m add rem with
  | error p => exact ⟨p, rfl⟩
  | ok m' => exact absurd ((remOK_iff _ _).1 ((exchangeMask_ok_iff _ _ _ _).1 hr).1) h

/-- adding a component the entity keeps, or the same one twice, panics -/
theorem add_present_panics (m : Mask) (add rem : List CompId)
    (h : ¬ add.Nodup ∨ ∃ id ∈ add, Mask.get m id = true ∧ id ∉ rem) : ∃ p, exchangeMask m add rem = .error p := by
  cases hr : exchangeMask m add rem with
  | error p => exact ⟨p, rfl⟩
  | ok m' =>
    exfalso
    obtain ⟨_, h2, _⟩ := (exchangeMask_ok_iff _ _ _ _).1 hr
    obtain ⟨hn, ha⟩ := (addOK_iff _ _).1 h2
    rcases h with h | ⟨id, hid, hp, hnr⟩
    · exact h hn
    · have := ha id hid
      rw [C01.get_foldl_set_false, hp] at this
      have hc : rem.contains id = false := by
        cases hcc : rem.contains id
        · rfl
        · exact absurd (by simpa using hcc) hnr
      rw [hc] at this; simp at this

/-- an operation on a removed, recycled or never-issued entity panics (all single-entity paths) -/
theorem dead_entity_panics (w : World) (e : Entity) (q : Panic) (h : w.checkAlive e = some q) :
    (∀ add rem rel t, ∃ p, (w.exchangeNoNotify e add rem rel t).out = .error p) ∧
    (∃ p, (w.removeEntity e).out = .error p) ∧
    (∀ c t, ∃ p, (w.setRelation e c t).out = .error p) ∧
    (∀ c, ∃ p, (w.getRelation e c).out = .error p) ∧
    (∀ id v, ∃ p, (w.copyTo e id v).2 = some p) := by
  refine ⟨?_, ?_, ?_, ?_, ?_⟩
  · intro add rem rel t
    unfold exchangeNoNotify
    by_cases hlk : w.isLocked = true
    · simp only [hlk, ↓reduceIte]; exact ⟨_, rfl⟩
    · simp only [hlk, Bool.false_eq_true, ↓reduceIte, h]; exact ⟨_, rfl⟩
  · unfold removeEntity
    by_cases hlk : w.isLocked = true
    · simp only [hlk, ↓reduceIte]; exact ⟨_, rfl⟩
    · simp only [hlk, Bool.false_eq_true, ↓reduceIte, h]; exact ⟨_, rfl⟩
  · intro c t
    unfold setRelation
    by_cases hlk : w.isLocked = true
    · simp only [hlk, ↓reduceIte]; exact ⟨_, rfl⟩
    · simp only [hlk, Bool.false_eq_true, ↓reduceIte, h]; exact ⟨_, rfl⟩
  · intro c
    unfold getRelation
    simp only [h]; exact ⟨_, rfl⟩
  · intro id v
    unfold copyTo
    simp only [h]; exact ⟨_, rfl⟩

/-- what `checkAlive` rejects: a handle whose generation is not the pool's current one for
    that id (removed or recycled), or whose id was never issued -/
theorem checkAlive_none_iff (w : World) (e : Entity) : w.checkAlive e = none ↔ w.pool.alive? e = some true := by
  unfold checkAlive
  cases h : w.pool.alive? e with
  | none => simp
  | some b => cases b <;> simp

/-- a dead (non-zero, not alive) relation target panics through every API that takes one -/
theorem dead_target_panics (w : World) (t : Entity) (q : Panic) (h : w.checkTarget t = some q) :
    (∀ e c, ∃ p, (w.setRelation e c t).out = .error p) ∧
    (∀ e add rem r, ∃ p, (w.exchangeNoNotify e add rem (some r) t).out = .error p) ∧
    (∀ r comps wv, ∃ p, (w.newEntityTarget r t comps wv).out = .error p) ∧
    (∀ n r comps wv, ∃ p, (w.newEntitiesNoNotify n r t comps wv).out = .error p) := by
  refine ⟨?_, ?_, ?_, ?_⟩
  · intro e c
    unfold setRelation
    by_cases hlk : w.isLocked = true
    · simp only [hlk, ↓reduceIte]; exact ⟨_, rfl⟩
    simp only [hlk, Bool.false_eq_true, ↓reduceIte]
    cases hal : w.checkAlive e with
    | some x => exact ⟨_, rfl⟩
    | none => simp only [h]; exact ⟨_, rfl⟩
  · intro e add rem r
    unfold exchangeNoNotify
    by_cases hlk : w.isLocked = true
    · simp only [hlk, ↓reduceIte]; exact ⟨_, rfl⟩
    simp only [hlk, Bool.false_eq_true, ↓reduceIte]
    cases hal : w.checkAlive e with
    | some x => exact ⟨_, rfl⟩
    | none =>
      simp only []
      by_cases hemp : (add.isEmpty && rem.isEmpty) = true
      · simp only [hemp, ↓reduceIte, Option.isSome_some]; exact ⟨_, rfl⟩
      simp only [hemp, Bool.false_eq_true, ↓reduceIte]
      cases hm : exchangeMask (w.tableMask (w.locOf e).tbl) add rem with
      | error x => exact ⟨_, rfl⟩
      | ok mask =>
        simp only []
        have : ∃ p, w.exchangeTarget mask (some r) t (w.locOf e).tbl rem = .error p := by
          unfold exchangeTarget
          simp only []
          split; · exact ⟨_, rfl⟩
          split; · exact ⟨_, rfl⟩
          simp only [h]; exact ⟨_, rfl⟩
        obtain ⟨p, hp⟩ := this
        simp only [hp]; exact ⟨_, rfl⟩
  · intro r comps wv
    unfold newEntityTarget
    by_cases hlk : w.isLocked = true
    · simp only [hlk, ↓reduceIte]; exact ⟨_, rfl⟩
    simp only [hlk, Bool.false_eq_true, ↓reduceIte, h]; exact ⟨_, rfl⟩
  · intro n r comps wv
    unfold newEntitiesNoNotify
    by_cases hlk : w.isLocked = true
    · simp only [hlk, ↓reduceIte]; exact ⟨_, rfl⟩
    simp only [hlk, Bool.false_eq_true, ↓reduceIte]
    by_cases hc : n < 1
    · simp only [hc, ↓reduceIte]; exact ⟨_, rfl⟩
    simp only [hc, ↓reduceIte, h]; exact ⟨_, rfl⟩

/-- the target check: only the zero entity or an alive entity passes -/
theorem checkTarget_none_iff (w : World) (t : Entity) :
    w.checkTarget t = none ↔ (t.isZero = true ∨ w.pool.alive? t = some true) := by
  unfold checkTarget
  by_cases hz : t.isZero = true
  · simp [hz]
  · simp only [hz, Bool.false_eq_true, ↓reduceIte, false_or]
    cases h : w.pool.alive? t with
    | none => simp
    | some b => cases b <;> simp

/-- relation calls on a missing or non-relation component panic -/
theorem bad_relation_panics (w : World) (e : Entity) (c : CompId) (q : Panic)
    (h : w.checkRelation (w.locOf e).tbl c = some q) :
    (∀ t, ∃ p, (w.setRelation e c t).out = .error p) ∧ (∃ p, (w.getRelation e c).out = .error p) := by
  constructor
  · intro t
    unfold setRelation
    by_cases hlk : w.isLocked = true
    · simp only [hlk, ↓reduceIte]; exact ⟨_, rfl⟩
    simp only [hlk, Bool.false_eq_true, ↓reduceIte]
    cases hal : w.checkAlive e with
    | some x => exact ⟨_, rfl⟩
    | none =>
      simp only []
      cases htg : w.checkTarget t with
      | some x => exact ⟨_, rfl⟩
      | none => simp only [h]; exact ⟨_, rfl⟩
  · unfold getRelation
    cases hal : w.checkAlive e with
    | some x => exact ⟨_, rfl⟩
    | none => simp only [h]; exact ⟨_, rfl⟩

/-- `checkRelation` passes exactly for the relation component the entity's table carries -/
theorem checkRelation_none_iff (w : World) (t : Nat) (c : CompId) : w.checkRelation t c = none ↔ w.tableRel t = some c := by
  unfold checkRelation tableRel
  simp only []
  by_cases h : ((w.nodeOfTable t).rel == some c) = true
  · simp only [h, ↓reduceIte, true_iff]; simpa using h
  · simp only [h, Bool.false_eq_true, ↓reduceIte]
    constructor
    · intro hh; split at hh <;> cases hh
    · intro hh; rw [hh] at h; simp at h

/-- a second relation component is refused: the graph walk stops with a panic -/
theorem walkAdds_second_relation (reg : Registry) (m0 : Mask) (l : List CompId) (s : WalkSt)
    (hrel : s.rel.isSome = true) (h : ∃ id ∈ l, Mask.get reg.isRel id = true) : (walkAdds reg m0 s l).2.isSome = true := by
  induction l generalizing s with
  | nil => obtain ⟨id, hid, _⟩ := h; cases hid
  | cons x xs ih =>
    unfold walkAdds
    cases hr : walkAdd reg m0 s x with
    | error p => rfl
    | ok s' =>
      simp only []
      have hx : Mask.get reg.isRel x = false := by
        unfold walkAdd at hr
        split at hr; · cases hr
        split at hr; · cases hr
        simp only [] at hr
        split at hr; · cases hr
        rename_i hh
        cases hb : Mask.get reg.isRel x
        · rfl
        · simp [hb, hrel] at hh
      have hrel' : s'.rel.isSome = true := by
        unfold walkAdd at hr
        split at hr; · cases hr
        split at hr; · cases hr
        simp only [] at hr
        split at hr; · cases hr
        cases hr
        simp only [hx, Bool.false_eq_true, ↓reduceIte]; exact hrel
      apply ih s' hrel'
      obtain ⟨id, hid, hp⟩ := h
      simp only [List.mem_cons] at hid
      rcases hid with rfl | hid
      · rw [hx] at hp; cases hp
      · exact ⟨id, hid, hp⟩

theorem walkRems_rel_kept (reg : Registry) (l : List CompId) (s : WalkSt) (h : ∀ id ∈ l, Mask.get reg.isRel id = false) :
    (l.foldl (walkRem reg) s).rel = s.rel := by
  induction l generalizing s with
  | nil => rfl
  | cons x xs ih =>
    simp only [List.foldl_cons]
    rw [ih _ (fun id hid => h id (List.mem_cons_of_mem _ hid))]
    unfold walkRem
    simp [h x (List.mem_cons_self)]

theorem second_relation_panics (w : World) (start : Nat) (add rem : List CompId) (target : Entity)
    (hrel : (w.tableRel start).isSome = true) (hkeep : ∀ id ∈ rem, Mask.get w.reg.isRel id = false)
    (hadd : ∃ id ∈ add, Mask.get w.reg.isRel id = true) :
    ∃ p, (w.findOrCreateTable start add rem target).2 = .error p := by
  unfold findOrCreateTable
  simp only []
  have h1 := walkRems_rel_kept w.reg rem { w := w, curr := (w.tableOf start).node, mask := (w.nodeOf (w.tableOf start).node).mask, rel := (w.nodeOf (w.tableOf start).node).rel } hkeep
  generalize hs1 : rem.foldl (walkRem w.reg) { w := w, curr := (w.tableOf start).node, mask := (w.nodeOf (w.tableOf start).node).mask, rel := (w.nodeOf (w.tableOf start).node).rel } = s1 at *
  have h2 := walkAdds_second_relation w.reg (w.nodeOf (w.tableOf start).node).mask add s1 (by rw [h1]; exact hrel) hadd
  generalize walkAdds w.reg (w.nodeOf (w.tableOf start).node).mask s1 add = r2 at *
  obtain ⟨s2, p⟩ := r2
  cases p with
  | none => simp at h2
  | some e => exact ⟨e, rfl⟩

/-- out-of-range query index, non-positive step -/
theorem query_index_panics (w : World) (q : Query) (i : Int) (h : i < 0 ∨ q.countEntities w ≤ i.toNat) :
    ∃ p, w.queryEntityAt q i = .error p := by
  unfold queryEntityAt
  by_cases hn : i < 0
  · simp only [hn, ↓reduceIte]; exact ⟨_, rfl⟩
  · simp only [hn, ↓reduceIte]
    have hle : q.countEntities w ≤ i.toNat := by rcases h with h | h; exact absurd h hn; exact h
    have : q.entityAt w i.toNat = none := (C03.entityAt_none_iff w q i.toNat).2 hle
    rw [this]; exact ⟨_, rfl⟩

theorem query_step_panics (w : World) (q : Query) (k : Int) (h : k ≤ 0) : (w.queryStep q k).out = .error .qStep ∧ (w.queryStep q k).w = w := by
  unfold queryStep; simp only [h, ↓reduceIte]; exact ⟨rfl, rfl⟩

/-- duplicate / missing resources; double registration / unknown unregistration; the type limit -/
theorem resAdd_dup_panics (w : World) (r tok : Nat) (h : w.resHas r = true) : (w.resAdd r tok).out = .error .resDup := by
  unfold resAdd; unfold resHas at h; simp only [h, ↓reduceIte]; rfl

theorem resRemove_missing_panics (w : World) (r : Nat) (h : w.resHas r = false) : (w.resRemove r).out = .error .resMissing := by
  unfold resRemove; unfold resHas at h
  have : (w.resources.getD r none).isNone = true := by
    cases hh : w.resources.getD r none with
    | none => rfl
    | some x => rw [hh] at h; cases h
  simp only [this, ↓reduceIte]; rfl

theorem register_registered_panics (w : World) (f : Filter) (id : Nat) :
    (w.cacheRegister (.cached f id)).out = .error .filterRegistered := rfl

theorem unregister_unknown_panics (w : World) (id : Nat) (h : ∀ e ∈ w.cache, e.id ≠ id) :
    (w.cacheUnregister id).out = .error .filterUnknown := by
  unfold cacheUnregister
  have : w.cache.findIdx? (fun e => e.id == id) = none := by
    rw [Array.findIdx?_eq_none_iff]
    intro e he; simpa using h e he
  rw [this]; rfl

theorem type_limit_panics (w : World) (a b : Bool) (h : w.cfg.maskBits ≤ w.reg.count) :
    (w.registerComponent a b).out = .error .limit := by
  unfold registerComponent
  simp only [ge_iff_le, h, ↓reduceIte]; rfl

theorem resource_limit_panics (w : World) (h : w.cfg.maskBits ≤ w.resCount) : (w.registerResource).out = .error .limit := by
  unfold registerResource
  simp only [ge_iff_le, h, ↓reduceIte]; rfl

end Arche.Props.C10
