/-
  `Batch.SetRelation` / `Relations.SetBatch`: per source table `setRelationArch` looks up or
  creates the node's table for the new target and moves all rows (`archFinish`); tables whose
  target already is the new one are skipped. `archFinish_spec` is the table-to-table move common
  to the batch exchange and the batch target change.
-/
import ArcheProofs.Lemmas.SetRel

namespace Arche.SetRelBatch
open Arche Arche.World Arche.Arr Arche.Storage Arche.IndexInv Arche.SameRows Arche.Graph Arche.Closed Arche.TInv Arche.KInv Arche.Move Arche.Remove Arche.Cov Arche.Cache Arche.SInv Arche.DInv Arche.Create Arche.Frames Arche.Batch Arche.BatchOps Arche.GInv Arche.GOps Arche.GVals Arche.MoveTail Arche.SetRel
open Arche.Props.C01 (At)


theorem cleanupTable_active (w : World) (t t' : Nat) (h : t' ≠ t) : ((w.cleanupTable t).tableOf t').active = (w.tableOf t').active := by
  unfold cleanupTable
  simp only []
  split
  · rfl
  · split
    · rfl
    · unfold removeTable
      simp only []
      rw [tableOf_cacheRemove, tableOf_setTable_ne _ _ _ _ (fun x => h x.symm)]
      rfl

/-- **moving all rows of one table to the end of another** (distinct, existing; the destination
    active), flagging a target, clearing and cleaning up the source -/
theorem archFinish_spec (w1 : World) (k1 : KInv w1) (s1 : SInv w1) (src dst : Nat) (hs1 : src < w1.tables.size) (hdlt : dst < w1.tables.size)
    (hdne : dst ≠ src) (hdact : (w1.tableOf dst).active = true) (tgt : Entity)
    (w' : World) (hw' : w' = (archFinish w1 src dst (w1.tableOf src).rows.size tgt).1)
    (b : BatchEntry) (hb : b = (archFinish w1 src dst (w1.tableOf src).rows.size tgt).2) :
    KInv w' ∧ SInv w' ∧ DSame w1 w' ∧ Sz w1 w' ∧ w'.tables.size = w1.tables.size ∧ w'.pool = w1.pool ∧
    b.tbl = dst ∧ b.old = some src ∧ b.start = (w1.tableOf dst).rows.size ∧ b.stop = b.start + (w1.tableOf src).rows.size ∧
    (∀ t, (w'.tableOf t).target = (w1.tableOf t).target ∧ (w'.tableOf t).node = (w1.tableOf t).node) ∧
    (∀ t, t < w1.tables.size → w'.tableIds t = w1.tableIds t ∧ w'.tableMask t = w1.tableMask t ∧ w'.tableRel t = w1.tableRel t) ∧
    (∀ i, i < (w1.tableOf src).rows.size →
      loc w' (rowAt w1 src i).ent.id = some ⟨dst, b.start + i⟩ ∧
      rowAt w' dst (b.start + i) = ⟨(rowAt w1 src i).ent, movedVals (w1.tableIds src) (w1.tableIds dst) (rowAt w1 src i).vals⟩) ∧
    (∀ id l, (∀ i, i < (w1.tableOf src).rows.size → (rowAt w1 src i).ent.id ≠ id) → loc w1 id = some l →
      loc w' id = some l ∧ rowAt w' l.tbl l.row = rowAt w1 l.tbl l.row) ∧
    (∀ id, (∀ i, i < (w1.tableOf src).rows.size → (rowAt w1 src i).ent.id ≠ id) → loc w' id = loc w1 id) ∧
    (w'.tableOf src).rows = #[] ∧
    (∀ t, t ≠ src → t ≠ dst → (w'.tableOf t).rows = (w1.tableOf t).rows) ∧
    (∀ t, t ≠ src → (w'.tableOf t).active = (w1.tableOf t).active) := by
  obtain ⟨hbt, hbo, hbs, hbstop⟩ := archFinish_entry w1 src dst (w1.tableOf src).rows.size tgt
  rw [← hb, ← hw'] at hbstop
  rw [← hb] at hbt hbo hbs
  rw [archFinish_world] at hw'
  clear hb
  obtain ⟨k2, s2⟩ := kinv_moveAllClear w1 k1 s1 src dst hdne.symm hs1 hdlt hdact
  obtain ⟨ht2, hts2, hn2, _, _, hp2, hfl2, hr2, hmoved, hothers⟩ := moveAllClear_spec w1 k1.idx src dst hdne.symm hs1 hdlt
  have hrow2 := rowAt_moveAllClear w1 k1.idx src dst hdne.symm hs1 hdlt
  have hf2 := fields_moveAllClear w1 k1.idx src dst hdne.symm hs1 hdlt
  have ds2 := dsame_moveAllClear w1 src dst
  have sz2 : Sz w1 (moveAllClear w1 src dst) := by
    unfold moveAllClear; exact Sz.trans (sz_moveAll w1 src dst _) (Sz.of_setTable _ _ _)
  generalize hw2 : moveAllClear w1 src dst = w2 at *
  have hs2 : src < w2.tables.size := by rw [hts2]; exact hs1
  obtain ⟨k4, s4, sr4, hsz4, hfields4⟩ := tail_all w2 k2 s2 tgt src hs2
  have ds4 : DSame w2 ((w2.markTarget tgt).cleanupTable src) := DSame.trans (DSame.of_markTarget _ tgt) (dsame_cleanupTable _ src)
  have sz4 : Sz w2 ((w2.markTarget tgt).cleanupTable src) := Sz.trans (Sz.of_markTarget _ tgt) (Sz.of_misc (misc_cleanupTable _ src))
  rw [← hw'] at k4 s4 sr4 hsz4 hfields4 ds4 sz4
  have tn2 : TNodeOK w2 := k2.node.tnode
  have hnode2 : ∀ t, (w2.tableOf t).node = (w1.tableOf t).node := fun t => (hf2 t).2.2.2
  have hids2 : ∀ t, w2.tableIds t = w1.tableIds t := by
    intro t; unfold tableIds nodeOfTable nodeOf; rw [hnode2, hn2]
  have hmask2 : ∀ t, w2.tableMask t = w1.tableMask t := by
    intro t; unfold tableMask nodeOfTable nodeOf; rw [hnode2, hn2]
  have hrel2 : ∀ t, w2.tableRel t = w1.tableRel t := by
    intro t; unfold tableRel nodeOfTable nodeOf; rw [hnode2, hn2]
  have hrows4 : ∀ t, t < w1.tables.size → (w'.tableOf t).rows = (w2.tableOf t).rows := by
    intro t h; exact (sr4.rows t (by rw [hts2]; exact h)).1
  have hrows4' : ∀ t, (w'.tableOf t).rows = (w2.tableOf t).rows := by
    intro t
    by_cases h : t < w1.tables.size
    · exact hrows4 t h
    · have a : w'.tableOf t = default := by unfold tableOf; rw [Array.getD_eq_getD_getElem?, Array.getElem?_eq_none (by rw [hsz4, hts2]; omega)]; rfl
      have b' : w2.tableOf t = default := by unfold tableOf; rw [Array.getD_eq_getD_getElem?, Array.getElem?_eq_none (by rw [hts2]; omega)]; rfl
      rw [a, b']
  refine ⟨k4, s4, DSame.trans ds2 ds4, Sz.trans sz2 sz4, by rw [hsz4, hts2], by rw [sr4.pool, hp2], hbt, hbo, hbs, ?_, ?_, ?_, ?_, ?_, ?_, ?_, ?_, ?_⟩
  · rw [hbstop, hbs, hrows4 dst hdlt, ht2, if_neg hdne, if_pos rfl]
    simp only [Array.size_append, List.size_toArray]
    unfold newRows
    simp only [List.length_map, Array.length_toList]
  · intro t; rw [(hfields4 t).1, (hfields4 t).2, (hf2 t).1, hnode2]; exact ⟨rfl, rfl⟩
  · intro t h
    have ht2' : t < w2.tables.size := by rw [hts2]; exact h
    exact ⟨by rw [SameRows.tableIds_eq sr4 tn2 t ht2', hids2], by rw [SameRows.tableMask_eq sr4 tn2 t ht2', hmask2],
      by rw [SameRows.tableRel_eq sr4 tn2 t ht2', hrel2]⟩
  · intro i hi
    rw [hbs]
    refine ⟨by rw [SameRows.loc_eq sr4]; exact hmoved i hi, ?_⟩
    rw [SameRows.rowAt_eq sr4 _ _ (by rw [hts2]; exact hdlt), hrow2, if_neg hdne, if_pos rfl, if_neg (by omega)]
    have : (w1.tableOf dst).rows.size + i - (w1.tableOf dst).rows.size = i := by omega
    rw [this, if_pos hi]
  · intro id l0 hid hl0
    have hv0 := (k1.idx.fwd id l0 hl0)
    have hlsrc : l0.tbl ≠ src := by
      intro heq
      apply hid l0.row (by rw [← heq]; exact hv0.1.2)
      rw [← heq]; exact hv0.2
    refine ⟨by rw [SameRows.loc_eq sr4, hothers id hid]; exact hl0, ?_⟩
    rw [SameRows.rowAt_eq sr4 _ _ (by rw [hts2]; exact hv0.1.1), hrow2, if_neg hlsrc]
    by_cases hd : l0.tbl = dst
    · rw [if_pos hd, if_pos (by rw [← hd]; exact hv0.1.2), ← hd]
    · rw [if_neg hd]
  · intro id hid
    rw [SameRows.loc_eq sr4, hothers id hid]
  · rw [hrows4 src hs1, ht2, if_pos rfl]
  · intro t hts htd
    rw [hrows4' t, ht2, if_neg hts, if_neg htd]
  · intro t hts
    rw [hw', cleanupTable_active _ src t hts, tableOf_markTarget, (hf2 t).2.1]


/-! ## one source table -/

theorem setRelationArch_ok (w : World) (src n : Nat) (comp : CompId) (target : Entity) (b : BatchEntry)
    (hok : (w.setRelationArch src n comp target).2 = .ok b) :
    w.checkRelation src comp = none ∧
    (w.setRelationArch src n comp target).1 =
      (archFinish (relTable w (w.tableOf src).node target).1 src (relTable w (w.tableOf src).node target).2 n target).1 ∧
    b = (archFinish (relTable w (w.tableOf src).node target).1 src (relTable w (w.tableOf src).node target).2 n target).2 := by
  unfold setRelationArch at hok ⊢
  cases hc : w.checkRelation src comp with
  | some p => rw [hc] at hok; cases hok
  | none =>
    rw [hc] at hok
    simp only [] at hok ⊢
    unfold relTable archFinish
    cases hg : w.nodeGetTable (w.tableOf src).node target with
    | some t =>
      rw [hg] at hok
      simp only [Except.ok.injEq] at hok ⊢
      exact ⟨trivial, trivial, hok.symm⟩
    | none =>
      rw [hg] at hok
      simp only [Except.ok.injEq] at hok ⊢
      exact ⟨trivial, trivial, hok.symm⟩

/-- **one source table of a batch target change** -/
theorem setRelationArch_spec (w : World) (issued live : List Entity) (G : GInv w issued live) (src : Nat) (hs : src < w.tables.size)
    (hne : 0 < (w.tableOf src).rows.size) (comp : CompId) (target : Entity) (hdiffer : (w.tableOf src).target ≠ target) (b : BatchEntry)
    (hok : (w.setRelationArch src (w.tableOf src).rows.size comp target).2 = .ok b)
    (w' : World) (hw' : w' = (w.setRelationArch src (w.tableOf src).rows.size comp target).1) :
    w.checkRelation src comp = none ∧
    GInv w' issued live ∧ w.tables.size ≤ w'.tables.size ∧ w'.pool = w.pool ∧ w'.reg = w.reg ∧
    b.tbl < w'.tables.size ∧ b.tbl ≠ src ∧ b.old = some src ∧ b.stop = b.start + (w.tableOf src).rows.size ∧
    (w'.tableOf b.tbl).target = target ∧ (w'.tableOf b.tbl).node = (w.tableOf src).node ∧
    (∀ i, i < (w.tableOf src).rows.size →
      loc w' (rowAt w src i).ent.id = some ⟨b.tbl, b.start + i⟩ ∧
      rowAt w' b.tbl (b.start + i) = ⟨(rowAt w src i).ent, movedVals (w.tableIds src) (w.tableIds src) (rowAt w src i).vals⟩) ∧
    (∀ id l, (∀ i, i < (w.tableOf src).rows.size → (rowAt w src i).ent.id ≠ id) → loc w id = some l →
      loc w' id = some l ∧ rowAt w' l.tbl l.row = rowAt w l.tbl l.row) ∧
    (∀ id, (∀ i, i < (w.tableOf src).rows.size → (rowAt w src i).ent.id ≠ id) → loc w' id = loc w id) ∧
    (∀ t, t < w.tables.size → w'.tableIds t = w.tableIds t ∧ w'.tableMask t = w.tableMask t ∧ w'.tableRel t = w.tableRel t ∧
      (w'.tableOf t).node = (w.tableOf t).node) ∧
    (w'.tableOf src).rows = #[] ∧
    (∀ t, t < w.tables.size → t ≠ src → t ≠ b.tbl → (w'.tableOf t).rows = (w.tableOf t).rows) ∧
    (∀ t, t < w.tables.size → (w.tableOf t).active = true → (w'.tableOf t).target = (w.tableOf t).target ∧
      (t ≠ src → (w'.tableOf t).active = true)) := by
  obtain ⟨hcr, hw, hb⟩ := setRelationArch_ok w src _ comp target b hok
  refine ⟨hcr, ?_⟩
  have hn := G.k.node.tnode src hs
  have hrel : (w.nodeOf (w.tableOf src).node).rel.isSome = true := by
    unfold checkRelation nodeOfTable at hcr
    simp only [] at hcr
    split at hcr
    · rename_i h; simp only [beq_iff_eq] at h; rw [h]; rfl
    · split at hcr <;> cases hcr
  obtain ⟨G1, sr1, m1, hdlt, hdnode, hdact, hdtgt, hframe⟩ := relTable_spec w issued live G _ hn target hrel
  rw [hw] at hw'
  generalize hrt : relTable w (w.tableOf src).node target = rt at *
  obtain ⟨w1, dst⟩ := rt
  simp only [] at G1 sr1 m1 hdlt hdnode hdact hdtgt hframe hw' hb
  have hact0 : (w.tableOf src).active = true := BatchLoop.active_of_nonempty w G.k src hs hne
  have hsrc1 : w1.tableOf src = w.tableOf src := hframe src hs hact0
  have hdne : dst ≠ src := by
    intro heq; rw [heq, hsrc1] at hdtgt; exact hdiffer hdtgt
  have hs1 : src < w1.tables.size := Nat.lt_of_lt_of_le hs sr1.tsize
  rw [← hsrc1] at hw' hb
  obtain ⟨k5, s5, ds, sz, htsz, hpool, hbt, hbo, hbs, hbstop, hfields, hmeta, hmoved, hothers, hlocs, hsrcrows, hrows, hactive⟩ :=
    archFinish_spec w1 G1.k G1.s src dst hs1 hdlt hdne hdact target w' hw' b hb
  have hrowsrc : ∀ i, rowAt w1 src i = rowAt w src i := fun i => SameRows.rowAt_eq sr1 _ _ hs
  have hidsdst : w1.tableIds dst = w.tableIds src := by
    unfold tableIds nodeOfTable
    rw [hdnode]
    exact (sr1.nodes _ hn).1
  obtain ⟨free, hL⟩ := G1.link
  have hGw' : GInv w' issued live := by
    refine ⟨k5, s5, ds.dinv G1.d, binv_of_dsame ds G1.b, ⟨by rw [htsz]; exact G1.root.size, by rw [(hmeta 0 G1.root.size).2.1]; exact G1.root.mask⟩, free, ?_⟩
    refine ⟨by rw [hpool]; exact hL.pool, by rw [sz.index, hpool]; exact hL.isize, by rw [sz.flags, sz.index]; exact hL.fsize, ?_⟩
    intro e'
    rw [hL.stored e']
    by_cases hin : ∃ i, i < (w1.tableOf src).rows.size ∧ (rowAt w1 src i).ent.id = e'.id
    · obtain ⟨i, hi, hid⟩ := hin
      obtain ⟨m1', m2'⟩ := hmoved i hi
      have hb1 := G1.k.idx.bwd src i ⟨hs1, hi⟩
      rw [hid] at hb1 m1'
      constructor
      · rintro ⟨l0, a, c⟩
        rw [hb1] at a; simp only [Option.some.injEq] at a
        rw [← a] at c
        exact ⟨_, m1', by rw [m2']; exact c⟩
      · rintro ⟨l', a, c⟩
        rw [m1'] at a; simp only [Option.some.injEq] at a
        rw [← a, m2'] at c
        exact ⟨_, hb1, c⟩
    · have hno : ∀ i, i < (w1.tableOf src).rows.size → (rowAt w1 src i).ent.id ≠ e'.id := fun i hi heq => hin ⟨i, hi, heq⟩
      constructor
      · rintro ⟨l0, a, c⟩
        obtain ⟨a', c'⟩ := hothers e'.id l0 hno a
        exact ⟨l0, a', by rw [c']; exact c⟩
      · rintro ⟨l', a, c⟩
        rw [hlocs e'.id hno] at a
        obtain ⟨_, c'⟩ := hothers e'.id l' hno a
        exact ⟨l', a, by rw [← c']; exact c⟩
  have hsize : (w1.tableOf src).rows.size = (w.tableOf src).rows.size := by rw [hsrc1]
  refine ⟨hGw', by rw [htsz]; exact sr1.tsize, by rw [hpool, m1.pool], by rw [ds.reg, m1.reg], by rw [hbt, htsz]; exact hdlt,
    by rw [hbt]; exact hdne, hbo, by rw [hbstop, hsize], by rw [hbt, (hfields dst).1]; exact hdtgt, by rw [hbt, (hfields dst).2]; exact hdnode,
    ?_, ?_, ?_, ?_, hsrcrows, ?_, ?_⟩
  · intro i hi
    have hi1 : i < (w1.tableOf src).rows.size := by rw [hsize]; exact hi
    obtain ⟨a, c⟩ := hmoved i hi1
    rw [hrowsrc] at a c
    rw [hbt]
    refine ⟨a, ?_⟩
    rw [c, hidsdst, SameRows.tableIds_eq sr1 G.k.node.tnode src hs]
  · intro id l hid hl
    have hno : ∀ i, i < (w1.tableOf src).rows.size → (rowAt w1 src i).ent.id ≠ id := by
      intro i hi; rw [hrowsrc]; exact hid i (by rw [← hsize]; exact hi)
    obtain ⟨a, c⟩ := hothers id l hno (by rw [SameRows.loc_eq sr1]; exact hl)
    exact ⟨a, by rw [c, SameRows.rowAt_eq sr1 _ _ (G.k.idx.fwd id l hl).1.1]⟩
  · intro id hid
    have hno : ∀ i, i < (w1.tableOf src).rows.size → (rowAt w1 src i).ent.id ≠ id := by
      intro i hi; rw [hrowsrc]; exact hid i (by rw [← hsize]; exact hi)
    rw [hlocs id hno, SameRows.loc_eq sr1]
  · intro t ht
    have ht1 : t < w1.tables.size := Nat.lt_of_lt_of_le ht sr1.tsize
    exact ⟨by rw [(hmeta t ht1).1, SameRows.tableIds_eq sr1 G.k.node.tnode t ht],
      by rw [(hmeta t ht1).2.1, SameRows.tableMask_eq sr1 G.k.node.tnode t ht],
      by rw [(hmeta t ht1).2.2, SameRows.tableRel_eq sr1 G.k.node.tnode t ht],
      by rw [(hfields t).2, (sr1.rows t ht).2]⟩
  · intro t ht hts htd
    rw [hrows t hts (by rw [hbt] at htd; exact htd), (sr1.rows t ht).1]
  · intro t ht hact
    refine ⟨by rw [(hfields t).1, hframe t ht hact], ?_⟩
    intro hts
    rw [hactive t hts, hframe t ht hact]; exact hact


end Arche.SetRelBatch
