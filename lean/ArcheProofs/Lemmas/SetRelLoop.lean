/-
  The loop of `setRelationBatchNoNotify` over the selected tables with the row counts recorded
  when the call was made; tables that are empty or already have the new target are skipped.
-/
import ArcheProofs.Lemmas.SetRelBatch

namespace Arche.SetRelLoop
open Arche Arche.World Arche.Arr Arche.Storage Arche.IndexInv Arche.SameRows Arche.Graph Arche.Closed Arche.TInv Arche.KInv Arche.Move Arche.Remove Arche.Cov Arche.Cache Arche.SInv Arche.DInv Arche.Create Arche.Frames Arche.Batch Arche.BatchOps Arche.GInv Arche.GOps Arche.GVals Arche.MoveTail Arche.SetRel Arche.SetRelBatch
open Arche.Props.C01 (At)

/-- the recorded `(table, row count)` list: distinct tables; every non-empty entry names an
    existing active table, and — unless the table already has the new target (such entries are
    skipped, and may receive rows as destinations) — it still has the recorded rows -/
structure RLensOK (w : World) (target : Entity) (lens : List (Nat × Nat)) : Prop where
  nodup : (lens.map (·.1)).Nodup
  ok : ∀ p ∈ lens, p.2 ≠ 0 → p.1 < w.tables.size ∧ (w.tableOf p.1).active = true ∧
    ((w.tableOf p.1).target ≠ target → p.2 = (w.tableOf p.1).rows.size)

/-- entity `id` is in one of the recorded rows of a table whose target is not yet the new one -/
def RSel (w : World) (target : Entity) (lens : List (Nat × Nat)) (id : Nat) : Prop :=
  ∃ p ∈ lens, p.2 ≠ 0 ∧ (w.tableOf p.1).target ≠ target ∧ ∃ i, i < p.2 ∧ (rowAt w p.1 i).ent.id = id

/-- what the batch did to the entity of row `i` of table `t`: it sits at row `b.start + i` of
    `b.tbl`, a table of the same node whose target is the new one, with all its values -/
def RMoved (w w' : World) (target : Entity) (t i : Nat) (b : BatchEntry) : Prop :=
  b.old = some t ∧ b.tbl < w'.tables.size ∧
  loc w' (rowAt w t i).ent.id = some ⟨b.tbl, b.start + i⟩ ∧
  rowAt w' b.tbl (b.start + i) = ⟨(rowAt w t i).ent, movedVals (w.tableIds t) (w.tableIds t) (rowAt w t i).vals⟩ ∧
  (w'.tableOf b.tbl).target = target ∧ (w'.tableOf b.tbl).node = (w.tableOf t).node

structure RelPost (w w' : World) (issued live : List Entity) (target : Entity) (lens : List (Nat × Nat)) (news : List BatchEntry) : Prop where
  ginv : GInv w' issued live
  tsize : w.tables.size ≤ w'.tables.size
  pool : w'.pool = w.pool
  reg : w'.reg = w.reg
  old : ∀ t, t < w.tables.size → w'.tableIds t = w.tableIds t ∧ w'.tableMask t = w.tableMask t ∧ w'.tableRel t = w.tableRel t ∧
      (w'.tableOf t).node = (w.tableOf t).node
  entries : news.map (fun b => (b.old, b.stop - b.start)) =
      (lens.filter (fun p => p.2 != 0 && !((w.tableOf p.1).target == target))).map (fun p => (some p.1, p.2))
  stop : ∀ b ∈ news, b.start ≤ b.stop
  moved : ∀ p ∈ lens, p.2 ≠ 0 → (w.tableOf p.1).target ≠ target → ∀ i, i < p.2 → ∃ b ∈ news, RMoved w w' target p.1 i b
  others : ∀ id l, ¬ RSel w target lens id → loc w id = some l →
    loc w' id = some l ∧ rowAt w' l.tbl l.row = rowAt w l.tbl l.row ∧ (w'.tableOf l.tbl).target = (w.tableOf l.tbl).target
  locs : ∀ id, ¬ RSel w target lens id → loc w' id = loc w id

theorem setRelationLoop_nil (w : World) (comp : CompId) (target : Entity) (acc : Array BatchEntry) :
    w.setRelationLoop comp target [] acc = (w, .ok acc) := by
  unfold setRelationLoop; rfl

theorem setRelationLoop_skip (w : World) (comp : CompId) (target : Entity) (acc : Array BatchEntry) (t ln : Nat) (rest : List (Nat × Nat))
    (h : (ln == 0 || (w.tableOf t).target == target) = true) :
    w.setRelationLoop comp target ((t, ln) :: rest) acc = w.setRelationLoop comp target rest acc := by
  rw [setRelationLoop]; simp only [h, ↓reduceIte]

theorem setRelationLoop_err (w : World) (comp : CompId) (target : Entity) (acc : Array BatchEntry) (t ln : Nat) (rest : List (Nat × Nat))
    (h : (ln == 0 || (w.tableOf t).target == target) = false) (p : Panic) (he : (w.setRelationArch t ln comp target).2 = .error p) :
    (w.setRelationLoop comp target ((t, ln) :: rest) acc).2 = .error p := by
  rw [setRelationLoop]
  simp only [h, Bool.false_eq_true, ↓reduceIte]
  generalize w.setRelationArch t ln comp target = r at he
  obtain ⟨w1, o⟩ := r
  simp only [] at he
  subst he
  rfl

theorem setRelationLoop_ok (w : World) (comp : CompId) (target : Entity) (acc : Array BatchEntry) (t ln : Nat) (rest : List (Nat × Nat))
    (h : (ln == 0 || (w.tableOf t).target == target) = false) (b : BatchEntry) (he : (w.setRelationArch t ln comp target).2 = .ok b) :
    w.setRelationLoop comp target ((t, ln) :: rest) acc =
      (w.setRelationArch t ln comp target).1.setRelationLoop comp target rest (acc.push b) := by
  rw [setRelationLoop]
  simp only [h, Bool.false_eq_true, ↓reduceIte]
  generalize w.setRelationArch t ln comp target = r at he
  obtain ⟨w1, o⟩ := r
  simp only [] at he
  subst he
  rfl

theorem rsel_cons_skip (w : World) (target : Entity) (t ln : Nat) (rest : List (Nat × Nat)) (id : Nat)
    (h : (ln == 0 || (w.tableOf t).target == target) = true) : RSel w target ((t, ln) :: rest) id ↔ RSel w target rest id := by
  constructor
  · rintro ⟨p, hp, hnz, hdt, hi⟩
    rcases List.mem_cons.1 hp with rfl | hp
    · exfalso
      simp only [Bool.or_eq_true, beq_iff_eq] at h
      rcases h with h | h
      · exact hnz h
      · exact hdt h
    · exact ⟨p, hp, hnz, hdt, hi⟩
  · rintro ⟨p, hp, hnz, hdt, hi⟩
    exact ⟨p, List.mem_cons_of_mem _ hp, hnz, hdt, hi⟩

/-- **the loop over the selected tables** -/
theorem setRelationLoop_spec (comp : CompId) (target : Entity) (issued live : List Entity) :
    ∀ (lens : List (Nat × Nat)) (w : World) (acc : Array BatchEntry) (w' : World) (bs : Array BatchEntry),
      GInv w issued live → RLensOK w target lens →
      w.setRelationLoop comp target lens acc = (w', .ok bs) →
      ∃ news, bs.toList = acc.toList ++ news ∧ RelPost w w' issued live target lens news := by
  intro lens
  induction lens with
  | nil =>
    intro w acc w' bs G _ h
    rw [setRelationLoop_nil] at h
    simp only [Prod.mk.injEq, Except.ok.injEq] at h
    obtain ⟨rfl, rfl⟩ := h
    refine ⟨[], by simp, ⟨G, Nat.le_refl _, rfl, rfl, fun _ _ => ⟨rfl, rfl, rfl, rfl⟩, rfl, ?_, ?_, ?_, fun _ _ => rfl⟩⟩
    · intro b hb; cases hb
    · intro p hp; cases hp
    · intro id l _ hl; exact ⟨hl, rfl, rfl⟩
  | cons hd rest ih =>
    obtain ⟨t, ln⟩ := hd
    intro w acc w' bs G hL h
    have hLrest_nodup : (rest.map (·.1)).Nodup := by
      have := hL.nodup; simp only [List.map_cons, List.nodup_cons] at this; exact this.2
    have htnot : ∀ p ∈ rest, p.1 ≠ t := by
      intro p hp heq
      have := hL.nodup; simp only [List.map_cons, List.nodup_cons] at this
      exact this.1 (by rw [← heq]; exact List.mem_map_of_mem hp)
    by_cases hskip : (ln == 0 || (w.tableOf t).target == target) = true
    · rw [setRelationLoop_skip w comp target acc t ln rest hskip] at h
      have hL' : RLensOK w target rest := ⟨hLrest_nodup, fun p hp hnz => hL.ok p (List.mem_cons_of_mem _ hp) hnz⟩
      obtain ⟨news, hbs, hP⟩ := ih w acc w' bs G hL' h
      refine ⟨news, hbs, ⟨hP.ginv, hP.tsize, hP.pool, hP.reg, hP.old, ?_, hP.stop, ?_, ?_, ?_⟩⟩
      · rw [hP.entries]
        have : (ln != 0 && !((w.tableOf t).target == target)) = false := by
          simp only [Bool.or_eq_true, beq_iff_eq] at hskip
          rcases hskip with h | h
          · simp [h]
          · simp [h]
        simp only [List.filter_cons, this, Bool.false_eq_true, ↓reduceIte]
      · intro p hp hnz hdt i hi
        rcases List.mem_cons.1 hp with rfl | hp
        · exfalso
          simp only [Bool.or_eq_true, beq_iff_eq] at hskip
          rcases hskip with h | h
          · exact hnz h
          · exact hdt h
        · exact hP.moved p hp hnz hdt i hi
      · intro id l hns hl
        exact hP.others id l (fun hs => hns ((rsel_cons_skip w target t ln rest id hskip).2 hs)) hl
      · intro id hns
        exact hP.locs id (fun hs => hns ((rsel_cons_skip w target t ln rest id hskip).2 hs))
    · have hskip' : (ln == 0 || (w.tableOf t).target == target) = false := by simpa using hskip
      have hln : ln ≠ 0 := by
        intro h0; rw [h0] at hskip'; simp at hskip'
      have hdt : (w.tableOf t).target ≠ target := by
        intro h0; rw [h0] at hskip'; simp at hskip'
      obtain ⟨htlt, hact0, hlen⟩ := hL.ok (t, ln) List.mem_cons_self hln
      simp only [] at htlt hact0 hlen
      have hlen := hlen hdt
      subst hlen
      cases hA : (w.setRelationArch t (w.tableOf t).rows.size comp target).2 with
      | error p =>
        have := setRelationLoop_err w comp target acc t _ rest hskip' p hA
        rw [h] at this; cases this
      | ok b =>
        rw [setRelationLoop_ok w comp target acc t _ rest hskip' b hA] at h
        obtain ⟨_, G1, hts1, hp1, hr1, hblt, hbne, hbo, hbstop, hbtgt, hbnode, hmoved, hothers, hlocs, hold, hsrcrows, hrows, htargets⟩ :=
          setRelationArch_spec w issued live G t htlt (by omega) comp target hdt b hA _ rfl
        generalize hw1 : (w.setRelationArch t (w.tableOf t).rows.size comp target).1 = w1 at *
        -- the remaining non-empty entries: same target, still active, and — if not skipped — same rows
        have hrest : ∀ p ∈ rest, p.2 ≠ 0 → p.1 < w.tables.size ∧ p.1 ≠ t ∧ (w1.tableOf p.1).target = (w.tableOf p.1).target ∧
            (w1.tableOf p.1).active = true ∧
            ((w.tableOf p.1).target ≠ target → (w1.tableOf p.1).rows = (w.tableOf p.1).rows ∧ p.2 = (w.tableOf p.1).rows.size) := by
          intro p hp hnz
          obtain ⟨a1, a2, a3⟩ := hL.ok p (List.mem_cons_of_mem _ hp) hnz
          have hpt := htnot p hp
          refine ⟨a1, hpt, (htargets p.1 a1 a2).1, (htargets p.1 a1 a2).2 hpt, ?_⟩
          intro hdp
          have hpb : p.1 ≠ b.tbl := by
            intro heq
            have := (htargets p.1 a1 a2).1
            rw [heq, hbtgt] at this
            rw [heq] at hdp
            exact hdp this.symm
          exact ⟨hrows p.1 a1 hpt hpb, a3 hdp⟩
        have hL1 : RLensOK w1 target rest := by
          refine ⟨hLrest_nodup, ?_⟩
          intro p hp hnz
          obtain ⟨a1, _, a3, a4, a5⟩ := hrest p hp hnz
          refine ⟨Nat.lt_of_lt_of_le a1 hts1, a4, ?_⟩
          intro hd1
          rw [a3] at hd1
          obtain ⟨r1, r2⟩ := a5 hd1
          rw [r1]; exact r2
        obtain ⟨news1, hbs, hP⟩ := ih w1 (acc.push b) w' bs G1 hL1 h
        have hrowAt : ∀ p ∈ rest, p.2 ≠ 0 → (w.tableOf p.1).target ≠ target → ∀ i, rowAt w1 p.1 i = rowAt w p.1 i := by
          intro p hp hnz hdp i; unfold rowAt; rw [((hrest p hp hnz).2.2.2.2 hdp).1]
        have hrsel1 : ∀ id, RSel w1 target rest id → RSel w target rest id := by
          rintro id ⟨p, hp, hnz, hdp, j, hj, hje⟩
          have hdp0 : (w.tableOf p.1).target ≠ target := by rw [← (hrest p hp hnz).2.2.1]; exact hdp
          exact ⟨p, hp, hnz, hdp0, j, hj, by rw [← hrowAt p hp hnz hdp0]; exact hje⟩
        have hnotsel : ∀ i, i < (w.tableOf t).rows.size → ¬ RSel w1 target rest (rowAt w t i).ent.id := by
          intro i hi hs
          obtain ⟨p, hp, hnz, hdp, j, hj, hje⟩ := hrsel1 _ hs
          obtain ⟨a1, _, a3⟩ := hL.ok p (List.mem_cons_of_mem _ hp) hnz
          have h1 := G.k.idx.bwd p.1 j ⟨a1, by rw [← a3 hdp]; exact hj⟩
          have h2 := G.k.idx.bwd t i ⟨htlt, hi⟩
          rw [hje, h2] at h1
          simp only [Option.some.injEq, Loc.mk.injEq] at h1
          exact htnot p hp h1.1.symm
        refine ⟨b :: news1, by rw [hbs]; simp, ⟨hP.ginv, Nat.le_trans hts1 hP.tsize, by rw [hP.pool, hp1], by rw [hP.reg, hr1], ?_, ?_, ?_, ?_, ?_, ?_⟩⟩
        · intro t' ht'
          obtain ⟨a, b', c, d⟩ := hP.old t' (Nat.lt_of_lt_of_le ht' hts1)
          obtain ⟨a', b'', c', d'⟩ := hold t' ht'
          exact ⟨by rw [a, a'], by rw [b', b''], by rw [c, c'], by rw [d, d']⟩
        · have hkeep : ((w.tableOf t).rows.size != 0 && !((w.tableOf t).target == target)) = true := by
            simp [hln, hdt]
          simp only [List.map_cons, List.filter_cons, hkeep, ↓reduceIte]
          rw [hP.entries, hbo, hbstop]
          have hfilt : rest.filter (fun p => p.2 != 0 && !((w1.tableOf p.1).target == target)) =
              rest.filter (fun p => p.2 != 0 && !((w.tableOf p.1).target == target)) := by
            apply List.filter_congr
            intro p hp
            by_cases hz : p.2 = 0
            · simp [hz]
            · rw [(hrest p hp hz).2.2.1]
          rw [hfilt]
          simp
        · intro b' hb'
          rcases List.mem_cons.1 hb' with rfl | hb'
          · rw [hbstop]; omega
          · exact hP.stop b' hb'
        · intro p hp hnz hdp i hi
          rcases List.mem_cons.1 hp with rfl | hp
          · refine ⟨b, List.mem_cons_self, ?_⟩
            simp only [] at hi ⊢
            obtain ⟨m1, m2⟩ := hmoved i hi
            obtain ⟨o1, o2, o3⟩ := hP.others _ _ (hnotsel i hi) m1
            simp only [] at o2 o3
            obtain ⟨_, _, _, q4⟩ := hP.old b.tbl hblt
            exact ⟨hbo, Nat.lt_of_lt_of_le hblt hP.tsize, o1, by rw [o2, m2], by rw [o3]; exact hbtgt, by rw [q4]; exact hbnode⟩
          · obtain ⟨a1, a2, a3, a4, a5⟩ := hrest p hp hnz
            have hd1 : (w1.tableOf p.1).target ≠ target := by rw [a3]; exact hdp
            obtain ⟨b', hb', n1, n2, n3, n4, n5, n6⟩ := hP.moved p hp hnz hd1 i hi
            refine ⟨b', List.mem_cons_of_mem _ hb', n1, n2, ?_, ?_, n5, ?_⟩
            · rw [← hrowAt p hp hnz hdp]; exact n3
            · rw [n4, hrowAt p hp hnz hdp, (hold p.1 a1).1]
            · rw [n6, (hold p.1 a1).2.2.2]
        · intro id l hns hl
          have hnothead : ∀ i, i < (w.tableOf t).rows.size → (rowAt w t i).ent.id ≠ id := by
            intro i hi heq
            exact hns ⟨(t, (w.tableOf t).rows.size), List.mem_cons_self, hln, hdt, i, hi, heq⟩
          obtain ⟨c1, c2⟩ := hothers id l hnothead hl
          have hns1 : ¬ RSel w1 target rest id := by
            intro hs
            obtain ⟨p, hp, hnz, hdp, j, hj, hje⟩ := hrsel1 id hs
            exact hns ⟨p, List.mem_cons_of_mem _ hp, hnz, hdp, j, hj, hje⟩
          obtain ⟨d1, d2, d3⟩ := hP.others id l hns1 c1
          have hv := (G.k.idx.fwd id l hl).1
          have hact : (w.tableOf l.tbl).active = true := BatchLoop.active_of_nonempty w G.k l.tbl hv.1 (by have := hv.2; omega)
          exact ⟨d1, by rw [d2, c2], by rw [d3, (htargets l.tbl hv.1 hact).1]⟩
        · intro id hns
          have hnothead : ∀ i, i < (w.tableOf t).rows.size → (rowAt w t i).ent.id ≠ id := by
            intro i hi heq
            exact hns ⟨(t, (w.tableOf t).rows.size), List.mem_cons_self, hln, hdt, i, hi, heq⟩
          have hns1 : ¬ RSel w1 target rest id := by
            intro hs
            obtain ⟨p, hp, hnz, hdp, j, hj, hje⟩ := hrsel1 id hs
            exact hns ⟨p, List.mem_cons_of_mem _ hp, hnz, hdp, j, hj, hje⟩
          rw [hP.locs id hns1, hlocs id hnothead]

end Arche.SetRelLoop
