/-
  Batch moves: `moveAll` (the loops of `exchangeArch` / `setRelationArch`) followed by the reset
  of the source table moves every row of the source to the end of the destination, in order,
  copying kept components and zeroing new ones — the same row content a single-entity move
  produces (`Move.movedRow`) — and leaves every other entity where it was.
-/
import ArcheProofs.Lemmas.SInv

namespace Arche.Batch
open Arche Arche.World Arche.Arr Arche.Storage Arche.IndexInv Arche.SameRows Arche.Graph Arche.Closed Arche.TInv Arche.KInv Arche.Move Arche.Cov Arche.Cache Arche.SInv

/-- the index writes of `moveAll` -/
def idxFold (dst start : Nat) (l : List (Row × Nat)) (w : World) : World :=
  l.foldl (fun w (p : Row × Nat) => w.setIndex p.1.ent.id (some ⟨dst, start + p.2⟩)) w

theorem idxFold_tables (dst start : Nat) (l : List (Row × Nat)) (w : World) :
    (idxFold dst start l w).tables = w.tables ∧ (idxFold dst start l w).nodes = w.nodes ∧
    (idxFold dst start l w).index.size = w.index.size ∧ (idxFold dst start l w).cache = w.cache ∧
    (idxFold dst start l w).cacheNext = w.cacheNext ∧ (idxFold dst start l w).pool = w.pool ∧
    (idxFold dst start l w).flags = w.flags ∧ (idxFold dst start l w).reg = w.reg := by
  unfold idxFold
  induction l generalizing w with
  | nil => exact ⟨rfl, rfl, rfl, rfl, rfl, rfl, rfl, rfl⟩
  | cons p rest ih =>
    simp only [List.foldl_cons]
    obtain ⟨a, b, c, d, e, f, g, h⟩ := ih (w.setIndex p.1.ent.id (some ⟨dst, start + p.2⟩))
    exact ⟨a, b, by rw [c]; simp [setIndex], d, e, f, g, h⟩

theorem idxFold_other (dst start : Nat) (l : List (Row × Nat)) (w : World) (j : Nat) (h : ∀ p ∈ l, p.1.ent.id ≠ j) :
    loc (idxFold dst start l w) j = loc w j := by
  unfold idxFold
  induction l generalizing w with
  | nil => rfl
  | cons p rest ih =>
    simp only [List.foldl_cons]
    rw [ih _ (fun q hq => h q (List.mem_cons_of_mem _ hq)), loc_setIndex]
    rw [if_neg (fun x => h p List.mem_cons_self x.1)]

theorem idxFold_mem (dst start : Nat) (l : List (Row × Nat)) (w : World)
    (hd : l.Pairwise (fun a b => a.1.ent.id ≠ b.1.ent.id)) (hlt : ∀ p ∈ l, p.1.ent.id < w.index.size) (p : Row × Nat) (hp : p ∈ l) :
    loc (idxFold dst start l w) p.1.ent.id = some ⟨dst, start + p.2⟩ := by
  unfold idxFold
  induction l generalizing w with
  | nil => cases hp
  | cons q rest ih =>
    simp only [List.foldl_cons]
    rw [List.pairwise_cons] at hd
    rcases List.mem_cons.1 hp with e | hm
    · subst e
      have := idxFold_other dst start rest (w.setIndex p.1.ent.id (some ⟨dst, start + p.2⟩)) p.1.ent.id
        (fun r hr => fun x => hd.1 r hr x.symm)
      unfold idxFold at this
      rw [this, loc_setIndex, if_pos ⟨rfl, hlt p List.mem_cons_self⟩]
    · exact ih _ hd.2 (fun r hr => by simp [setIndex]; exact hlt r (List.mem_cons_of_mem _ hr)) hm

/-- `moveAll` of all rows of `src`, then the reset of `src` -/
def moveAllClear (w : World) (src dst : Nat) : World :=
  let w1 := (w.moveAll src dst (w.tableOf src).rows.size).1
  w1.setTable src { w1.tableOf src with rows := #[] }

/-- the rows appended to the destination -/
def newRows (w : World) (src dst : Nat) : List Row :=
  (w.tableOf src).rows.toList.map (fun r => (⟨r.ent, movedVals (w.tableIds src) (w.tableIds dst) r.vals⟩ : Row))

theorem moveAllClear_eq (w : World) (src dst : Nat) (hne : src ≠ dst) (hs : src < w.tables.size) (hd : dst < w.tables.size) :
    moveAllClear w src dst =
      ((idxFold dst (w.tableOf dst).rows.size (w.tableOf src).rows.toList.zipIdx
        (w.setTable dst { (w.tableOf dst).extend (w.nodeOfTable dst).capInc (w.tableOf src).rows.size with
          rows := (w.tableOf dst).rows ++ (newRows w src dst).toArray })).setTable src { w.tableOf src with rows := #[] }) := by
  unfold moveAllClear moveAll
  simp only []
  have htake : (w.tableOf src).rows.toList.take (w.tableOf src).rows.size = (w.tableOf src).rows.toList := by
    apply List.take_of_length_le; simp
  rw [htake]
  have hext : ((w.tableOf dst).extend (w.nodeOfTable dst).capInc (w.tableOf src).rows.size).rows = (w.tableOf dst).rows := by
    unfold Table.extend; simp only []; split <;> rfl
  rw [hext]
  -- the table read back for the final reset is the source table, untouched so far
  have hsrc : (idxFold dst (w.tableOf dst).rows.size (w.tableOf src).rows.toList.zipIdx
      (w.setTable dst { (w.tableOf dst).extend (w.nodeOfTable dst).capInc (w.tableOf src).rows.size with
        rows := (w.tableOf dst).rows ++ (newRows w src dst).toArray })).tableOf src = w.tableOf src := by
    unfold tableOf
    rw [(idxFold_tables _ _ _ _).1]
    exact tableOf_setTable_ne w dst src _ (Ne.symm hne)
  unfold idxFold newRows at *
  rw [hsrc]

theorem mem_zip (w : World) (src : Nat) (p : Row × Nat) :
    p ∈ (w.tableOf src).rows.toList.zipIdx ↔ p.2 < (w.tableOf src).rows.size ∧ rowAt w src p.2 = p.1 := by
  rw [List.mem_zipIdx_iff_getElem?]
  simp only [Array.getElem?_toList]
  unfold rowAt
  constructor
  · intro h
    have hlt : p.2 < (w.tableOf src).rows.size := by
      apply Classical.byContradiction; intro hx
      rw [Array.getElem?_eq_none (by omega)] at h; cases h
    refine ⟨hlt, ?_⟩
    rw [Array.getD_eq_getD_getElem?, h]; rfl
  · intro ⟨hlt, h⟩
    rw [Array.getD_eq_getD_getElem?, Array.getElem?_eq_getElem hlt] at h
    rw [Array.getElem?_eq_getElem hlt]
    exact congrArg some h

/-- everything `moveAllClear` does -/
theorem moveAllClear_spec (w : World) (hI : IdxInv w) (src dst : Nat) (hne : src ≠ dst) (hs : src < w.tables.size) (hd : dst < w.tables.size) :
    -- tables
    (∀ t, (moveAllClear w src dst).tableOf t =
      if t = src then { w.tableOf src with rows := #[] }
      else if t = dst then { (w.tableOf dst).extend (w.nodeOfTable dst).capInc (w.tableOf src).rows.size with
        rows := (w.tableOf dst).rows ++ (newRows w src dst).toArray }
      else w.tableOf t) ∧
    (moveAllClear w src dst).tables.size = w.tables.size ∧ (moveAllClear w src dst).nodes = w.nodes ∧
    (moveAllClear w src dst).cache = w.cache ∧ (moveAllClear w src dst).cacheNext = w.cacheNext ∧
    (moveAllClear w src dst).pool = w.pool ∧ (moveAllClear w src dst).flags = w.flags ∧ (moveAllClear w src dst).reg = w.reg ∧
    -- the moved entities
    (∀ i, i < (w.tableOf src).rows.size →
      loc (moveAllClear w src dst) (rowAt w src i).ent.id = some ⟨dst, (w.tableOf dst).rows.size + i⟩) ∧
    -- everybody else
    (∀ id, (∀ i, i < (w.tableOf src).rows.size → (rowAt w src i).ent.id ≠ id) → loc (moveAllClear w src dst) id = loc w id) := by
  rw [moveAllClear_eq w src dst hne hs hd]
  generalize hw1 : w.setTable dst { (w.tableOf dst).extend (w.nodeOfTable dst).capInc (w.tableOf src).rows.size with
      rows := (w.tableOf dst).rows ++ (newRows w src dst).toArray } = w1
  obtain ⟨f1, f2, f3, f4, f5, f6, f7, f8⟩ := idxFold_tables dst (w.tableOf dst).rows.size (w.tableOf src).rows.toList.zipIdx w1
  generalize hw2 : idxFold dst (w.tableOf dst).rows.size (w.tableOf src).rows.toList.zipIdx w1 = w2 at *
  have hto2 : ∀ t, w2.tableOf t = w1.tableOf t := by intro t; unfold tableOf; rw [f1]
  have hs2 : src < w2.tables.size := by rw [f1, ← hw1]; simpa using hs
  have hloc : ∀ j, loc (w2.setTable src { w.tableOf src with rows := #[] }) j = loc w2 j := fun _ => rfl
  refine ⟨?_, ?_, ?_, ?_, ?_, ?_, ?_, ?_, ?_, ?_⟩
  · intro t
    by_cases e1 : t = src
    · subst e1; rw [tableOf_setTable_eq _ _ _ hs2, if_pos rfl]
    · rw [tableOf_setTable_ne _ _ _ _ (Ne.symm e1), if_neg e1, hto2, ← hw1]
      by_cases e2 : t = dst
      · subst e2; rw [tableOf_setTable_eq _ _ _ hd, if_pos rfl]
      · rw [tableOf_setTable_ne _ _ _ _ (Ne.symm e2), if_neg e2]
  · rw [tables_size_setTable, f1, ← hw1]; simp
  · show w2.nodes = _; rw [f2, ← hw1]; rfl
  · show w2.cache = _; rw [f4, ← hw1]; rfl
  · show w2.cacheNext = _; rw [f5, ← hw1]; rfl
  · show w2.pool = _; rw [f6, ← hw1]; rfl
  · show w2.flags = _; rw [f7, ← hw1]; rfl
  · show w2.reg = _; rw [f8, ← hw1]; rfl
  · intro i hi
    rw [hloc, ← hw2]
    have hp : (rowAt w src i, i) ∈ (w.tableOf src).rows.toList.zipIdx := (mem_zip w src _).2 ⟨hi, rfl⟩
    apply idxFold_mem dst _ _ w1 _ _ (rowAt w src i, i) hp
    · rw [List.pairwise_iff_getElem]
      intro a b ha hb hab heq
      have ha' : a < (w.tableOf src).rows.size := by simpa using ha
      have hb' : b < (w.tableOf src).rows.size := by simpa using hb
      have e1 := (mem_zip w src _).1 (List.getElem_mem ha)
      have e2 := (mem_zip w src _).1 (List.getElem_mem hb)
      have i1 : ((w.tableOf src).rows.toList.zipIdx[a]).2 = a := by simp
      have i2 : ((w.tableOf src).rows.toList.zipIdx[b]).2 = b := by simp
      rw [i1] at e1; rw [i2] at e2
      rw [← e1.2, ← e2.2] at heq
      have := row_ids_inj w hI src a src b ⟨hs, ha'⟩ ⟨hs, hb'⟩ heq
      omega
    · intro p hp'
      obtain ⟨q1, q2⟩ := (mem_zip w src p).1 hp'
      rw [← q2]
      have := loc_lt w _ _ (hI.bwd src p.2 ⟨hs, q1⟩)
      rw [← hw1]; exact this
  · intro id hid
    rw [hloc, ← hw2, idxFold_other]
    · rw [← hw1]; rfl
    · intro p hp'
      obtain ⟨q1, q2⟩ := (mem_zip w src p).1 hp'
      rw [← q2]; exact hid p.2 q1

theorem getD_append (a b : Array Row) (r : Nat) (d : Row) :
    (a ++ b).getD r d = if r < a.size then a.getD r d else b.getD (r - a.size) d := by
  simp only [Array.getD_eq_getD_getElem?, Array.getElem?_append]
  split <;> rfl

theorem newRows_get (w : World) (src dst i : Nat) (hi : i < (w.tableOf src).rows.size) :
    (newRows w src dst).toArray.getD i default = ⟨(rowAt w src i).ent, movedVals (w.tableIds src) (w.tableIds dst) (rowAt w src i).vals⟩ := by
  unfold newRows rowAt
  rw [Array.getD_eq_getD_getElem?, List.getElem?_toArray, List.getElem?_map, Array.getElem?_toList,
    Array.getElem?_eq_getElem hi, Array.getD_eq_getD_getElem?, Array.getElem?_eq_getElem hi]
  rfl

theorem newRows_size (w : World) (src dst : Nat) : (newRows w src dst).toArray.size = (w.tableOf src).rows.size := by
  unfold newRows; simp

/-- the row content after the batch move -/
theorem rowAt_moveAllClear (w : World) (hI : IdxInv w) (src dst : Nat) (hne : src ≠ dst) (hs : src < w.tables.size) (hd : dst < w.tables.size)
    (t r : Nat) :
    rowAt (moveAllClear w src dst) t r =
      if t = src then default
      else if t = dst then
        (if r < (w.tableOf dst).rows.size then rowAt w dst r
         else if r - (w.tableOf dst).rows.size < (w.tableOf src).rows.size then
           ⟨(rowAt w src (r - (w.tableOf dst).rows.size)).ent,
            movedVals (w.tableIds src) (w.tableIds dst) (rowAt w src (r - (w.tableOf dst).rows.size)).vals⟩
         else default)
      else rowAt w t r := by
  obtain ⟨ht, _⟩ := moveAllClear_spec w hI src dst hne hs hd
  show ((moveAllClear w src dst).tableOf t).rows.getD r default = _
  rw [ht]
  by_cases e1 : t = src
  · rw [if_pos e1, if_pos e1]; rfl
  · rw [if_neg e1, if_neg e1]
    by_cases e2 : t = dst
    · rw [if_pos e2, if_pos e2]
      show ((w.tableOf dst).rows ++ (newRows w src dst).toArray).getD r default = _
      rw [getD_append]
      by_cases h1 : r < (w.tableOf dst).rows.size
      · rw [if_pos h1, if_pos h1]; rfl
      · rw [if_neg h1, if_neg h1]
        by_cases h2 : r - (w.tableOf dst).rows.size < (w.tableOf src).rows.size
        · rw [if_pos h2]; exact newRows_get w src dst _ h2
        · rw [if_neg h2, Array.getD_eq_getD_getElem?, Array.getElem?_eq_none (by rw [newRows_size]; omega)]; rfl
    · rw [if_neg e2, if_neg e2]; rfl

/-- the batch move keeps the index ↔ rows bijection -/
theorem idxInv_moveAllClear (w : World) (hI : IdxInv w) (src dst : Nat) (hne : src ≠ dst) (hs : src < w.tables.size) (hd : dst < w.tables.size) :
    IdxInv (moveAllClear w src dst) := by
  obtain ⟨ht, hts, hn, _, _, _, _, _, hmoved, hothers⟩ := moveAllClear_spec w hI src dst hne hs hd
  have hrow := rowAt_moveAllClear w hI src dst hne hs hd
  have hsize : ∀ t, ((moveAllClear w src dst).tableOf t).rows.size =
      if t = src then 0 else if t = dst then (w.tableOf dst).rows.size + (w.tableOf src).rows.size else (w.tableOf t).rows.size := by
    intro t; rw [ht]
    by_cases e1 : t = src
    · simp [e1]
    · simp only [e1, ↓reduceIte]
      by_cases e2 : t = dst
      · simp only [e2, ↓reduceIte, Array.size_append, newRows_size]
      · simp [e2]
  have hids : ∀ t, (moveAllClear w src dst).tableIds t = w.tableIds t := by
    intro t
    unfold tableIds nodeOfTable nodeOf
    rw [hn, ht]
    by_cases e1 : t = src
    · simp only [e1, ↓reduceIte]
    · simp only [e1, ↓reduceIte]
      by_cases e2 : t = dst
      · simp only [e2, ↓reduceIte]
        have : ((w.tableOf dst).extend (w.nodeOfTable dst).capInc (w.tableOf src).rows.size).node = (w.tableOf dst).node := by
          unfold Table.extend; simp only []; split <;> rfl
        rw [this]
      · simp only [e2, ↓reduceIte]
  -- is `id` one of the moved entities?
  have hcase : ∀ id, (∃ i, i < (w.tableOf src).rows.size ∧ (rowAt w src i).ent.id = id) ∨
      (∀ i, i < (w.tableOf src).rows.size → (rowAt w src i).ent.id ≠ id) := by
    intro id
    by_cases h : ∃ i, i < (w.tableOf src).rows.size ∧ (rowAt w src i).ent.id = id
    · exact Or.inl h
    · right; intro i hi he; exact h ⟨i, hi, he⟩
  refine ⟨?_, ?_, ?_⟩
  · intro id l hl
    rcases hcase id with ⟨i, hi, he⟩ | hno
    · rw [← he, hmoved i hi] at hl
      cases hl
      refine ⟨⟨by rw [hts]; exact hd, ?_⟩, ?_⟩
      · simp only []; rw [hsize, if_neg (Ne.symm hne), if_pos rfl]; omega
      · simp only []
        rw [hrow, if_neg (Ne.symm hne), if_pos rfl, if_neg (by omega)]
        have : (w.tableOf dst).rows.size + i - (w.tableOf dst).rows.size = i := by omega
        rw [this, if_pos hi, he]
    · rw [hothers id hno] at hl
      obtain ⟨⟨v1, v2⟩, v3⟩ := hI.fwd id l hl
      have hnsrc : l.tbl ≠ src := by
        intro e; rw [e] at v2 v3; exact hno l.row v2 v3
      refine ⟨⟨by rw [hts]; exact v1, ?_⟩, ?_⟩
      · rw [hsize, if_neg hnsrc]
        split
        · rename_i e; rw [e] at v2; omega
        · exact v2
      · rw [hrow, if_neg hnsrc]
        split
        · rename_i e; rw [e] at v2 v3; rw [if_pos v2]; exact v3
        · exact v3
  · intro t r hv
    obtain ⟨v1, v2⟩ := hv
    rw [hts] at v1
    rw [hsize] at v2
    by_cases e1 : t = src
    · rw [if_pos e1] at v2; omega
    · rw [if_neg e1] at v2
      rw [hrow, if_neg e1]
      by_cases e2 : t = dst
      · rw [if_pos e2] at v2
        rw [if_pos e2]
        by_cases hr : r < (w.tableOf dst).rows.size
        · rw [if_pos hr]
          have hno : ∀ i, i < (w.tableOf src).rows.size → (rowAt w src i).ent.id ≠ (rowAt w dst r).ent.id := by
            intro i hi he
            exact hne (row_ids_inj w hI src i dst r ⟨hs, hi⟩ ⟨hd, hr⟩ he).1
          rw [hothers _ hno, e2]
          exact hI.bwd dst r ⟨hd, hr⟩
        · rw [if_neg hr, if_pos (by omega)]
          simp only []
          rw [hmoved _ (by omega), e2]
          congr 2; omega
      · rw [if_neg e2] at v2
        rw [if_neg e2]
        have hno : ∀ i, i < (w.tableOf src).rows.size → (rowAt w src i).ent.id ≠ (rowAt w t r).ent.id := by
          intro i hi he
          exact e1 (row_ids_inj w hI src i t r ⟨hs, hi⟩ ⟨v1, v2⟩ he).1.symm
        rw [hothers _ hno]
        exact hI.bwd t r ⟨v1, v2⟩
  · intro t r hv
    obtain ⟨v1, v2⟩ := hv
    rw [hts] at v1
    rw [hsize] at v2
    rw [hids]
    by_cases e1 : t = src
    · rw [if_pos e1] at v2; omega
    · rw [if_neg e1] at v2
      rw [hrow, if_neg e1]
      by_cases e2 : t = dst
      · rw [if_pos e2] at v2
        rw [if_pos e2]
        by_cases hr : r < (w.tableOf dst).rows.size
        · rw [if_pos hr, e2]; exact hI.width dst r ⟨hd, hr⟩
        · rw [if_neg hr, if_pos (by omega), e2]
          simp only []
          exact movedVals_length _ _ _
      · rw [if_neg e2] at v2
        rw [if_neg e2]
        exact hI.width t r ⟨v1, v2⟩

/-! ### the structural invariants only read table fields and nodes -/

theorem nodeInv_fields {w w' : World} (hn : w'.nodes = w.nodes) (hts : w'.tables.size = w.tables.size)
    (hf : ∀ t, (w'.tableOf t).node = (w.tableOf t).node ∧ (w'.tableOf t).k = (w.tableOf t).k) (h : NodeInv w) : NodeInv w' := by
  have hno : ∀ n, w'.nodeOf n = w.nodeOf n := by intro n; unfold nodeOf; rw [hn]
  refine ⟨?_, ?_, ?_, ?_⟩
  · intro t ht; rw [hts] at ht; rw [(hf t).1, hn]; exact h.tnode t ht
  · intro n hlt i hi
    rw [hn] at hlt; rw [hno] at hi ⊢
    rw [hts, (hf _).1, (hf _).2]; exact h.tables n hlt i hi
  · intro n hlt k hk; rw [hn] at hlt; rw [hno] at hk ⊢; exact h.free n hlt k hk
  · intro n hlt e t hg; rw [hn] at hlt; rw [hno] at hg ⊢; exact h.tmap n hlt e t hg

theorem tinv_fields {w w' : World} (hn : w'.nodes = w.nodes) (hts : w'.tables.size = w.tables.size)
    (hf : ∀ t, (w'.tableOf t).node = (w.tableOf t).node ∧ (w'.tableOf t).target = (w.tableOf t).target ∧
      (w'.tableOf t).active = (w.tableOf t).active)
    (hrows : ∀ t, (w'.tableOf t).active = false → (w'.tableOf t).rows = #[]) (h : TInv w) : TInv w' := by
  have hno : ∀ n, w'.nodeOf n = w.nodeOf n := by intro n; unfold nodeOf; rw [hn]
  refine ⟨?_, ?_, ?_, ?_, ?_, ?_⟩
  · intro n hlt e t hg
    rw [hn] at hlt; rw [hno] at hg ⊢
    rw [(hf t).2.1, (hf t).2.2]; exact h.sound n hlt e t hg
  · intro t ht hact hrel
    rw [hts] at ht
    rw [(hf t).2.2] at hact
    rw [(hf t).1, hno] at hrel ⊢
    rw [(hf t).2.1]; exact h.complete t ht hact hrel
  · intro n hlt k hk
    rw [hn] at hlt; rw [hno] at hk ⊢
    rw [(hf _).2.2]; exact h.free n hlt k hk
  · intro n hlt; rw [hn] at hlt; rw [hno]; exact h.freeNodup n hlt
  · intro t _ hact; exact hrows t hact
  · intro t ht hr
    rw [hts] at ht
    rw [(hf t).1, hno] at hr
    rw [(hf t).2.1, (hf t).2.2]; exact h.norel t ht hr

/-- table fields after the batch move -/
theorem fields_moveAllClear (w : World) (hI : IdxInv w) (src dst : Nat) (hne : src ≠ dst) (hs : src < w.tables.size) (hd : dst < w.tables.size) (t : Nat) :
    ((moveAllClear w src dst).tableOf t).target = (w.tableOf t).target ∧ ((moveAllClear w src dst).tableOf t).active = (w.tableOf t).active ∧
    ((moveAllClear w src dst).tableOf t).k = (w.tableOf t).k ∧ ((moveAllClear w src dst).tableOf t).node = (w.tableOf t).node := by
  obtain ⟨ht, _⟩ := moveAllClear_spec w hI src dst hne hs hd
  rw [ht]
  have hext : ∀ n, ((w.tableOf dst).extend (w.nodeOfTable dst).capInc n).target = (w.tableOf dst).target ∧
      ((w.tableOf dst).extend (w.nodeOfTable dst).capInc n).active = (w.tableOf dst).active ∧
      ((w.tableOf dst).extend (w.nodeOfTable dst).capInc n).k = (w.tableOf dst).k ∧
      ((w.tableOf dst).extend (w.nodeOfTable dst).capInc n).node = (w.tableOf dst).node := by
    intro n; unfold Table.extend; simp only []; split <;> exact ⟨rfl, rfl, rfl, rfl⟩
  by_cases e1 : t = src
  · rw [if_pos e1, e1]; exact ⟨rfl, rfl, rfl, rfl⟩
  · rw [if_neg e1]
    by_cases e2 : t = dst
    · rw [if_pos e2, e2]; exact hext _
    · rw [if_neg e2]; exact ⟨rfl, rfl, rfl, rfl⟩

/-- the batch move keeps all invariants (the destination must be an active table) -/
theorem kinv_moveAllClear (w : World) (hK : KInv w) (hS : SInv w) (src dst : Nat) (hne : src ≠ dst) (hs : src < w.tables.size) (hd : dst < w.tables.size)
    (hact : (w.tableOf dst).active = true) : KInv (moveAllClear w src dst) ∧ SInv (moveAllClear w src dst) := by
  obtain ⟨ht, hts, hn, hc, hx, _, _, _, _, _⟩ := moveAllClear_spec w hK.idx src dst hne hs hd
  have hf := fields_moveAllClear w hK.idx src dst hne hs hd
  have hrows : ∀ t, ((moveAllClear w src dst).tableOf t).active = false → ((moveAllClear w src dst).tableOf t).rows = #[] := by
    intro t ha
    rw [(hf t).2.1] at ha
    rw [ht]
    by_cases e1 : t = src
    · rw [if_pos e1]
    · rw [if_neg e1]
      by_cases e2 : t = dst
      · rw [e2, hact] at ha; cases ha
      · rw [if_neg e2]
        by_cases hlt : t < w.tables.size
        · exact hK.tgt.empty t hlt ha
        · unfold tableOf; rw [Array.getD_eq_getD_getElem?, Array.getElem?_eq_none (by omega)]; rfl
  have hnode := nodeInv_fields hn hts (fun t => ⟨(hf t).2.2.2, (hf t).2.2.1⟩) hK.node
  have htgt := tinv_fields hn hts (fun t => ⟨(hf t).2.2.2, (hf t).1, (hf t).2.1⟩) hrows hK.tgt
  obtain ⟨a, b⟩ := rows_frame (w' := moveAllClear w src dst) hS.cov hS.cache hts hn hc hx hf
  exact ⟨⟨hnode, graphInv_of_nodes hn hK.graph, idxInv_moveAllClear w hK.idx src dst hne hs hd, htgt⟩, ⟨hnode, htgt, a, b⟩⟩

end Arche.Batch
