/-
  `World.Reset`: every node's tables are emptied; relation tables with a non-zero target are
  retired (through `removeTable`, so the cache follows); the skeleton invariant is kept.
-/
import ArcheProofs.Lemmas.SInv

namespace Arche.Reset
open Arche Arche.World Arche.Arr Arche.Storage Arche.IndexInv Arche.SameRows Arche.Graph Arche.Closed Arche.TInv Arche.KInv Arche.Cov Arche.Cache Arche.SInv Arche.Remove

/-- what a reset step may do: rows are only ever cleared, tables only ever retired, node lists
    and everything outside nodes / tables / cache stay; the skeleton invariant is kept -/
structure Cleared (w w' : World) : Prop where
  sinv : SInv w'
  tsize : w'.tables.size = w.tables.size
  nsize : w'.nodes.size = w.nodes.size
  nodes : ∀ n, (w'.nodeOf n).tables = (w.nodeOf n).tables ∧ (w'.nodeOf n).rel = (w.nodeOf n).rel ∧
      (w'.nodeOf n).active = (w.nodeOf n).active
  graph : ∀ n, (w'.nodeOf n).nbrs = (w.nodeOf n).nbrs ∧ (w'.nodeOf n).mask = (w.nodeOf n).mask ∧ (w'.nodeOf n).ids = (w.nodeOf n).ids
  tnode : ∀ t, (w'.tableOf t).node = (w.tableOf t).node ∧ (w'.tableOf t).target = (w.tableOf t).target
  rows : ∀ t, (w'.tableOf t).rows = #[] ∨ (w'.tableOf t).rows = (w.tableOf t).rows
  retire : ∀ t, (w'.tableOf t).active = true → (w.tableOf t).active = true
  rest : w'.index = w.index ∧ w'.pool = w.pool ∧ w'.flags = w.flags ∧ w'.locks = w.locks ∧ w'.resources = w.resources ∧
      w'.reg = w.reg ∧ w'.cfg = w.cfg ∧ w'.listener = w.listener ∧ w'.resCount = w.resCount ∧ w'.cacheNext = w.cacheNext ∧
      w'.cache.map (fun e => (e.id, e.filter)) = w.cache.map (fun e => (e.id, e.filter))

theorem Cleared.refl (w : World) (h : SInv w) : Cleared w w :=
  ⟨h, rfl, rfl, fun _ => ⟨rfl, rfl, rfl⟩, fun _ => ⟨rfl, rfl, rfl⟩, fun _ => ⟨rfl, rfl⟩, fun _ => Or.inr rfl, fun _ h => h,
   ⟨rfl, rfl, rfl, rfl, rfl, rfl, rfl, rfl, rfl, rfl, rfl⟩⟩

theorem Cleared.trans {a b c : World} (h1 : Cleared a b) (h2 : Cleared b c) : Cleared a c := by
  refine ⟨h2.sinv, h2.tsize.trans h1.tsize, h2.nsize.trans h1.nsize, ?_, ?_, ?_, ?_, fun t h => h1.retire t (h2.retire t h), ?_⟩
  · intro n
    exact ⟨(h2.nodes n).1.trans (h1.nodes n).1, (h2.nodes n).2.1.trans (h1.nodes n).2.1, (h2.nodes n).2.2.trans (h1.nodes n).2.2⟩
  · intro n
    exact ⟨(h2.graph n).1.trans (h1.graph n).1, (h2.graph n).2.1.trans (h1.graph n).2.1, (h2.graph n).2.2.trans (h1.graph n).2.2⟩
  · intro t
    exact ⟨(h2.tnode t).1.trans (h1.tnode t).1, (h2.tnode t).2.trans (h1.tnode t).2⟩
  · intro t
    rcases h2.rows t with h | h
    · exact Or.inl h
    · rcases h1.rows t with h' | h'
      · exact Or.inl (h.trans h')
      · exact Or.inr (h.trans h')
  · obtain ⟨a1, a2, a3, a4, a5, a6, a7, a8, a9, a10, a11⟩ := h1.rest
    obtain ⟨b1, b2, b3, b4, b5, b6, b7, b8, b9, b10, b11⟩ := h2.rest
    exact ⟨b1.trans a1, b2.trans a2, b3.trans a3, b4.trans a4, b5.trans a5, b6.trans a6, b7.trans a7, b8.trans a8, b9.trans a9,
      b10.trans a10, b11.trans a11⟩

theorem Cleared.empty_stays {w w' : World} (h : Cleared w w') (t : Nat) (he : (w.tableOf t).rows = #[]) : (w'.tableOf t).rows = #[] := by
  rcases h.rows t with h' | h'
  · exact h'
  · exact h'.trans he

/-- clearing the rows of one table -/
theorem cleared_clearRows (w : World) (h : SInv w) (t : Nat) :
    Cleared w (w.setTable t { w.tableOf t with rows := #[] }) ∧
    (t < w.tables.size → ((w.setTable t { w.tableOf t with rows := #[] }).tableOf t).rows = #[]) := by
  by_cases ht : t < w.tables.size
  · have hto : ∀ t', (w.setTable t { w.tableOf t with rows := #[] }).tableOf t' =
        if t = t' then { w.tableOf t with rows := #[] } else w.tableOf t' := by
      intro t'
      by_cases e : t = t'
      · subst e; rw [tableOf_setTable_eq _ _ _ ht]; simp
      · rw [tableOf_setTable_ne _ _ _ _ e]; simp [e]
    have hfields : ∀ t', ((w.setTable t { w.tableOf t with rows := #[] }).tableOf t').target = (w.tableOf t').target ∧
        ((w.setTable t { w.tableOf t with rows := #[] }).tableOf t').active = (w.tableOf t').active ∧
        ((w.setTable t { w.tableOf t with rows := #[] }).tableOf t').k = (w.tableOf t').k ∧
        ((w.setTable t { w.tableOf t with rows := #[] }).tableOf t').node = (w.tableOf t').node := by
      intro t'; rw [hto]; split
      · rename_i e; subst e; exact ⟨rfl, rfl, rfl, rfl⟩
      · exact ⟨rfl, rfl, rfl, rfl⟩
    obtain ⟨a, b⟩ := rows_frame (w' := w.setTable t { w.tableOf t with rows := #[] }) h.cov h.cache (by simp) rfl rfl rfl hfields
    refine ⟨⟨⟨nodeInv_setTable w h.node t _ ht rfl rfl, tinv_setRows w h.tgt t ht _ rfl rfl rfl (fun _ => rfl), a, b⟩,
      by simp, rfl, fun _ => ⟨rfl, rfl, rfl⟩, fun _ => ⟨rfl, rfl, rfl⟩, fun t' => ⟨(hfields t').2.2.2, (hfields t').1⟩, ?_, ?_,
      ⟨rfl, rfl, rfl, rfl, rfl, rfl, rfl, rfl, rfl, rfl, rfl⟩⟩, ?_⟩
    · intro t'; rw [hto]; split
      · exact Or.inl rfl
      · exact Or.inr rfl
    · intro t' ha; rw [(hfields t').2.1] at ha; exact ha
    · intro _; rw [hto, if_pos rfl]
  · have : w.setTable t { w.tableOf t with rows := #[] } = w := by
      unfold setTable
      have : w.tables.setIfInBounds t { w.tableOf t with rows := #[] } = w.tables := by
        apply Array.ext
        · simp
        · intro i h1 h2
          have hne : t ≠ i := by omega
          rw [Array.getElem_setIfInBounds h2, if_neg hne]
      rw [this]
    rw [this]
    exact ⟨Cleared.refl w h, fun h' => absurd h' ht⟩

/-- retiring one table -/
theorem cleared_removeTable (w : World) (h : SInv w) (t : Nat) (ht : t < w.tables.size)
    (hact : (w.tableOf t).active = true) (hrel : (w.nodeOf (w.tableOf t).node).rel.isSome = true) :
    Cleared w (w.removeTable t) ∧ ((w.removeTable t).tableOf t).rows = #[] := by
  obtain ⟨a, b, c, d⟩ := removeTable_skel w t
  have hself : (w.removeTable t).tableOf t = { w.tableOf t with active := false, rows := #[] } := by
    unfold removeTable; simp only []
    rw [tableOf_cacheRemove]
    exact tableOf_setTable_eq _ _ _ (by show t < (w.setNode _ _).tables.size; exact ht)
  have hother : ∀ t', t ≠ t' → (w.removeTable t).tableOf t' = w.tableOf t' := by
    intro t' hne
    unfold removeTable; simp only []
    rw [tableOf_cacheRemove, tableOf_setTable_ne _ _ _ _ hne]; rfl
  have hgraph : ∀ n, ((w.removeTable t).nodeOf n).nbrs = (w.nodeOf n).nbrs ∧ ((w.removeTable t).nodeOf n).mask = (w.nodeOf n).mask ∧
      ((w.removeTable t).nodeOf n).ids = (w.nodeOf n).ids := by
    intro n
    unfold removeTable
    simp only []
    rw [nodeOf_cacheRemove, nodeOf_setTable, nodeOf_setNode]
    split
    · rename_i hh; rw [← hh.1]; exact ⟨rfl, rfl, rfl⟩
    · exact ⟨rfl, rfl, rfl⟩
  refine ⟨⟨sinv_removeTable w h t ht hact hrel, a, b, fun n => ⟨(d n).1, (d n).2.2, (d n).2.1⟩, hgraph,
    fun t' => ⟨(c t').2, (removeTable_fields w t t').1⟩, ?_, ?_, ?_⟩, by rw [hself]⟩
  · intro t'
    by_cases e : t = t'
    · subst e; exact Or.inl (by rw [hself])
    · exact Or.inr (by rw [hother t' e])
  · intro t' ha
    by_cases e : t = t'
    · subst e; exact hact
    · rw [hother t' e] at ha; exact ha
  · refine ⟨rfl, rfl, rfl, rfl, rfl, rfl, rfl, rfl, rfl, rfl, ?_⟩
    show ((w.removeTable t).cache.map fun e => (e.id, e.filter)) = _
    have : (w.removeTable t).cache = w.cache.map (remUpd ((w.setNode (w.tableOf t).node { w.nodeOf (w.tableOf t).node with
        tmap := assocDel (w.nodeOf (w.tableOf t).node).tmap (w.tableOf t).target,
        free := (w.nodeOf (w.tableOf t).node).free ++ [(w.tableOf t).k] }).setTable t { w.tableOf t with active := false, rows := #[] }) t) := rfl
    rw [this, Array.map_map]
    congr 1
    funext e
    simp only [Function.comp]
    rw [(remUpd_id _ t e).1, (remUpd_id _ t e).2]

/-! ### one node -/

/-- the step of the loop over a relation node's tables -/
def relStep (w : World) (t : Nat) : World :=
  let tb := w.tableOf t
  if !tb.active then w
  else if !tb.target.isZero then w.removeTable t
  else w.setTable t { tb with rows := #[] }

theorem cleared_relStep (w : World) (h : SInv w) (t : Nat) (ht : t < w.tables.size)
    (hrel : (w.nodeOf (w.tableOf t).node).rel.isSome = true) :
    Cleared w (relStep w t) ∧ ((relStep w t).tableOf t).rows = #[] ∧
    (((relStep w t).tableOf t).active = true → (w.tableOf t).target.isZero = true) := by
  unfold relStep
  simp only []
  cases hact : (w.tableOf t).active
  · simp only [Bool.not_false, ↓reduceIte]
    exact ⟨Cleared.refl w h, h.tgt.empty t ht hact, fun h' => by rw [hact] at h'; cases h'⟩
  · simp only [Bool.not_true, Bool.false_eq_true, ↓reduceIte]
    split
    · obtain ⟨a, b⟩ := cleared_removeTable w h t ht hact hrel
      refine ⟨a, b, ?_⟩
      intro h'
      have hself : (w.removeTable t).tableOf t = { w.tableOf t with active := false, rows := #[] } := by
        unfold removeTable; simp only []
        rw [tableOf_cacheRemove]
        exact tableOf_setTable_eq _ _ _ (by show t < (w.setNode _ _).tables.size; exact ht)
      rw [hself] at h'; cases h'
    · rename_i hz
      obtain ⟨a, b⟩ := cleared_clearRows w h t
      have b' := b ht
      simp only [hact] at a b'
      exact ⟨a, b', fun _ => by simpa using hz⟩

theorem cleared_relFold (n : Nat) (l : List Nat) (w : World) (h : SInv w) (hrel : (w.nodeOf n).rel.isSome = true)
    (hl : ∀ t ∈ l, t < w.tables.size ∧ (w.tableOf t).node = n) :
    Cleared w (l.foldl relStep w) ∧ ∀ t ∈ l, ((l.foldl relStep w).tableOf t).rows = #[] ∧
      (((l.foldl relStep w).tableOf t).active = true → (w.tableOf t).target.isZero = true) := by
  induction l generalizing w with
  | nil => exact ⟨Cleared.refl w h, fun t ht => by cases ht⟩
  | cons t rest ih =>
    simp only [List.foldl_cons]
    obtain ⟨ht, htn⟩ := hl t (List.mem_cons_self)
    obtain ⟨c1, e1, z1⟩ := cleared_relStep w h t ht (by rw [htn]; exact hrel)
    have hrel' : ((relStep w t).nodeOf n).rel.isSome = true := by rw [(c1.nodes n).2.1]; exact hrel
    have hl' : ∀ t' ∈ rest, t' < (relStep w t).tables.size ∧ ((relStep w t).tableOf t').node = n := by
      intro t' ht'
      obtain ⟨a, b⟩ := hl t' (List.mem_cons_of_mem _ ht')
      exact ⟨by rw [c1.tsize]; exact a, by rw [(c1.tnode t').1]; exact b⟩
    obtain ⟨c2, e2⟩ := ih (relStep w t) c1.sinv hrel' hl'
    refine ⟨Cleared.trans c1 c2, ?_⟩
    intro t' ht'
    rcases List.mem_cons.1 ht' with e | hm
    · subst e; exact ⟨c2.empty_stays _ e1, fun ha => z1 (c2.retire _ ha)⟩
    · obtain ⟨r1, r2⟩ := e2 t' hm
      exact ⟨r1, fun ha => by rw [← (c1.tnode t').2]; exact r2 ha⟩

theorem resetNode_eq (w : World) (n : Nat) : w.resetNode n =
    if !(w.nodeOf n).active then w
    else if (w.nodeOf n).rel.isNone then w.setTable ((w.nodeOf n).tables.getD 0 0) { w.tableOf ((w.nodeOf n).tables.getD 0 0) with rows := #[] }
    else (w.nodeOf n).tables.toList.foldl relStep w := rfl

/-- resetting one node keeps the skeleton and empties every table of that node -/
theorem cleared_resetNode (w : World) (h : SInv w) (n : Nat) (hn : n < w.nodes.size) :
    Cleared w (w.resetNode n) ∧
    ∀ i, i < (w.nodeOf n).tables.size → ((w.resetNode n).tableOf ((w.nodeOf n).tables.getD i 0)).rows = #[] ∧
      (((w.resetNode n).tableOf ((w.nodeOf n).tables.getD i 0)).active = true →
        (w.tableOf ((w.nodeOf n).tables.getD i 0)).target.isZero = true) := by
  rw [resetNode_eq]
  cases hact : (w.nodeOf n).active
  · simp only [Bool.not_false, ↓reduceIte]
    refine ⟨Cleared.refl w h, ?_⟩
    intro i hi
    rw [h.cov.active n hn hact] at hi; simp at hi
  · simp only [Bool.not_true, Bool.false_eq_true, ↓reduceIte]
    cases hr : (w.nodeOf n).rel with
    | none =>
      simp only [Option.isNone_none, ↓reduceIte]
      obtain ⟨a, b⟩ := cleared_clearRows w h ((w.nodeOf n).tables.getD 0 0)
      refine ⟨a, ?_⟩
      intro i hi
      have hs := h.cov.single n hn hr
      have hi0 : i = 0 := by omega
      subst hi0
      obtain ⟨t1, t2, _⟩ := h.node.tables n hn 0 hi
      refine ⟨b t1, fun _ => ?_⟩
      have := (h.tgt.norel _ t1 (by rw [t2]; exact hr)).1
      rw [this]; rfl
    | some r =>
      simp only [Option.isNone_some, Bool.false_eq_true, ↓reduceIte]
      have hl : ∀ t ∈ (w.nodeOf n).tables.toList, t < w.tables.size ∧ (w.tableOf t).node = n := by
        intro t ht
        rw [Array.mem_toList_iff, Array.mem_iff_getElem?] at ht
        obtain ⟨i, hi⟩ := ht
        have hilt : i < (w.nodeOf n).tables.size := by
          apply Classical.byContradiction; intro hx
          rw [Array.getElem?_eq_none (by omega)] at hi; cases hi
        have hget : (w.nodeOf n).tables.getD i 0 = t := by
          rw [Array.getD_eq_getD_getElem?, hi]; rfl
        obtain ⟨a, b, _⟩ := h.node.tables n hn i hilt
        rw [hget] at a b; exact ⟨a, b⟩
      obtain ⟨c, e⟩ := cleared_relFold n _ w h (by rw [hr]; rfl) hl
      refine ⟨c, ?_⟩
      intro i hi
      apply e
      rw [Array.mem_toList_iff, Array.mem_iff_getElem?]
      exact ⟨i, by rw [Array.getD_eq_getD_getElem?, Array.getElem?_eq_getElem hi]; rfl⟩

/-! ### all nodes -/

theorem cleared_resetFold (l : List Nat) (w : World) (h : SInv w) (hl : ∀ n ∈ l, n < w.nodes.size) :
    Cleared w (l.foldl resetNode w) ∧
    ∀ n ∈ l, ∀ i, i < (w.nodeOf n).tables.size → ((l.foldl resetNode w).tableOf ((w.nodeOf n).tables.getD i 0)).rows = #[] ∧
      (((l.foldl resetNode w).tableOf ((w.nodeOf n).tables.getD i 0)).active = true →
        (w.tableOf ((w.nodeOf n).tables.getD i 0)).target.isZero = true) := by
  induction l generalizing w with
  | nil => exact ⟨Cleared.refl w h, fun n hn => by cases hn⟩
  | cons n rest ih =>
    simp only [List.foldl_cons]
    obtain ⟨c1, e1⟩ := cleared_resetNode w h n (hl n List.mem_cons_self)
    have hl' : ∀ m ∈ rest, m < (w.resetNode n).nodes.size := by
      intro m hm; rw [c1.nsize]; exact hl m (List.mem_cons_of_mem _ hm)
    obtain ⟨c2, e2⟩ := ih (w.resetNode n) c1.sinv hl'
    refine ⟨Cleared.trans c1 c2, ?_⟩
    intro m hm i hi
    rcases List.mem_cons.1 hm with e | hm'
    · subst e; exact ⟨c2.empty_stays _ (e1 i hi).1, fun ha => (e1 i hi).2 (c2.retire _ ha)⟩
    · have := e2 m hm' i (by rw [(c1.nodes m).1]; exact hi)
      rw [(c1.nodes m).1] at this
      exact ⟨this.1, fun ha => by rw [← (c1.tnode _).2]; exact this.2 ha⟩

/-- after the loop over all nodes every table of the world is empty -/
theorem resetAll (w : World) (h : SInv w) :
    Cleared w ((List.range w.nodes.size).foldl resetNode w) ∧
    ∀ t, t < w.tables.size → (((List.range w.nodes.size).foldl resetNode w).tableOf t).rows = #[] ∧
      ((((List.range w.nodes.size).foldl resetNode w).tableOf t).active = true → (w.tableOf t).target.isZero = true) := by
  obtain ⟨c, e⟩ := cleared_resetFold (List.range w.nodes.size) w h (fun n hn => List.mem_range.1 hn)
  refine ⟨c, ?_⟩
  intro t ht
  obtain ⟨c1, c2⟩ := h.cov.cover t ht
  have := e (w.tableOf t).node (List.mem_range.2 (h.node.tnode t ht)) (w.tableOf t).k c1
  rw [c2] at this; exact this

end Arche.Reset
