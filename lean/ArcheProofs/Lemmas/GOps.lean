/-
  The global invariant, operation by operation (successful calls of the public API of the
  model): entity creation (single and batch), removal, the exchange family, batch exchange,
  filter registration, locking, component registration, resources.
-/
import ArcheProofs.Lemmas.GInv
import ArcheProofs.Props.C08

namespace Arche.GOps
open Arche Arche.World Arche.Arr Arche.Storage Arche.IndexInv Arche.SameRows Arche.Graph Arche.Closed Arche.TInv Arche.KInv Arche.Move Arche.Remove Arche.Cov Arche.Cache Arche.SInv Arche.DInv Arche.Create Arche.Frames Arche.BatchOps Arche.GInv Arche.BatchLoop

/-- the invariant does not read locks, resources or the listener -/
theorem ginv_congr {w w' : World} {issued live : List Entity} (hn : w'.nodes = w.nodes) (ht : w'.tables = w.tables) (hi : w'.index = w.index)
    (hc : w'.cache = w.cache) (hx : w'.cacheNext = w.cacheNext) (hp : w'.pool = w.pool) (hf : w'.flags = w.flags)
    (hcfg : w'.cfg = w.cfg) (hreg : w'.reg = w.reg) (G : GInv w issued live) : GInv w' issued live := by
  have ds : DSame w w' := DSame.of_nodes hcfg hreg hn
  have hto : ∀ t, w'.tableOf t = w.tableOf t := by intro t; unfold tableOf; rw [ht]
  obtain ⟨free, hL⟩ := G.link
  refine ⟨kinv_congr hn ht hi G.k, sinv_congr hn ht hc hx G.s, ds.dinv G.d, binv_of_dsame ds G.b, ?_, free, ?_⟩
  · refine ⟨by rw [ht]; exact G.root.size, ?_, by rw [hto]; exact G.root.active, by rw [hto]; exact G.root.target⟩
    have : w'.tableMask 0 = w.tableMask 0 := by unfold tableMask nodeOfTable nodeOf; rw [hto, hn]
    rw [this]; exact G.root.mask
  · exact linv_transfer G.k hp hi hf (fun t r _ => by unfold rowAt; rw [hto]) hL

/-! ## locking -/

theorem ginv_lock (w : World) (issued live : List Entity) (G : GInv w issued live) (w' : World) (b : Nat) (h : w.lock = some (w', b)) :
    GInv w' issued live := by
  unfold World.lock at h
  split at h
  · cases h
  · simp only [Option.some.injEq, Prod.mk.injEq] at h
    rw [← h.1]; exact ginv_congr (w := w) rfl rfl rfl rfl rfl rfl rfl rfl rfl G

theorem ginv_unlock (w : World) (issued live : List Entity) (G : GInv w issued live) (w' : World) (b : Nat) (h : w.unlock b = some w') :
    GInv w' issued live := by
  unfold World.unlock at h
  split at h
  · cases h
  · simp only [Option.some.injEq] at h
    rw [← h]; exact ginv_congr (w := w) rfl rfl rfl rfl rfl rfl rfl rfl rfl G

/-! ## creation -/

/-- the destination table of a creation: the root table for no components, else the table found
    or created from the root -/
theorem ginv_creationTable (w : World) (issued live : List Entity) (G : GInv w issued live) (ids : List CompId) (target : Entity)
    (hreg : ∀ id ∈ ids, id < w.reg.count) (useRoot : Bool) (hroot : useRoot = true → ids = [])
    (w1 : World) (t : Nat)
    (h : (if useRoot then (w, Except.ok 0) else w.findOrCreateTable 0 ids [] target) = (w1, .ok t)) :
    GInv w1 issued live ∧ t < w1.tables.size ∧ (w1.tableOf t).active = true ∧ Misc w w1 ∧ SameRows w w1 ∧
    w1.tableMask t = newMask 0 ids [] := by
  cases useRoot with
  | true =>
    simp only [↓reduceIte, Prod.mk.injEq, Except.ok.injEq] at h
    obtain ⟨rfl, rfl⟩ := h
    rw [hroot rfl]
    exact ⟨G, G.root.size, G.root.active, Misc.refl w, SameRows.refl w, by rw [G.root.mask]; rfl⟩
  | false =>
    simp only [Bool.false_eq_true, ↓reduceIte] at h
    obtain ⟨G1, s1, m1, _⟩ := ginv_findOrCreateTable w issued live G 0 G.root.size ids [] target trivial hreg
    obtain ⟨_, _, _, hspec⟩ := findOrCreateTable_spec w G.k.node G.k.graph 0 G.root.size ids [] target trivial
    obtain ⟨_, htg⟩ := tinv_findOrCreateTable w G.k.node G.k.graph G.k.tgt 0 G.root.size ids [] target trivial
    have h2 : (w.findOrCreateTable 0 ids [] target).2 = .ok t := by rw [h]
    have h1 : (w.findOrCreateTable 0 ids [] target).1 = w1 := by rw [h]
    obtain ⟨a, b⟩ := hspec t h2
    obtain ⟨c, _⟩ := htg t h2
    rw [h1] at G1 s1 m1 a b c
    exact ⟨G1, a, c, m1, s1, by unfold tableMask nodeOfTable; rw [b, G.root.mask]⟩

/-- `World.NewEntity(comps...)`: the invariant is kept, the new handle joins `issued` and `live` -/
theorem ginv_newEntity (w : World) (issued live : List Entity) (G : GInv w issued live) (comps : List CompId)
    (hreg : ∀ id ∈ comps, id < w.reg.count) (e : Entity) (hok : (w.newEntity comps).out = .ok e) :
    GInv (w.newEntity comps).w (e :: issued) (e :: live) := by
  unfold newEntity at hok ⊢
  by_cases hl : w.isLocked = true
  · simp [hl, World.fail] at hok
  simp only [hl, Bool.false_eq_true, ↓reduceIte] at hok ⊢
  generalize hft : (if comps.isEmpty = true then (w, Except.ok 0) else w.findOrCreateTable 0 comps [] Entity.zero) = ft at hok ⊢
  obtain ⟨w1, r⟩ := ft
  cases r with
  | error p => simp [World.fail] at hok
  | ok t =>
    simp only [] at hok ⊢
    obtain ⟨G1, htlt, hact, _, _, _⟩ := ginv_creationTable w issued live G comps Entity.zero hreg comps.isEmpty
      (by intro h; exact List.isEmpty_iff.1 h) w1 t hft
    have he : e = (w1.createEntity t).2 := by
      simp only [Except.ok.injEq] at hok; exact hok.symm
    rw [he]
    exact ginv_createEntity w1 issued live G1 t htlt hact

/-- `createEntities`: `n` handles are taken from the pool one after the other -/
theorem ginv_createEntities (t : Nat) : ∀ (n : Nat) (w : World) (issued live : List Entity), GInv w issued live → t < w.tables.size →
    (w.tableOf t).active = true →
    GInv (w.createEntities t n).1 ((w.createEntities t n).2.reverse ++ issued) ((w.createEntities t n).2.reverse ++ live) ∧
    (w.createEntities t n).2.length = n ∧ (w.createEntities t n).1.tables.size = w.tables.size ∧
    ((w.createEntities t n).1.tableOf t).active = true := by
  intro n
  induction n with
  | zero => intro w issued live G ht hact; exact ⟨by simpa [createEntities] using G, rfl, rfl, hact⟩
  | succ n ih =>
    intro w issued live G ht hact
    unfold createEntities
    simp only []
    have G1 := ginv_createEntity w issued live G t ht hact
    obtain ⟨free, hL⟩ := G.link
    obtain ⟨_, _, _, _, _, _, _, _, _, _, _, _, _, _, hsz, hf, _, _⟩ :=
      createEntity_spec w issued live free G.k G.s hL t ht hact _ rfl _ rfl
    obtain ⟨a, b, c, d⟩ := ih (w.createEntity t).1 _ _ G1 (by rw [hsz]; exact ht) (by rw [(hf t).2.1]; exact hact)
    refine ⟨?_, by simp [b], by rw [c, hsz], d⟩
    simpa [List.reverse_cons, List.append_assoc] using a

end Arche.GOps
