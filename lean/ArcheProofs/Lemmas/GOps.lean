/-
  The global invariant, operation by operation (successful calls of the public API of the
  model): entity creation (single and batch), removal, the exchange family, batch exchange,
  filter registration, locking, component registration, resources.
-/
import ArcheProofs.Lemmas.GInv
import ArcheProofs.Props.C08

namespace Arche.GOps
open Arche Arche.World Arche.Arr Arche.Storage Arche.IndexInv Arche.SameRows Arche.Graph Arche.Closed Arche.TInv Arche.KInv Arche.Move Arche.Remove Arche.Cov Arche.Cache Arche.SInv Arche.DInv Arche.Create Arche.Frames Arche.BatchOps Arche.GInv Arche.BatchLoop

/-- the invariant does not read locks, resources or the listener -/
theorem ginv_congr {w w' : World} {issued live : List Entity} (hn : w'.nodes = w.nodes) (ht : w'.tables = w.tables) (hi : w'.index = w.index)
    (hc : w'.cache = w.cache) (hx : w'.cacheNext = w.cacheNext) (hp : w'.pool = w.pool) (hf : w'.flags = w.flags)
    (hcfg : w'.cfg = w.cfg) (hreg : w'.reg = w.reg) (G : GInv w issued live) : GInv w' issued live := by
  have ds : DSame w w' := DSame.of_nodes hcfg hreg hn
  have hto : ∀ t, w'.tableOf t = w.tableOf t := by intro t; unfold tableOf; rw [ht]
  obtain ⟨free, hL⟩ := G.link
  refine ⟨kinv_congr hn ht hi G.k, sinv_congr hn ht hc hx G.s, ds.dinv G.d, binv_of_dsame ds G.b, ?_, free, ?_⟩
  · refine ⟨by rw [ht]; exact G.root.size, ?_⟩
    have : w'.tableMask 0 = w.tableMask 0 := by unfold tableMask nodeOfTable nodeOf; rw [hto, hn]
    rw [this]; exact G.root.mask
  · exact linv_transfer G.k hp hi hf (fun t r _ => by unfold rowAt; rw [hto]) hL

/-! ## locking -/

theorem ginv_lock (w : World) (issued live : List Entity) (G : GInv w issued live) (w' : World) (b : Nat) (h : w.lock = some (w', b)) :
    GInv w' issued live := by
  unfold World.lock at h
  split at h
  · cases h
  · simp only [Option.some.injEq, Prod.mk.injEq] at h
    rw [← h.1]; exact ginv_congr (w := w) rfl rfl rfl rfl rfl rfl rfl rfl rfl G

theorem ginv_unlock (w : World) (issued live : List Entity) (G : GInv w issued live) (w' : World) (b : Nat) (h : w.unlock b = some w') :
    GInv w' issued live := by
  unfold World.unlock at h
  split at h
  · cases h
  · simp only [Option.some.injEq] at h
    rw [← h]; exact ginv_congr (w := w) rfl rfl rfl rfl rfl rfl rfl rfl rfl G

/-! ## creation -/

/-- the destination table of a creation: the root table for no components, else the table found
    or created from the root -/
theorem ginv_creationTable (w : World) (issued live : List Entity) (G : GInv w issued live) (ids : List CompId) (target : Entity)
    (hreg : ∀ id ∈ ids, id < w.reg.count) (useRoot : Bool) (hroot : useRoot = true → ids = [])
    (w1 : World) (t : Nat)
    (h : (if useRoot then (w, Except.ok 0) else w.findOrCreateTable 0 ids [] target) = (w1, .ok t)) :
    GInv w1 issued live ∧ t < w1.tables.size ∧ (w1.tableOf t).active = true ∧ Misc w w1 ∧ SameRows w w1 ∧
    w1.tableMask t = newMask 0 ids [] := by
  cases useRoot with
  | true =>
    simp only [↓reduceIte, Prod.mk.injEq, Except.ok.injEq] at h
    obtain ⟨rfl, rfl⟩ := h
    rw [hroot rfl]
    exact ⟨G, G.root.size, (root_active w G.k G.d G.root).1, Misc.refl w, SameRows.refl w, by rw [G.root.mask]; rfl⟩
  | false =>
    simp only [Bool.false_eq_true, ↓reduceIte] at h
    obtain ⟨G1, s1, m1, _⟩ := ginv_findOrCreateTable w issued live G 0 G.root.size ids [] target trivial hreg
    obtain ⟨_, _, _, hspec⟩ := findOrCreateTable_spec w G.k.node G.k.graph 0 G.root.size ids [] target trivial
    obtain ⟨_, htg⟩ := tinv_findOrCreateTable w G.k.node G.k.graph G.k.tgt 0 G.root.size ids [] target trivial
    have h2 : (w.findOrCreateTable 0 ids [] target).2 = .ok t := by rw [h]
    have h1 : (w.findOrCreateTable 0 ids [] target).1 = w1 := by rw [h]
    obtain ⟨a, b⟩ := hspec t h2
    obtain ⟨c, _⟩ := htg t h2
    rw [h1] at G1 s1 m1 a b c
    exact ⟨G1, a, c, m1, s1, by unfold tableMask nodeOfTable; rw [b, G.root.mask]⟩

/-- `World.NewEntity(comps...)`: the invariant is kept, the new handle joins `issued` and `live` -/
theorem ginv_newEntity (w : World) (issued live : List Entity) (G : GInv w issued live) (comps : List CompId)
    (hreg : ∀ id ∈ comps, id < w.reg.count) (e : Entity) (hok : (w.newEntity comps).out = .ok e) :
    GInv (w.newEntity comps).w (e :: issued) (e :: live) := by
  unfold newEntity at hok ⊢
  by_cases hl : w.isLocked = true
  · simp [hl, World.fail] at hok
  simp only [hl, Bool.false_eq_true, ↓reduceIte] at hok ⊢
  generalize hft : (if comps.isEmpty = true then (w, Except.ok 0) else w.findOrCreateTable 0 comps [] Entity.zero) = ft at hok ⊢
  obtain ⟨w1, r⟩ := ft
  cases r with
  | error p => simp [World.fail] at hok
  | ok t =>
    simp only [] at hok ⊢
    obtain ⟨G1, htlt, hact, _, _, _⟩ := ginv_creationTable w issued live G comps Entity.zero hreg comps.isEmpty
      (by intro h; exact List.isEmpty_iff.1 h) w1 t hft
    have he : e = (w1.createEntity t).2 := by
      simp only [Except.ok.injEq] at hok; exact hok.symm
    rw [he]
    exact ginv_createEntity w1 issued live G1 t htlt hact


/-- the handle `NewEntity` returns is the one the pool hands out -/
theorem newEntity_handle (w : World) (issued live : List Entity) (G : GInv w issued live) (comps : List CompId)
    (hreg : ∀ id ∈ comps, id < w.reg.count) (e : Entity) (hok : (w.newEntity comps).out = .ok e) : e = (w.pool.get).2 := by
  unfold newEntity at hok
  by_cases hl : w.isLocked = true
  · simp [hl, World.fail] at hok
  simp only [hl, Bool.false_eq_true, ↓reduceIte] at hok
  generalize hft : (if comps.isEmpty = true then (w, Except.ok 0) else w.findOrCreateTable 0 comps [] Entity.zero) = ft at hok
  obtain ⟨w1, r⟩ := ft
  cases r with
  | error p => simp [World.fail] at hok
  | ok t =>
    simp only [] at hok
    obtain ⟨G1, _, _, m1, _, _⟩ := ginv_creationTable w issued live G comps Entity.zero hreg comps.isEmpty
      (by intro h; exact List.isEmpty_iff.1 h) w1 t hft
    obtain ⟨free, hL⟩ := G1.link
    simp only [Except.ok.injEq] at hok
    rw [← hok, (createEntity_eq w1 t hL.fsize).1, m1.pool]

/-- `createEntities`: `n` handles are taken from the pool one after the other -/
theorem ginv_createEntities (t : Nat) : ∀ (n : Nat) (w : World) (issued live : List Entity), GInv w issued live → t < w.tables.size →
    (w.tableOf t).active = true →
    GInv (w.createEntities t n).1 ((w.createEntities t n).2.reverse ++ issued) ((w.createEntities t n).2.reverse ++ live) ∧
    (w.createEntities t n).2.length = n ∧ (w.createEntities t n).1.tables.size = w.tables.size ∧
    ((w.createEntities t n).1.tableOf t).active = true := by
  intro n
  induction n with
  | zero => intro w issued live G ht hact; exact ⟨by simpa [createEntities] using G, rfl, rfl, hact⟩
  | succ n ih =>
    intro w issued live G ht hact
    unfold createEntities
    simp only []
    have G1 := ginv_createEntity w issued live G t ht hact
    obtain ⟨free, hL⟩ := G.link
    obtain ⟨_, _, _, _, _, _, _, _, _, _, _, _, _, _, hsz, hf, _, _⟩ :=
      createEntity_spec w issued live free G.k G.s hL t ht hact _ rfl _ rfl
    obtain ⟨a, b, c, d⟩ := ih (w.createEntity t).1 _ _ G1 (by rw [hsz]; exact ht) (by rw [(hf t).2.1]; exact hact)
    refine ⟨?_, by simp [b], by rw [c, hsz], d⟩
    simpa [List.reverse_cons, List.append_assoc] using a


/-! ## handles -/

/-- a handle the world issued and reports alive is live, and stored where the index says -/
theorem alive_issued (w : World) (issued live : List Entity) (G : GInv w issued live) (e : Entity) (hi : e ∈ issued)
    (ha : w.checkAlive e = none) :
    e ∈ live ∧ loc w e.id = some (w.locOf e) ∧ (rowAt w (w.locOf e).tbl (w.locOf e).row).ent = e := by
  obtain ⟨free, hL⟩ := G.link
  obtain ⟨h0, h1, _, h3⟩ := hL.pool.issued_gen e hi
  have hgen : e.gen = (PoolInv.slot w.pool e.id).gen := by
    unfold checkAlive Pool.alive? at ha
    simp only [h1, ↓reduceDIte] at ha
    unfold PoolInv.slot
    rw [Array.getD_eq_getD_getElem?, Array.getElem?_eq_getElem h1]
    by_cases hg : (e.gen == w.pool.ents[e.id].gen) = true
    · simpa using hg
    · simp [hg] at ha
  have hnf : e.id ∉ free := fun hf => by have := h3 hf; omega
  have hlive : e ∈ live := (hL.pool.live_iff e).2 ⟨h0, h1, hnf, hgen⟩
  obtain ⟨l, hl, hent⟩ := (hL.stored e).1 hlive
  have hlo : w.locOf e = l := by unfold locOf; unfold loc at hl; rw [hl]; rfl
  exact ⟨hlive, by rw [hlo]; exact hl, by rw [hlo]; exact hent⟩

/-- the zero entity is never issued -/
theorem zero_not_issued (w : World) (issued live : List Entity) (G : GInv w issued live) : Entity.zero ∉ issued := by
  obtain ⟨free, hL⟩ := G.link
  intro h
  have := (hL.pool.issued_gen _ h).1
  simp [Entity.zero] at this

/-! ## removal -/

theorem misc_cleanFold (target : Entity) (l : List Nat) (w : World) : Misc w (l.foldl (cleanStep target) w) := by
  induction l generalizing w with
  | nil => exact Misc.refl w
  | cons n ns ih =>
    simp only [List.foldl_cons]
    refine Misc.trans ?_ (ih _)
    unfold cleanStep
    split
    · split
      · exact misc_removeTable _ _
      · exact Misc.refl w
    · exact Misc.refl w

theorem dsame_cleanFold (target : Entity) (l : List Nat) (w : World) : DSame w (l.foldl (cleanStep target) w) := by
  induction l generalizing w with
  | nil => exact DSame.refl w
  | cons n ns ih =>
    simp only [List.foldl_cons]
    refine DSame.trans ?_ (ih _)
    unfold cleanStep
    split
    · split
      · exact dsame_removeTable _ _
      · exact DSame.refl w
    · exact DSame.refl w

/-- what `removeCore` leaves alone: configuration, registry, node masks, sizes -/
theorem removeCore_frames (w : World) (e : Entity) (l : Loc) : DSame w (removeCore w e l) ∧ Sz w (removeCore w e l) := by
  unfold removeCore
  simp only []
  have d1 := dsame_removeRowFix w l.tbl l.row
  have z1 := sz_removeRowFix w l.tbl l.row
  generalize w.removeRowFix l.tbl l.row = w1 at d1 z1
  have d2 : DSame w1 ({ w1 with pool := w1.pool.recycle e } : World) := DSame.of_nodes rfl rfl rfl
  have z2 : Sz w1 ({ w1 with pool := w1.pool.recycle e } : World) := ⟨rfl, rfl⟩
  generalize ({ w1 with pool := w1.pool.recycle e } : World) = w2 at d2 z2
  have d3 := DSame.of_setIndex w2 e.id none
  have z3 := Sz.of_setIndex w2 e.id none
  generalize w2.setIndex e.id none = w3 at d3 z3
  have d4 : DSame w3 (if w3.flag e.id then (w3.cleanupTables e).setFlag e.id false else w3) := by
    split
    · rw [cleanupTables_eq]; exact DSame.trans (dsame_cleanFold e _ w3) (DSame.of_setFlag _ _ _)
    · exact DSame.refl w3
  have z4 : Sz w3 (if w3.flag e.id then (w3.cleanupTables e).setFlag e.id false else w3) := by
    split
    · rw [cleanupTables_eq]; exact Sz.trans (Sz.of_misc (misc_cleanFold e _ w3)) (Sz.of_setFlag _ _ _)
    · exact Sz.refl w3
  generalize (if w3.flag e.id then (w3.cleanupTables e).setFlag e.id false else w3) = w4 at d4 z4
  exact ⟨DSame.trans (DSame.trans (DSame.trans (DSame.trans d1 d2) d3) d4) (dsame_cleanupTable w4 l.tbl),
    Sz.trans (Sz.trans (Sz.trans (Sz.trans z1 z2) z3) z4) (Sz.of_misc (misc_cleanupTable w4 l.tbl))⟩

/-- `World.RemoveEntity(e)` for a handle the world issued: never fails on an alive handle of an
    unlocked world, keeps the invariant, the handle leaves `live` -/
theorem ginv_removeEntity (w : World) (issued live : List Entity) (G : GInv w issued live) (e : Entity) (hi : e ∈ issued)
    (hl : w.isLocked = false) (ha : w.checkAlive e = none) :
    (w.removeEntity e).out = .ok () ∧ GInv (w.removeEntity e).w issued (live.erase e) := by
  obtain ⟨hlive, hloc, hent⟩ := alive_issued w issued live G e hi ha
  obtain ⟨hout, lk, hw⟩ := removeEntity_w w e hl ha
  refine ⟨hout, ?_⟩
  have G0 : GInv ({ w with locks := lk } : World) issued live := ginv_congr (w := w) rfl rfl rfl rfl rfl rfl rfl rfl rfl G
  have hS := Arche.Props.C07.remove_sinv w e G.k G.s hl ha hloc hent
  rw [hw] at hS ⊢
  generalize hw0 : ({ w with locks := lk } : World) = w0 at *
  have hloc0 : loc w0 e.id = some (w.locOf e) := by rw [← hw0]; exact hloc
  have hent0 : (rowAt w0 (w.locOf e).tbl (w.locOf e).row).ent = e := by rw [← hw0]; exact hent
  generalize w.locOf e = l at *
  obtain ⟨k', hgone, hoth, hf, hts, hns, hpool, hmeta⟩ := removeCore_spec w0 e l G0.k hloc0 hent0
  obtain ⟨ds, sz⟩ := removeCore_frames w0 e l
  have hv : validRow w0 l.tbl l.row := (G0.k.idx.fwd _ _ hloc0).1
  obtain ⟨free, hL⟩ := G0.link
  refine ⟨k', hS, ds.dinv G0.d, binv_of_dsame ds G0.b, ⟨by rw [hts]; exact G0.root.size, by rw [(hmeta 0 G0.root.size).2.1]; exact G0.root.mask⟩,
    e.id :: free, ?_⟩
  have hP' := PoolInv.recycle_inv w0.pool issued live free hL.pool e hlive
  have hrsize : (w0.pool.recycle e).ents.size = w0.pool.ents.size := by unfold Pool.recycle; simp
  refine ⟨by rw [hpool]; exact hP', by rw [sz.index, hpool, hrsize]; exact hL.isize, by rw [sz.flags, sz.index]; exact hL.fsize, ?_⟩
  intro e'
  rw [hL.pool.live_nodup.mem_erase_iff]
  constructor
  · rintro ⟨hne, hm⟩
    obtain ⟨l0, h1, h2⟩ := (hL.stored e').1 hm
    have hidne : e'.id ≠ e.id := by
      intro heq
      rw [heq, hloc0] at h1
      simp only [Option.some.injEq] at h1
      rw [← h1, hent0] at h2
      exact hne h2.symm
    obtain ⟨l', a, _, c⟩ := hoth e'.id hidne l0 h1
    exact ⟨l', a, by rw [c]; exact h2⟩
  · rintro ⟨l', h1, h2⟩
    have hidne : e'.id ≠ e.id := by intro heq; rw [heq, hgone] at h1; cases h1
    -- it was stored before
    have hbefore : ∃ l0, loc w0 e'.id = some l0 := by
      rw [(removeCore_loc w0 e l G0.k hloc0 hent0 e'.id).1, loc_dropRow w0 G0.k.idx _ _ hv] at h1
      rw [hent0] at h1
      rw [if_neg hidne] at h1
      split at h1
      · rename_i hc
        exact ⟨⟨l.tbl, (w0.tableOf l.tbl).rows.size - 1⟩, by rw [hc.2]; exact G0.k.idx.bwd _ _ ⟨hv.1, by have := hv.2; omega⟩⟩
      · exact ⟨l', h1⟩
    obtain ⟨l0, hl0⟩ := hbefore
    obtain ⟨l'', a, _, c⟩ := hoth e'.id hidne l0 hl0
    rw [a] at h1
    simp only [Option.some.injEq] at h1
    rw [← h1, c] at h2
    have hm : e' ∈ live := (hL.stored e').2 ⟨l0, hl0, h2⟩
    exact ⟨fun heq => hidne (by rw [heq]), hm⟩


/-! ## the exchange family -/

open Arche.Props.C08 in
theorem stored_iff_view (w : World) (e : Entity) :
    (∃ l, loc w e.id = some l ∧ (rowAt w l.tbl l.row).ent = e) ↔ ∃ v, view w e.id = some v ∧ v.ent = e := by
  constructor
  · rintro ⟨l, h1, h2⟩
    exact ⟨_, view_of_at w e.id l.tbl _ ⟨l, h1, rfl, rfl⟩, h2⟩
  · rintro ⟨v, h1, h2⟩
    obtain ⟨t, row, ⟨l, a, b, c⟩, hv⟩ := at_of_view w e.id v h1
    refine ⟨l, a, ?_⟩
    rw [c, ← h2, hv]; rfl

/-- the link invariant only depends on pool, sizes and the handles the views report -/
theorem linv_of_views {w w' : World} {issued live : List Entity} {free : List Nat}
    (hp : w'.pool = w.pool) (sz : Sz w w')
    (hv : ∀ e, (∃ v, Arche.Props.C08.view w' e.id = some v ∧ v.ent = e) ↔ (∃ v, Arche.Props.C08.view w e.id = some v ∧ v.ent = e))
    (h : LInv w issued live free) : LInv w' issued live free := by
  refine ⟨by rw [hp]; exact h.pool, by rw [sz.index, hp]; exact h.isize, by rw [sz.flags, sz.index]; exact h.fsize, ?_⟩
  intro e
  rw [h.stored e, stored_iff_view, stored_iff_view, hv e]

theorem exchange_frames (w : World) (e : Entity) (add rem : List CompId) (rel : Option CompId) (target : Entity) (x : Exchanged)
    (hI : NodeInv w) (hs : (w.locOf e).tbl < w.tables.size) (hadd : ∀ id ∈ add, id < w.reg.count) (b : BInv w)
    (hok : (w.exchangeNoNotify e add rem rel target).out = .ok (some x)) :
    BInv (w.exchangeNoNotify e add rem rel target).w ∧ Sz w (w.exchangeNoNotify e add rem rel target).w := by
  obtain ⟨tgt, mask, _, _, _, _, hw⟩ := Arche.Props.C01.exchange_world w e add rem rel target x hok
  rw [hw]
  have b1 := binv_findOrCreateTable w b hI (w.locOf e).tbl hs add rem tgt hadd
  have m1 := misc_findOrCreateTable w (w.locOf e).tbl add rem tgt
  generalize (w.findOrCreateTable (w.locOf e).tbl add rem tgt).1 = w1 at b1 m1
  have ds := DSame.trans (DSame.trans (dsame_moveEntity w1 e (w.locOf e) x.tbl) (DSame.of_markTarget _ tgt)) (dsame_cleanupTable _ (w.locOf e).tbl)
  have sz := Sz.trans (Sz.trans (sz_moveEntity w1 e (w.locOf e) x.tbl) (Sz.of_markTarget _ tgt)) (Sz.of_misc (misc_cleanupTable _ (w.locOf e).tbl))
  exact ⟨binv_of_dsame ds b1, Sz.trans (Sz.of_misc m1) sz⟩

/-- `World.Add` / `Remove` / `Exchange` / `Relations.Exchange` (`exchangeNoNotify` with something
    to do) on a handle the world issued: the invariant is kept, the same handles stay live -/
theorem ginv_exchange (w : World) (issued live : List Entity) (G : GInv w issued live) (e : Entity) (hi : e ∈ issued)
    (add rem : List CompId) (rel : Option CompId) (target : Entity) (hadd : ∀ id ∈ add, id < w.reg.count) (x : Exchanged)
    (hok : (w.exchangeNoNotify e add rem rel target).out = .ok (some x)) :
    GInv (w.exchangeNoNotify e add rem rel target).w issued live := by
  have ha : w.checkAlive e = none := by
    unfold exchangeNoNotify at hok
    by_cases hl : w.isLocked = true
    · simp [hl, World.fail] at hok
    simp only [hl, Bool.false_eq_true, ↓reduceIte] at hok
    cases hc : w.checkAlive e with
    | none => rfl
    | some p => simp [hc, World.fail] at hok
  obtain ⟨_, hloc, hent⟩ := alive_issued w issued live G e hi ha
  have hv : Arche.Props.C08.view w e.id = some (Arche.Props.C08.mkView w (w.locOf e).tbl (rowAt w (w.locOf e).tbl (w.locOf e).row)) :=
    Arche.Props.C08.view_of_at w e.id _ _ ⟨w.locOf e, hloc, rfl, rfl⟩
  obtain ⟨k1, s1, d1, _, _, p1, ⟨v', hv', hxf⟩, hoth⟩ :=
    Arche.Props.C08.single_views w G.k G.s G.d e add rem rel target x _ hv hent hok
  have hvr := (G.k.idx.fwd _ _ hloc).1
  obtain ⟨b1, sz1⟩ := exchange_frames w e add rem rel target x G.k.node hvr.1 hadd G.b hok
  obtain ⟨_, _, hat, _, hold⟩ := Arche.Props.C01.exchange_spec w e add rem rel target x (Arche.Props.C05.KInv.winv G.k) hloc hent hok
  obtain ⟨free, hL⟩ := G.link
  refine ⟨k1, s1, d1, b1, ⟨?_, by rw [(hold 0 G.root.size).2]; exact G.root.mask⟩, free, ?_⟩
  · obtain ⟨l', h1, h2, _⟩ := hat
    have := (k1.idx.fwd _ _ h1).1.1
    omega
  · apply linv_of_views p1 sz1 _ hL
    intro e'
    by_cases hid : e'.id = e.id
    · rw [hid, hv, hv']
      constructor
      · rintro ⟨v, a, b⟩
        simp only [Option.some.injEq] at a
        refine ⟨_, rfl, ?_⟩
        rw [← b, ← a, hxf.1]
      · rintro ⟨v, a, b⟩
        simp only [Option.some.injEq] at a
        refine ⟨_, rfl, ?_⟩
        rw [← b, ← a, hxf.1]
    · rw [hoth e'.id hid]


/-! ## batch exchange -/

open Arche.Props.C08 in
/-- `Batch.Add` / `Remove` / `Exchange` / `Relations.ExchangeBatch` (and, before their lock is
    taken, the Q variants): the invariant is kept, the same handles stay live -/
theorem ginv_exchangeBatch (w : World) (issued live : List Entity) (G : GInv w issued live)
    (f : Filter) (add rem : List CompId) (rel : Option CompId) (target : Entity) (hadd : ∀ id ∈ add, id < w.reg.count)
    (n : Nat) (bs : Array BatchEntry) (hne : ¬ (add = [] ∧ rem = []))
    (hok : (w.exchangeBatchNoNotify f add rem rel target).out = .ok (n, bs))
    (hlegal : ∀ t, Cache.Sel w (plain w f) t → (w.tableOf t).rows.size ≠ 0 → Legal (w.tableMask t) add rem) :
    GInv (w.exchangeBatchNoNotify f add rem rel target).w issued live := by
  obtain ⟨ts, hg, hnodup, hmem, _, hP⟩ := exchangeBatch_spec w G.k G.s f add rem rel target n bs hne hok hlegal
  have hL : LensOK w add rem (lensOf w ts) := by
    refine ⟨?_, ?_⟩
    · unfold lensOf; rw [List.map_map]
      have : ((fun x : Nat × Nat => x.1) ∘ fun t => (t, (w.tableOf t).rows.size)) = id := by funext t; rfl
      rw [this, List.map_id]; exact hnodup
    · intro p hp hnz
      unfold lensOf at hp
      rw [List.mem_map] at hp
      obtain ⟨t, ht, rfl⟩ := hp
      have hsl := (hmem t).1 ht
      exact ⟨hsl.1, rfl, hlegal t hsl hnz⟩
  obtain ⟨hbsel, hboth⟩ := loop_views w _ add rem rel target (lensOf w ts) bs.toList G.k G.d hL hP
  obtain ⟨free, hLk⟩ := G.link
  refine ⟨hP.kinv, hP.sinv, (hP.dinv G.d).1, hP.binv hadd G.b,
    ⟨Nat.lt_of_lt_of_le G.root.size hP.tsize, by rw [(hP.old 0 G.root.size).2.1]; exact G.root.mask⟩, free, ?_⟩
  apply linv_of_views hP.pool hP.sz _ hLk
  intro e'
  by_cases hsl : BatchLoop.Sel w (lensOf w ts) e'.id
  · obtain ⟨v, v', a1, a2, a3⟩ := hbsel e'.id hsl
    rw [a1, a2]
    constructor
    · rintro ⟨u, a, b⟩
      simp only [Option.some.injEq] at a
      exact ⟨_, rfl, by rw [← b, ← a, a3.1]⟩
    · rintro ⟨u, a, b⟩
      simp only [Option.some.injEq] at a
      exact ⟨_, rfl, by rw [← b, ← a, a3.1]⟩
  · rw [hboth e'.id hsl]

/-! ## filter registration -/

theorem ginv_cacheRegister (w : World) (issued live : List Entity) (G : GInv w issued live) (f : Filter) (hf : ∀ g id, f ≠ .cached g id) :
    GInv (w.cacheRegister f).w issued live := by
  obtain ⟨_, _, s, k⟩ := Arche.Props.C07.register_spec w G.k G.s f hf
  have hreg : (w.cacheRegister f).w = { w with cache := w.cache.push ⟨w.cacheNext, f, (w.matchingTables f).toArray, none⟩, cacheNext := w.cacheNext + 1 } := by
    unfold cacheRegister
    cases f <;> first | rfl | exact absurd rfl (hf _ _)
  have hds : DSame w (w.cacheRegister f).w := by rw [hreg]; exact DSame.of_nodes rfl rfl rfl
  obtain ⟨free, hL⟩ := G.link
  refine ⟨k, s, hds.dinv G.d, binv_of_dsame hds G.b, ?_, free, ?_⟩
  · rw [hreg]; exact ⟨G.root.size, G.root.mask⟩
  · rw [hreg]; exact linv_transfer (w := w) G.k rfl rfl rfl (fun _ _ _ => rfl) hL

theorem ginv_cacheUnregister (w : World) (issued live : List Entity) (G : GInv w issued live) (id : Nat) (e : CacheEntry)
    (h : w.cacheFind id = some e) : GInv (w.cacheUnregister id).w issued live := by
  obtain ⟨_, _, s, k⟩ := Arche.Props.C07.unregister_spec w G.k G.s id e h
  have hw : ∃ c, (w.cacheUnregister id).w = { w with cache := c } := by
    unfold cacheUnregister
    split
    · exact ⟨w.cache, rfl⟩
    · exact ⟨_, rfl⟩
  obtain ⟨c, hc⟩ := hw
  have hds : DSame w (w.cacheUnregister id).w := by rw [hc]; exact DSame.of_nodes rfl rfl rfl
  obtain ⟨free, hL⟩ := G.link
  refine ⟨k, s, hds.dinv G.d, binv_of_dsame hds G.b, ?_, free, ?_⟩
  · rw [hc]; exact ⟨G.root.size, G.root.mask⟩
  · rw [hc]; exact linv_transfer (w := w) G.k rfl rfl rfl (fun _ _ _ => rfl) hL

/-! ## component registration, resources, listener -/

/-- registering a component type (also a relation type) keeps the invariant: no existing node
    mask holds the new id -/
theorem ginv_registerComponent (w : World) (issued live : List Entity) (G : GInv w issued live) (isRel zs : Bool) (id : Nat)
    (hok : (w.registerComponent isRel zs).out = .ok id) :
    GInv (w.registerComponent isRel zs).w issued live ∧ id = w.reg.count ∧ (w.registerComponent isRel zs).w.reg.count = w.reg.count + 1 := by
  unfold registerComponent at hok ⊢
  split at hok
  · simp [World.fail] at hok
  rename_i h1
  split at hok
  · simp [World.fail] at hok
  rename_i h2
  simp only [h1, h2, ↓reduceIte, Bool.false_eq_true] at hok ⊢
  simp only [Except.ok.injEq] at hok
  refine ⟨?_, hok.symm, trivial⟩
  generalize hrg : ({ count := w.reg.count + 1, isRel := Mask.set w.reg.isRel w.reg.count isRel, zeroSized := Mask.set w.reg.zeroSized w.reg.count zs } : Registry) = rg
  have hrg1 : rg.count = w.reg.count + 1 := by rw [← hrg]
  have hrg2 : rg.isRel = Mask.set w.reg.isRel w.reg.count isRel := by rw [← hrg]
  generalize hw' : ({ w with reg := rg } : World) = w'
  have hn : w'.nodes = w.nodes := by rw [← hw']
  have hnode : ∀ n, w'.nodeOf n = w.nodeOf n := by intro n; unfold nodeOf; rw [hn]
  obtain ⟨free, hL⟩ := G.link
  refine ⟨by rw [← hw']; exact kinv_congr (w := w) rfl rfl rfl G.k, by rw [← hw']; exact sinv_congr (w := w) rfl rfl rfl rfl G.s, ?_, ?_, ?_, free, ?_⟩
  · refine ⟨fun n hn' => ?_, fun n hn' c => ?_⟩
    · rw [hnode]; have : w'.cfg = w.cfg := by rw [← hw']
      rw [this]; exact G.d.ids n (by rw [← hn]; exact hn')
    · rw [hnode]
      have hlt : n < w.nodes.size := by rw [← hn]; exact hn'
      have hr : w'.reg.isRel = Mask.set w.reg.isRel w.reg.count isRel := by rw [← hw']; exact hrg2
      rw [hr, NatMask.get_set]
      by_cases hc : c = w.reg.count
      · subst hc
        simp only [↓reduceIte]
        have hnot : Mask.get (w.nodeOf n).mask w.reg.count = false := by
          cases hg : Mask.get (w.nodeOf n).mask w.reg.count
          · rfl
          · exact absurd (G.b n hlt _ hg) (Nat.lt_irrefl _)
        constructor
        · intro hrel
          have := ((G.d.rel n hlt w.reg.count).1 hrel).1
          rw [hnot] at this; cases this
        · rintro ⟨a, _⟩; rw [hnot] at a; cases a
      · simp only [hc, ↓reduceIte]; exact G.d.rel n hlt c
  · intro n hn' c hc
    rw [hnode] at hc
    have : w'.reg.count = w.reg.count + 1 := by rw [← hw']; exact hrg1
    rw [this]
    exact Nat.lt_succ_of_lt (G.b n (by rw [← hn]; exact hn') c hc)
  · rw [← hw']; exact ⟨G.root.size, G.root.mask⟩
  · rw [← hw']; exact linv_transfer (w := w) G.k rfl rfl rfl (fun _ _ _ => rfl) hL


/-! ## reset -/

open Arche.Props.C15 Arche.Reset in
/-- `World.Reset`: the invariant holds again, with no handle issued and none live -/
theorem ginv_reset (w : World) (issued live : List Entity) (G : GInv w issued live) (hl : w.isLocked = false) :
    (w.reset).out = .ok () ∧ GInv (w.reset).w [] [] := by
  obtain ⟨free, hL⟩ := G.link
  have hz : loc w 0 = none := by
    cases h0 : loc w 0 with
    | none => rfl
    | some l =>
      exfalso
      obtain ⟨_, hid⟩ := G.k.idx.fwd 0 l h0
      have hm : (rowAt w l.tbl l.row).ent ∈ live := (hL.stored _).2 ⟨l, by rw [hid]; exact h0, rfl⟩
      have := ((hL.pool.live_iff _).1 hm).1
      omega
  obtain ⟨hout, s, k, hts, _, _, _, hnoloc, hpool, _, _, _, hreg, hcfg, _⟩ := reset_spec w G.k G.s hl hz
  refine ⟨hout, ?_⟩
  have hS0 : SInv (resetHead w) := sinv_congr (w := w) rfl rfl rfl rfl G.s
  obtain ⟨c, _⟩ := resetAll (resetHead w) hS0
  have hw : (w.reset).w = (List.range (resetHead w).nodes.size).foldl resetNode (resetHead w) := by rw [reset_eq w hl]
  rw [← hw] at c
  have ds : DSame w (w.reset).w := by
    have d0 : DSame w (resetHead w) := DSame.of_nodes rfl rfl rfl
    obtain ⟨_, _, _, _, _, r6, r7, _⟩ := c.rest
    exact DSame.trans d0 ⟨r7, r6, c.nsize, fun n => ⟨(c.graph n).2.2, (c.graph n).2.1, (c.nodes n).2.1⟩⟩
  have hmask : (w.reset).w.tableMask 0 = w.tableMask 0 := by
    unfold tableMask nodeOfTable
    rw [(c.tnode 0).1, (c.graph _).2.1]; rfl
  obtain ⟨r1, r2, r3, _⟩ := c.rest
  have hisz : 1 ≤ w.index.size := by rw [hL.isize]; exact hL.pool.size_pos
  refine ⟨k, s, ds.dinv G.d, binv_of_dsame ds G.b, ⟨by rw [hts]; exact G.root.size, by rw [hmask]; exact G.root.mask⟩, [], ?_⟩
  refine ⟨by rw [hpool]; exact PoolInv.reset_inv w.pool issued live free hL.pool, ?_, ?_, ?_⟩
  · rw [r1, hpool]; unfold resetHead Pool.reset; simp only [Array.size_extract]
    have := hL.isize; omega
  · rw [r3, r1]; unfold resetHead; simp only [Array.size_extract]
    have := hL.fsize; omega
  · intro e
    constructor
    · intro h; cases h
    · rintro ⟨l, h1, _⟩; rw [hnoloc] at h1; cases h1

end Arche.GOps
