/-
  The global invariant `GInv w issued live`: all structural invariants together, with the ghost
  history of the entity pool (`issued` = handles issued since the last reset, `live` = those not
  removed since). Building blocks: it is kept by `findOrCreateTable` whatever the outcome
  (`ginv_findOrCreateTable`) and by `createEntity` (`ginv_createEntity`).
-/
import ArcheProofs.Lemmas.Frames

namespace Arche.GInv
open Arche Arche.World Arche.Arr Arche.Storage Arche.IndexInv Arche.SameRows Arche.Graph Arche.Closed Arche.TInv Arche.KInv Arche.Move Arche.Remove Arche.Cov Arche.Cache Arche.SInv Arche.DInv Arche.Create Arche.Frames Arche.BatchOps

structure GInv (w : World) (issued live : List Entity) : Prop where
  k : KInv w
  s : SInv w
  d : DInv w
  b : BInv w
  root : RootInv w
  link : ∃ free, LInv w issued live free

/-- `LInv` only reads the pool, the index, the flags size and the entities of the stored rows -/
theorem linv_transfer' {w w' : World} {issued live : List Entity} {free : List Nat} (hK : KInv w)
    (hp : w'.pool = w.pool) (hi : w'.index = w.index) (hf : w'.flags.size = w.flags.size)
    (hrow : ∀ t r, validRow w t r → (rowAt w' t r).ent = (rowAt w t r).ent) (h : LInv w issued live free) : LInv w' issued live free := by
  have hloc : ∀ id, loc w' id = loc w id := by intro id; unfold loc; rw [hi]
  refine ⟨by rw [hp]; exact h.pool, by rw [hi, hp]; exact h.isize, by rw [hf, hi]; exact h.fsize, ?_⟩
  intro e
  rw [h.stored e]
  constructor
  · rintro ⟨l, h1, h2⟩
    exact ⟨l, by rw [hloc]; exact h1, by rw [hrow _ _ (hK.idx.fwd _ _ h1).1]; exact h2⟩
  · rintro ⟨l, h1, h2⟩
    rw [hloc] at h1
    exact ⟨l, h1, by rw [← hrow _ _ (hK.idx.fwd _ _ h1).1]; exact h2⟩

theorem linv_transfer {w w' : World} {issued live : List Entity} {free : List Nat} (hK : KInv w)
    (hp : w'.pool = w.pool) (hi : w'.index = w.index) (hf : w'.flags = w.flags)
    (hrow : ∀ t r, validRow w t r → rowAt w' t r = rowAt w t r) (h : LInv w issued live free) : LInv w' issued live free :=
  linv_transfer' hK hp hi (by rw [hf]) (fun t r hv => by rw [hrow t r hv]) h

/-- **the graph walk and the table lookup / creation keep everything**, whether the call
    succeeds or panics half-way -/
theorem ginv_findOrCreateTable (w : World) (issued live : List Entity) (G : GInv w issued live) (start : Nat) (hs : start < w.tables.size)
    (add rem : List CompId) (target : Entity) (hrem : RemOK (w.tableMask start) rem) (hadd : ∀ id ∈ add, id < w.reg.count) :
    GInv (w.findOrCreateTable start add rem target).1 issued live ∧ SameRows w (w.findOrCreateTable start add rem target).1 ∧
    Misc w (w.findOrCreateTable start add rem target).1 ∧
    (∀ t, t < w.tables.size → (w.tableOf t).active = true → (w.findOrCreateTable start add rem target).1.tableOf t = w.tableOf t) := by
  obtain ⟨s1, n1, g1, _⟩ := findOrCreateTable_spec w G.k.node G.k.graph start hs add rem target hrem
  obtain ⟨t1, _⟩ := tinv_findOrCreateTable w G.k.node G.k.graph G.k.tgt start hs add rem target hrem
  have hS1 := Arche.Props.C07.findOrCreateTable_sinv w G.s G.k.graph start hs add rem target hrem
  obtain ⟨d1, _, _⟩ := dinv_findOrCreateTable w G.d G.k.node start hs add rem target hrem
  have b1 := binv_findOrCreateTable w G.b G.k.node start hs add rem target hadd
  have m1 := misc_findOrCreateTable w start add rem target
  have hframe1 : ∀ t, t < w.tables.size → (w.tableOf t).active = true →
      (w.findOrCreateTable start add rem target).1.tableOf t = w.tableOf t := by
    intro t ht hact
    obtain ⟨w2, n2, s2, i2, g2, hn2, hcl, hres⟩ := findOrCreateTable_parts w G.k.node G.k.graph start hs add rem target hrem
    have hgo : GraphOnly w w2 := hcl _ graphOnly_closed
    have t2 : TInv w2 := tinv_graphOnly hgo G.k.node.tnode G.k.tgt
    have hto : w2.tableOf t = w.tableOf t := by unfold tableOf; rw [hgo.tables]
    have ht2 : t < w2.tables.size := by rw [hgo.tables]; exact ht
    rcases hres with ⟨p, hp⟩ | ⟨_, ⟨t', _, hp⟩ | ⟨_, hp⟩⟩
    · rw [hp, hto]
    · rw [hp, hto]
    · rw [hp]; simp only []
      rw [createTable_frame w2 t2 i2 n2 hn2 target true t ht2 (by rw [hto]; exact hact), hto]
  have i1 : IdxInv (w.findOrCreateTable start add rem target).1 := SameRows.idxInv s1 G.k.node.tnode G.k.idx
  obtain ⟨free, hL⟩ := G.link
  refine ⟨⟨⟨n1, g1, i1, t1⟩, hS1, d1, b1, ?_, free, ?_⟩, s1, m1, hframe1⟩
  · exact ⟨Nat.lt_of_lt_of_le G.root.size s1.tsize, by rw [SameRows.tableMask_eq s1 G.k.node.tnode 0 G.root.size]; exact G.root.mask⟩
  · exact linv_transfer G.k m1.pool m1.index m1.flags (fun t r hv => SameRows.rowAt_eq s1 t r hv.1) hL

/-- **createEntity** keeps the global invariant, the new handle joining `issued` and `live` -/
theorem ginv_createEntity (w : World) (issued live : List Entity) (G : GInv w issued live) (t : Nat) (ht : t < w.tables.size)
    (hact : (w.tableOf t).active = true) :
    GInv (w.createEntity t).1 ((w.createEntity t).2 :: issued) ((w.createEntity t).2 :: live) := by
  obtain ⟨free, hL⟩ := G.link
  obtain ⟨free', k, s, l, ds, _, _, _, _, _, _, _, _, hn, hsz, hf, _, _⟩ :=
    createEntity_spec w issued live free G.k G.s hL t ht hact _ rfl _ rfl
  refine ⟨k, s, ds.dinv G.d, binv_of_dsame ds G.b, ?_, free', l⟩
  have hmask : (w.createEntity t).1.tableMask 0 = w.tableMask 0 := by
    unfold tableMask nodeOfTable nodeOf; rw [(hf 0).2.2, hn]
  exact ⟨by rw [hsz]; exact G.root.size, by rw [hmask]; exact G.root.mask⟩

end Arche.GInv
