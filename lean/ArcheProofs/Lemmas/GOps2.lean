/-
  The global invariant for the remaining creation paths and value-carrying operations:
  `NewEntityWith`, `Builder.New` with a relation target, batch creation (`NewBatch`,
  `NewBatchQ` before its lock), `Assign` / `Builder.Add` with values, `Set`.
-/
import ArcheProofs.Lemmas.GVals

namespace Arche.GOps2
open Arche Arche.World Arche.Arr Arche.Storage Arche.IndexInv Arche.SameRows Arche.Graph Arche.Closed Arche.TInv Arche.KInv Arche.Move Arche.Remove Arche.Cov Arche.Cache Arche.SInv Arche.DInv Arche.Create Arche.Frames Arche.BatchOps Arche.GInv Arche.GOps Arche.GVals

/-- `World.NewEntityWith(comps...)` -/
theorem ginv_newEntityWith (w : World) (issued live : List Entity) (G : GInv w issued live) (comps : List (CompId × Val))
    (hreg : ∀ id ∈ comps.map (·.1), id < w.reg.count) (e : Entity) (hok : (w.newEntityWith comps).out = .ok e) :
    GInv (w.newEntityWith comps).w (e :: issued) (e :: live) := by
  unfold newEntityWith at hok ⊢
  by_cases hl : w.isLocked = true
  · simp [hl, World.fail] at hok
  simp only [hl, Bool.false_eq_true, ↓reduceIte] at hok ⊢
  by_cases hemp : comps.isEmpty = true
  · simp only [hemp, ↓reduceIte] at hok ⊢
    exact ginv_newEntity w issued live G [] (by intro id h; cases h) e hok
  simp only [hemp, Bool.false_eq_true, ↓reduceIte] at hok ⊢
  generalize hft : w.findOrCreateTable 0 (comps.map (·.1)) [] Entity.zero = ft at hok ⊢
  obtain ⟨w1, r⟩ := ft
  cases r with
  | error p => simp [World.fail] at hok
  | ok t =>
    simp only [] at hok ⊢
    obtain ⟨G1, htlt, hact, _, _, _⟩ := ginv_creationTable w issued live G (comps.map (·.1)) Entity.zero hreg false
      (by intro h; cases h) w1 t (by simpa using hft)
    have G2 := ginv_createEntity w1 issued live G1 t htlt hact
    have G3 := ginv_copyAll (w1.createEntity t).2 comps (w1.createEntity t).1 _ _ G2
    generalize hca : (w1.createEntity t).1.copyAll (w1.createEntity t).2 comps = ca at hok G3 ⊢
    obtain ⟨w3, o⟩ := ca
    cases o with
    | some p => simp [World.fail] at hok
    | none =>
      simp only [Except.ok.injEq] at hok ⊢
      rw [← hok]; exact G3

/-- `Builder.New(target)` / `newEntityTarget(With)` -/
theorem ginv_newEntityTarget (w : World) (issued live : List Entity) (G : GInv w issued live) (targetID : CompId) (target : Entity)
    (comps : List (CompId × Val)) (withVals : Bool)
    (hreg : ∀ id ∈ comps.map (·.1), id < w.reg.count) (e : Entity) (hok : (w.newEntityTarget targetID target comps withVals).out = .ok e) :
    GInv (w.newEntityTarget targetID target comps withVals).w (e :: issued) (e :: live) := by
  unfold newEntityTarget at hok ⊢
  by_cases hl : w.isLocked = true
  · simp [hl, World.fail] at hok
  simp only [hl, Bool.false_eq_true, ↓reduceIte] at hok ⊢
  cases hct : w.checkTarget target with
  | some p => simp [hct, World.fail] at hok
  | none =>
  simp only [hct] at hok ⊢
  generalize hft : (if ((comps.map (·.1)).isEmpty && !withVals) = true then (w, Except.ok 0) else w.findOrCreateTable 0 (comps.map (·.1)) [] target) = ft at hok ⊢
  obtain ⟨w1, r⟩ := ft
  cases r with
  | error p => simp [World.fail] at hok
  | ok t =>
    simp only [] at hok ⊢
    cases hcr : w1.checkRelation t targetID with
    | some p => simp [hcr, World.fail] at hok
    | none =>
    simp only [hcr] at hok ⊢
    obtain ⟨G1, htlt, hact, _, _, _⟩ := ginv_creationTable w issued live G (comps.map (·.1)) target hreg ((comps.map (·.1)).isEmpty && !withVals)
      (by intro h; simp only [Bool.and_eq_true] at h; exact List.isEmpty_iff.1 h.1) w1 t hft
    have G2 := ginv_createEntity w1 issued live G1 t htlt hact
    have G3 := ginv_markTarget _ _ _ G2 target
    generalize hw3 : (w1.createEntity t).1.markTarget target = w3 at hok G3 ⊢
    have G4 : GInv (if withVals = true then w3.copyAll (w1.createEntity t).2 comps else (w3, none)).1 ((w1.createEntity t).2 :: issued) ((w1.createEntity t).2 :: live) := by
      split
      · exact ginv_copyAll _ comps w3 _ _ G3
      · exact G3
    generalize hca : (if withVals = true then w3.copyAll (w1.createEntity t).2 comps else (w3, none)) = ca at hok G4 ⊢
    obtain ⟨w4, o⟩ := ca
    cases o with
    | some p => simp [World.fail] at hok
    | none =>
      simp only [Except.ok.injEq] at hok ⊢
      rw [← hok]; exact G4

theorem ginv_copyAllTo (comps : List (CompId × Val)) : ∀ (es : List Entity) (w : World) (issued live : List Entity), GInv w issued live →
    GInv (w.copyAllTo comps es).1 issued live := by
  intro es
  induction es with
  | nil => intro w issued live G; exact G
  | cons e es ih =>
    intro w issued live G
    unfold copyAllTo
    have G1 := ginv_copyAll e comps w issued live G
    generalize w.copyAll e comps = r at G1
    obtain ⟨w1, o⟩ := r
    cases o with
    | some p => exact G1
    | none => exact ih w1 issued live G1

/-- the tail of batch creation: flag the target, take `n` handles, write the values -/
theorem newEntities_tail (w1 : World) (issued live : List Entity) (G1 : GInv w1 issued live) (t : Nat) (htlt : t < w1.tables.size)
    (hact : (w1.tableOf t).active = true) (flag : Bool) (target : Entity) (n : Nat) (comps : List (CompId × Val)) (withVals : Bool) :
    GInv (if withVals = true then ((if flag = true then w1.markTarget target else w1).createEntities t n).1.copyAllTo comps
            ((if flag = true then w1.markTarget target else w1).createEntities t n).2
          else (((if flag = true then w1.markTarget target else w1).createEntities t n).1, none)).1
      (((if flag = true then w1.markTarget target else w1).createEntities t n).2.reverse ++ issued)
      (((if flag = true then w1.markTarget target else w1).createEntities t n).2.reverse ++ live) ∧
    ((if flag = true then w1.markTarget target else w1).createEntities t n).2.length = n := by
  have G2 : GInv (if flag = true then w1.markTarget target else w1) issued live := by
    split
    · exact ginv_markTarget _ _ _ G1 target
    · exact G1
  have hsz2 : (if flag = true then w1.markTarget target else w1).tables.size = w1.tables.size ∧
      ((if flag = true then w1.markTarget target else w1).tableOf t).active = (w1.tableOf t).active := by
    split
    · unfold markTarget setFlag; split <;> exact ⟨rfl, rfl⟩
    · exact ⟨rfl, rfl⟩
  generalize (if flag = true then w1.markTarget target else w1) = w2 at G2 hsz2 ⊢
  obtain ⟨G3, hlen, _, _⟩ := ginv_createEntities t n w2 issued live G2 (by rw [hsz2.1]; exact htlt) (by rw [hsz2.2]; exact hact)
  generalize w2.createEntities t n = ce at G3 hlen ⊢
  obtain ⟨w3, es⟩ := ce
  simp only [] at G3 hlen ⊢
  refine ⟨?_, hlen⟩
  split
  · exact ginv_copyAllTo comps es w3 _ _ G3
  · exact G3

/-- batch creation (`Builder.NewBatch`; `NewBatchQ` takes a lock afterwards): `count` handles are
    taken from the pool one after the other, exactly as `count` single creations would -/
theorem ginv_newEntities (w : World) (issued live : List Entity) (G : GInv w issued live) (count : Int) (rel : Option CompId) (target : Entity)
    (comps : List (CompId × Val)) (withVals : Bool) (hreg : ∀ id ∈ comps.map (·.1), id < w.reg.count) (c : Created)
    (hok : (w.newEntitiesNoNotify count rel target comps withVals).out = .ok c) :
    GInv (w.newEntitiesNoNotify count rel target comps withVals).w (c.ents.reverse ++ issued) (c.ents.reverse ++ live) ∧
    c.ents.length = count.toNat := by
  unfold newEntitiesNoNotify at hok ⊢
  by_cases hl : w.isLocked = true
  · simp [hl, World.fail] at hok
  simp only [hl, Bool.false_eq_true, ↓reduceIte] at hok ⊢
  by_cases hc : count < 1
  · simp [hc, World.fail] at hok
  simp only [hc, ↓reduceIte] at hok ⊢
  cases hct : w.checkTarget target with
  | some p => simp [hct, World.fail] at hok
  | none =>
  simp only [hct] at hok ⊢
  generalize hft : (if (comps.map (·.1)).isEmpty = true then (w, Except.ok 0) else w.findOrCreateTable 0 (comps.map (·.1)) [] target) = ft at hok ⊢
  obtain ⟨w1, r⟩ := ft
  cases r with
  | error p => simp [World.fail] at hok
  | ok t =>
    simp only [] at hok ⊢
    obtain ⟨G1, htlt, hact, _, _, _⟩ := ginv_creationTable w issued live G (comps.map (·.1)) target hreg (comps.map (·.1)).isEmpty
      (by intro h; exact List.isEmpty_iff.1 h) w1 t hft
    cases rel with
    | none =>
      simp only [] at hok ⊢
      obtain ⟨G4, hlen⟩ := newEntities_tail w1 issued live G1 t htlt hact false target count.toNat comps withVals
      simp only [Bool.false_eq_true, ↓reduceIte, Option.isSome_none] at G4 hlen hok ⊢
      generalize (if withVals = true then (w1.createEntities t count.toNat).1.copyAllTo comps (w1.createEntities t count.toNat).2
          else ((w1.createEntities t count.toNat).1, none)) = ca at hok G4 ⊢
      obtain ⟨w4, o⟩ := ca
      cases o with
      | some p => simp [World.fail] at hok
      | none =>
        simp only [Except.ok.injEq] at hok ⊢
        rw [← hok]; exact ⟨G4, hlen⟩
    | some r =>
      simp only [] at hok ⊢
      cases hcr : w1.checkRelation t r with
      | some p => simp [hcr, World.fail] at hok
      | none =>
      simp only [hcr] at hok ⊢
      obtain ⟨G4, hlen⟩ := newEntities_tail w1 issued live G1 t htlt hact true target count.toNat comps withVals
      simp only [↓reduceIte, Option.isSome_some] at G4 hlen hok ⊢
      generalize (if withVals = true then ((w1.markTarget target).createEntities t count.toNat).1.copyAllTo comps ((w1.markTarget target).createEntities t count.toNat).2
          else (((w1.markTarget target).createEntities t count.toNat).1, none)) = ca at hok G4 ⊢
      obtain ⟨w4, o⟩ := ca
      cases o with
      | some p => simp [World.fail] at hok
      | none =>
        simp only [Except.ok.injEq] at hok ⊢
        rw [← hok]; exact ⟨G4, hlen⟩

/-- `World.Assign` / `Builder.Add` with values -/
theorem ginv_assign (w : World) (issued live : List Entity) (G : GInv w issued live) (e : Entity) (hi : e ∈ issued)
    (rel : Option CompId) (target : Entity) (comps : List (CompId × Val)) (hreg : ∀ id ∈ comps.map (·.1), id < w.reg.count)
    (hok : (w.assign e rel target comps).out = .ok ()) : GInv (w.assign e rel target comps).w issued live := by
  unfold assign at hok ⊢
  by_cases hemp : comps.isEmpty = true
  · simp [hemp, World.fail] at hok
  simp only [hemp, Bool.false_eq_true, ↓reduceIte] at hok ⊢
  cases hx : (w.exchangeNoNotify e (comps.map (·.1)) [] rel target).out with
  | error p => simp [hx, World.fail] at hok
  | ok ox =>
    simp only [hx] at hok ⊢
    have G1 : GInv (w.exchangeNoNotify e (comps.map (·.1)) [] rel target).w issued live := by
      cases ox with
      | some x => exact ginv_exchange w issued live G e hi _ [] rel target hreg x hx
      | none =>
        -- the no-op return leaves the world unchanged
        have : (w.exchangeNoNotify e (comps.map (·.1)) [] rel target).w = w := by
          unfold exchangeNoNotify at hx ⊢
          by_cases hl : w.isLocked = true
          · simp [hl, World.fail] at hx
          simp only [hl, Bool.false_eq_true, ↓reduceIte] at hx ⊢
          cases hc : w.checkAlive e with
          | some p => simp [hc, World.fail] at hx
          | none =>
            simp only [hc] at hx ⊢
            split
            · split <;> rfl
            · rename_i hne
              simp only [hne, Bool.false_eq_true, ↓reduceIte] at hx
              split at hx
              · simp [World.fail] at hx
              · split at hx
                · simp [World.fail] at hx
                · split at hx <;> simp [World.fail] at hx
        rw [this]; exact G
    have G2 := ginv_copyAll e comps _ _ _ G1
    generalize (w.exchangeNoNotify e (comps.map (·.1)) [] rel target).w.copyAll e comps = ca at hok G2 ⊢
    obtain ⟨w2, o⟩ := ca
    cases o with
    | some p => simp [World.fail] at hok
    | none =>
      simp only [] at G2 ⊢
      cases ox <;> exact G2

end Arche.GOps2
