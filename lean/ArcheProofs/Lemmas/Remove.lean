/-
  Entity removal: `cleanupTables` (retire every empty table of a dead target), the core of
  `World.RemoveEntity` after its checks and its removal event, and the invariant / frame
  facts about them.
-/
import ArcheProofs.Lemmas.KInv

namespace Arche.Remove
open Arche Arche.World Arche.Arr Arche.Storage Arche.IndexInv Arche.SameRows Arche.Graph Arche.Closed Arche.TInv Arche.KInv Arche.Move

/-- `KInv` reads only the nodes, the tables and the index -/
theorem kinv_congr {w w' : World} (hn : w'.nodes = w.nodes) (ht : w'.tables = w.tables) (hi : w'.index = w.index)
    (h : KInv w) : KInv w' := by
  cases w; cases w'
  simp only at hn ht hi
  subst hn; subst ht; subst hi
  exact ⟨⟨h.node.tnode, h.node.tables, h.node.free, h.node.tmap⟩, ⟨h.graph.links⟩, ⟨h.idx.fwd, h.idx.bwd, h.idx.width⟩,
   ⟨h.tgt.sound, h.tgt.complete, h.tgt.free, h.tgt.freeNodup, h.tgt.empty, h.tgt.norel⟩⟩

/-! ### `cleanupTables` -/

/-- one iteration of the loop of `cleanupArchetypes(target)` -/
def cleanStep (target : Entity) (w : World) (n : Nat) : World :=
  match assocGet (w.nodeOf n).tmap target with
  | some t => if (w.tableOf t).rows.size == 0 then w.removeTable t else w
  | none => w

theorem cleanupTables_eq (w : World) (target : Entity) :
    w.cleanupTables target = (List.range w.nodes.size).foldl (cleanStep target) w := rfl

/-- what a clean-up step may change: it keeps the invariant, all rows, the index, the pool, the
    flags, and every table's target and node; it only retires tables -/
structure Cleaned (w w' : World) : Prop where
  kinv : KInv w'
  same : SameRows w w'
  tsize : w'.tables.size = w.tables.size
  nsize : w'.nodes.size = w.nodes.size
  fields : ∀ t, (w'.tableOf t).target = (w.tableOf t).target ∧ (w'.tableOf t).node = (w.tableOf t).node
  inact : ∀ t, (w.tableOf t).active = false → (w'.tableOf t).active = false

theorem Cleaned.refl (w : World) (h : KInv w) : Cleaned w w :=
  ⟨h, SameRows.refl w, rfl, rfl, fun _ => ⟨rfl, rfl⟩, fun _ h => h⟩

theorem Cleaned.trans {a b c : World} (h1 : Cleaned a b) (h2 : Cleaned b c) : Cleaned a c :=
  ⟨h2.kinv, SameRows.trans h1.same h2.same, h2.tsize.trans h1.tsize, h2.nsize.trans h1.nsize,
   fun t => ⟨(h2.fields t).1.trans (h1.fields t).1, (h2.fields t).2.trans (h1.fields t).2⟩,
   fun t h => h2.inact t (h1.inact t h)⟩

theorem removeTable_sizes (w : World) (t : Nat) :
    (w.removeTable t).tables.size = w.tables.size ∧ (w.removeTable t).nodes.size = w.nodes.size ∧
    (w.removeTable t).flags = w.flags := by
  unfold removeTable cacheRemove setTable setNode
  simp

theorem removeTable_active (w : World) (t t' : Nat) (h : (w.tableOf t').active = false) :
    ((w.removeTable t).tableOf t').active = false := by
  unfold removeTable
  simp only []
  rw [tableOf_cacheRemove]
  by_cases e : t = t'
  · subst e
    by_cases hlt : t < w.tables.size
    · rw [tableOf_setTable_eq _ _ _ (by show t < (w.setNode _ _).tables.size; exact hlt)]
    · have : ∀ (w0 : World) tb, w0.tables.size = w.tables.size → (w0.setTable t tb).tableOf t = w0.tableOf t := by
        intro w0 tb hs; unfold tableOf setTable; simp only []
        rw [getD_set]; simp [hs, hlt]
      rw [this (w.setNode _ _) _ rfl]; exact h
  · rw [tableOf_setTable_ne _ _ _ _ e]; exact h

theorem cleaned_removeTable (w : World) (h : KInv w) (t : Nat) (ht : t < w.tables.size) (hz : (w.tableOf t).rows.size = 0)
    (hact : (w.tableOf t).active = true) (hrel : (w.nodeOf (w.tableOf t).node).rel.isSome = true) :
    Cleaned w (w.removeTable t) :=
  ⟨kinv_removeTable w h t ht hz hact hrel, of_removeTable w t ht hz, (removeTable_sizes w t).1, (removeTable_sizes w t).2.1,
   removeTable_fields w t, removeTable_active w t⟩

theorem nodeOf_default (w : World) (n : Nat) (h : ¬ n < w.nodes.size) : (w.nodeOf n).tmap = [] := by
  unfold nodeOf
  rw [Array.getD_eq_getD_getElem?, Array.getElem?_eq_none (by omega)]
  rfl

/-- a table named by a node's target map exists, belongs to that node, is active, and the node
    has a relation -/
theorem tmap_table (w : World) (h : KInv w) (n : Nat) (e : Entity) (t : Nat) (hg : assocGet (w.nodeOf n).tmap e = some t) :
    n < w.nodes.size ∧ t < w.tables.size ∧ (w.tableOf t).node = n ∧ (w.tableOf t).active = true ∧
    (w.tableOf t).target = e ∧ (w.nodeOf n).rel.isSome = true := by
  have hn : n < w.nodes.size := by
    apply Classical.byContradiction; intro hc
    rw [nodeOf_default w n hc] at hg; cases hg
  obtain ⟨i, hi, hget⟩ := h.node.tmap n hn e t hg
  obtain ⟨a, b, _⟩ := h.node.tables n hn i hi
  rw [hget] at a b
  obtain ⟨c, d, r⟩ := h.tgt.sound n hn e t hg
  exact ⟨hn, a, b, d, c, r⟩

theorem cleaned_cleanStep (w : World) (h : KInv w) (target : Entity) (n : Nat) : Cleaned w (cleanStep target w n) := by
  unfold cleanStep
  split
  · rename_i t hg
    obtain ⟨_, a, b, c, _, r⟩ := tmap_table w h n target t hg
    split
    · rename_i hz
      apply cleaned_removeTable w h t a (by simpa using hz) c
      rw [b]; exact r
    · exact Cleaned.refl w h
  · exact Cleaned.refl w h

theorem cleaned_foldl (target : Entity) (l : List Nat) (w : World) (h : KInv w) :
    Cleaned w (l.foldl (cleanStep target) w) := by
  induction l generalizing w with
  | nil => exact Cleaned.refl w h
  | cons n rest ih =>
    simp only [List.foldl_cons]
    have h1 := cleaned_cleanStep w h target n
    exact Cleaned.trans h1 (ih _ h1.kinv)

theorem cleaned_cleanupTables (w : World) (h : KInv w) (target : Entity) : Cleaned w (w.cleanupTables target) := by
  rw [cleanupTables_eq]; exact cleaned_foldl target _ w h

theorem cleaned_cleanupTable (w : World) (h : KInv w) (t : Nat) (ht : t < w.tables.size) : Cleaned w (w.cleanupTable t) := by
  unfold cleanupTable
  simp only []
  split
  · exact Cleaned.refl w h
  · rename_i hc
    split
    · exact Cleaned.refl w h
    · simp only [Bool.or_eq_true, decide_eq_true_eq, not_or, Bool.not_eq_true, Option.isNone_iff_eq_none] at hc
      apply cleaned_removeTable w h t ht (by omega)
      · simpa using hc.2
      · cases hr : (w.nodeOf (w.tableOf t).node).rel
        · exact absurd hr hc.1.2
        · rfl

theorem cleaned_flags (w : World) (h : KInv w) (f : Array Bool) : KInv { w with flags := f } := kinv_flags w h f

/-! ### the core of `RemoveEntity` -/

/-- the removal event only locks and unlocks the world -/
theorem lock_w (w wl : World) (b : Nat) (h : w.lock = some (wl, b)) : wl = { w with locks := wl.locks } := by
  unfold lock at h
  split at h
  · cases h
  · cases h; rfl

theorem unlock_w (w wu : World) (b : Nat) (h : w.unlock b = some wu) : wu = { w with locks := wu.locks } := by
  unfold unlock at h
  split at h
  · cases h
  · cases h; rfl

theorem notifyRemoval_w (w : World) (t : Nat) (e : Entity) : ∃ lk, (w.notifyRemoval t e).1 = { w with locks := lk } := by
  unfold notifyRemoval
  simp only []
  split
  · exact ⟨w.locks, rfl⟩
  · split
    · split
      · exact ⟨w.locks, rfl⟩
      · rename_i wl b hk
        have hwl := lock_w w wl b hk
        cases hu : wl.unlock b with
        | none =>
          refine ⟨wl.locks, ?_⟩
          simp only [Option.getD_none]
          exact hwl
        | some wu =>
          refine ⟨wu.locks, ?_⟩
          simp only [Option.getD_some]
          have := unlock_w wl wu b hu
          rw [this, hwl]
    · exact ⟨w.locks, rfl⟩

/-- an unlocked removal of an alive entity succeeds, and its effect on the world is
    `removeCore` (the removal event may only have locked and unlocked the world) -/
theorem removeEntity_w (w : World) (e : Entity) (hl : w.isLocked = false) (ha : w.checkAlive e = none) :
    (w.removeEntity e).out = .ok () ∧ ∃ lk, (w.removeEntity e).w = removeCore { w with locks := lk } e (w.locOf e) := by
  obtain ⟨lk, hlk⟩ := notifyRemoval_w w (w.locOf e).tbl e
  unfold removeEntity
  simp only [hl, Bool.false_eq_true, ↓reduceIte, ha]
  exact ⟨trivial, lk, by rw [hlk]⟩

/-- what the core of a removal does to a world that satisfies the invariant: the invariant is
    kept, the removed entity is no longer indexed, every other entity keeps its table and its
    row content (only the row *number* of the entity swapped into the gap changes), and no
    table changes its target -/
theorem removeCore_spec (w : World) (e : Entity) (l : Loc) (hK : KInv w) (hl : loc w e.id = some l)
    (he : (rowAt w l.tbl l.row).ent = e) :
    KInv (removeCore w e l) ∧ loc (removeCore w e l) e.id = none ∧
    (∀ id, id ≠ e.id → ∀ l0, loc w id = some l0 →
      ∃ l', loc (removeCore w e l) id = some l' ∧ l'.tbl = l0.tbl ∧ rowAt (removeCore w e l) l'.tbl l'.row = rowAt w l0.tbl l0.row) ∧
    (∀ t, ((removeCore w e l).tableOf t).target = (w.tableOf t).target ∧ ((removeCore w e l).tableOf t).node = (w.tableOf t).node) ∧
    (removeCore w e l).tables.size = w.tables.size ∧ (removeCore w e l).nodes.size = w.nodes.size ∧
    (removeCore w e l).pool = w.pool.recycle e ∧
    (∀ t, t < w.tables.size → (removeCore w e l).tableRel t = w.tableRel t ∧ (removeCore w e l).tableMask t = w.tableMask t ∧
      (removeCore w e l).tableIds t = w.tableIds t) := by
  have hv : validRow w l.tbl l.row := (hK.idx.fwd _ _ hl).1
  -- the first three steps are `dropRow` with a new pool
  have hdrop : ((({ (w.removeRowFix l.tbl l.row) with pool := (w.removeRowFix l.tbl l.row).pool.recycle e } : World)).setIndex e.id none)
      = { dropRow w l.tbl l.row with pool := w.pool.recycle e } := by
    unfold dropRow
    simp only [he]
    have : (w.removeRowFix l.tbl l.row).pool = w.pool := by
      rw [removeRowFix_eq _ _ _ hv.1 hv.2]; split <;> rfl
    rw [this]; rfl
  unfold removeCore
  simp only []
  rw [hdrop]
  generalize hw2 : ({ dropRow w l.tbl l.row with pool := w.pool.recycle e } : World) = w2
  have hsz2 : w2.tables.size = w.tables.size := by rw [← hw2]; exact tables_size_dropRow _ _ _ hv.1 hv.2
  have hk0 : KInv (dropRow w l.tbl l.row) :=
    ⟨nodeInv_dropRow w hK.node _ _ hv.1 hv.2, graphInv_of_nodes (node_dropRow _ _ _ hv.1 hv.2 0).2 hK.graph,
     dropRow_inv w hK.idx _ _ hv, tinv_dropRow w hK.tgt _ _ hv.1 hv.2⟩
  have k2 : KInv w2 := by rw [← hw2]; exact kinv_congr (w := dropRow w l.tbl l.row) rfl rfl rfl hk0
  have hloc2 : ∀ j, loc w2 j = loc (dropRow w l.tbl l.row) j := by intro j; rw [← hw2]; rfl
  have hrow2 : ∀ t r, rowAt w2 t r = rowAt (dropRow w l.tbl l.row) t r := by intro t r; rw [← hw2]; rfl
  have hto2 : ∀ t, w2.tableOf t = (dropRow w l.tbl l.row).tableOf t := by intro t; rw [← hw2]; rfl
  have hnodes2 : w2.nodes = w.nodes := by rw [← hw2]; exact (node_dropRow _ _ _ hv.1 hv.2 0).2
  have hpool2 : w2.pool = w.pool.recycle e := by rw [← hw2]
  -- clean-up of the tables that had the removed entity as their target
  have hc3 : Cleaned w2 (if w2.flag e.id then (w2.cleanupTables e).setFlag e.id false else w2) := by
    split
    · have c := cleaned_cleanupTables w2 k2 e
      exact Cleaned.trans c ⟨kinv_flags _ c.kinv _, of_setFlag _ _ _, rfl, rfl, fun _ => ⟨rfl, rfl⟩, fun _ h => h⟩
    · exact Cleaned.refl w2 k2
  generalize hw3 : (if w2.flag e.id then (w2.cleanupTables e).setFlag e.id false else w2) = w3 at hc3
  have hc4 : Cleaned w3 (w3.cleanupTable l.tbl) := cleaned_cleanupTable w3 hc3.kinv l.tbl (by rw [hc3.tsize, hsz2]; exact hv.1)
  have c := Cleaned.trans hc3 hc4
  generalize hw4 : w3.cleanupTable l.tbl = w4 at c
  refine ⟨c.kinv, ?_, ?_, ?_, by rw [c.tsize, hsz2], by rw [c.nsize, hnodes2], by rw [c.same.pool, hpool2], ?_⟩
  · rw [SameRows.loc_eq c.same, hloc2, loc_dropRow w hK.idx _ _ hv, if_pos (by rw [he])]
  · intro id hne l0 hl0
    obtain ⟨l', h1, h2, h3⟩ := dropRow_frame w hK.idx l.tbl l.row hv id (by rw [he]; exact hne) l0 hl0
    refine ⟨l', by rw [SameRows.loc_eq c.same, hloc2]; exact h1, h2, ?_⟩
    have hv' := (k2.idx.fwd id l' (by rw [hloc2]; exact h1)).1
    rw [SameRows.rowAt_eq c.same _ _ hv'.1, hrow2]; exact h3
  · intro t
    obtain ⟨a, b⟩ := c.fields t
    rw [a, b, hto2, (fields_dropRow _ _ _ hv.1 hv.2 t).1, (node_dropRow _ _ _ hv.1 hv.2 t).1]
    exact ⟨rfl, rfl⟩
  · intro t ht
    have ht2 : t < w2.tables.size := by rw [hsz2]; exact ht
    rw [SameRows.tableRel_eq c.same k2.node.tnode t ht2, SameRows.tableMask_eq c.same k2.node.tnode t ht2,
      SameRows.tableIds_eq c.same k2.node.tnode t ht2]
    unfold tableRel tableMask tableIds nodeOfTable nodeOf
    rw [hto2, (node_dropRow _ _ _ hv.1 hv.2 t).1, hnodes2]
    exact ⟨rfl, rfl, rfl⟩


/-- the index after a removal is the index after the swap-removal of the row: the later
    clean-up steps retire empty tables only -/
theorem removeCore_loc (w : World) (e : Entity) (l : Loc) (hK : KInv w) (hl : loc w e.id = some l)
    (he : (rowAt w l.tbl l.row).ent = e) (j : Nat) :
    loc (removeCore w e l) j = loc (dropRow w l.tbl l.row) j ∧
    (removeCore w e l).index.size = w.index.size := by
  have hv : validRow w l.tbl l.row := (hK.idx.fwd _ _ hl).1
  have hdrop : ((({ (w.removeRowFix l.tbl l.row) with pool := (w.removeRowFix l.tbl l.row).pool.recycle e } : World)).setIndex e.id none)
      = { dropRow w l.tbl l.row with pool := w.pool.recycle e } := by
    unfold dropRow
    simp only [he]
    have : (w.removeRowFix l.tbl l.row).pool = w.pool := by
      rw [removeRowFix_eq _ _ _ hv.1 hv.2]; split <;> rfl
    rw [this]; rfl
  unfold removeCore
  simp only []
  rw [hdrop]
  generalize hw2 : ({ dropRow w l.tbl l.row with pool := w.pool.recycle e } : World) = w2
  have hsz2 : w2.tables.size = w.tables.size := by rw [← hw2]; exact tables_size_dropRow _ _ _ hv.1 hv.2
  have hk0 : KInv (dropRow w l.tbl l.row) :=
    ⟨nodeInv_dropRow w hK.node _ _ hv.1 hv.2, graphInv_of_nodes (node_dropRow _ _ _ hv.1 hv.2 0).2 hK.graph,
     dropRow_inv w hK.idx _ _ hv, tinv_dropRow w hK.tgt _ _ hv.1 hv.2⟩
  have k2 : KInv w2 := by rw [← hw2]; exact kinv_congr (w := dropRow w l.tbl l.row) rfl rfl rfl hk0
  have hloc2 : ∀ j, loc w2 j = loc (dropRow w l.tbl l.row) j := by intro j; rw [← hw2]; rfl
  have hisz2 : w2.index.size = w.index.size := by
    rw [← hw2]; unfold dropRow; simp only []
    rw [removeRowFix_eq _ _ _ hv.1 hv.2]; split <;> simp [setIndex, setTable]
  have hc3 : Cleaned w2 (if w2.flag e.id then (w2.cleanupTables e).setFlag e.id false else w2) := by
    split
    · have c := cleaned_cleanupTables w2 k2 e
      exact Cleaned.trans c ⟨kinv_flags _ c.kinv _, of_setFlag _ _ _, rfl, rfl, fun _ => ⟨rfl, rfl⟩, fun _ h => h⟩
    · exact Cleaned.refl w2 k2
  generalize hw3 : (if w2.flag e.id then (w2.cleanupTables e).setFlag e.id false else w2) = w3 at hc3
  have hc4 : Cleaned w3 (w3.cleanupTable l.tbl) := cleaned_cleanupTable w3 hc3.kinv l.tbl (by rw [hc3.tsize, hsz2]; exact hv.1)
  have c := Cleaned.trans hc3 hc4
  generalize hw4 : w3.cleanupTable l.tbl = w4 at c
  exact ⟨by rw [SameRows.loc_eq c.same, hloc2], by rw [c.same.index, hisz2]⟩

end Arche.Remove
