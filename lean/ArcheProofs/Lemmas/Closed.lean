/-
  The graph walk of `findOrCreateTable` is built from two primitive steps only: replacing a
  node's neighbour list, and appending a fresh node. Any reflexive-transitive relation closed
  under these two steps therefore relates the world before and after the walk
  (`graphWalk_closed`), and `findOrCreateTable` is that walk followed by a table lookup or a
  `createTable` (`findOrCreateTable_decomp`).
-/
import ArcheProofs.Lemmas.Graph

namespace Arche.Closed
open Arche Arche.World Arche.Arr Arche.Storage Arche.IndexInv Arche.SameRows Arche.Graph

structure StepClosed (R : World → World → Prop) : Prop where
  refl : ∀ w, R w w
  trans : ∀ a b c, R a b → R b c → R a c
  nbrs : ∀ w n nb, R w (w.setNode n { w.nodeOf n with nbrs := nb })
  node : ∀ w m r, R w (w.createNode m r).1

theorem walk_closed {R} (hR : StepClosed R) (w : World) (c : Nat) (i : CompId) (m : Mask) (r : Option CompId) :
    R w (w.walk c i m r).1 := by
  unfold walk
  split
  · exact hR.refl w
  · simp only []
    have h0 : R w (w.findOrCreateNodeSlow m r).1 := by
      unfold findOrCreateNodeSlow; split
      · exact hR.refl w
      · exact hR.node w m r
    exact hR.trans _ _ _ (hR.trans _ _ _ h0 (hR.nbrs _ _ _)) (hR.nbrs _ _ _)

theorem walkRem_closed {R} (hR : StepClosed R) (reg : Registry) (s : WalkSt) (i : CompId) : R s.w (walkRem reg s i).w := by
  unfold walkRem; simp only []; exact walk_closed hR _ _ _ _ _

theorem walkRems_closed {R} (hR : StepClosed R) (reg : Registry) (l : List CompId) (s : WalkSt) : R s.w (l.foldl (walkRem reg) s).w := by
  induction l generalizing s with
  | nil => exact hR.refl _
  | cons x xs ih => simp only [List.foldl_cons]; exact hR.trans _ _ _ (walkRem_closed hR reg s x) (ih _)

theorem walkAdd_closed {R} (hR : StepClosed R) (reg : Registry) (m0 : Mask) (s s' : WalkSt) (i : CompId)
    (h : walkAdd reg m0 s i = .ok s') : R s.w s'.w := by
  unfold walkAdd at h
  split at h; · cases h
  split at h; · cases h
  simp only [] at h
  split at h; · cases h
  cases h
  exact walk_closed hR _ _ _ _ _

theorem walkAdds_closed {R} (hR : StepClosed R) (reg : Registry) (m0 : Mask) (l : List CompId) (s : WalkSt) :
    R s.w (walkAdds reg m0 s l).1.w := by
  induction l generalizing s with
  | nil => exact hR.refl _
  | cons x xs ih =>
    unfold walkAdds
    cases hr : walkAdd reg m0 s x with
    | error p => exact hR.refl _
    | ok s' => simp only []; exact hR.trans _ _ _ (walkAdd_closed hR reg m0 s s' x hr) (ih s')

/-- `findOrCreateTable` = graph walk (closed steps only), then lookup or `createTable` -/
theorem findOrCreateTable_decomp (w : World) (start : Nat) (add rem : List CompId) (target : Entity) :
    ∃ w2 n2, (∀ R, StepClosed R → R w w2) ∧
      ((∃ p, w.findOrCreateTable start add rem target = (w2, .error p)) ∨
       (∃ t, w2.nodeGetTable n2 target = some t ∧ w.findOrCreateTable start add rem target = (w2, .ok t)) ∨
       (w2.nodeGetTable n2 target = none ∧
         w.findOrCreateTable start add rem target = ((w2.createTable n2 target true).1, .ok (w2.createTable n2 target true).2))) := by
  unfold findOrCreateTable
  simp only []
  generalize hs1 : rem.foldl (walkRem w.reg) { w := w, curr := (w.tableOf start).node, mask := (w.nodeOf (w.tableOf start).node).mask, rel := (w.nodeOf (w.tableOf start).node).rel } = s1
  have h1 : ∀ R, StepClosed R → R w s1.w := by
    intro R hR; rw [← hs1]; exact walkRems_closed hR w.reg rem { w := w, curr := (w.tableOf start).node, mask := (w.nodeOf (w.tableOf start).node).mask, rel := (w.nodeOf (w.tableOf start).node).rel }
  have h2 : ∀ R, StepClosed R → R s1.w (walkAdds w.reg (w.nodeOf (w.tableOf start).node).mask s1 add).1.w :=
    fun R hR => walkAdds_closed hR _ _ _ _
  generalize walkAdds w.reg (w.nodeOf (w.tableOf start).node).mask s1 add = r2 at *
  obtain ⟨s2, p⟩ := r2
  refine ⟨s2.w, s2.curr, fun R hR => hR.trans _ _ _ (h1 R hR) (h2 R hR), ?_⟩
  cases p with
  | some e => exact Or.inl ⟨e, rfl⟩
  | none =>
    simp only []
    cases hg : s2.w.nodeGetTable s2.curr target with
    | some t => exact Or.inr (Or.inl ⟨t, rfl, rfl⟩)
    | none => exact Or.inr (Or.inr ⟨rfl, rfl⟩)


/-- the same decomposition with what the walk guarantees about the intermediate world: rows
    untouched, node and graph invariants, the node reached exists and has the exchanged mask -/
theorem findOrCreateTable_parts (w : World) (hI : NodeInv w) (hG : GraphInv w) (start : Nat) (hs : start < w.tables.size)
    (add rem : List CompId) (target : Entity) (hrem : RemOK (w.tableMask start) rem) :
    ∃ w2 n2, SameRows w w2 ∧ NodeInv w2 ∧ GraphInv w2 ∧ n2 < w2.nodes.size ∧ (∀ R, StepClosed R → R w w2) ∧
      ((∃ p, w.findOrCreateTable start add rem target = (w2, .error p)) ∨
       ((w2.nodeOf n2).mask = newMask (w.tableMask start) add rem ∧
        ((∃ t, w2.nodeGetTable n2 target = some t ∧ w.findOrCreateTable start add rem target = (w2, .ok t)) ∨
         (w2.nodeGetTable n2 target = none ∧
           w.findOrCreateTable start add rem target = ((w2.createTable n2 target true).1, .ok (w2.createTable n2 target true).2))))) := by
  unfold findOrCreateTable
  simp only []
  have h0 : WOK w { w := w, curr := (w.tableOf start).node, mask := (w.nodeOf (w.tableOf start).node).mask, rel := (w.nodeOf (w.tableOf start).node).rel } :=
    ⟨SameRows.refl w, hI, hG, hI.tnode start hs, rfl⟩
  obtain ⟨h1, hm1⟩ := walkRems_spec w w.reg rem _ h0 hrem
  have c1 : ∀ R, StepClosed R → R w (rem.foldl (walkRem w.reg) { w := w, curr := (w.tableOf start).node, mask := (w.nodeOf (w.tableOf start).node).mask, rel := (w.nodeOf (w.tableOf start).node).rel }).w :=
    fun R hR => walkRems_closed hR w.reg rem { w := w, curr := (w.tableOf start).node, mask := (w.nodeOf (w.tableOf start).node).mask, rel := (w.nodeOf (w.tableOf start).node).rel }
  generalize hs1 : rem.foldl (walkRem w.reg) { w := w, curr := (w.tableOf start).node, mask := (w.nodeOf (w.tableOf start).node).mask, rel := (w.nodeOf (w.tableOf start).node).rel } = s1 at *
  obtain ⟨h2, hm2⟩ := walkAdds_spec w w.reg (w.nodeOf (w.tableOf start).node).mask add s1 h1
  have c2 : ∀ R, StepClosed R → R s1.w (walkAdds w.reg (w.nodeOf (w.tableOf start).node).mask s1 add).1.w :=
    fun R hR => walkAdds_closed hR _ _ _ _
  generalize hs2 : walkAdds w.reg (w.nodeOf (w.tableOf start).node).mask s1 add = r2 at *
  obtain ⟨s2, p⟩ := r2
  simp only [] at h2 hm2 c2 ⊢
  refine ⟨s2.w, s2.curr, h2.same, h2.node, h2.graph, h2.curr, fun R hR => hR.trans _ _ _ (c1 R hR) (c2 R hR), ?_⟩
  cases p with
  | some e => exact Or.inl ⟨e, rfl⟩
  | none =>
    simp only []
    have hmask : s2.mask = newMask (w.tableMask start) add rem := by
      rw [hm2 rfl, hm1]; rfl
    refine Or.inr ⟨by rw [h2.mask, hmask], ?_⟩
    cases hg : s2.w.nodeGetTable s2.curr target with
    | some t => exact Or.inl ⟨t, rfl, rfl⟩
    | none => exact Or.inr ⟨rfl, rfl⟩

end Arche.Closed
