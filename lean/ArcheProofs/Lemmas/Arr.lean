/-
  Array access lemmas (`getD` / `setIfInBounds` / `push` / `extract 0 1`) used by all state proofs.
-/
namespace Arche.Arr

theorem getD_set (a : Array α) (i j : Nat) (v d : α) :
    (a.setIfInBounds i v).getD j d = if i = j ∧ i < a.size then v else a.getD j d := by
  simp only [Array.getD_eq_getD_getElem?, Array.getElem?_setIfInBounds]
  by_cases h : i = j
  · subst h
    by_cases h2 : i < a.size
    · simp [h2]
    · simp [h2]
  · simp [h]

theorem getD_set_eq (a : Array α) (i : Nat) (v d : α) (h : i < a.size) :
    (a.setIfInBounds i v).getD i d = v := by
  rw [getD_set]; simp [h]

theorem getD_set_ne (a : Array α) (i j : Nat) (v d : α) (h : i ≠ j) :
    (a.setIfInBounds i v).getD j d = a.getD j d := by
  rw [getD_set]; simp [h]

theorem getD_push (a : Array α) (j : Nat) (v d : α) :
    (a.push v).getD j d = if j = a.size then v else a.getD j d := by
  simp only [Array.getD_eq_getD_getElem?, Array.getElem?_push]
  by_cases h : j = a.size <;> simp [h]

theorem getD_extract01 (a : Array α) (d : α) (h : 0 < a.size) : (a.extract 0 1).getD 0 d = a.getD 0 d := by
  have : 0 < min 1 a.size := by omega
  simp [Array.getD_eq_getD_getElem?, Array.getElem?_extract, h, this]

theorem size_extract01 (a : Array α) (h : 0 < a.size) : (a.extract 0 1).size = 1 := by
  simp [Array.size_extract]; omega

end Arche.Arr
