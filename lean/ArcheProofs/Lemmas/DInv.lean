/-
  Node attributes are determined by the node's mask (`DInv`): the component list of every node
  is the ascending list of the members of its mask, and its relation component is the one
  relation id in its mask (so a mask holds at most one). Hence `Has`, `Mask`, `Ids` and the
  nil-ness of `Get` agree for every entity, and two worlds report the same ids / relation for
  tables with equal masks. Kept by the graph walk (new nodes are created with the walked mask
  and the tracked relation), by table creation / retirement and by all row movements.
-/
import ArcheProofs.Lemmas.BatchOps

namespace Arche.DInv
open Arche Arche.World Arche.Arr Arche.Storage Arche.IndexInv Arche.SameRows Arche.Graph Arche.Closed Arche.TInv Arche.KInv Arche.Move Arche.Remove Arche.Cov Arche.Cache Arche.SInv Arche.Batch Arche.BatchOps

/-- `rel` is the relation component of `mask`, if any -/
def RelOK (reg : Registry) (mask : Mask) (rel : Option CompId) : Prop :=
  ∀ c, rel = some c ↔ (Mask.get mask c = true ∧ Mask.get reg.isRel c = true)

structure DInv (w : World) : Prop where
  ids : ∀ n, n < w.nodes.size → (w.nodeOf n).ids = Mask.toList (w.nodeOf n).mask w.cfg.maskBits
  rel : ∀ n, n < w.nodes.size → RelOK w.reg (w.nodeOf n).mask (w.nodeOf n).rel

/-- same configuration and registry, same number of nodes, every node keeps ids / mask / relation -/
structure DSame (w w' : World) : Prop where
  cfg : w'.cfg = w.cfg
  reg : w'.reg = w.reg
  size : w'.nodes.size = w.nodes.size
  core : ∀ n, (w'.nodeOf n).ids = (w.nodeOf n).ids ∧ (w'.nodeOf n).mask = (w.nodeOf n).mask ∧ (w'.nodeOf n).rel = (w.nodeOf n).rel

namespace DSame
theorem refl (w : World) : DSame w w := ⟨rfl, rfl, rfl, fun _ => ⟨rfl, rfl, rfl⟩⟩
theorem trans {a b c : World} (h1 : DSame a b) (h2 : DSame b c) : DSame a c :=
  ⟨h2.cfg.trans h1.cfg, h2.reg.trans h1.reg, h2.size.trans h1.size, fun n =>
    ⟨(h2.core n).1.trans (h1.core n).1, (h2.core n).2.1.trans (h1.core n).2.1, (h2.core n).2.2.trans (h1.core n).2.2⟩⟩
theorem dinv {w w' : World} (h : DSame w w') (d : DInv w) : DInv w' := by
  refine ⟨fun n hn => ?_, fun n hn => ?_⟩
  · rw [(h.core n).1, (h.core n).2.1, h.cfg]; exact d.ids n (by rw [← h.size]; exact hn)
  · rw [(h.core n).2.1, (h.core n).2.2, h.reg]; exact d.rel n (by rw [← h.size]; exact hn)
/-- the world differs only in fields other than `cfg`, `reg`, `nodes` -/
theorem of_nodes {w w' : World} (hc : w'.cfg = w.cfg) (hr : w'.reg = w.reg) (hn : w'.nodes = w.nodes) : DSame w w' :=
  ⟨hc, hr, by rw [hn], fun n => by unfold nodeOf; rw [hn]; exact ⟨rfl, rfl, rfl⟩⟩
theorem of_setTable (w : World) (t : Nat) (tb : Table) : DSame w (w.setTable t tb) := of_nodes rfl rfl rfl
theorem of_setIndex (w : World) (i : Nat) (l : Option Loc) : DSame w (w.setIndex i l) := of_nodes rfl rfl rfl
theorem of_setFlag (w : World) (i : Nat) (v : Bool) : DSame w (w.setFlag i v) := of_nodes rfl rfl rfl
theorem of_cacheAdd (w : World) (t : Nat) : DSame w (w.cacheAdd t) := of_nodes rfl rfl rfl
theorem of_cacheRemove (w : World) (t : Nat) : DSame w (w.cacheRemove t) := of_nodes rfl rfl rfl
theorem of_markTarget (w : World) (t : Entity) : DSame w (w.markTarget t) := by
  unfold markTarget; split
  · exact refl w
  · exact DSame.of_setFlag _ _ _
theorem of_setNode (w : World) (n : Nat) (nd : Node)
    (h : nd.ids = (w.nodeOf n).ids ∧ nd.mask = (w.nodeOf n).mask ∧ nd.rel = (w.nodeOf n).rel) : DSame w (w.setNode n nd) := by
  refine ⟨rfl, rfl, by unfold setNode; simp, fun k => ?_⟩
  rw [nodeOf_setNode]
  split
  · rename_i hc; rw [← hc.1]; exact h
  · exact ⟨rfl, rfl, rfl⟩
theorem of_pushTable (w : World) (tb : Table) : DSame w ({ w with tables := w.tables.push tb } : World) := of_nodes rfl rfl rfl
end DSame

open DSame

theorem dsame_createTable (w : World) (n : Nat) (target : Entity) (fs : Bool) : DSame w (w.createTable n target fs).1 := by
  unfold createTable
  simp only []
  split
  · split
    · refine DSame.trans ?_ (DSame.of_cacheAdd _ _)
      exact DSame.trans (DSame.of_setTable _ _ _) (DSame.of_setNode _ _ _ ⟨rfl, rfl, rfl⟩)
    · refine DSame.trans ?_ (DSame.of_cacheAdd _ _)
      exact DSame.trans (DSame.of_pushTable _ _) (DSame.of_setNode _ _ _ ⟨rfl, rfl, rfl⟩)
  · refine DSame.trans ?_ (DSame.of_cacheAdd _ _)
    exact DSame.trans (DSame.of_pushTable _ _) (DSame.of_setNode _ _ _ ⟨rfl, rfl, rfl⟩)

theorem dsame_removeTable (w : World) (t : Nat) : DSame w (w.removeTable t) := by
  unfold removeTable
  simp only []
  refine DSame.trans ?_ (DSame.of_cacheRemove _ _)
  refine DSame.trans (DSame.of_setNode _ _ _ ?_) (DSame.of_setTable _ _ _)
  exact ⟨rfl, rfl, rfl⟩

theorem dsame_cleanupTable (w : World) (t : Nat) : DSame w (w.cleanupTable t) := by
  unfold cleanupTable
  simp only []
  split
  · exact DSame.refl w
  · split
    · exact DSame.refl w
    · exact dsame_removeTable w t

theorem dsame_idxFold (dst start : Nat) (l : List (Row × Nat)) (w : World) : DSame w (idxFold dst start l w) := by
  induction l generalizing w with
  | nil => exact DSame.refl w
  | cons p ps ih =>
    unfold idxFold at ih ⊢
    simp only [List.foldl_cons]
    exact DSame.trans (DSame.of_setIndex _ _ _) (ih _)

theorem dsame_moveAll (w : World) (src dst n : Nat) : DSame w (w.moveAll src dst n).1 := by
  unfold moveAll
  simp only []
  exact DSame.trans (DSame.of_setTable _ _ _) (dsame_idxFold dst _ _ _)

theorem dsame_moveAllClear (w : World) (src dst : Nat) : DSame w (moveAllClear w src dst) := by
  unfold moveAllClear
  exact DSame.trans (dsame_moveAll w src dst _) (DSame.of_setTable _ _ _)

theorem dsame_removeRowFix (w : World) (t r : Nat) : DSame w (w.removeRowFix t r) := by
  unfold removeRowFix tableRemove
  simp only []
  split
  · simp only [Bool.false_eq_true, ↓reduceIte]; exact DSame.of_setTable _ _ _
  · simp only [↓reduceIte]; exact DSame.trans (DSame.of_setTable _ _ _) (DSame.of_setIndex _ _ _)

theorem dsame_moveEntity (w : World) (e : Entity) (l : Loc) (t : Nat) : DSame w (w.moveEntity e l t) := by
  unfold moveEntity tableAlloc
  simp only []
  exact DSame.trans (DSame.trans (DSame.trans (DSame.of_setTable _ _ _) (DSame.of_setTable _ _ _)) (dsame_removeRowFix _ _ _)) (DSame.of_setIndex _ _ _)

/-! ## the graph walk -/

theorem dinv_createNode (w : World) (d : DInv w) (m : Mask) (r : Option CompId) (hr : RelOK w.reg m r) : DInv (w.createNode m r).1 := by
  have hnew : ((w.createNode m r).1.nodeOf w.nodes.size).ids = Mask.toList m w.cfg.maskBits ∧
      ((w.createNode m r).1.nodeOf w.nodes.size).mask = m ∧ ((w.createNode m r).1.nodeOf w.nodes.size).rel = r := by
    unfold createNode nodeOf; simp only []; rw [getD_push]; simp
  have hold : ∀ n, n ≠ w.nodes.size → (w.createNode m r).1.nodeOf n = w.nodeOf n := by
    intro n hn; unfold createNode nodeOf; simp only []; rw [getD_push, if_neg hn]
  have hsz : (w.createNode m r).1.nodes.size = w.nodes.size + 1 := by unfold createNode; simp
  have hcfg : (w.createNode m r).1.cfg = w.cfg := rfl
  have hreg : (w.createNode m r).1.reg = w.reg := rfl
  refine ⟨fun n hn => ?_, fun n hn => ?_⟩
  · by_cases h : n = w.nodes.size
    · rw [h, hnew.1, hnew.2.1, hcfg]
    · rw [hold n h, hcfg]; exact d.ids n (by rw [hsz] at hn; omega)
  · by_cases h : n = w.nodes.size
    · rw [h, hnew.2.1, hnew.2.2, hreg]; exact hr
    · rw [hold n h, hreg]; exact d.rel n (by rw [hsz] at hn; omega)

theorem createNode_cfg (w : World) (m : Mask) (r : Option CompId) : (w.createNode m r).1.cfg = w.cfg ∧ (w.createNode m r).1.reg = w.reg :=
  ⟨rfl, rfl⟩

theorem dinv_walk (w : World) (d : DInv w) (curr : Nat) (id : CompId) (m : Mask) (r : Option CompId) (hr : RelOK w.reg m r) :
    DInv (w.walk curr id m r).1 ∧ (w.walk curr id m r).1.cfg = w.cfg ∧ (w.walk curr id m r).1.reg = w.reg := by
  unfold walk
  split
  · exact ⟨d, rfl, rfl⟩
  · simp only []
    have h0 : DInv (w.findOrCreateNodeSlow m r).1 ∧ (w.findOrCreateNodeSlow m r).1.cfg = w.cfg ∧ (w.findOrCreateNodeSlow m r).1.reg = w.reg := by
      unfold findOrCreateNodeSlow; split
      · exact ⟨d, rfl, rfl⟩
      · exact ⟨dinv_createNode w d m r hr, rfl, rfl⟩
    generalize (w.findOrCreateNodeSlow m r).1 = w0 at h0
    generalize (w.findOrCreateNodeSlow m r).2 = nx
    have s1 := DSame.of_setNode w0 nx { w0.nodeOf nx with nbrs := assocSet (w0.nodeOf nx).nbrs id curr } ⟨rfl, rfl, rfl⟩
    generalize w0.setNode nx { w0.nodeOf nx with nbrs := assocSet (w0.nodeOf nx).nbrs id curr } = w1 at s1
    have s2 := DSame.of_setNode w1 curr { w1.nodeOf curr with nbrs := assocSet (w1.nodeOf curr).nbrs id nx } ⟨rfl, rfl, rfl⟩
    have s := DSame.trans s1 s2
    exact ⟨s.dinv h0.1, s.cfg.trans h0.2.1, s.reg.trans h0.2.2⟩

/-- the walk state carries a world satisfying `DInv` with the starting registry and
    configuration, and tracks the relation of the walked mask -/
structure DW (reg : Registry) (cfg : Config) (s : WalkSt) : Prop where
  dinv : DInv s.w
  hreg : s.w.reg = reg
  hcfg : s.w.cfg = cfg
  rel : RelOK reg s.mask s.rel

theorem dw_walkRem (reg : Registry) (cfg : Config) (s : WalkSt) (h : DW reg cfg s) (id : CompId) (hp : Mask.get s.mask id = true) :
    DW reg cfg (walkRem reg s id) := by
  have hrel : RelOK reg (Mask.set s.mask id false) (if Mask.get reg.isRel id then none else s.rel) := by
    intro c
    rw [NatMask.get_set]
    by_cases hi : Mask.get reg.isRel id = true
    · simp only [hi, ↓reduceIte]
      constructor
      · intro hc; cases hc
      · rintro ⟨h1, h2⟩
        exfalso
        by_cases hci : c = id
        · simp [hci] at h1
        · simp only [hci, ↓reduceIte] at h1
          have a := (h.rel c).2 ⟨h1, h2⟩
          have b := (h.rel id).2 ⟨hp, hi⟩
          rw [a] at b; simp only [Option.some.injEq] at b; exact hci b
    · have hi' : Mask.get reg.isRel id = false := by simpa using hi
      simp only [hi', Bool.false_eq_true, ↓reduceIte]
      rw [h.rel c]
      by_cases hci : c = id
      · subst hci; simp [hi']
      · simp [hci]
  unfold walkRem
  simp only []
  obtain ⟨a, b, c⟩ := dinv_walk s.w h.dinv s.curr id (Mask.set s.mask id false) (if Mask.get reg.isRel id then none else s.rel)
    (by rw [h.hreg]; exact hrel)
  exact ⟨a, c.trans h.hreg, b.trans h.hcfg, hrel⟩

theorem dw_walkRems (reg : Registry) (cfg : Config) (l : List CompId) (s : WalkSt) (h : DW reg cfg s) (hr : RemOK s.mask l) :
    DW reg cfg (l.foldl (walkRem reg) s) := by
  induction l generalizing s with
  | nil => exact h
  | cons id rest ih =>
    simp only [List.foldl_cons]
    apply ih _ (dw_walkRem reg cfg s h id hr.1)
    have : (walkRem reg s id).mask = Mask.set s.mask id false := rfl
    rw [this]; exact hr.2

theorem dw_walkAdd (reg : Registry) (cfg : Config) (m0 : Mask) (s s' : WalkSt) (h : DW reg cfg s) (id : CompId)
    (hr : walkAdd reg m0 s id = .ok s') : DW reg cfg s' := by
  unfold walkAdd at hr
  split at hr; · cases hr
  rename_i hp
  split at hr; · cases hr
  simp only [] at hr
  split at hr; · cases hr
  rename_i hsec
  cases hr
  have hpf : Mask.get s.mask id = false := by simpa using hp
  have hrel : RelOK reg (Mask.set s.mask id true) (if Mask.get reg.isRel id then some id else s.rel) := by
    intro c
    rw [NatMask.get_set]
    by_cases hi : Mask.get reg.isRel id = true
    · simp only [hi, ↓reduceIte]
      have hnone : s.rel = none := by
        cases hs : s.rel with
        | none => rfl
        | some x => simp [hi, hs] at hsec
      constructor
      · intro hc; simp only [Option.some.injEq] at hc; subst hc; simp [hi]
      · rintro ⟨h1, h2⟩
        by_cases hci : c = id
        · rw [hci]
        · simp only [hci, ↓reduceIte] at h1
          have a := (h.rel c).2 ⟨h1, h2⟩
          rw [hnone] at a; cases a
    · have hi' : Mask.get reg.isRel id = false := by simpa using hi
      simp only [hi', Bool.false_eq_true, ↓reduceIte]
      rw [h.rel c]
      by_cases hci : c = id
      · subst hci; simp [hi', hpf]
      · simp [hci]
  obtain ⟨a, b, c⟩ := dinv_walk s.w h.dinv s.curr id (Mask.set s.mask id true) (if Mask.get reg.isRel id then some id else s.rel)
    (by rw [h.hreg]; exact hrel)
  exact ⟨a, c.trans h.hreg, b.trans h.hcfg, hrel⟩

theorem dw_walkAdds (reg : Registry) (cfg : Config) (m0 : Mask) (l : List CompId) (s : WalkSt) (h : DW reg cfg s) :
    DW reg cfg (walkAdds reg m0 s l).1 := by
  induction l generalizing s with
  | nil => exact h
  | cons id rest ih =>
    unfold walkAdds
    cases hr : walkAdd reg m0 s id with
    | error p => exact h
    | ok s' => simp only []; exact ih s' (dw_walkAdd reg cfg m0 s s' h id hr)

/-- `findOrCreateArchetype` keeps `DInv`, the configuration and the registry -/
theorem dinv_findOrCreateTable (w : World) (d : DInv w) (hI : NodeInv w) (start : Nat) (hs : start < w.tables.size)
    (add rem : List CompId) (target : Entity) (hrem : RemOK (w.tableMask start) rem) :
    DInv (w.findOrCreateTable start add rem target).1 ∧ (w.findOrCreateTable start add rem target).1.cfg = w.cfg ∧
    (w.findOrCreateTable start add rem target).1.reg = w.reg := by
  unfold findOrCreateTable
  simp only []
  have hn := hI.tnode start hs
  have h0 : DW w.reg w.cfg { w := w, curr := (w.tableOf start).node, mask := (w.nodeOf (w.tableOf start).node).mask, rel := (w.nodeOf (w.tableOf start).node).rel } :=
    ⟨d, rfl, rfl, d.rel _ hn⟩
  have h1 := dw_walkRems w.reg w.cfg rem _ h0 hrem
  generalize rem.foldl (walkRem w.reg) { w := w, curr := (w.tableOf start).node, mask := (w.nodeOf (w.tableOf start).node).mask, rel := (w.nodeOf (w.tableOf start).node).rel } = s1 at h1
  have h2 := dw_walkAdds w.reg w.cfg (w.nodeOf (w.tableOf start).node).mask add s1 h1
  generalize walkAdds w.reg (w.nodeOf (w.tableOf start).node).mask s1 add = r2 at h2
  obtain ⟨s2, p⟩ := r2
  simp only [] at h2 ⊢
  cases p with
  | some e => exact ⟨h2.dinv, h2.hcfg, h2.hreg⟩
  | none =>
    simp only []
    cases hg : s2.w.nodeGetTable s2.curr target with
    | some t => exact ⟨h2.dinv, h2.hcfg, h2.hreg⟩
    | none =>
      simp only []
      have s := dsame_createTable s2.w s2.curr target true
      exact ⟨s.dinv h2.dinv, s.cfg.trans h2.hcfg, s.reg.trans h2.hreg⟩


/-! ## operations -/

/-- a successful single-entity exchange keeps `DInv` and the configuration -/
theorem dinv_exchange (w : World) (d : DInv w) (hK : KInv w) (e : Entity) (add rem : List CompId) (rel : Option CompId) (target : Entity) (x : Exchanged)
    (hl : loc w e.id = some (w.locOf e))
    (hok : (w.exchangeNoNotify e add rem rel target).out = .ok (some x)) :
    DInv (w.exchangeNoNotify e add rem rel target).w ∧ (w.exchangeNoNotify e add rem rel target).w.cfg = w.cfg := by
  obtain ⟨tgt, mask, hmask, _, _, _, hw⟩ := Arche.Props.C01.exchange_world w e add rem rel target x hok
  rw [hw]
  have hv : validRow w (w.locOf e).tbl (w.locOf e).row := (hK.idx.fwd _ _ hl).1
  obtain ⟨hremok, _⟩ := Arche.Props.C01.remOK_of_exchangeMask _ _ _ _ hmask
  obtain ⟨d1, c1, _⟩ := dinv_findOrCreateTable w d hK.node (w.locOf e).tbl hv.1 add rem tgt hremok
  have s := DSame.trans (DSame.trans (dsame_moveEntity (w.findOrCreateTable (w.locOf e).tbl add rem tgt).1 e (w.locOf e) x.tbl)
    (DSame.of_markTarget _ tgt)) (dsame_cleanupTable _ (w.locOf e).tbl)
  exact ⟨s.dinv d1, s.cfg.trans c1⟩

theorem dsame_archFinish (w1 : World) (src dst n : Nat) (tgt : Entity) : DSame w1 (archFinish w1 src dst n tgt).1 := by
  unfold archFinish
  simp only []
  exact DSame.trans (DSame.trans (DSame.trans (dsame_moveAll w1 src dst n) (DSame.of_markTarget _ tgt)) (DSame.of_setTable _ _ _)) (dsame_cleanupTable _ src)

/-- a successful `exchangeArch` keeps `DInv` and the configuration -/
theorem dinv_exchangeArch (w : World) (d : DInv w) (hI : NodeInv w) (src n : Nat) (hs : src < w.tables.size)
    (add rem : List CompId) (rel : Option CompId) (target : Entity) (b : BatchEntry)
    (hok : (w.exchangeArch src n add rem rel target).2 = .ok b) :
    DInv (w.exchangeArch src n add rem rel target).1 ∧ (w.exchangeArch src n add rem rel target).1.cfg = w.cfg := by
  obtain ⟨mask, tgt, dst, hm, _, _, hw, _⟩ := exchangeArch_ok w src n add rem rel target b hok
  rw [hw]
  obtain ⟨hremok, _⟩ := Arche.Props.C01.remOK_of_exchangeMask _ _ _ _ hm
  obtain ⟨d1, c1, _⟩ := dinv_findOrCreateTable w d hI src hs add rem tgt hremok
  have s := dsame_archFinish (w.findOrCreateTable src add rem tgt).1 src dst n tgt
  exact ⟨s.dinv d1, s.cfg.trans c1⟩

end Arche.DInv
