/-
  Lemmas about the model's masks (natural numbers as bit sets): `Mask.get`/`Mask.set`.
-/
import ArcheModel.Basic

namespace Arche.NatMask
open Arche

theorem testBit_one_shl (i j : Nat) : (1 <<< i).testBit j = decide (i = j) := by
  rw [Nat.one_shiftLeft, Nat.testBit_two_pow]

theorem get_set (m : Mask) (i j : Nat) (v : Bool) :
    Mask.get (Mask.set m i v) j = if j = i then v else Mask.get m j := by
  unfold Mask.get Mask.set
  cases v
  · simp only [Bool.false_eq_true, ↓reduceIte]
    by_cases hb : m.testBit i = true
    · simp only [hb, ↓reduceIte, Nat.testBit_xor, testBit_one_shl]
      by_cases hji : j = i
      · subst hji; simp [hb]
      · have : ¬ i = j := fun h => hji h.symm
        simp [hji, this]
    · simp only [hb, Bool.false_eq_true, ↓reduceIte]
      by_cases hji : j = i
      · subst hji; simp at hb; simp [hb]
      · simp [hji]
  · simp only [↓reduceIte, Nat.testBit_or, testBit_one_shl]
    by_cases hji : j = i
    · subst hji; simp
    · have : ¬ i = j := fun h => hji h.symm
      simp [hji, this]

theorem get_zero (j : Nat) : Mask.get (0 : Mask) j = false := by
  unfold Mask.get; simp

theorem ne_zero_iff (m : Mask) : m ≠ 0 ↔ ∃ j, Mask.get m j = true := by
  constructor
  · intro h; exact Nat.exists_testBit_of_ne_zero h
  · intro ⟨j, hj⟩ h0; subst h0; rw [get_zero] at hj; cases hj


theorem get_and (a b : Mask) (j : Nat) : Mask.get (a &&& b) j = (Mask.get a j && Mask.get b j) := by
  unfold Mask.get; exact Nat.testBit_and a b j
theorem get_or (a b : Mask) (j : Nat) : Mask.get (a ||| b) j = (Mask.get a j || Mask.get b j) := by
  unfold Mask.get; exact Nat.testBit_or a b j
theorem get_xor (a b : Mask) (j : Nat) : Mask.get (a ^^^ b) j = (Mask.get a j ^^ Mask.get b j) := by
  unfold Mask.get; exact Nat.testBit_xor a b j

end Arche.NatMask
