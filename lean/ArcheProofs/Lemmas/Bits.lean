/-
  Bit-vector lemmas used by the mask proofs (C04): word-level facts about 64-bit words as sets
  of bit positions.
-/
namespace Arche.Bits

theorem getLsbD_one_shl (o i : Nat) (ho : o < 64) : (1#64 <<< o).getLsbD i = decide (i = o) := by
  simp [BitVec.getLsbD_shiftLeft]
  by_cases h : i = o
  · subst h; simp [ho]
  · simp [h]
    intro h1 h2
    omega

theorem and_one_shl_beq (x : BitVec 64) (o : Nat) (ho : o < 64) :
    ((x &&& (1#64 <<< o)) == (1#64 <<< o)) = x.getLsbD o := by
  rw [Bool.eq_iff_iff, beq_iff_eq]
  constructor
  · intro h
    have := congrArg (fun v => v.getLsbD o) h
    simpa [getLsbD_one_shl o o ho] using this
  · intro h
    apply BitVec.eq_of_getLsbD_eq
    intro i hi
    rw [BitVec.getLsbD_and, getLsbD_one_shl o i ho]
    by_cases hio : i = o
    · subst hio; simp [h]
    · simp [hio]

/-- setting bit `o` -/
theorem getLsbD_or_one_shl (x : BitVec 64) (o i : Nat) (ho : o < 64) :
    (x ||| (1#64 <<< o)).getLsbD i = (x.getLsbD i || decide (i = o)) := by
  rw [BitVec.getLsbD_or, getLsbD_one_shl o i ho]

/-- clearing bit `o` -/
theorem getLsbD_and_not_one_shl (x : BitVec 64) (o i : Nat) (ho : o < 64) (hi : i < 64) :
    (x &&& ~~~(1#64 <<< o)).getLsbD i = (x.getLsbD i && !decide (i = o)) := by
  rw [BitVec.getLsbD_and, BitVec.getLsbD_not, getLsbD_one_shl o i ho]
  simp [hi]

theorem and_eq_right_iff (x y : BitVec 64) :
    (x &&& y) = y ↔ ∀ i, i < 64 → y.getLsbD i = true → x.getLsbD i = true := by
  constructor
  · intro h i _ hy
    have := congrArg (fun v => v.getLsbD i) h
    simp [hy] at this
    exact this
  · intro h
    apply BitVec.eq_of_getLsbD_eq
    intro i hi
    rw [BitVec.getLsbD_and]
    by_cases hy : y.getLsbD i = true
    · simp [hy, h i hi hy]
    · simp at hy; simp [hy]

theorem and_ne_zero_iff (x y : BitVec 64) :
    (x &&& y) ≠ 0#64 ↔ ∃ i, i < 64 ∧ x.getLsbD i = true ∧ y.getLsbD i = true := by
  constructor
  · intro h
    apply Classical.byContradiction
    intro hne
    apply h
    apply BitVec.eq_of_getLsbD_eq
    intro i hi
    rw [BitVec.getLsbD_and]
    simp
    intro hx
    apply Classical.byContradiction
    intro hy
    simp at hy
    exact hne ⟨i, hi, hx, hy⟩
  · intro ⟨i, hi, hx, hy⟩ h
    have := congrArg (fun v => v.getLsbD i) h
    simp [hx, hy] at this

theorem eq_zero_iff (x : BitVec 64) : x = 0#64 ↔ ∀ i, i < 64 → x.getLsbD i = false := by
  constructor
  · intro h i _; subst h; simp
  · intro h
    apply BitVec.eq_of_getLsbD_eq
    intro i hi
    simp [h i hi]

end Arche.Bits
