/-
  `Relations.Set` (single entity): the destination table is the node's table for the new target
  (looked up, or created / recycled); then the common move tail.
-/
import ArcheProofs.Lemmas.MoveTail
import ArcheProofs.Lemmas.GOps2

namespace Arche.SetRel
open Arche Arche.World Arche.Arr Arche.Storage Arche.IndexInv Arche.SameRows Arche.Graph Arche.Closed Arche.TInv Arche.KInv Arche.Move Arche.Remove Arche.Cov Arche.Cache Arche.SInv Arche.DInv Arche.Create Arche.Frames Arche.BatchOps Arche.GInv Arche.GOps Arche.GVals Arche.MoveTail
open Arche.Props.C01 (At)

/-- the table of node `n` for `target`: looked up, or created (a recycled slot or a new table) -/
def relTable (w : World) (n : Nat) (target : Entity) : World × Nat :=
  match w.nodeGetTable n target with
  | some t => (w, t)
  | none => w.createTable n target true

/-- `createTable` for a target the relation node has no table for keeps the global invariant -/
theorem ginv_createTable (w : World) (issued live : List Entity) (G : GInv w issued live) (n : Nat) (hn : n < w.nodes.size)
    (target : Entity) (hrel : (w.nodeOf n).rel.isSome = true) (hnone : w.nodeGetTable n target = none) :
    GInv (w.createTable n target true).1 issued live ∧ SameRows w (w.createTable n target true).1 ∧ Misc w (w.createTable n target true).1 ∧
    (w.createTable n target true).2 < (w.createTable n target true).1.tables.size ∧
    ((w.createTable n target true).1.tableOf (w.createTable n target true).2).node = n ∧
    ((w.createTable n target true).1.tableOf (w.createTable n target true).2).active = true ∧
    ((w.createTable n target true).1.tableOf (w.createTable n target true).2).target = target ∧
    ((w.createTable n target true).1.tableOf (w.createTable n target true).2).rows = #[] := by
  have hfresh : (w.nodeOf n).rel.isSome = true → assocGet (w.nodeOf n).tmap target = none := by
    intro _; unfold nodeGetTable at hnone; simpa [hrel] using hnone
  have hempty : (w.nodeOf n).rel.isSome = false → (w.nodeOf n).tables.size = 0 := by
    intro h; rw [hrel] at h; cases h
  obtain ⟨s1, n1, hlt, hnode⟩ := createTable_spec w G.k.node n hn target true hempty
  obtain ⟨t1, hact, htgt, hrows⟩ := tinv_createTable w G.k.tgt G.k.node n hn target true hfresh hempty
  have g1 := graphInv_createTable w G.k.graph n target true
  have i1 := SameRows.idxInv s1 G.k.node.tnode G.k.idx
  have hS1 := sinv_createTable w G.s n hn target true hfresh hempty
  have ds := dsame_createTable w n target true
  have ms := misc_createTable w n target true
  obtain ⟨free, hL⟩ := G.link
  refine ⟨⟨⟨n1, g1, i1, t1⟩, hS1, ds.dinv G.d, binv_of_dsame ds G.b,
    ⟨Nat.lt_of_lt_of_le G.root.size s1.tsize, by rw [SameRows.tableMask_eq s1 G.k.node.tnode 0 G.root.size]; exact G.root.mask⟩, free,
    linv_transfer G.k ms.pool ms.index ms.flags (fun t r hv => SameRows.rowAt_eq s1 t r hv.1) hL⟩, s1, ms, hlt, hnode, hact, ?_, hrows⟩
  rw [htgt, hrel]; rfl

/-- the destination table of a relation-target change -/
theorem relTable_spec (w : World) (issued live : List Entity) (G : GInv w issued live) (n : Nat) (hn : n < w.nodes.size)
    (target : Entity) (hrel : (w.nodeOf n).rel.isSome = true) :
    GInv (relTable w n target).1 issued live ∧ SameRows w (relTable w n target).1 ∧ Misc w (relTable w n target).1 ∧
    (relTable w n target).2 < (relTable w n target).1.tables.size ∧
    ((relTable w n target).1.tableOf (relTable w n target).2).node = n ∧
    ((relTable w n target).1.tableOf (relTable w n target).2).active = true ∧
    ((relTable w n target).1.tableOf (relTable w n target).2).target = target ∧
    (∀ t, t < w.tables.size → (w.tableOf t).active = true → (relTable w n target).1.tableOf t = w.tableOf t) := by
  unfold relTable
  cases hg : w.nodeGetTable n target with
  | some t =>
    simp only []
    obtain ⟨a, b, c, d⟩ := nodeGetTable_some w G.k.node G.k.tgt n hn target t hg
    exact ⟨G, SameRows.refl w, Misc.refl w, a, b, c, by rw [d, hrel]; rfl, fun _ _ _ => trivial⟩
  | none =>
    simp only []
    obtain ⟨a, b, c, d, e, f, g, _⟩ := ginv_createTable w issued live G n hn target hrel hg
    exact ⟨a, b, c, d, e, f, g, fun t ht hact => createTable_frame w G.k.tgt G.k.node n hn target true t ht hact⟩

/-- what a successful `Relations.Set` that changes the target does to the world -/
theorem setRelation_world (w : World) (e : Entity) (comp : CompId) (target : Entity) (hok : (w.setRelation e comp target).out = .ok ()) :
    w.isLocked = false ∧ w.checkAlive e = none ∧ w.checkTarget target = none ∧ w.checkRelation (w.locOf e).tbl comp = none ∧
    (((w.tableOf (w.locOf e).tbl).target == target) = true → (w.setRelation e comp target).w = w) ∧
    (((w.tableOf (w.locOf e).tbl).target == target) = false →
      (w.setRelation e comp target).w =
        moved (relTable w (w.tableOf (w.locOf e).tbl).node target).1 e (w.locOf e) (relTable w (w.tableOf (w.locOf e).tbl).node target).2 target) := by
  unfold setRelation at hok ⊢
  by_cases hl : w.isLocked = true
  · simp [hl, World.fail] at hok
  simp only [hl, Bool.false_eq_true, ↓reduceIte] at hok ⊢
  cases ha : w.checkAlive e with
  | some p => simp [ha, World.fail] at hok
  | none =>
  simp only [ha] at hok ⊢
  cases ht : w.checkTarget target with
  | some p => simp [ht, World.fail] at hok
  | none =>
  simp only [ht] at hok ⊢
  cases hr : w.checkRelation (w.locOf e).tbl comp with
  | some p => simp [hr, World.fail] at hok
  | none =>
  simp only [hr] at hok ⊢
  refine ⟨by simpa using hl, trivial, trivial, trivial, ?_, ?_⟩
  · intro h; simp only [h, ↓reduceIte]
  · intro h
    simp only [h, Bool.false_eq_true, ↓reduceIte]
    unfold moved relTable
    cases w.nodeGetTable (w.tableOf (w.locOf e).tbl).node target <;> rfl

/-- `Relations.Set` on a handle the world issued keeps the global invariant -/
theorem ginv_setRelation (w : World) (issued live : List Entity) (G : GInv w issued live) (e : Entity) (hi : e ∈ issued)
    (comp : CompId) (target : Entity) (hok : (w.setRelation e comp target).out = .ok ()) :
    GInv (w.setRelation e comp target).w issued live := by
  obtain ⟨_, ha, _, hcr, hsame, hdiff⟩ := setRelation_world w e comp target hok
  by_cases hs : ((w.tableOf (w.locOf e).tbl).target == target) = true
  · rw [hsame hs]; exact G
  have hs' : ((w.tableOf (w.locOf e).tbl).target == target) = false := by simpa using hs
  rw [hdiff hs']
  obtain ⟨hlive, hloc, hent⟩ := alive_issued w issued live G e hi ha
  have hv := (G.k.idx.fwd _ _ hloc).1
  have hn := G.k.node.tnode _ hv.1
  have hrel : (w.nodeOf (w.tableOf (w.locOf e).tbl).node).rel.isSome = true := by
    unfold checkRelation nodeOfTable at hcr
    simp only [] at hcr
    split at hcr
    · rename_i h; simp only [beq_iff_eq] at h; rw [h]; rfl
    · split at hcr <;> cases hcr
  obtain ⟨G1, s1, m1, htlt, hnode, hact, htgt, hframe⟩ := relTable_spec w issued live G _ hn target hrel
  generalize hrt : relTable w (w.tableOf (w.locOf e).tbl).node target = rt at *
  obtain ⟨w1, t⟩ := rt
  simp only [] at G1 s1 m1 htlt hnode hact htgt hframe ⊢
  have hloc1 : loc w1 e.id = some (w.locOf e) := by rw [SameRows.loc_eq s1]; exact hloc
  have hent1 : (rowAt w1 (w.locOf e).tbl (w.locOf e).row).ent = e := by rw [SameRows.rowAt_eq s1 _ _ hv.1]; exact hent
  have htne : t ≠ (w.locOf e).tbl := by
    intro heq
    have h1 : (w1.tableOf (w.locOf e).tbl).target = (w.tableOf (w.locOf e).tbl).target := by
      have hact0 : (w.tableOf (w.locOf e).tbl).active = true := BatchLoop.active_of_nonempty w G.k _ hv.1 (by have := hv.2; omega)
      rw [hframe _ hv.1 hact0]
    rw [heq, h1] at htgt
    rw [htgt] at hs'
    simp at hs'
  obtain ⟨k5, s5, ds, sz, hpool, htsize, hat, hoth, hnone, hfields, hmeta⟩ :=
    moveTail_spec w1 G1.k G1.s e (w.locOf e) t target hloc1 hent1 htlt htne hact
  obtain ⟨free, hL⟩ := G1.link
  refine ⟨k5, s5, ds.dinv G1.d, binv_of_dsame ds G1.b, ⟨by rw [htsize]; exact G1.root.size, by rw [(hmeta 0 G1.root.size).2.1]; exact G1.root.mask⟩, free, ?_⟩
  refine ⟨by rw [hpool]; exact hL.pool, by rw [sz.index, hpool]; exact hL.isize, by rw [sz.flags, sz.index]; exact hL.fsize, ?_⟩
  intro e'
  rw [hL.stored e']
  by_cases hid : e'.id = e.id
  · constructor
    · rintro ⟨l0, h1, h2⟩
      rw [hid, hloc1] at h1; simp only [Option.some.injEq] at h1
      rw [← h1, hent1] at h2
      obtain ⟨l', a, b, c⟩ := hat
      exact ⟨l', by rw [hid]; exact a, by rw [c, ← h2]⟩
    · rintro ⟨l', h1, h2⟩
      obtain ⟨l'', a, b, c⟩ := hat
      rw [hid, a] at h1; simp only [Option.some.injEq] at h1
      rw [← h1, c] at h2
      simp only at h2
      exact ⟨w.locOf e, by rw [hid]; exact hloc1, by rw [hent1]; exact h2⟩
  · constructor
    · rintro ⟨l0, h1, h2⟩
      obtain ⟨l', a, _, c⟩ := hoth e'.id l0 hid h1
      exact ⟨l', a, by rw [c]; exact h2⟩
    · rintro ⟨l', h1, h2⟩
      cases hb : loc w1 e'.id with
      | none => rw [hnone e'.id hid hb] at h1; cases h1
      | some l0 =>
        obtain ⟨l'', a, _, c⟩ := hoth e'.id l0 hid hb
        rw [a] at h1; simp only [Option.some.injEq] at h1
        rw [← h1, c] at h2
        exact ⟨l0, rfl, h2⟩

end Arche.SetRel
