/-
  `World.LoadEntities`: into a world whose pool was never used since creation / reset, install
  the dumped pool, size index and flags to it, and put every alive entity of the dump into the
  root table (a zero row each). With a well-formed dump (`WfDump`: its pool part satisfies the
  pool invariant with ghost lists `issued`, `live`, and its alive list names exactly the live
  ids, each once — `dump_wf`: every dump of a world satisfying the global invariant is one) the
  loaded world satisfies the global invariant with those ghost lists (`ginv_load`).
-/
import ArcheProofs.Lemmas.BatchRemove
import ArcheProofs.Props.C17

namespace Arche.Load
open Arche Arche.World Arche.Arr Arche.Storage Arche.IndexInv Arche.SameRows Arche.Graph Arche.Closed Arche.TInv Arche.KInv Arche.Move Arche.Remove Arche.Cov Arche.Cache Arche.SInv Arche.DInv Arche.Create Arche.Frames Arche.GInv Arche.GOps
open Arche.Props.C17 (Receptive)

/-- one step of the loading loop -/
def loadStep (w : World) (idx : Nat) : World :=
  let e := w.pool.ents.getD idx default
  let r := w.tableAlloc 0 e
  r.1.setIndex e.id (some ⟨0, r.2⟩)

theorem loadStep_eq (w : World) (idx : Nat) :
    loadStep w idx = pushRow w 0 ⟨w.pool.ents.getD idx default, zeros (w.tableIds 0).length⟩ (newCap w 0) := by
  unfold loadStep tableAlloc pushRow newCap
  simp only []
  have hext : ((w.tableOf 0).extend (w.nodeOf (w.tableOf 0).node).capInc 1).rows = (w.tableOf 0).rows := by
    unfold Table.extend; simp only []; split <;> rfl
  have hextn : ((w.tableOf 0).extend (w.nodeOf (w.tableOf 0).node).capInc 1).node = (w.tableOf 0).node := by
    unfold Table.extend; simp only []; split <;> rfl
  have hextk : ((w.tableOf 0).extend (w.nodeOf (w.tableOf 0).node).capInc 1).k = (w.tableOf 0).k := by
    unfold Table.extend; simp only []; split <;> rfl
  have hextt : ((w.tableOf 0).extend (w.nodeOf (w.tableOf 0).node).capInc 1).target = (w.tableOf 0).target := by
    unfold Table.extend; simp only []; split <;> rfl
  have hexta : ((w.tableOf 0).extend (w.nodeOf (w.tableOf 0).node).capInc 1).active = (w.tableOf 0).active := by
    unfold Table.extend; simp only []; split <;> rfl
  rw [hext]
  unfold tableIds nodeOfTable
  simp only [hextn, hextk, hextt, hexta]

/-- the receiving world with the dumped pool installed and index / flags sized to it -/
def loadBase (w : World) (d : Dump) : World :=
  { w with pool := { ents := d.ents, next := d.next, available := d.available }, index := Array.replicate d.ents.size none, flags := Array.replicate d.ents.size false }

/-- the loading loop is the fold of `loadStep` -/
theorem load_world (w : World) (d : Dump) (h : Receptive w) :
    (w.load d).out = .ok () ∧ (w.load d).w = d.alive.foldl loadStep (loadBase w d) := by
  obtain ⟨hl, hs, ha⟩ := h
  unfold World.load
  have h1 : (decide (w.pool.ents.size > 1) || decide (w.pool.available > 0)) = false := by simp; omega
  simp only [hl, Bool.false_eq_true, ↓reduceIte, h1]
  exact ⟨trivial, rfl⟩

/-- a dump whose pool part is a well-formed pool and whose alive list names exactly its live
    handles, each once -/
structure WfDump (d : Dump) (issued live : List Entity) : Prop where
  pool : ∃ free, PoolInv.Inv { ents := d.ents, next := d.next, available := d.available } issued live free
  nodup : d.alive.Nodup
  mem : ∀ id, id ∈ d.alive ↔ ∃ e ∈ live, e.id = id

/-- a live handle is the content of its pool slot -/
theorem live_eq_slot (p : Pool) (issued live : List Entity) (free : List Nat) (h : PoolInv.Inv p issued live free) (e : Entity) (he : e ∈ live) :
    p.ents.getD e.id default = e := by
  obtain ⟨h0, h1, hnf, hg⟩ := (h.live_iff e).1 he
  have hid := h.self_id e.id h0 h1 hnf
  unfold PoolInv.slot at hid hg
  cases hs : p.ents.getD e.id default with
  | mk i g =>
    rw [hs] at hid hg
    cases e with
    | mk i' g' => simp only at hid hg; rw [hid, hg]

/-- the worlds of the loading loop: everything but the stored set is already final -/
structure Loading (w : World) (d : Dump) (st : List Entity) : Prop where
  k : KInv w
  s : SInv w
  d' : DInv w
  b : BInv w
  root : RootInv w
  pool : w.pool = { ents := d.ents, next := d.next, available := d.available }
  isize : w.index.size = d.ents.size
  fsize : w.flags.size = d.ents.size
  stored : ∀ e, (∃ l, loc w e.id = some l ∧ (rowAt w l.tbl l.row).ent = e) ↔ e ∈ st
  rows0 : (w.tableOf 0).rows.toList.map (·.ent) = st.reverse
  others : ∀ t, t ≠ 0 → (w.tableOf t).rows = #[]

theorem loadStep_loading (w : World) (d : Dump) (issued live : List Entity) (stored : List Entity) (hL : Loading w d stored)
    (hd : WfDump d issued live) (idx : Nat) (hidx : idx ∈ d.alive) (hnew : ∀ e ∈ stored, e.id ≠ idx) :
    Loading (loadStep w idx) d (w.pool.ents.getD idx default :: stored) := by
  obtain ⟨free, hP⟩ := hd.pool
  obtain ⟨e0, he0, hid0⟩ := (hd.mem idx).1 hidx
  have hslot : w.pool.ents.getD idx default = e0 := by
    rw [hL.pool, ← hid0]; exact live_eq_slot _ issued live free hP e0 he0
  have hlt : e0.id < d.ents.size := ((hP.live_iff e0).1 he0).2.1
  rw [loadStep_eq, hslot]
  have hact := (root_active w hL.k hL.d' hL.root).1
  have ht0 := hL.root.size
  have hfree : loc w e0.id = none := by
    cases hl : loc w e0.id with
    | none => rfl
    | some l =>
      exfalso
      obtain ⟨_, hid⟩ := hL.k.idx.fwd e0.id l hl
      have hm : (rowAt w l.tbl l.row).ent ∈ stored := (hL.stored _).1 ⟨l, by rw [hid]; exact hl, rfl⟩
      exact hnew _ hm (by rw [hid, hid0])
  have hidlt : (⟨e0, zeros (w.tableIds 0).length⟩ : Row).ent.id < w.index.size := by rw [hL.isize]; exact hlt
  have hwidth : (⟨e0, zeros (w.tableIds 0).length⟩ : Row).vals.length = (w.tableIds 0).length := by unfold zeros; simp
  have k1 : KInv (pushRow w 0 ⟨e0, zeros (w.tableIds 0).length⟩ (newCap w 0)) :=
    ⟨nodeInv_pushRow _ hL.k.node _ ht0 _ _, graphInv_of_nodes (node_pushRow _ _ _ _ ht0 0).2 hL.k.graph,
     pushRow_inv _ hL.k.idx 0 _ _ ht0 hidlt hfree hwidth, tinv_pushRow _ hL.k.tgt _ ht0 _ _ hact⟩
  have s1 := sinv_pushRow w hL.s 0 ht0 ⟨e0, zeros (w.tableIds 0).length⟩ (newCap w 0) hact
  have ds : DSame w (pushRow w 0 ⟨e0, zeros (w.tableIds 0).length⟩ (newCap w 0)) := by
    unfold pushRow; exact DSame.trans (DSame.of_setTable _ _ _) (DSame.of_setIndex _ _ _)
  have hloc1 : ∀ j, loc (pushRow w 0 ⟨e0, zeros (w.tableIds 0).length⟩ (newCap w 0)) j =
      if e0.id = j then some ⟨0, (w.tableOf 0).rows.size⟩ else loc w j := by
    intro j
    unfold pushRow
    simp only []
    rw [loc_setIndex]
    simp only [index_setTable, hidlt, and_true]
    rfl
  have hrow1 := rowAt_pushRow w 0 ⟨e0, zeros (w.tableIds 0).length⟩ (newCap w 0) ht0
  have hmask : (pushRow w 0 ⟨e0, zeros (w.tableIds 0).length⟩ (newCap w 0)).tableMask 0 = w.tableMask 0 := by
    unfold tableMask nodeOfTable nodeOf
    rw [(node_pushRow _ _ _ _ ht0 0).1, (node_pushRow _ _ _ _ ht0 0).2]
  refine ⟨k1, s1, ds.dinv hL.d', binv_of_dsame ds hL.b, ⟨by rw [tables_size_pushRow]; exact ht0, by rw [hmask]; exact hL.root.mask⟩, ?_, ?_, ?_, ?_, ?_, ?_⟩
  · unfold pushRow setIndex setTable; exact hL.pool
  · unfold pushRow setIndex setTable; simp only [Array.size_setIfInBounds]; exact hL.isize
  · unfold pushRow setIndex setTable; exact hL.fsize
  · intro e'
    rw [List.mem_cons]
    constructor
    · rintro ⟨l, h1, h2⟩
      rw [hloc1] at h1
      by_cases heq : e0.id = e'.id
      · rw [if_pos heq] at h1
        simp only [Option.some.injEq] at h1
        rw [← h1, hrow1, if_pos ⟨rfl, rfl⟩] at h2
        left; exact h2.symm
      · rw [if_neg heq] at h1
        have hv := (hL.k.idx.fwd _ _ h1).1
        rw [hrow1, if_neg (by intro hc; have := hv.2; rw [hc.1, hc.2] at this; omega)] at h2
        right; exact (hL.stored e').1 ⟨l, h1, h2⟩
    · rintro (rfl | hm)
      · exact ⟨⟨0, (w.tableOf 0).rows.size⟩, by rw [hloc1, if_pos rfl], by rw [hrow1, if_pos ⟨rfl, rfl⟩]⟩
      · obtain ⟨l, h1, h2⟩ := (hL.stored e').2 hm
        have hne : e0.id ≠ e'.id := by intro heq; rw [← heq, hfree] at h1; cases h1
        have hv := (hL.k.idx.fwd _ _ h1).1
        exact ⟨l, by rw [hloc1, if_neg hne]; exact h1, by rw [hrow1, if_neg (by intro hc; have := hv.2; rw [hc.1, hc.2] at this; omega)]; exact h2⟩
  · unfold pushRow
    simp only [tableOf_setIndex]
    rw [tableOf_setTable_eq _ _ _ ht0]
    simp only [Array.toList_push, List.map_append, List.map_cons, List.map_nil, List.reverse_cons]
    rw [hL.rows0]
  · intro t ht
    unfold pushRow
    simp only [tableOf_setIndex]
    rw [tableOf_setTable_ne _ _ _ _ (fun h => ht h.symm)]
    exact hL.others t ht

theorem loadFold_loading (d : Dump) (issued live : List Entity) (hd : WfDump d issued live) :
    ∀ (ids : List Nat) (w : World) (stored : List Entity), Loading w d stored → ids.Nodup → (∀ id ∈ ids, id ∈ d.alive) →
      (∀ e ∈ stored, ∀ id ∈ ids, e.id ≠ id) →
      Loading (ids.foldl loadStep w) d ((ids.map (fun id => d.ents.getD id default)).reverse ++ stored) := by
  intro ids
  induction ids with
  | nil => intro w stored hL _ _ _; simpa using hL
  | cons i is ih =>
    intro w stored hL hnd hmem hnew
    simp only [List.nodup_cons] at hnd
    have h1 := loadStep_loading w d issued live stored hL hd i (hmem i List.mem_cons_self) (fun e he => hnew e he i List.mem_cons_self)
    have hslot : w.pool.ents.getD i default = d.ents.getD i default := by rw [hL.pool]
    obtain ⟨free, hP⟩ := hd.pool
    obtain ⟨e0, he0, hid0⟩ := (hd.mem i).1 (hmem i List.mem_cons_self)
    have he0s : d.ents.getD i default = e0 := by rw [← hid0]; exact live_eq_slot _ issued live free hP e0 he0
    have h2 := ih (loadStep w i) _ h1 hnd.2 (fun id h => hmem id (List.mem_cons_of_mem _ h)) (by
      intro e he id hid
      rcases List.mem_cons.1 he with rfl | he
      · rw [hslot, he0s, hid0]; intro heq; exact hnd.1 (heq ▸ hid)
      · exact hnew e he id (List.mem_cons_of_mem _ hid))
    rw [hslot] at h2
    simpa [List.reverse_cons, List.append_assoc] using h2

/-- the loaded world, as the end of the loading loop -/
theorem load_loading (w : World) (is lv : List Entity) (G : GInv w is lv) (hr : Receptive w) (d : Dump) (issued live : List Entity)
    (hd : WfDump d issued live) :
    (w.load d).out = .ok () ∧ Loading (w.load d).w d ((d.alive.map (fun id => d.ents.getD id default)).reverse ++ []) := by
  obtain ⟨hout, hw⟩ := load_world w d hr
  refine ⟨hout, ?_⟩
  rw [hw]
  obtain ⟨free, hP⟩ := hd.pool
  -- nothing is stored in a receptive world
  obtain ⟨free0, hL0⟩ := G.link
  have hlv : ∀ e, e ∉ lv := by
    intro e he
    have := (hL0.pool.live_iff e).1 he
    have := hr.2.1
    omega
  have hnone : ∀ id, loc w id = none := by
    intro id
    cases hl : loc w id with
    | none => rfl
    | some l =>
      exfalso
      obtain ⟨_, hid⟩ := G.k.idx.fwd id l hl
      exact hlv _ ((hL0.stored _).2 ⟨l, by rw [hid]; exact hl, rfl⟩)
  have hempty : ∀ t r, ¬ validRow w t r := by
    intro t r hv
    have := G.k.idx.bwd t r hv
    rw [hnone] at this; cases this
  have hbase : loadBase w d = loadBase w d := rfl
  generalize hw0 : loadBase w d = w0
  unfold loadBase at hw0
  have hloc0 : ∀ id, loc w0 id = none := by
    intro id; rw [← hw0]; unfold loc
    show (Array.replicate d.ents.size none).getD id none = none
    rw [Array.getD_eq_getD_getElem?]
    by_cases h : id < d.ents.size
    · simp [h]
    · rw [Array.getElem?_eq_none (by simp; omega)]; rfl
  have hL0' : Loading w0 d [] := by
    have hn : w0.nodes = w.nodes := by rw [← hw0]
    have ht : w0.tables = w.tables := by rw [← hw0]
    have ds : DSame w w0 := by rw [← hw0]; exact DSame.of_nodes rfl rfl rfl
    refine ⟨?_, by rw [← hw0]; exact sinv_congr (w := w) rfl rfl rfl rfl G.s, ds.dinv G.d, binv_of_dsame ds G.b, ?_, by rw [← hw0], by rw [← hw0]; simp, by rw [← hw0]; simp, ?_, ?_, ?_⟩
    · -- KInv: no rows, no index entries
      have hk : KInv ({ w with index := w.index } : World) := G.k
      rw [← hw0]
      refine ⟨⟨G.k.node.tnode, G.k.node.tables, G.k.node.free, G.k.node.tmap⟩, ⟨G.k.graph.links⟩, ⟨?_, ?_, ?_⟩,
        ⟨G.k.tgt.sound, G.k.tgt.complete, G.k.tgt.free, G.k.tgt.freeNodup, G.k.tgt.empty, G.k.tgt.norel⟩⟩
      · intro id l hl
        have := hloc0 id; rw [← hw0] at this; rw [this] at hl; cases hl
      · intro t r hv; exact absurd hv (hempty t r)
      · intro t r hv; exact absurd hv (hempty t r)
    · rw [← hw0]; exact ⟨G.root.size, G.root.mask⟩
    · intro e
      constructor
      · rintro ⟨l, h1, _⟩; rw [hloc0] at h1; cases h1
      · intro h; cases h
    · have : (w0.tableOf 0).rows = #[] := by
        have h0 : w0.tableOf 0 = w.tableOf 0 := by rw [← hw0]; rfl
        rw [h0]
        apply Array.eq_empty_of_size_eq_zero
        apply Classical.byContradiction
        intro hne
        exact hempty 0 0 ⟨G.root.size, by omega⟩
      rw [this]; rfl
    · intro t _
      have h0 : w0.tableOf t = w.tableOf t := by rw [← hw0]; rfl
      rw [h0]
      apply Array.eq_empty_of_size_eq_zero
      apply Classical.byContradiction
      intro hne
      by_cases htl : t < w.tables.size
      · exact hempty t 0 ⟨htl, by omega⟩
      · apply hne
        have : w.tableOf t = default := by unfold tableOf; rw [Array.getD_eq_getD_getElem?, Array.getElem?_eq_none (by omega)]; rfl
        rw [this]; rfl
  have hLf := loadFold_loading d issued live hd d.alive w0 [] hL0' hd.nodup (fun _ h => h) (by intro e he; cases he)
  exact hLf

/-- **`World.LoadEntities`** into a receptive world satisfying the global invariant, from a
    well-formed dump: succeeds, and the loaded world satisfies the global invariant with the
    ghost history of the dumped pool -/
theorem ginv_load (w : World) (is lv : List Entity) (G : GInv w is lv) (hr : Receptive w) (d : Dump) (issued live : List Entity)
    (hd : WfDump d issued live) :
    (w.load d).out = .ok () ∧ GInv (w.load d).w issued live := by
  obtain ⟨hout, hLf⟩ := load_loading w is lv G hr d issued live hd
  refine ⟨hout, ?_⟩
  obtain ⟨free, hP⟩ := hd.pool
  refine ⟨hLf.k, hLf.s, hLf.d', hLf.b, hLf.root, free, ?_⟩
  refine ⟨by rw [hLf.pool]; exact hP, by rw [hLf.isize, hLf.pool], by rw [hLf.fsize, hLf.isize], ?_⟩
  intro e
  rw [hLf.stored e]
  simp only [List.append_nil, List.mem_reverse, List.mem_map]
  constructor
  · intro he
    exact ⟨e.id, (hd.mem e.id).2 ⟨e, he, rfl⟩, live_eq_slot _ issued live free hP e he⟩
  · rintro ⟨id, hid, rfl⟩
    obtain ⟨e0, he0, hid0⟩ := (hd.mem id).1 hid
    rw [← hid0, live_eq_slot _ issued live free hP e0 he0]; exact he0


/-- after loading, the root table holds the alive entities of the dump in the dump's order and
    every other table is empty -/
theorem load_rows (w : World) (is lv : List Entity) (G : GInv w is lv) (hr : Receptive w) (d : Dump) (issued live : List Entity)
    (hd : WfDump d issued live) :
    ((w.load d).w.tableOf 0).rows.toList.map (·.ent) = d.alive.map (fun id => d.ents.getD id default) ∧
    ∀ t, t ≠ 0 → ((w.load d).w.tableOf t).rows = #[] := by
  obtain ⟨_, hLf⟩ := load_loading w is lv G hr d issued live hd
  refine ⟨?_, hLf.others⟩
  rw [hLf.rows0]; simp

/-- every dump of a world satisfying the global invariant is well formed -/
theorem dump_wf (w : World) (issued live : List Entity) (G : GInv w issued live) (d : Dump) (hd : w.dump.out = .ok d) :
    WfDump d issued live := by
  have hdump : d.ents = w.pool.ents ∧ d.next = w.pool.next ∧ d.available = w.pool.available ∧ d.alive = (w.allInQueryOrder).map (·.id) := by
    unfold World.dump at hd
    split at hd
    · cases hd
    · cases hd; exact ⟨rfl, rfl, rfl, rfl⟩
  obtain ⟨free, hL⟩ := G.link
  have hsel : w.allInQueryOrder = Arche.Props.C08.selEnts w (w.matchingTables (.all 0)) := rfl
  have hnd := nodup_matchingTables w G.k (.all 0)
  have hmemT := fun t => mem_matchingTables w G.k G.s.cov (.all 0) t
  obtain ⟨hidsnd, hstored, _⟩ := Arche.Props.C08.selEnts_ok w G.k (w.matchingTables (.all 0)) (fun t ht => ((hmemT t).1 ht).1) hnd
  refine ⟨⟨free, ?_⟩, ?_, ?_⟩
  · rw [hdump.1, hdump.2.1, hdump.2.2.1]; exact hL.pool
  · rw [hdump.2.2.2, hsel]; exact hidsnd
  · intro id
    rw [hdump.2.2.2, hsel, List.mem_map]
    constructor
    · rintro ⟨e, he, rfl⟩
      obtain ⟨t, ht, i, hi, hie⟩ := (Arche.Props.C08.mem_selEnts w _ e).1 he
      have hb := G.k.idx.bwd t i ⟨((hmemT t).1 ht).1, hi⟩
      rw [hie] at hb
      exact ⟨e, (hL.stored e).2 ⟨⟨t, i⟩, hb, hie⟩, rfl⟩
    · rintro ⟨e, he, rfl⟩
      obtain ⟨l, h1, h2⟩ := (hL.stored e).1 he
      have hv := (G.k.idx.fwd _ _ h1).1
      have hact : (w.tableOf l.tbl).active = true := BatchLoop.active_of_nonempty w G.k l.tbl hv.1 (by have := hv.2; omega)
      have hsat : (Filter.all 0).sat (w.tableMask l.tbl) = true := by
        unfold Filter.sat Mask.contains; simp
      refine ⟨e, (Arche.Props.C08.mem_selEnts w _ e).2 ⟨l.tbl, (hmemT l.tbl).2 ⟨hv.1, hact, hsat, fun tg h => by cases h⟩, l.row, hv.2, h2⟩, rfl⟩


end Arche.Load
