/-
  The index invariant: the entity index and the table rows are in bijection, and every row has
  one value per component of its table. Preservation by the three row movements every
  structural operation is made of: allocate a row, swap-remove a row, move a row to another table.
-/
import ArcheProofs.Lemmas.Storage

namespace Arche.IndexInv
open Arche Arche.World Arche.Arr Arche.Storage

def rowAt (w : World) (t r : Nat) : Row := (w.tableOf t).rows.getD r default
def loc (w : World) (id : Nat) : Option Loc := w.index.getD id none
def validRow (w : World) (t r : Nat) : Prop := t < w.tables.size ∧ r < (w.tableOf t).rows.size

structure IdxInv (w : World) : Prop where
  fwd : ∀ id l, loc w id = some l → validRow w l.tbl l.row ∧ (rowAt w l.tbl l.row).ent.id = id
  bwd : ∀ t r, validRow w t r → loc w (rowAt w t r).ent.id = some ⟨t, r⟩
  width : ∀ t r, validRow w t r → (rowAt w t r).vals.length = (w.tableIds t).length

theorem loc_lt (w : World) (id : Nat) (l : Loc) (h : loc w id = some l) : id < w.index.size := by
  unfold loc at h
  rw [Array.getD_eq_getD_getElem?] at h
  by_cases hlt : id < w.index.size
  · exact hlt
  · rw [Array.getElem?_eq_none (by omega)] at h; cases h

theorem loc_setIndex (w : World) (i j : Nat) (l : Option Loc) :
    loc (w.setIndex i l) j = if i = j ∧ i < w.index.size then l else loc w j := by
  unfold loc setIndex; simp only []; rw [getD_set]

/-- the entity ids stored in distinct rows are distinct -/
theorem row_ids_inj (w : World) (h : IdxInv w) (t r t' r' : Nat) (hv : validRow w t r) (hv' : validRow w t' r')
    (he : (rowAt w t r).ent.id = (rowAt w t' r').ent.id) : t = t' ∧ r = r' := by
  have h1 := h.bwd t r hv
  have h2 := h.bwd t' r' hv'
  rw [he, h2] at h1
  cases h1; exact ⟨rfl, rfl⟩

/-! ### allocate a row -/

/-- push a row onto table `t` (whose capacity becomes `cap`) and point the index at it -/
def pushRow (w : World) (t : Nat) (row : Row) (cap : Nat := (w.tableOf t).cap) : World :=
  let tb := w.tableOf t
  (w.setTable t { tb with rows := tb.rows.push row, cap := cap }).setIndex row.ent.id (some ⟨t, tb.rows.size⟩)

theorem rowAt_pushRow (w : World) (t : Nat) (row : Row) (cap : Nat) (ht : t < w.tables.size) (t' r' : Nat) :
    rowAt (pushRow w t row cap) t' r' = if t' = t ∧ r' = (w.tableOf t).rows.size then row else rowAt w t' r' := by
  unfold pushRow rowAt
  simp only [tableOf_setIndex]
  by_cases e : t' = t
  · subst e
    rw [tableOf_setTable_eq _ _ _ ht]
    simp only [true_and]
    rw [getD_push]
  · rw [tableOf_setTable_ne _ _ _ _ (fun x => e x.symm)]
    simp [e]

theorem size_pushRow (w : World) (t : Nat) (row : Row) (cap : Nat) (ht : t < w.tables.size) (t' : Nat) :
    ((pushRow w t row cap).tableOf t').rows.size = if t' = t then (w.tableOf t).rows.size + 1 else (w.tableOf t').rows.size := by
  unfold pushRow
  simp only [tableOf_setIndex]
  by_cases e : t' = t
  · subst e; rw [tableOf_setTable_eq _ _ _ ht]; simp
  · rw [tableOf_setTable_ne _ _ _ _ (fun x => e x.symm)]; simp [e]

theorem tableIds_pushRow (w : World) (t : Nat) (row : Row) (cap : Nat) (ht : t < w.tables.size) (t' : Nat) :
    (pushRow w t row cap).tableIds t' = w.tableIds t' := by
  unfold pushRow
  show ((w.setTable t _).setIndex _ _).tableIds t' = _
  unfold tableIds nodeOfTable
  simp only [tableOf_setIndex, nodeOf_setIndex]
  have := tableIds_setTable w t t' { w.tableOf t with rows := (w.tableOf t).rows.push row, cap := cap } rfl ht
  unfold tableIds nodeOfTable at this
  exact this

theorem pushRow_inv (w : World) (h : IdxInv w) (t : Nat) (row : Row) (cap : Nat) (ht : t < w.tables.size)
    (hid : row.ent.id < w.index.size) (hfree : loc w row.ent.id = none)
    (hw : row.vals.length = (w.tableIds t).length) : IdxInv (pushRow w t row cap) := by
  have hsz : (pushRow w t row cap).tables.size = w.tables.size := by unfold pushRow; simp [setIndex]
  have hloc : ∀ j, loc (pushRow w t row cap) j = if row.ent.id = j then some ⟨t, (w.tableOf t).rows.size⟩ else loc w j := by
    intro j
    unfold pushRow
    simp only []
    rw [loc_setIndex]
    simp only [index_setTable, hid, and_true]
    rfl
  refine ⟨?_, ?_, ?_⟩
  · intro id l hl
    rw [hloc] at hl
    unfold validRow
    rw [hsz, size_pushRow _ _ _ _ ht, rowAt_pushRow _ _ _ _ ht]
    by_cases e : row.ent.id = id
    · simp only [e, ↓reduceIte, Option.some.injEq] at hl
      subst hl
      simp [ht, e]
    · simp only [e, ↓reduceIte] at hl
      obtain ⟨⟨h1, h2⟩, h3⟩ := h.fwd id l hl
      have hrow : l.row < (if l.tbl = t then (w.tableOf t).rows.size + 1 else (w.tableOf l.tbl).rows.size) := by
        split
        · rename_i e2; rw [e2] at h2; omega
        · exact h2
      refine ⟨⟨h1, hrow⟩, ?_⟩
      have : ¬ (l.tbl = t ∧ l.row = (w.tableOf t).rows.size) := by
        intro ⟨a, b⟩; rw [a] at h2; omega
      simp only [this, ↓reduceIte]; exact h3
  · intro t' r' ⟨h1, h2⟩
    rw [hsz] at h1
    rw [size_pushRow _ _ _ _ ht] at h2
    rw [rowAt_pushRow _ _ _ _ ht, hloc]
    by_cases e : t' = t ∧ r' = (w.tableOf t).rows.size
    · simp only [e, and_self, ↓reduceIte]
    · simp only [e, ↓reduceIte]
      have hv : validRow w t' r' := by
        refine ⟨h1, ?_⟩
        by_cases e1 : t' = t
        · simp only [e1, ↓reduceIte] at h2
          have : r' ≠ (w.tableOf t).rows.size := fun x => e ⟨e1, x⟩
          rw [e1]; omega
        · simpa [e1] using h2
      have hb := h.bwd t' r' hv
      have : row.ent.id ≠ (rowAt w t' r').ent.id := by
        intro x; rw [← x, hfree] at hb; cases hb
      simp only [this, ↓reduceIte]; exact hb
  · intro t' r' ⟨h1, h2⟩
    rw [hsz] at h1
    rw [size_pushRow _ _ _ _ ht] at h2
    rw [rowAt_pushRow _ _ _ _ ht, tableIds_pushRow _ _ _ _ ht]
    by_cases e : t' = t ∧ r' = (w.tableOf t).rows.size
    · simp only [e, and_self, ↓reduceIte]; first | exact hw | (rw [e.1]; exact hw)
    · simp only [e, ↓reduceIte]
      apply h.width
      refine ⟨h1, ?_⟩
      by_cases e1 : t' = t
      · simp only [e1, ↓reduceIte] at h2
        have : r' ≠ (w.tableOf t).rows.size := fun x => e ⟨e1, x⟩
        rw [e1]; omega
      · simpa [e1] using h2

/-- other entities see exactly the rows they saw before -/
theorem pushRow_frame (w : World) (t : Nat) (row : Row) (cap : Nat) (ht : t < w.tables.size) (hid : row.ent.id < w.index.size)
    (h : IdxInv w) (id : Nat) (hne : id ≠ row.ent.id) (l : Loc) (hl : loc w id = some l) :
    loc (pushRow w t row cap) id = some l ∧ rowAt (pushRow w t row cap) l.tbl l.row = rowAt w l.tbl l.row := by
  have h1 : loc (pushRow w t row cap) id = some l := by
    unfold pushRow; simp only []
    rw [loc_setIndex, if_neg (fun x => hne x.1.symm)]; exact hl
  refine ⟨h1, ?_⟩
  rw [rowAt_pushRow _ _ _ _ ht]
  have hv := (h.fwd id l hl).1
  have : ¬ (l.tbl = t ∧ l.row = (w.tableOf t).rows.size) := by
    intro ⟨a, b⟩; have := hv.2; rw [a] at this; omega
  simp [this]

/-! ### swap-remove a row -/

/-- `removeRowFix` followed by clearing the removed entity's index entry -/
def dropRow (w : World) (t r : Nat) : World :=
  let e := (rowAt w t r).ent
  (w.removeRowFix t r).setIndex e.id none

theorem removeRowFix_eq (w : World) (t r : Nat) (ht : t < w.tables.size) (hr : r < (w.tableOf t).rows.size) :
    w.removeRowFix t r =
      if r = (w.tableOf t).rows.size - 1 then
        w.setTable t { w.tableOf t with rows := (w.tableOf t).rows.pop }
      else
        (w.setTable t { w.tableOf t with rows := ((w.tableOf t).rows.setIfInBounds r (rowAt w t ((w.tableOf t).rows.size - 1))).pop }).setIndex
          (rowAt w t ((w.tableOf t).rows.size - 1)).ent.id (some ⟨t, r⟩) := by
  unfold removeRowFix tableRemove
  by_cases e : r = (w.tableOf t).rows.size - 1
  · simp [e]
  · simp only [beq_iff_eq, e, ↓reduceIte]
    congr 2
    unfold Table.getEntity rowAt
    rw [tableOf_setTable_eq _ _ _ ht]
    simp only [Array.getD_eq_getD_getElem?, Array.getElem?_pop, Array.size_setIfInBounds]
    have : r < (w.tableOf t).rows.size - 1 := by omega
    simp [this, Array.getElem?_setIfInBounds, hr]

theorem rowAt_dropRow (w : World) (t r : Nat) (ht : t < w.tables.size) (hr : r < (w.tableOf t).rows.size) (t' r' : Nat)
    (hr' : t' = t → r' < (w.tableOf t).rows.size - 1) :
    rowAt (dropRow w t r) t' r' = if t' = t ∧ r' = r then rowAt w t ((w.tableOf t).rows.size - 1) else rowAt w t' r' := by
  unfold dropRow
  simp only []
  rw [removeRowFix_eq _ _ _ ht hr]
  unfold rowAt
  simp only [tableOf_setIndex]
  by_cases e : t' = t
  · subst e
    have hlt := hr' rfl
    split
    · rename_i elast
      simp only [tableOf_setIndex, tableOf_setTable_eq _ _ _ ht, true_and]
      have : r' ≠ r := by omega
      simp only [this, ↓reduceIte, Array.getD_eq_getD_getElem?, Array.getElem?_pop]
      simp [hlt]
    · simp only [tableOf_setIndex, tableOf_setTable_eq _ _ _ ht, true_and]
      simp only [Array.getD_eq_getD_getElem?, Array.getElem?_pop, Array.size_setIfInBounds, hlt, ↓reduceIte,
        Array.getElem?_setIfInBounds]
      by_cases er : r' = r
      · subst er; simp [hr]
      · have : ¬ r = r' := fun x => er x.symm
        simp [er, this]
  · split <;> simp only [tableOf_setIndex, tableOf_setTable_ne _ _ _ _ (fun x => e x.symm), e, false_and, ↓reduceIte]

theorem size_dropRow (w : World) (t r : Nat) (ht : t < w.tables.size) (hr : r < (w.tableOf t).rows.size) (t' : Nat) :
    ((dropRow w t r).tableOf t').rows.size = if t' = t then (w.tableOf t).rows.size - 1 else (w.tableOf t').rows.size := by
  unfold dropRow
  simp only []
  rw [removeRowFix_eq _ _ _ ht hr]
  by_cases e : t' = t
  · subst e
    split <;> simp [tableOf_setTable_eq _ _ _ ht]
  · split <;> simp [tableOf_setTable_ne _ _ _ _ (fun x => e x.symm), e]

theorem tables_size_dropRow (w : World) (t r : Nat) (ht : t < w.tables.size) (hr : r < (w.tableOf t).rows.size) :
    (dropRow w t r).tables.size = w.tables.size := by
  unfold dropRow; simp only []; rw [removeRowFix_eq _ _ _ ht hr]; split <;> simp [setIndex]

theorem tableIds_dropRow (w : World) (t r : Nat) (ht : t < w.tables.size) (hr : r < (w.tableOf t).rows.size) (t' : Nat) :
    (dropRow w t r).tableIds t' = w.tableIds t' := by
  unfold dropRow; simp only []; rw [removeRowFix_eq _ _ _ ht hr]
  unfold tableIds nodeOfTable
  split
  · simp only [tableOf_setIndex, nodeOf_setIndex]
    have := tableIds_setTable w t t' { w.tableOf t with rows := (w.tableOf t).rows.pop } rfl ht
    unfold tableIds nodeOfTable at this; exact this
  · simp only [tableOf_setIndex, nodeOf_setIndex]
    have := tableIds_setTable w t t' { w.tableOf t with rows := ((w.tableOf t).rows.setIfInBounds r (rowAt w t ((w.tableOf t).rows.size - 1))).pop } rfl ht
    unfold tableIds nodeOfTable at this; exact this

theorem loc_dropRow (w : World) (h : IdxInv w) (t r : Nat) (hv : validRow w t r) (j : Nat) :
    loc (dropRow w t r) j =
      if j = (rowAt w t r).ent.id then none
      else if r ≠ (w.tableOf t).rows.size - 1 ∧ j = (rowAt w t ((w.tableOf t).rows.size - 1)).ent.id then some ⟨t, r⟩
      else loc w j := by
  obtain ⟨ht, hr⟩ := hv
  have hidlt : (rowAt w t r).ent.id < w.index.size := loc_lt _ _ _ (h.bwd t r ⟨ht, hr⟩)
  have hlastv : validRow w t ((w.tableOf t).rows.size - 1) := ⟨ht, by omega⟩
  have hlastlt : (rowAt w t ((w.tableOf t).rows.size - 1)).ent.id < w.index.size := loc_lt _ _ _ (h.bwd _ _ hlastv)
  have loc_setTable : ∀ tb j, loc (w.setTable t tb) j = loc w j := fun _ _ => rfl
  unfold dropRow
  simp only []
  rw [removeRowFix_eq _ _ _ ht hr]
  by_cases elast : r = (w.tableOf t).rows.size - 1
  · rw [if_pos elast, loc_setIndex]
    by_cases e : j = (rowAt w t r).ent.id
    · rw [if_pos e, if_pos ⟨e.symm, by rw [index_setTable]; exact hidlt⟩]
    · rw [if_neg e, if_neg (fun x => e x.1.symm), if_neg (fun x => x.1 elast), loc_setTable]
  · rw [if_neg elast, loc_setIndex]
    by_cases e : j = (rowAt w t r).ent.id
    · rw [if_pos e, if_pos ⟨e.symm, by simp [setIndex]; exact hidlt⟩]
    · rw [if_neg e, if_neg (fun x => e x.1.symm), loc_setIndex]
      by_cases e2 : j = (rowAt w t ((w.tableOf t).rows.size - 1)).ent.id
      · rw [if_pos ⟨e2.symm, by rw [index_setTable]; exact hlastlt⟩, if_pos ⟨elast, e2⟩]
      · rw [if_neg (fun x => e2 x.1.symm), if_neg (fun x => e2 x.2), loc_setTable]

theorem dropRow_inv (w : World) (h : IdxInv w) (t r : Nat) (hv : validRow w t r) : IdxInv (dropRow w t r) := by
  obtain ⟨ht, hr⟩ := hv
  have hlastv : validRow w t ((w.tableOf t).rows.size - 1) := ⟨ht, by omega⟩
  refine ⟨?_, ?_, ?_⟩
  · intro id l hl
    rw [loc_dropRow w h t r ⟨ht, hr⟩] at hl
    unfold validRow
    rw [tables_size_dropRow _ _ _ ht hr, size_dropRow _ _ _ ht hr]
    split at hl
    · cases hl
    · rename_i hne
      split at hl
      · rename_i hc
        cases hl
        simp only [↓reduceIte]
        have hrlt : r < (w.tableOf t).rows.size - 1 := by omega
        rw [rowAt_dropRow _ _ _ ht hr _ _ (fun _ => hrlt)]
        simp only [and_self, ↓reduceIte]
        exact ⟨⟨ht, hrlt⟩, hc.2.symm⟩
      · rename_i hc
        obtain ⟨⟨h1, h2⟩, h3⟩ := h.fwd id l hl
        by_cases e : l.tbl = t
        · have hlr : l.row ≠ r := by
            intro x
            apply hne
            rw [← h3, e, x]
          have hll : l.row ≠ (w.tableOf t).rows.size - 1 := by
            intro x
            by_cases er : r = (w.tableOf t).rows.size - 1
            · exact hlr (by omega)
            · apply hc; refine ⟨er, ?_⟩; rw [← h3, e, x]
          rw [e] at h2
          have hlt : l.row < (w.tableOf t).rows.size - 1 := by omega
          simp only [e, ↓reduceIte]
          refine ⟨⟨ht, hlt⟩, ?_⟩
          rw [rowAt_dropRow _ _ _ ht hr _ _ (fun _ => hlt)]
          simp only [hlr, and_false, ↓reduceIte]
          rw [← e]; exact h3
        · simp only [e, ↓reduceIte]
          refine ⟨⟨h1, h2⟩, ?_⟩
          rw [rowAt_dropRow _ _ _ ht hr _ _ (fun x => absurd x e)]
          simp only [e, false_and, ↓reduceIte]; exact h3
  · intro t' r' ⟨h1, h2⟩
    rw [tables_size_dropRow _ _ _ ht hr] at h1
    rw [size_dropRow _ _ _ ht hr] at h2
    have hr'' : t' = t → r' < (w.tableOf t).rows.size - 1 := by intro e; simpa [e] using h2
    rw [rowAt_dropRow _ _ _ ht hr _ _ hr'', loc_dropRow w h t r ⟨ht, hr⟩]
    by_cases e : t' = t ∧ r' = r
    · obtain ⟨e1, e2⟩ := e
      subst e1; subst e2
      have hrlt := hr'' rfl
      simp only [and_self, ↓reduceIte]
      have hne : (rowAt w t' ((w.tableOf t').rows.size - 1)).ent.id ≠ (rowAt w t' r').ent.id := by
        intro x
        have := (row_ids_inj w h _ _ _ _ hlastv ⟨ht, hr⟩ x).2
        omega
      simp only [hne, ↓reduceIte]
      have : r' ≠ (w.tableOf t').rows.size - 1 := by omega
      simp [this]
    · simp only [e, ↓reduceIte]
      have hv' : validRow w t' r' := by
        refine ⟨h1, ?_⟩
        by_cases e1 : t' = t
        · have := hr'' e1; rw [e1]; omega
        · simpa [e1] using h2
      have hne : (rowAt w t' r').ent.id ≠ (rowAt w t r).ent.id := by
        intro x
        have := row_ids_inj w h _ _ _ _ hv' ⟨ht, hr⟩ x
        exact e this
      simp only [hne, ↓reduceIte]
      have hne2 : ¬ (r ≠ (w.tableOf t).rows.size - 1 ∧ (rowAt w t' r').ent.id = (rowAt w t ((w.tableOf t).rows.size - 1)).ent.id) := by
        intro ⟨_, x⟩
        have := row_ids_inj w h _ _ _ _ hv' hlastv x
        have hh := hr'' this.1
        omega
      simp only [hne2, ↓reduceIte]
      exact h.bwd t' r' hv'
  · intro t' r' ⟨h1, h2⟩
    rw [tables_size_dropRow _ _ _ ht hr] at h1
    rw [size_dropRow _ _ _ ht hr] at h2
    have hr'' : t' = t → r' < (w.tableOf t).rows.size - 1 := by intro e; simpa [e] using h2
    rw [rowAt_dropRow _ _ _ ht hr _ _ hr'', tableIds_dropRow _ _ _ ht hr]
    by_cases e : t' = t ∧ r' = r
    · simp only [e, and_self, ↓reduceIte]; first | exact h.width _ _ hlastv | (rw [e.1]; exact h.width _ _ hlastv)
    · simp only [e, ↓reduceIte]
      apply h.width
      refine ⟨h1, ?_⟩
      by_cases e1 : t' = t
      · have := hr'' e1; rw [e1]; omega
      · simpa [e1] using h2

/-- **frame**: swap-removing a row leaves every other entity with its row content (entity,
    values) and its table unchanged — only the row number of the entity swapped in changes -/
theorem dropRow_frame (w : World) (h : IdxInv w) (t r : Nat) (hv : validRow w t r) (id : Nat)
    (hne : id ≠ (rowAt w t r).ent.id) (l : Loc) (hl : loc w id = some l) :
    ∃ l', loc (dropRow w t r) id = some l' ∧ l'.tbl = l.tbl ∧ rowAt (dropRow w t r) l'.tbl l'.row = rowAt w l.tbl l.row := by
  obtain ⟨ht, hr⟩ := hv
  have hlastv : validRow w t ((w.tableOf t).rows.size - 1) := ⟨ht, by omega⟩
  obtain ⟨⟨h1, h2⟩, h3⟩ := h.fwd id l hl
  rw [loc_dropRow w h t r ⟨ht, hr⟩]
  simp only [hne, ↓reduceIte]
  by_cases hc : r ≠ (w.tableOf t).rows.size - 1 ∧ id = (rowAt w t ((w.tableOf t).rows.size - 1)).ent.id
  · simp only [hc, ne_eq, not_false_eq_true, and_self, ↓reduceIte]
    have hl2 := h.bwd _ _ hlastv
    rw [← hc.2, hl] at hl2
    cases hl2
    refine ⟨⟨t, r⟩, rfl, rfl, ?_⟩
    have hrlt : r < (w.tableOf t).rows.size - 1 := by omega
    rw [rowAt_dropRow _ _ _ ht hr _ _ (fun _ => hrlt)]
    simp
  · simp only [hc, ↓reduceIte]
    refine ⟨l, hl, rfl, ?_⟩
    by_cases e : l.tbl = t
    · have hlr : l.row ≠ r := by
        intro x; apply hne; rw [← h3, e, x]
      have hll : l.row ≠ (w.tableOf t).rows.size - 1 := by
        intro x
        by_cases er : r = (w.tableOf t).rows.size - 1
        · exact hlr (by omega)
        · apply hc; refine ⟨er, ?_⟩; rw [← h3, e, x]
      rw [e] at h2
      have hlt : l.row < (w.tableOf t).rows.size - 1 := by omega
      rw [rowAt_dropRow _ _ _ ht hr _ _ (fun _ => hlt)]
      simp [hlr]
    · rw [rowAt_dropRow _ _ _ ht hr _ _ (fun x => absurd x e)]
      simp [e]


/-! ### node fields are untouched by row movements -/

theorem node_pushRow (w : World) (t : Nat) (row : Row) (cap : Nat) (ht : t < w.tables.size) (t' : Nat) :
    ((pushRow w t row cap).tableOf t').node = (w.tableOf t').node ∧ (pushRow w t row cap).nodes = w.nodes := by
  unfold pushRow
  simp only [tableOf_setIndex]
  refine ⟨?_, rfl⟩
  by_cases e : t = t'
  · subst e; rw [tableOf_setTable_eq _ _ _ ht]
  · rw [tableOf_setTable_ne _ _ _ _ e]

theorem node_dropRow (w : World) (t r : Nat) (ht : t < w.tables.size) (hr : r < (w.tableOf t).rows.size) (t' : Nat) :
    ((dropRow w t r).tableOf t').node = (w.tableOf t').node ∧ (dropRow w t r).nodes = w.nodes := by
  unfold dropRow
  simp only []
  rw [removeRowFix_eq _ _ _ ht hr]
  split
  · simp only [tableOf_setIndex]
    refine ⟨?_, rfl⟩
    by_cases e : t = t'
    · subst e; rw [tableOf_setTable_eq _ _ _ ht]
    · rw [tableOf_setTable_ne _ _ _ _ e]
  · simp only [tableOf_setIndex]
    refine ⟨?_, rfl⟩
    by_cases e : t = t'
    · subst e; rw [tableOf_setTable_eq _ _ _ ht]
    · rw [tableOf_setTable_ne _ _ _ _ e]

theorem tables_size_pushRow (w : World) (t : Nat) (row : Row) (cap : Nat) : (pushRow w t row cap).tables.size = w.tables.size := by
  unfold pushRow; simp [setIndex]


/-- node, slot, target and activity of every table are untouched by row movements -/
theorem fields_pushRow (w : World) (t : Nat) (row : Row) (cap : Nat) (ht : t < w.tables.size) (t' : Nat) :
    ((pushRow w t row cap).tableOf t').target = (w.tableOf t').target ∧ ((pushRow w t row cap).tableOf t').active = (w.tableOf t').active ∧
    ((pushRow w t row cap).tableOf t').k = (w.tableOf t').k := by
  unfold pushRow
  simp only [tableOf_setIndex]
  by_cases e : t = t'
  · subst e; rw [tableOf_setTable_eq _ _ _ ht]; exact ⟨rfl, rfl, rfl⟩
  · rw [tableOf_setTable_ne _ _ _ _ e]; exact ⟨rfl, rfl, rfl⟩

theorem fields_dropRow (w : World) (t r : Nat) (ht : t < w.tables.size) (hr : r < (w.tableOf t).rows.size) (t' : Nat) :
    ((dropRow w t r).tableOf t').target = (w.tableOf t').target ∧ ((dropRow w t r).tableOf t').active = (w.tableOf t').active ∧
    ((dropRow w t r).tableOf t').k = (w.tableOf t').k := by
  unfold dropRow
  simp only []
  rw [removeRowFix_eq _ _ _ ht hr]
  split
  · simp only [tableOf_setIndex]
    by_cases e : t = t'
    · subst e; rw [tableOf_setTable_eq _ _ _ ht]; exact ⟨rfl, rfl, rfl⟩
    · rw [tableOf_setTable_ne _ _ _ _ e]; exact ⟨rfl, rfl, rfl⟩
  · simp only [tableOf_setIndex]
    by_cases e : t = t'
    · subst e; rw [tableOf_setTable_eq _ _ _ ht]; exact ⟨rfl, rfl, rfl⟩
    · rw [tableOf_setTable_ne _ _ _ _ e]; exact ⟨rfl, rfl, rfl⟩

end Arche.IndexInv
