/-
  The common tail of every single-entity move (exchange, relation-target change): move the
  entity's row to an existing, active, different table (`moveEntity` = swap-remove + push),
  flag the target, retire the source table if it became an empty table of a dead target.
-/
import ArcheProofs.Lemmas.GOps

namespace Arche.MoveTail
open Arche Arche.World Arche.Arr Arche.Storage Arche.IndexInv Arche.SameRows Arche.Graph Arche.Closed Arche.TInv Arche.KInv Arche.Move Arche.Remove Arche.Cov Arche.Cache Arche.SInv Arche.DInv Arche.Create Arche.Frames Arche.BatchOps Arche.GInv Arche.GOps
open Arche.Props.C01 (At)

/-- the world after the move -/
def moved (w1 : World) (e : Entity) (l : Loc) (t : Nat) (tgt : Entity) : World :=
  ((w1.moveEntity e l t).markTarget tgt).cleanupTable l.tbl

theorem moveTail_spec (w1 : World) (hK : KInv w1) (hS : SInv w1) (e : Entity) (l : Loc) (t : Nat) (tgt : Entity)
    (hl : loc w1 e.id = some l) (he : (rowAt w1 l.tbl l.row).ent = e) (htlt : t < w1.tables.size) (htne : t ≠ l.tbl)
    (hact1 : (w1.tableOf t).active = true) :
    KInv (moved w1 e l t tgt) ∧ SInv (moved w1 e l t tgt) ∧ DSame w1 (moved w1 e l t tgt) ∧ Sz w1 (moved w1 e l t tgt) ∧
    (moved w1 e l t tgt).pool = w1.pool ∧ (moved w1 e l t tgt).tables.size = w1.tables.size ∧
    At (moved w1 e l t tgt) e.id t ⟨e, movedVals (w1.tableIds l.tbl) (w1.tableIds t) (rowAt w1 l.tbl l.row).vals⟩ ∧
    (∀ id l0, id ≠ e.id → loc w1 id = some l0 →
      ∃ l', loc (moved w1 e l t tgt) id = some l' ∧ l'.tbl = l0.tbl ∧ rowAt (moved w1 e l t tgt) l'.tbl l'.row = rowAt w1 l0.tbl l0.row) ∧
    (∀ id, id ≠ e.id → loc w1 id = none → loc (moved w1 e l t tgt) id = none) ∧
    (∀ t', ((moved w1 e l t tgt).tableOf t').target = (w1.tableOf t').target ∧ ((moved w1 e l t tgt).tableOf t').node = (w1.tableOf t').node) ∧
    (∀ t', t' < w1.tables.size → (moved w1 e l t tgt).tableIds t' = w1.tableIds t' ∧ (moved w1 e l t tgt).tableMask t' = w1.tableMask t' ∧
      (moved w1 e l t tgt).tableRel t' = w1.tableRel t') := by
  unfold moved
  have i1 := hK.idx
  have n1 := hK.node
  have hv1 : validRow w1 l.tbl l.row := (i1.fwd _ _ hl).1
  have he1 := he
  rw [moveEntity_eq w1 e l t htlt hv1 htne he1]
  generalize hcap : ((w1.tableOf t).extend (w1.nodeOf (w1.tableOf t).node).capInc 1).cap = cap
  have hsz2 : (dropRow w1 l.tbl l.row).tables.size = w1.tables.size := tables_size_dropRow _ _ _ hv1.1 hv1.2
  have k2 : KInv (dropRow w1 l.tbl l.row) :=
    ⟨nodeInv_dropRow w1 n1 _ _ hv1.1 hv1.2, graphInv_of_nodes (node_dropRow _ _ _ hv1.1 hv1.2 0).2 hK.graph,
     dropRow_inv w1 i1 _ _ hv1, tinv_dropRow w1 hK.tgt _ _ hv1.1 hv1.2⟩
  have hS2 := sinv_dropRow w1 hS l.tbl l.row hv1.1 hv1.2
  have hidlt : e.id < w1.index.size := loc_lt _ _ _ hl
  have hisz2 : (dropRow w1 l.tbl l.row).index.size = w1.index.size := by
    unfold dropRow; simp only []; rw [removeRowFix_eq _ _ _ hv1.1 hv1.2]; split <;> simp [setIndex, setTable]
  have hidlt2 : (movedRow w1 e l t).ent.id < (dropRow w1 l.tbl l.row).index.size := by rw [hisz2]; exact hidlt
  have hfree : loc (dropRow w1 l.tbl l.row) (movedRow w1 e l t).ent.id = none := by
    rw [loc_dropRow w1 i1 _ _ hv1]
    have : (movedRow w1 e l t).ent.id = (rowAt w1 l.tbl l.row).ent.id := by rw [he1]; rfl
    rw [if_pos this]
  have hwidth : (movedRow w1 e l t).vals.length = ((dropRow w1 l.tbl l.row).tableIds t).length := by
    rw [tableIds_dropRow _ _ _ hv1.1 hv1.2]; exact movedVals_length _ _ _
  have hact2 : ((dropRow w1 l.tbl l.row).tableOf t).active = true := by
    rw [(fields_dropRow _ _ _ hv1.1 hv1.2 t).2.1]; exact hact1
  have htlt2 : t < (dropRow w1 l.tbl l.row).tables.size := by rw [hsz2]; exact htlt
  have k3 : KInv (pushRow (dropRow w1 l.tbl l.row) t (movedRow w1 e l t) cap) :=
    ⟨nodeInv_pushRow _ k2.node _ htlt2 _ _, graphInv_of_nodes (node_pushRow _ _ _ _ htlt2 0).2 k2.graph,
     pushRow_inv _ k2.idx t _ cap htlt2 hidlt2 hfree hwidth, tinv_pushRow _ k2.tgt _ htlt2 _ _ hact2⟩
  have hS3 := sinv_pushRow _ hS2 t htlt2 (movedRow w1 e l t) cap hact2
  have hfields3 : ∀ t', ((pushRow (dropRow w1 l.tbl l.row) t (movedRow w1 e l t) cap).tableOf t').target = (w1.tableOf t').target ∧
      ((pushRow (dropRow w1 l.tbl l.row) t (movedRow w1 e l t) cap).tableOf t').node = (w1.tableOf t').node := by
    intro t'
    rw [(fields_pushRow _ _ _ _ htlt2 t').1, (fields_dropRow _ _ _ hv1.1 hv1.2 t').1,
      (node_pushRow _ _ _ _ htlt2 t').1, (node_dropRow _ _ _ hv1.1 hv1.2 t').1]
    exact ⟨rfl, rfl⟩
  have hnodes3 : (pushRow (dropRow w1 l.tbl l.row) t (movedRow w1 e l t) cap).nodes = w1.nodes := by
    rw [(node_pushRow _ _ _ _ htlt2 0).2, (node_dropRow _ _ _ hv1.1 hv1.2 0).2]
  have hsz3 : (pushRow (dropRow w1 l.tbl l.row) t (movedRow w1 e l t) cap).tables.size = w1.tables.size := by
    rw [tables_size_pushRow, hsz2]
  have hmisc3 : (pushRow (dropRow w1 l.tbl l.row) t (movedRow w1 e l t) cap).pool = w1.pool ∧
      (pushRow (dropRow w1 l.tbl l.row) t (movedRow w1 e l t) cap).cfg = w1.cfg ∧
      (pushRow (dropRow w1 l.tbl l.row) t (movedRow w1 e l t) cap).reg = w1.reg ∧
      (pushRow (dropRow w1 l.tbl l.row) t (movedRow w1 e l t) cap).flags = w1.flags ∧
      (pushRow (dropRow w1 l.tbl l.row) t (movedRow w1 e l t) cap).index.size = w1.index.size := by
    have hd : (dropRow w1 l.tbl l.row).pool = w1.pool ∧ (dropRow w1 l.tbl l.row).cfg = w1.cfg ∧ (dropRow w1 l.tbl l.row).reg = w1.reg ∧
        (dropRow w1 l.tbl l.row).flags = w1.flags := by
      unfold dropRow; simp only []; rw [removeRowFix_eq _ _ _ hv1.1 hv1.2]; split <;> exact ⟨rfl, rfl, rfl, rfl⟩
    unfold pushRow setIndex setTable
    simp only [Array.size_setIfInBounds]
    exact ⟨hd.1, hd.2.1, hd.2.2.1, hd.2.2.2, hisz2⟩
  -- loc / rows after push
  have hloc3 : ∀ j, loc (pushRow (dropRow w1 l.tbl l.row) t (movedRow w1 e l t) cap) j =
      if e.id = j then some ⟨t, ((dropRow w1 l.tbl l.row).tableOf t).rows.size⟩ else loc (dropRow w1 l.tbl l.row) j := by
    intro j
    unfold pushRow; simp only []
    rw [loc_setIndex]
    have hme : (movedRow w1 e l t).ent.id = e.id := rfl
    rw [hme] at hidlt2 ⊢
    simp only [index_setTable, hidlt2, and_true]
    rfl
  generalize hw3 : pushRow (dropRow w1 l.tbl l.row) t (movedRow w1 e l t) cap = w3 at *
  have k4 := kinv_markTarget w3 k3 tgt
  have hS4 := sinv_markTarget _ hS3 tgt
  have hsz4 : (w3.markTarget tgt).tables.size = w3.tables.size := by unfold markTarget setFlag; split <;> rfl
  have hto4 : ∀ t', (w3.markTarget tgt).tableOf t' = w3.tableOf t' := by intro t'; unfold markTarget setFlag; split <;> rfl
  have k5 := kinv_cleanupTable _ k4 l.tbl (by rw [hsz4, hsz3]; exact hv1.1)
  have hS5 := sinv_cleanupTable _ hS4 l.tbl (by rw [hsz4, hsz3]; exact hv1.1)
  have s35 : SameRows w3 ((w3.markTarget tgt).cleanupTable l.tbl) :=
    SameRows.trans (of_markTarget w3 tgt) (of_cleanupTable _ _ (by rw [hsz4, hsz3]; exact hv1.1))
  have hfields5 : ∀ t', (((w3.markTarget tgt).cleanupTable l.tbl).tableOf t').target = (w1.tableOf t').target ∧
      (((w3.markTarget tgt).cleanupTable l.tbl).tableOf t').node = (w1.tableOf t').node := by
    intro t'
    obtain ⟨a, b⟩ := cleanupTable_fields (w3.markTarget tgt) l.tbl t'
    rw [a, b, hto4, (hfields3 t').1, (hfields3 t').2]; exact ⟨rfl, rfl⟩
  have ds : DSame w1 ((w3.markTarget tgt).cleanupTable l.tbl) := by
    have d3 : DSame w1 w3 := DSame.of_nodes hmisc3.2.1 hmisc3.2.2.1 hnodes3
    exact DSame.trans (DSame.trans d3 (DSame.of_markTarget _ tgt)) (dsame_cleanupTable _ l.tbl)
  have sz : Sz w1 ((w3.markTarget tgt).cleanupTable l.tbl) := by
    have z3 : Sz w1 w3 := ⟨hmisc3.2.2.2.2, by rw [hmisc3.2.2.2.1]⟩
    exact Sz.trans (Sz.trans z3 (Sz.of_markTarget _ tgt)) (Sz.of_misc (misc_cleanupTable _ l.tbl))
  have hpool : ((w3.markTarget tgt).cleanupTable l.tbl).pool = w1.pool := by
    rw [(misc_cleanupTable _ l.tbl).pool]
    have : (w3.markTarget tgt).pool = w3.pool := by unfold markTarget setFlag; split <;> rfl
    rw [this, hmisc3.1]
  have htsize : ((w3.markTarget tgt).cleanupTable l.tbl).tables.size = w1.tables.size := by
    have : ((w3.markTarget tgt).cleanupTable l.tbl).tables.size = (w3.markTarget tgt).tables.size := by
      unfold cleanupTable; simp only []
      split
      · rfl
      · split
        · rfl
        · unfold removeTable; simp [setTable, setNode, cacheRemove]
    rw [this, hsz4, hsz3]
  have hids3 : ∀ t', w3.tableIds t' = w1.tableIds t' := by
    intro t'; unfold tableIds nodeOfTable nodeOf; rw [(hfields3 t').2, hnodes3]
  have hmask3 : ∀ t', w3.tableMask t' = w1.tableMask t' := by
    intro t'; unfold tableMask nodeOfTable nodeOf; rw [(hfields3 t').2, hnodes3]
  have hrel3 : ∀ t', w3.tableRel t' = w1.tableRel t' := by
    intro t'; unfold tableRel nodeOfTable nodeOf; rw [(hfields3 t').2, hnodes3]
  refine ⟨k5, hS5, ds, sz, hpool, htsize, ?_, ?_, ?_, hfields5, ?_⟩
  · apply Arche.Props.C01.at_of_sameRows s35 k3.idx
    refine ⟨⟨t, ((dropRow w1 l.tbl l.row).tableOf t).rows.size⟩, by rw [hloc3, if_pos rfl], rfl, ?_⟩
    rw [← hw3, rowAt_pushRow _ _ _ _ htlt2]
    simp only [and_self, ↓reduceIte]
    rfl
  · intro id l0 hid hl0
    obtain ⟨l', a1, a2, a3⟩ := dropRow_frame w1 i1 l.tbl l.row hv1 id (by rw [he1]; exact hid) l0 hl0
    have hb : loc w3 id = some l' := by rw [hloc3, if_neg (fun h => hid h.symm)]; exact a1
    have hv3 := (k3.idx.fwd id l' hb).1
    refine ⟨l', by rw [SameRows.loc_eq s35]; exact hb, a2, ?_⟩
    rw [SameRows.rowAt_eq s35 _ _ hv3.1, ← hw3, rowAt_pushRow _ _ _ _ htlt2]
    have hv2 := (k2.idx.fwd id l' a1).1
    rw [if_neg (by intro hc; have := hv2.2; rw [hc.1, hc.2] at this; omega)]
    exact a3
  · intro id hid hnone
    rw [SameRows.loc_eq s35, hloc3, if_neg (fun h => hid h.symm), loc_dropRow w1 i1 _ _ hv1]
    split
    · rfl
    · split
      · rename_i hc
        exfalso
        have hlastv : validRow w1 l.tbl ((w1.tableOf l.tbl).rows.size - 1) := ⟨hv1.1, by have := hv1.2; omega⟩
        have := i1.bwd _ _ hlastv
        rw [← hc.2, hnone] at this; cases this
      · exact hnone
  · intro t' ht'
    have ht3 : t' < w3.tables.size := by rw [hsz3]; exact ht'
    exact ⟨by rw [SameRows.tableIds_eq s35 k3.node.tnode t' ht3, hids3],
           by rw [SameRows.tableMask_eq s35 k3.node.tnode t' ht3, hmask3],
           by rw [SameRows.tableRel_eq s35 k3.node.tnode t' ht3, hrel3]⟩

end Arche.MoveTail
