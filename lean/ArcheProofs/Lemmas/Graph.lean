/-
  The archetype graph: neighbour links connect nodes whose masks differ in exactly the linked
  component (`GraphInv`), so the fast graph walk of `findOrCreateArchetype` arrives at the node
  whose mask is the mask computed on the way — the same node the slow search by mask finds.
-/
import ArcheProofs.Lemmas.SameRows
import ArcheProofs.Lemmas.NatMask

namespace Arche.Graph
open Arche Arche.World Arche.Arr Arche.Storage Arche.IndexInv Arche.SameRows Arche.NatMask

/-- flip membership of `id` -/
def flip (m : Mask) (id : CompId) : Mask := Mask.set m id (!Mask.get m id)

theorem get_flip (m : Mask) (id j : Nat) : Mask.get (flip m id) j = if j = id then !Mask.get m id else Mask.get m j := by
  unfold flip; rw [get_set]

theorem mask_ext (a b : Mask) (h : ∀ j, Mask.get a j = Mask.get b j) : a = b := Nat.eq_of_testBit_eq h

theorem flip_flip (m : Mask) (id : Nat) : flip (flip m id) id = m := by
  apply mask_ext; intro j
  rw [get_flip]
  by_cases h : j = id
  · subst h; rw [get_flip]; simp
  · rw [if_neg h, get_flip, if_neg h]

theorem flip_ne (m : Mask) (id : Nat) : flip m id ≠ m := by
  intro h
  have := congrArg (fun x => Mask.get x id) h
  simp only [get_flip, ↓reduceIte] at this
  cases hb : Mask.get m id <;> simp [hb] at this

theorem set_false_eq_flip (m : Mask) (id : Nat) (h : Mask.get m id = true) : Mask.set m id false = flip m id := by
  unfold flip; rw [h]; rfl

theorem set_true_eq_flip (m : Mask) (id : Nat) (h : Mask.get m id = false) : Mask.set m id true = flip m id := by
  unfold flip; rw [h]; rfl

structure GraphInv (w : World) : Prop where
  links : ∀ n, n < w.nodes.size → ∀ id nx, assocGet (w.nodeOf n).nbrs id = some nx →
      nx < w.nodes.size ∧ (w.nodeOf nx).mask = flip (w.nodeOf n).mask id

/-- node-level facts preserved by everything that only adds nodes or edits neighbour lists -/
theorem nodeInv_createNode (w : World) (hI : NodeInv w) (m : Mask) (r : Option CompId) : NodeInv (w.createNode m r).1 := by
  have hno : ∀ k, (w.createNode m r).1.nodeOf k = if k = w.nodes.size then
      { mask := m, ids := Mask.toList m w.cfg.maskBits, rel := r, active := false,
        capInc := if r.isSome then w.cfg.relCapInc else w.cfg.capInc, tables := #[], free := [], nbrs := [], tmap := [] }
      else w.nodeOf k := by
    intro k; unfold nodeOf createNode; simp only []; rw [getD_push]
  have hto : ∀ t, (w.createNode m r).1.tableOf t = w.tableOf t := fun _ => rfl
  have hsz : (w.createNode m r).1.nodes.size = w.nodes.size + 1 := by simp [createNode]
  refine ⟨?_, ?_, ?_, ?_⟩
  · intro t ht; rw [hto, hsz]; have := hI.tnode t ht; omega
  · intro n hn i hi
    rw [hsz] at hn
    rw [hno] at hi ⊢
    by_cases e : n = w.nodes.size
    · simp [e] at hi
    · simp only [e, ↓reduceIte] at hi ⊢
      rw [hto]; exact hI.tables n (by omega) i hi
  · intro n hn k hk
    rw [hsz] at hn
    rw [hno] at hk ⊢
    by_cases e : n = w.nodes.size
    · simp [e] at hk
    · simp only [e, ↓reduceIte] at hk ⊢
      exact hI.free n (by omega) k hk
  · intro n hn e' t hg
    rw [hsz] at hn
    rw [hno] at hg ⊢
    by_cases e : n = w.nodes.size
    · simp [e, assocGet] at hg
    · simp only [e, ↓reduceIte] at hg ⊢
      exact hI.tmap n (by omega) e' t hg

theorem graphInv_createNode (w : World) (hG : GraphInv w) (m : Mask) (r : Option CompId) : GraphInv (w.createNode m r).1 := by
  have hno : ∀ k, (w.createNode m r).1.nodeOf k = if k = w.nodes.size then
      { mask := m, ids := Mask.toList m w.cfg.maskBits, rel := r, active := false,
        capInc := if r.isSome then w.cfg.relCapInc else w.cfg.capInc, tables := #[], free := [], nbrs := [], tmap := [] }
      else w.nodeOf k := by
    intro k; unfold nodeOf createNode; simp only []; rw [getD_push]
  have hsz : (w.createNode m r).1.nodes.size = w.nodes.size + 1 := by simp [createNode]
  refine ⟨?_⟩
  intro n hn id nx hg
  rw [hsz] at hn ⊢
  rw [hno] at hg
  by_cases e : n = w.nodes.size
  · simp [e, assocGet] at hg
  · simp only [e, ↓reduceIte] at hg
    obtain ⟨h1, h2⟩ := hG.links n (by omega) id nx hg
    refine ⟨by omega, ?_⟩
    rw [hno, hno]
    have : nx ≠ w.nodes.size := by omega
    simp only [this, e, ↓reduceIte]; exact h2

/-- editing one node's neighbour list -/
theorem nodeInv_setNbrs (w : World) (hI : NodeInv w) (n : Nat) (hn : n < w.nodes.size) (nb : List (CompId × Nat)) :
    NodeInv (w.setNode n { w.nodeOf n with nbrs := nb }) := by
  apply nodeInv_setNode w hI n hn
  · exact hI.tables n hn
  · exact hI.free n hn
  · exact hI.tmap n hn

/-- `walk`: follow or create the neighbour link for `id`; arrives at the node whose mask is
    the flipped mask -/
theorem walk_spec (w : World) (hI : NodeInv w) (hG : GraphInv w) (curr : Nat) (hc : curr < w.nodes.size)
    (id : CompId) (mask : Mask) (rel : Option CompId) (hm : mask = flip (w.nodeOf curr).mask id) :
    SameRows w (w.walk curr id mask rel).1 ∧ NodeInv (w.walk curr id mask rel).1 ∧ GraphInv (w.walk curr id mask rel).1 ∧
    (w.walk curr id mask rel).2 < (w.walk curr id mask rel).1.nodes.size ∧
    ((w.walk curr id mask rel).1.nodeOf (w.walk curr id mask rel).2).mask = mask := by
  unfold walk
  cases hnb : assocGet (w.nodeOf curr).nbrs id with
  | some nx =>
    simp only []
    obtain ⟨h1, h2⟩ := hG.links curr hc id nx hnb
    exact ⟨SameRows.refl w, hI, hG, h1, by rw [h2, hm]⟩
  | none =>
    simp only []
    -- the node with the new mask (found by mask, or created)
    have hs0 := of_findOrCreateNodeSlow w mask rel
    obtain ⟨hnx, hmask⟩ := findOrCreateNodeSlow_spec w mask rel
    have hI0 : NodeInv (w.findOrCreateNodeSlow mask rel).1 := by
      unfold findOrCreateNodeSlow; split
      · exact hI
      · exact nodeInv_createNode w hI mask rel
    have hG0 : GraphInv (w.findOrCreateNodeSlow mask rel).1 := by
      unfold findOrCreateNodeSlow; split
      · exact hG
      · exact graphInv_createNode w hG mask rel
    generalize hw0 : (w.findOrCreateNodeSlow mask rel).1 = w0 at *
    generalize hnx0 : (w.findOrCreateNodeSlow mask rel).2 = nx at *
    have hc0 : curr < w0.nodes.size := Nat.lt_of_lt_of_le hc hs0.nsize
    have hcm : (w0.nodeOf curr).mask = (w.nodeOf curr).mask := (hs0.nodes curr hc).2.1
    have hne : nx ≠ curr := by
      intro e; subst e; rw [hcm] at hmask; rw [hm] at hmask; exact flip_ne _ _ hmask.symm
    -- first update: nx.nbrs[id] := curr
    have hs1 : SameRows w0 (w0.setNode nx { w0.nodeOf nx with nbrs := assocSet (w0.nodeOf nx).nbrs id curr }) := of_setNode _ _ _ ⟨rfl, rfl, rfl⟩
    have hI1 := nodeInv_setNbrs w0 hI0 nx hnx (assocSet (w0.nodeOf nx).nbrs id curr)
    generalize hw1 : w0.setNode nx { w0.nodeOf nx with nbrs := assocSet (w0.nodeOf nx).nbrs id curr } = w1 at *
    have hno1 : ∀ k, w1.nodeOf k = if nx = k then { w0.nodeOf nx with nbrs := assocSet (w0.nodeOf nx).nbrs id curr } else w0.nodeOf k := by
      intro k; rw [← hw1, nodeOf_setNode]; simp [hnx]
    have hsz1 : w1.nodes.size = w0.nodes.size := by rw [← hw1]; simp [setNode]
    have hc1 : curr < w1.nodes.size := by rw [hsz1]; exact hc0
    -- second update: curr.nbrs[id] := nx
    have hs2 : SameRows w1 (w1.setNode curr { w1.nodeOf curr with nbrs := assocSet (w1.nodeOf curr).nbrs id nx }) := of_setNode _ _ _ ⟨rfl, rfl, rfl⟩
    have hI2 := nodeInv_setNbrs w1 hI1 curr hc1 (assocSet (w1.nodeOf curr).nbrs id nx)
    generalize hw2 : w1.setNode curr { w1.nodeOf curr with nbrs := assocSet (w1.nodeOf curr).nbrs id nx } = w2 at *
    have hno2 : ∀ k, w2.nodeOf k = if curr = k then { w1.nodeOf curr with nbrs := assocSet (w1.nodeOf curr).nbrs id nx } else w1.nodeOf k := by
      intro k; rw [← hw2, nodeOf_setNode]; simp [hc1]
    have hsz2 : w2.nodes.size = w0.nodes.size := by rw [← hw2]; simp [setNode]; exact hsz1
    -- masks of all nodes are those of w0
    have hmask2 : ∀ k, (w2.nodeOf k).mask = (w0.nodeOf k).mask := by
      intro k
      rw [hno2]
      by_cases e1 : curr = k
      · subst e1; simp only [↓reduceIte]; rw [hno1]; simp [hne]
      · simp only [e1, ↓reduceIte]; rw [hno1]
        by_cases e2 : nx = k
        · subst e2; simp
        · simp [e2]
    have hnbrs2 : ∀ k, (w2.nodeOf k).nbrs = if curr = k then assocSet (w0.nodeOf curr).nbrs id nx
        else if nx = k then assocSet (w0.nodeOf nx).nbrs id curr else (w0.nodeOf k).nbrs := by
      intro k
      rw [hno2]
      by_cases e1 : curr = k
      · subst e1; simp only [↓reduceIte]; rw [hno1]; simp [hne]
      · simp only [e1, ↓reduceIte]; rw [hno1]
        by_cases e2 : nx = k
        · subst e2; simp
        · simp [e2]
    refine ⟨SameRows.trans (SameRows.trans hs0 hs1) hs2, hI2, ⟨?_⟩, by rw [hsz2]; exact hnx, by rw [hmask2]; exact hmask⟩
    intro n hn id' nx' hg
    rw [hsz2] at hn ⊢
    rw [hnbrs2] at hg
    rw [hmask2, hmask2]
    by_cases e1 : curr = n
    · subst e1
      simp only [↓reduceIte] at hg
      rw [assocGet_assocSet] at hg
      split at hg
      · rename_i e; cases hg; subst e; exact ⟨hnx, by rw [hmask, hcm, hm]⟩
      · exact hG0.links curr hc0 id' nx' hg
    · simp only [e1, ↓reduceIte] at hg
      by_cases e2 : nx = n
      · subst e2
        simp only [↓reduceIte] at hg
        rw [assocGet_assocSet] at hg
        split at hg
        · rename_i e; cases hg; subst e
          exact ⟨hc0, by rw [hmask, hcm, hm, flip_flip]⟩
        · exact hG0.links nx hnx id' nx' hg
      · simp only [e2, ↓reduceIte] at hg
        exact hG0.links n hn id' nx' hg


/-- `createTable` edits no neighbour list and no mask -/
theorem createTable_links (w : World) (n : Nat) (target : Entity) (fs : Bool) :
    (w.createTable n target fs).1.nodes.size = w.nodes.size ∧
    ∀ k, ((w.createTable n target fs).1.nodeOf k).nbrs = (w.nodeOf k).nbrs ∧ ((w.createTable n target fs).1.nodeOf k).mask = (w.nodeOf k).mask := by
  have key : ∀ (w0 : World) (nd' : Node), (∀ k, w0.nodeOf k = w.nodeOf k) → w0.nodes.size = w.nodes.size →
      nd'.nbrs = (w.nodeOf n).nbrs → nd'.mask = (w.nodeOf n).mask → ∀ t,
      ((w0.setNode n nd').cacheAdd t).nodes.size = w.nodes.size ∧
      ∀ k, (((w0.setNode n nd').cacheAdd t).nodeOf k).nbrs = (w.nodeOf k).nbrs ∧ (((w0.setNode n nd').cacheAdd t).nodeOf k).mask = (w.nodeOf k).mask := by
    intro w0 nd' h0 hsz hnb hmk t
    refine ⟨by show (w0.setNode n nd').nodes.size = _; simp [setNode]; exact hsz, ?_⟩
    intro k
    show ((w0.setNode n nd').nodeOf k).nbrs = _ ∧ ((w0.setNode n nd').nodeOf k).mask = _
    rw [nodeOf_setNode]
    split
    · rename_i e; rw [← e.1]; exact ⟨hnb, hmk⟩
    · rw [h0]; exact ⟨rfl, rfl⟩
  unfold createTable
  simp only []
  by_cases hrel : (w.nodeOf n).rel.isSome = true
  · simp only [hrel, ↓reduceIte]
    cases hfree : (w.nodeOf n).free.getLast? with
    | some k =>
      simp only []
      exact key (w.setTable ((w.nodeOf n).tables.getD k 0) { w.tableOf ((w.nodeOf n).tables.getD k 0) with active := true, target := target })
        { w.nodeOf n with free := (w.nodeOf n).free.dropLast, tmap := assocSet (w.nodeOf n).tmap target ((w.nodeOf n).tables.getD k 0) }
        (fun _ => rfl) rfl rfl rfl _
    | none =>
      simp only []
      exact key ({ w with tables := w.tables.push { node := n, k := (w.nodeOf n).tables.size, target := target, active := true, rows := #[], cap := (w.nodeOf n).capInc } } : World)
        { w.nodeOf n with active := true, tables := (w.nodeOf n).tables.push w.tables.size, tmap := assocSet (w.nodeOf n).tmap target w.tables.size }
        (fun _ => rfl) rfl rfl rfl _
  · simp only [hrel, Bool.false_eq_true, ↓reduceIte]
    exact key ({ w with tables := w.tables.push { node := n, k := 0, target := Entity.zero, active := true, rows := #[], cap := if fs then (w.nodeOf n).capInc else 1 } } : World)
      { w.nodeOf n with active := true, tables := #[w.tables.size] }
      (fun _ => rfl) rfl rfl rfl _

theorem graphInv_createTable (w : World) (hG : GraphInv w) (n : Nat) (target : Entity) (fs : Bool) :
    GraphInv (w.createTable n target fs).1 := by
  obtain ⟨hsz, hk⟩ := createTable_links w n target fs
  refine ⟨?_⟩
  intro m hm id nx hg
  rw [hsz] at hm ⊢
  rw [(hk m).1] at hg
  obtain ⟨h1, h2⟩ := hG.links m hm id nx hg
  exact ⟨h1, by rw [(hk nx).2, (hk m).2]; exact h2⟩

/-! ### the walk of `findOrCreateTable` -/

/-- walk state is consistent with the world it carries, relative to the starting world `w` -/
structure WOK (w : World) (s : WalkSt) : Prop where
  same : SameRows w s.w
  node : NodeInv s.w
  graph : GraphInv s.w
  curr : s.curr < s.w.nodes.size
  mask : (s.w.nodeOf s.curr).mask = s.mask

theorem walkRem_spec (w : World) (reg : Registry) (s : WalkSt) (h : WOK w s) (id : CompId) (hp : Mask.get s.mask id = true) :
    WOK w (walkRem reg s id) ∧ (walkRem reg s id).mask = Mask.set s.mask id false := by
  unfold walkRem
  simp only []
  have hm : Mask.set s.mask id false = flip (s.w.nodeOf s.curr).mask id := by
    rw [h.mask, set_false_eq_flip _ _ hp]
  obtain ⟨h1, h2, h3, h4, h5⟩ := walk_spec s.w h.node h.graph s.curr h.curr id (Mask.set s.mask id false)
    (if Mask.get reg.isRel id then none else s.rel) hm
  exact ⟨⟨SameRows.trans h.same h1, h2, h3, h4, h5⟩, by first | rfl | trivial⟩

theorem walkAdd_spec (w : World) (reg : Registry) (m0 : Mask) (s s' : WalkSt) (h : WOK w s) (id : CompId)
    (hr : walkAdd reg m0 s id = .ok s') : WOK w s' ∧ s'.mask = Mask.set s.mask id true := by
  unfold walkAdd at hr
  split at hr; · cases hr
  rename_i hp
  split at hr; · cases hr
  split at hr; · cases hr
  cases hr
  simp only []
  have hpf : Mask.get s.mask id = false := by simpa using hp
  have hm : Mask.set s.mask id true = flip (s.w.nodeOf s.curr).mask id := by
    rw [h.mask, set_true_eq_flip _ _ hpf]
  obtain ⟨h1, h2, h3, h4, h5⟩ := walk_spec s.w h.node h.graph s.curr h.curr id (Mask.set s.mask id true)
    (if Mask.get reg.isRel id then some id else s.rel) hm
  exact ⟨⟨SameRows.trans h.same h1, h2, h3, h4, h5⟩, by first | rfl | trivial⟩

theorem walkAdds_spec (w : World) (reg : Registry) (m0 : Mask) (l : List CompId) (s : WalkSt) (h : WOK w s) :
    WOK w (walkAdds reg m0 s l).1 ∧
    ((walkAdds reg m0 s l).2 = none → (walkAdds reg m0 s l).1.mask = l.foldl (fun m id => Mask.set m id true) s.mask) := by
  induction l generalizing s with
  | nil => exact ⟨h, fun _ => rfl⟩
  | cons id rest ih =>
    unfold walkAdds
    cases hr : walkAdd reg m0 s id with
    | error p => simp only []; exact ⟨h, fun hn => by cases hn⟩
    | ok s' =>
      simp only []
      obtain ⟨h1, h2⟩ := walkAdd_spec w reg m0 s s' h id hr
      obtain ⟨h3, h4⟩ := ih s' h1
      refine ⟨h3, fun hn => ?_⟩
      rw [h4 hn, h2]; rfl

/-- every id of the removal list is present when its turn comes -/
def RemOK : Mask → List CompId → Prop
  | _, [] => True
  | m, id :: rest => Mask.get m id = true ∧ RemOK (Mask.set m id false) rest

theorem walkRems_spec (w : World) (reg : Registry) (l : List CompId) (s : WalkSt) (h : WOK w s) (hr : RemOK s.mask l) :
    WOK w (l.foldl (walkRem reg) s) ∧ (l.foldl (walkRem reg) s).mask = l.foldl (fun m id => Mask.set m id false) s.mask := by
  induction l generalizing s with
  | nil => exact ⟨h, rfl⟩
  | cons id rest ih =>
    simp only [List.foldl_cons]
    obtain ⟨h1, h2⟩ := walkRem_spec w reg s h id hr.1
    have := ih (walkRem reg s id) h1 (by rw [h2]; exact hr.2)
    rw [h2] at this; exact this

/-- the mask `getExchangeMask` computes (when legal) -/
def newMask (m : Mask) (add rem : List CompId) : Mask :=
  add.foldl (fun m id => Mask.set m id true) (rem.foldl (fun m id => Mask.set m id false) m)

/-- **`findOrCreateTable`** leaves every row, the index and the pool alone, keeps the node and
    graph invariants, and — when it succeeds — returns an existing table of the node whose
    mask is the old mask with `rem` removed and `add` added: the graph walk and the search by
    mask agree. -/
theorem findOrCreateTable_spec (w : World) (hI : NodeInv w) (hG : GraphInv w) (start : Nat) (hs : start < w.tables.size)
    (add rem : List CompId) (target : Entity) (hrem : RemOK (w.tableMask start) rem) :
    SameRows w (w.findOrCreateTable start add rem target).1 ∧ NodeInv (w.findOrCreateTable start add rem target).1 ∧
    GraphInv (w.findOrCreateTable start add rem target).1 ∧
    ∀ t, (w.findOrCreateTable start add rem target).2 = .ok t →
      t < (w.findOrCreateTable start add rem target).1.tables.size ∧
      ((w.findOrCreateTable start add rem target).1.nodeOf ((w.findOrCreateTable start add rem target).1.tableOf t).node).mask
        = newMask (w.tableMask start) add rem := by
  unfold findOrCreateTable
  simp only []
  have h0 : WOK w { w := w, curr := (w.tableOf start).node, mask := (w.nodeOf (w.tableOf start).node).mask, rel := (w.nodeOf (w.tableOf start).node).rel } :=
    ⟨SameRows.refl w, hI, hG, hI.tnode start hs, rfl⟩
  obtain ⟨h1, hm1⟩ := walkRems_spec w w.reg rem _ h0 hrem
  generalize hs1 : rem.foldl (walkRem w.reg) { w := w, curr := (w.tableOf start).node, mask := (w.nodeOf (w.tableOf start).node).mask, rel := (w.nodeOf (w.tableOf start).node).rel } = s1 at *
  obtain ⟨h2, hm2⟩ := walkAdds_spec w w.reg (w.nodeOf (w.tableOf start).node).mask add s1 h1
  generalize hs2 : walkAdds w.reg (w.nodeOf (w.tableOf start).node).mask s1 add = r2 at *
  obtain ⟨s2, p⟩ := r2
  simp only [] at h2 hm2 ⊢
  cases p with
  | some e => simp only []; exact ⟨h2.same, h2.node, h2.graph, fun t ht => by cases ht⟩
  | none =>
    simp only []
    have hmask : s2.mask = newMask (w.tableMask start) add rem := by
      rw [hm2 rfl, hm1]; rfl
    cases hg : s2.w.nodeGetTable s2.curr target with
    | some t =>
      simp only []
      refine ⟨h2.same, h2.node, h2.graph, ?_⟩
      intro t' ht'; cases ht'
      unfold nodeGetTable at hg
      simp only [] at hg
      split at hg
      · obtain ⟨i, hi, hget⟩ := h2.node.tmap s2.curr h2.curr target t hg
        have := h2.node.tables s2.curr h2.curr i hi
        rw [hget] at this
        exact ⟨this.1, by rw [this.2.1, h2.mask, hmask]⟩
      · have hsz : 0 < (s2.w.nodeOf s2.curr).tables.size := by
          rw [Array.getElem?_eq_some_iff] at hg; exact hg.1
        have := h2.node.tables s2.curr h2.curr 0 hsz
        have hget : (s2.w.nodeOf s2.curr).tables.getD 0 0 = t := by
          rw [Array.getD_eq_getD_getElem?, hg]; rfl
        rw [hget] at this
        exact ⟨this.1, by rw [this.2.1, h2.mask, hmask]⟩
    | none =>
      simp only []
      have hempty : (s2.w.nodeOf s2.curr).rel.isSome = false → (s2.w.nodeOf s2.curr).tables.size = 0 := by
        intro hr
        unfold nodeGetTable at hg
        simp only [hr, Bool.false_eq_true, ↓reduceIte] at hg
        rw [Array.getElem?_eq_none_iff] at hg; omega
      obtain ⟨c1, c2, c3, c4⟩ := createTable_spec s2.w h2.node s2.curr h2.curr target true hempty
      have hG3 : GraphInv (s2.w.createTable s2.curr target true).1 := graphInv_createTable _ h2.graph _ _ _
      refine ⟨SameRows.trans h2.same c1, c2, hG3, ?_⟩
      intro t' ht'; cases ht'
      refine ⟨c3, ?_⟩
      rw [c4, (c1.nodes s2.curr h2.curr).2.1, h2.mask, hmask]


/-- a successful walk over `add` means no added id was in the starting mask -/
theorem walkAdds_none_absent (reg : Registry) (m0 : Mask) (l : List CompId) (s : WalkSt)
    (h : (walkAdds reg m0 s l).2 = none) : ∀ id ∈ l, Mask.get m0 id = false := by
  induction l generalizing s with
  | nil => intro id hid; cases hid
  | cons x rest ih =>
    unfold walkAdds at h
    cases hr : walkAdd reg m0 s x with
    | error p => rw [hr] at h; simp at h
    | ok s' =>
      rw [hr] at h; simp only [] at h
      intro id hid
      simp only [List.mem_cons] at hid
      rcases hid with rfl | hid
      · unfold walkAdd at hr
        split at hr; · cases hr
        split at hr; · cases hr
        rename_i hp; simpa using hp
      · exact ih s' h id hid

theorem findOrCreateTable_ok_adds (w : World) (start : Nat) (add rem : List CompId) (target : Entity) (t : Nat)
    (h : (w.findOrCreateTable start add rem target).2 = .ok t) : ∀ id ∈ add, Mask.get (w.tableMask start) id = false := by
  unfold findOrCreateTable at h
  simp only [] at h
  generalize hs1 : rem.foldl (walkRem w.reg) { w := w, curr := (w.tableOf start).node, mask := (w.nodeOf (w.tableOf start).node).mask, rel := (w.nodeOf (w.tableOf start).node).rel } = s1 at *
  have := walkAdds_none_absent w.reg (w.nodeOf (w.tableOf start).node).mask add s1
  generalize hs2 : walkAdds w.reg (w.nodeOf (w.tableOf start).node).mask s1 add = r2 at *
  obtain ⟨s2, p⟩ := r2
  cases p with
  | some e => simp at h
  | none => exact this rfl

end Arche.Graph
