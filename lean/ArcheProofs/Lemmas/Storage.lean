/-
  Storage lemmas: tables as arrays of rows; cells, allocation, swap-removal, moved values.
  No world invariant is needed here; these are the facts about the row storage itself.
-/
import ArcheModel.Ops
import ArcheProofs.Lemmas.Arr

namespace Arche.Storage
open Arche Arche.World Arche.Arr

/-! ### access to tables through `setTable` -/

@[simp] theorem tableOf_setTable_eq (w : World) (t : Nat) (tb : Table) (h : t < w.tables.size) :
    (w.setTable t tb).tableOf t = tb := by
  unfold tableOf setTable; simp only []; rw [getD_set_eq _ _ _ _ h]

@[simp] theorem tableOf_setTable_ne (w : World) (t t' : Nat) (tb : Table) (h : t ≠ t') :
    (w.setTable t tb).tableOf t' = w.tableOf t' := by
  unfold tableOf setTable; simp only []; rw [getD_set_ne _ _ _ _ _ h]

@[simp] theorem tables_size_setTable (w : World) (t : Nat) (tb : Table) : (w.setTable t tb).tables.size = w.tables.size := by
  unfold setTable; simp

@[simp] theorem nodes_setTable (w : World) (t : Nat) (tb : Table) : (w.setTable t tb).nodes = w.nodes := rfl
@[simp] theorem index_setTable (w : World) (t : Nat) (tb : Table) : (w.setTable t tb).index = w.index := rfl
@[simp] theorem pool_setTable (w : World) (t : Nat) (tb : Table) : (w.setTable t tb).pool = w.pool := rfl
@[simp] theorem reg_setTable (w : World) (t : Nat) (tb : Table) : (w.setTable t tb).reg = w.reg := rfl
@[simp] theorem nodeOf_setTable (w : World) (t : Nat) (tb : Table) (n : Nat) : (w.setTable t tb).nodeOf n = w.nodeOf n := rfl
@[simp] theorem tables_setIndex (w : World) (i : Nat) (l : Option Loc) : (w.setIndex i l).tables = w.tables := rfl
@[simp] theorem tableOf_setIndex (w : World) (i : Nat) (l : Option Loc) (t : Nat) : (w.setIndex i l).tableOf t = w.tableOf t := rfl
@[simp] theorem nodeOf_setIndex (w : World) (i : Nat) (l : Option Loc) (n : Nat) : (w.setIndex i l).nodeOf n = w.nodeOf n := rfl

/-- the ids of a table do not change when its rows (or target, activity, capacity) change -/
theorem tableIds_setTable (w : World) (t t' : Nat) (tb : Table) (hn : tb.node = (w.tableOf t).node) (h : t < w.tables.size) :
    (w.setTable t tb).tableIds t' = w.tableIds t' := by
  unfold tableIds nodeOfTable
  by_cases e : t = t'
  · subst e; rw [tableOf_setTable_eq _ _ _ h, hn]; rfl
  · rw [tableOf_setTable_ne _ _ _ _ e]; rfl

/-! ### column lookup -/

theorem colOf_some_lt (ids : List CompId) (id : CompId) (c : Nat) (h : colOf ids id = some c) :
    c < ids.length ∧ ids[c]? = some id := by
  unfold colOf at h
  simp only [] at h
  split at h
  · rename_i hlt; cases h
    refine ⟨hlt, ?_⟩
    rw [List.getElem?_eq_getElem hlt]
    congr 1
    exact List.getElem_idxOf hlt
  · cases h

theorem colOf_inj (ids : List CompId) (a b : CompId) (c : Nat) (ha : colOf ids a = some c) (hb : colOf ids b = some c) : a = b := by
  have h1 := (colOf_some_lt ids a c ha).2
  have h2 := (colOf_some_lt ids b c hb).2
  rw [h1] at h2; exact Option.some.inj h2

theorem colOf_isSome_iff (ids : List CompId) (id : CompId) : (colOf ids id).isSome = true ↔ id ∈ ids := by
  unfold colOf
  simp only []
  constructor
  · intro h
    split at h
    · rename_i hlt; exact List.idxOf_lt_length_iff.1 hlt
    · cases h
  · intro h
    have := List.idxOf_lt_length_iff.2 h
    simp [this]

/-! ### cells -/

/-- reading back a written cell -/
theorem cell_setCell_same (w : World) (t r : Nat) (id : CompId) (v : Val) (c : Nat)
    (ht : t < w.tables.size) (hr : r < (w.tableOf t).rows.size)
    (hc : colOf (w.tableIds t) id = some c) (hw : c < ((w.tableOf t).rows.getD r default).vals.length)
    (hz : Mask.get w.reg.zeroSized id = false) :
    (w.setCell t r id v).cell t r id = some v := by
  unfold setCell
  simp only [hc, hz, Bool.false_eq_true, ↓reduceIte]
  unfold cell
  rw [tableIds_setTable _ _ _ _ ?_ ht, hc]
  · simp only []
    rw [tableOf_setTable_eq _ _ _ ht]
    simp only []
    rw [getD_set_eq _ _ _ _ hr]
    simp only []
    rw [List.getD_eq_getElem?_getD, List.getElem?_set_self hw]; rfl
  · rfl

/-- a write to one cell changes no other cell (other table, other row, or other component) -/
theorem cell_setCell_other (w : World) (t r : Nat) (id : CompId) (v : Val) (t' r' : Nat) (id' : CompId)
    (ht : t < w.tables.size) (h : t' ≠ t ∨ r' ≠ r ∨ id' ≠ id) :
    (w.setCell t r id v).cell t' r' id' = w.cell t' r' id' := by
  unfold setCell
  split
  · rfl
  · rename_i c hc
    split
    · rfl
    · unfold cell
      rw [tableIds_setTable _ _ _ _ (by rfl) ht]
      cases hc' : colOf (w.tableIds t') id' with
      | none => rfl
      | some c' =>
        simp only []
        by_cases e : t' = t
        · subst e
          rw [tableOf_setTable_eq _ _ _ ht]
          simp only []
          by_cases er : r' = r
          · subst er
            have hne : id' ≠ id := by
              rcases h with h | h | h
              · exact absurd rfl h
              · exact absurd rfl h
              · exact h
            have hcc : c' ≠ c := by
              intro ecc; subst ecc; exact hne (colOf_inj _ _ _ _ hc' hc)
            rw [getD_set]
            split
            · simp only []
              rw [List.getD_eq_getElem?_getD, List.getElem?_set_ne (fun x => hcc x.symm), ← List.getD_eq_getElem?_getD]
            · rfl
          · rw [getD_set_ne _ _ _ _ _ (fun x => er x.symm)]
        · rw [tableOf_setTable_ne _ _ _ _ (fun x => e x.symm)]

/-- `setCell` changes no row's entity and no row count -/
theorem rows_ent_setCell (w : World) (t r : Nat) (id : CompId) (v : Val) (t' r' : Nat) :
    ((w.setCell t r id v).tableOf t').rows.size = (w.tableOf t').rows.size ∧
    (((w.setCell t r id v).tableOf t').rows.getD r' default).ent = ((w.tableOf t').rows.getD r' default).ent := by
  unfold setCell
  split
  · exact ⟨rfl, rfl⟩
  · split
    · exact ⟨rfl, rfl⟩
    · by_cases e : t = t'
      · subst e
        by_cases ht : t < w.tables.size
        · rw [tableOf_setTable_eq _ _ _ ht]
          simp only [Array.size_setIfInBounds, true_and]
          rw [getD_set]
          split
          · rename_i hc; simp only []; rw [hc.1]
          · rfl
        · have : ∀ tb, (w.setTable t tb).tableOf t = w.tableOf t := by
            intro tb
            unfold tableOf setTable; simp only []
            rw [getD_set]; simp [ht]
          rw [this]; exact ⟨rfl, rfl⟩
      · rw [tableOf_setTable_ne _ _ _ _ e]; exact ⟨rfl, rfl⟩

/-! ### moved values -/

/-- values of a row moved between tables: kept components keep their value, new ones are zero -/
theorem movedVals_get (oldIds newIds : List CompId) (oldVals : List Val) (id : CompId) (c : Nat)
    (hc : colOf newIds id = some c) :
    (movedVals oldIds newIds oldVals).getD c 0 =
      match colOf oldIds id with
      | some c' => oldVals.getD c' 0
      | none => 0 := by
  obtain ⟨hlt, hget⟩ := colOf_some_lt newIds id c hc
  unfold movedVals
  rw [List.getD_eq_getElem?_getD, List.getElem?_map, hget]
  simp only [Option.map_some, Option.getD_some]
  rfl

theorem movedVals_length (oldIds newIds : List CompId) (oldVals : List Val) :
    (movedVals oldIds newIds oldVals).length = newIds.length := by
  unfold movedVals; simp

theorem zeros_getD (n c : Nat) : (zeros n).getD c 0 = 0 := by
  unfold zeros
  rw [List.getD_eq_getElem?_getD]
  by_cases h : c < n
  · simp [h]
  · simp [h]

end Arche.Storage
