/-
  The cache invariant of a world, what `getArchetypes` (uncached) computes, and the
  preservation of the invariant by `createTable`, `removeTable`, `Register`, `Unregister` and by
  everything that does not touch tables' activity / target or the cache.
-/
import ArcheProofs.Lemmas.Cache
import ArcheProofs.Lemmas.Remove

namespace Arche.Cache
open Arche Arche.World Arche.Arr Arche.Storage Arche.IndexInv Arche.SameRows Arche.Graph Arche.Closed Arche.TInv Arche.KInv Arche.Cov Arche.Remove

/-- every registered entry lists exactly the tables its filter selects, once, with an exact
    position map; entry ids are distinct and below the id counter -/
structure CInv (w : World) : Prop where
  entries : ∀ e, e ∈ w.cache → EntryInv w e
  ids : ∀ e, e ∈ w.cache → e.id < w.cacheNext
  idsInj : ∀ (i j : Nat) (a b : CacheEntry), w.cache[i]? = some a → w.cache[j]? = some b → a.id = b.id → i = j

theorem sel_congr {w w' : World} (hn : w'.nodes = w.nodes) (ht : w'.tables = w.tables) (f : Filter) (t : Nat) :
    Sel w' f t ↔ Sel w f t := by
  cases w; cases w'
  simp only at hn ht
  subst hn; subst ht
  exact Iff.rfl

theorem entryInv_congr {w w' : World} (hn : w'.nodes = w.nodes) (ht : w'.tables = w.tables) (e : CacheEntry)
    (h : EntryInv w e) : EntryInv w' e := by
  cases w; cases w'
  simp only at hn ht
  subst hn; subst ht
  exact ⟨h.inj, h.mem, h.sound, h.complete⟩

/-- `Sel` reads a table's existence, activity, target, and its node's mask and relation -/
theorem sel_of_same {w w' : World} (f : Filter) (t : Nat) (hs : t < w'.tables.size ↔ t < w.tables.size)
    (hact : (w'.tableOf t).active = (w.tableOf t).active) (htg : (w'.tableOf t).target = (w.tableOf t).target)
    (hm : w'.tableMask t = w.tableMask t) (hr : w'.tableRel t = w.tableRel t) : Sel w' f t ↔ Sel w f t := by
  unfold Sel
  rw [hs, hact, htg, hm, hr]

theorem addUpd_id (w : World) (t : Nat) (e : CacheEntry) : (addUpd w t e).id = e.id ∧ (addUpd w t e).filter = e.filter := by
  unfold addUpd
  split
  · exact ⟨rfl, rfl⟩
  · split
    · exact ⟨rfl, rfl⟩
    · split
      · split <;> exact ⟨rfl, rfl⟩
      · exact ⟨rfl, rfl⟩

theorem remUpd_id (w : World) (t : Nat) (e : CacheEntry) : (remUpd w t e).id = e.id ∧ (remUpd w t e).filter = e.filter := by
  unfold remUpd
  simp only []
  by_cases hb : (e.indices.isNone && e.filter.sat (w.tableMask t)) = true
  · simp only [hb, ↓reduceIte]
    split <;> exact ⟨rfl, rfl⟩
  · simp only [hb, Bool.false_eq_true, ↓reduceIte]
    split
    · exact ⟨rfl, rfl⟩
    · split <;> exact ⟨rfl, rfl⟩

/-- mapping an id-preserving update over the cache keeps the id bookkeeping -/
theorem ids_map (w : World) (h : CInv w) (u : CacheEntry → CacheEntry) (hu : ∀ e, (u e).id = e.id) :
    (∀ e, e ∈ w.cache.map u → e.id < w.cacheNext) ∧
    (∀ (i j : Nat) (a b : CacheEntry), (w.cache.map u)[i]? = some a → (w.cache.map u)[j]? = some b → a.id = b.id → i = j) := by
  constructor
  · intro e he
    rw [Array.mem_map] at he
    obtain ⟨a, ha, rfl⟩ := he
    rw [hu]; exact h.ids a ha
  · intro i j a b hi hj hab
    rw [Array.getElem?_map] at hi hj
    cases hi0 : w.cache[i]? with
    | none => rw [hi0] at hi; cases hi
    | some a0 =>
      cases hj0 : w.cache[j]? with
      | none => rw [hj0] at hj; cases hj
      | some b0 =>
        rw [hi0] at hi; rw [hj0] at hj
        simp only [Option.map_some, Option.some.injEq] at hi hj
        subst hi; subst hj
        rw [hu, hu] at hab
        exact h.idsInj i j a0 b0 hi0 hj0 hab

/-- adding table `t` to the cache of a world `w1` whose tables differ from those of `w0` (where
    the invariant held) only in `t`, which is now active -/
theorem cinv_cacheAdd (w0 w1 : World) (t : Nat) (h0 : CInv w0) (hc : w1.cache = w0.cache) (hcn : w1.cacheNext = w0.cacheNext)
    (ht : t < w1.tables.size) (hact : (w1.tableOf t).active = true)
    (hnot : ∀ f, ¬ Sel w0 f t)
    (hother : ∀ f t', t' ≠ t → (Sel w1 f t' ↔ Sel w0 f t'))
    (hrel : ∀ t', t' ≠ t → t' < w0.tables.size → w1.tableRel t' = w0.tableRel t') :
    CInv (w1.cacheAdd t) := by
  rw [cacheAdd_eq]
  have h0' : CInv ({ w0 with cache := w1.cache, cacheNext := w1.cacheNext } : World) := by
    rw [hc, hcn]; exact ⟨h0.entries, h0.ids, h0.idsInj⟩
  obtain ⟨a, b⟩ := ids_map _ h0' (addUpd w1 t) (fun e => (addUpd_id w1 t e).1)
  refine ⟨?_, a, b⟩
  intro e he
  simp only [] at he
  rw [Array.mem_map] at he
  obtain ⟨e0, he0, rfl⟩ := he
  have hinv : EntryInv w0 e0 := h0.entries e0 (by rw [← hc]; exact he0)
  have := entryInv_addUpd w0 w1 t e0 hinv ht hact (hnot _) (hother _) hrel
  refine entryInv_congr (w := w1) ?_ ?_ _ this <;> rfl

theorem cinv_cacheRemove (w0 w1 : World) (t : Nat) (h0 : CInv w0) (hc : w1.cache = w0.cache) (hcn : w1.cacheNext = w0.cacheNext)
    (hrelt : (w1.tableRel t).isSome = true) (hmask : w1.tableMask t = w0.tableMask t)
    (hnow : ∀ f, ¬ Sel w1 f t)
    (hother : ∀ f t', t' ≠ t → (Sel w1 f t' ↔ Sel w0 f t'))
    (hrel : ∀ t', t' < w0.tables.size → w1.tableRel t' = w0.tableRel t') :
    CInv (w1.cacheRemove t) := by
  rw [cacheRemove_eq]
  have h0' : CInv ({ w0 with cache := w1.cache, cacheNext := w1.cacheNext } : World) := by
    rw [hc, hcn]; exact ⟨h0.entries, h0.ids, h0.idsInj⟩
  obtain ⟨a, b⟩ := ids_map _ h0' (remUpd w1 t) (fun e => (remUpd_id w1 t e).1)
  refine ⟨?_, a, b⟩
  intro e he
  simp only [] at he
  rw [Array.mem_map] at he
  obtain ⟨e0, he0, rfl⟩ := he
  have hinv : EntryInv w0 e0 := h0.entries e0 (by rw [← hc]; exact he0)
  have := entryInv_remUpd w0 w1 t e0 hinv hrelt hmask (hnow _) (hother _) hrel
  refine entryInv_congr (w := w1) ?_ ?_ _ this <;> rfl

/-- nothing the cache invariant reads changed -/
theorem cinv_frame {w w' : World} (h : CInv w) (hc : w'.cache = w.cache) (hcn : w'.cacheNext = w.cacheNext)
    (hsel : ∀ f t, Sel w' f t ↔ Sel w f t) (hrel : ∀ t, t < w.tables.size → w'.tableRel t = w.tableRel t) : CInv w' := by
  refine ⟨?_, by rw [hc, hcn]; exact h.ids, by rw [hc]; exact h.idsInj⟩
  intro e he
  rw [hc] at he
  have h0 := h.entries e he
  refine ⟨h0.inj, fun t => by rw [hsel]; exact h0.mem t, h0.sound, ?_⟩
  intro ix hix t i hi hr
  rw [hrel t ((h0.mem t).1 ⟨i, hi⟩).1] at hr
  exact h0.complete ix hix t i hi hr

/-! ### `createTable` and `removeTable` -/

theorem sel_other (w w1 : World) (f : Filter) (t' : Nat) (htab : w1.tableOf t' = w.tableOf t')
    (hnode : ∀ n', (w1.nodeOf n').mask = (w.nodeOf n').mask ∧ (w1.nodeOf n').rel = (w.nodeOf n').rel)
    (hsz : t' < w1.tables.size ↔ t' < w.tables.size) : Sel w1 f t' ↔ Sel w f t' := by
  apply sel_of_same f t' hsz (by rw [htab]) (by rw [htab])
  · unfold tableMask nodeOfTable; rw [htab]; exact (hnode _).1
  · unfold tableRel nodeOfTable; rw [htab]; exact (hnode _).2

theorem rel_other (w w1 : World) (t' : Nat) (htab : w1.tableOf t' = w.tableOf t')
    (hnode : ∀ n', (w1.nodeOf n').rel = (w.nodeOf n').rel) : w1.tableRel t' = w.tableRel t' := by
  unfold tableRel nodeOfTable; rw [htab]; exact hnode _

theorem nodeOf_setNode_fields (w : World) (n : Nat) (nd : Node) (n' : Nat) (hm : nd.mask = (w.nodeOf n).mask) (hr : nd.rel = (w.nodeOf n).rel) :
    ((w.setNode n nd).nodeOf n').mask = (w.nodeOf n').mask ∧ ((w.setNode n nd).nodeOf n').rel = (w.nodeOf n').rel := by
  rw [nodeOf_setNode]
  by_cases h : n = n' ∧ n < w.nodes.size
  · rw [if_pos h, ← h.1]; exact ⟨hm, hr⟩
  · rw [if_neg h]; exact ⟨rfl, rfl⟩

theorem cinv_createTable (w : World) (hC : CInv w) (hI : NodeInv w) (hT : TInv w) (n : Nat) (hn : n < w.nodes.size)
    (target : Entity) (fs : Bool) : CInv (w.createTable n target fs).1 := by
  unfold createTable
  simp only []
  by_cases hrel : (w.nodeOf n).rel.isSome = true
  · simp only [hrel, ↓reduceIte]
    cases hfree : (w.nodeOf n).free.getLast? with
    | some k =>
      simp only []
      have hk : k ∈ (w.nodeOf n).free := List.mem_of_getLast? hfree
      have hklt := hI.free n hn k hk
      obtain ⟨htlt, _, _⟩ := hI.tables n hn k hklt
      have hinact := hT.free n hn k hk
      generalize ht : (w.nodeOf n).tables.getD k 0 = t at *
      have hnodes : ∀ n', (((w.setTable t { w.tableOf t with active := true, target := target }).setNode n
            { w.nodeOf n with free := (w.nodeOf n).free.dropLast, tmap := assocSet (w.nodeOf n).tmap target t }).nodeOf n').mask = (w.nodeOf n').mask ∧
          (((w.setTable t { w.tableOf t with active := true, target := target }).setNode n
            { w.nodeOf n with free := (w.nodeOf n).free.dropLast, tmap := assocSet (w.nodeOf n).tmap target t }).nodeOf n').rel = (w.nodeOf n').rel := by
        intro n'
        exact nodeOf_setNode_fields _ _ _ _ rfl rfl
      have htabs : ∀ t', t' ≠ t → ((w.setTable t { w.tableOf t with active := true, target := target }).setNode n
            { w.nodeOf n with free := (w.nodeOf n).free.dropLast, tmap := assocSet (w.nodeOf n).tmap target t }).tableOf t' = w.tableOf t' := by
        intro t' hne
        rw [tableOf_setNode, tableOf_setTable_ne _ _ _ _ (Ne.symm hne)]
      refine cinv_cacheAdd w _ t hC ?_ ?_ ?_ ?_ ?_ ?_ ?_
      · rfl
      · rfl
      · show t < (w.tables.setIfInBounds _ _).size; simpa using htlt
      · rw [tableOf_setNode, tableOf_setTable_eq _ _ _ htlt]
      · intro f hs; rw [hs.2.1] at hinact; cases hinact
      · intro f t' hne
        exact sel_other w _ f t' (htabs t' hne) hnodes (by simp [setNode, setTable])
      · intro t' hne _
        exact rel_other w _ t' (htabs t' hne) (fun n' => (hnodes n').2)
    | none =>
      simp only []
      have hnodes : ∀ n', ((({ w with tables := w.tables.push { node := n, k := (w.nodeOf n).tables.size, target := target, active := true, rows := #[], cap := (w.nodeOf n).capInc } } : World).setNode n
            { w.nodeOf n with active := true, tables := (w.nodeOf n).tables.push w.tables.size, tmap := assocSet (w.nodeOf n).tmap target w.tables.size }).nodeOf n').mask = (w.nodeOf n').mask ∧
          ((({ w with tables := w.tables.push { node := n, k := (w.nodeOf n).tables.size, target := target, active := true, rows := #[], cap := (w.nodeOf n).capInc } } : World).setNode n
            { w.nodeOf n with active := true, tables := (w.nodeOf n).tables.push w.tables.size, tmap := assocSet (w.nodeOf n).tmap target w.tables.size }).nodeOf n').rel = (w.nodeOf n').rel := by
        intro n'
        exact nodeOf_setNode_fields _ _ _ _ rfl rfl
      have htabs : ∀ t', t' ≠ w.tables.size → (({ w with tables := w.tables.push { node := n, k := (w.nodeOf n).tables.size, target := target, active := true, rows := #[], cap := (w.nodeOf n).capInc } } : World).setNode n
            { w.nodeOf n with active := true, tables := (w.nodeOf n).tables.push w.tables.size, tmap := assocSet (w.nodeOf n).tmap target w.tables.size }).tableOf t' = w.tableOf t' := by
        intro t' hne
        rw [tableOf_setNode, tableOf_push, if_neg hne]
      refine cinv_cacheAdd w _ w.tables.size hC ?_ ?_ ?_ ?_ ?_ ?_ ?_
      · rfl
      · rfl
      · show w.tables.size < (w.tables.push _).size; simp
      · rw [tableOf_setNode, tableOf_push, if_pos rfl]
      · intro f hs; exact absurd hs.1 (Nat.lt_irrefl _)
      · intro f t' hne
        apply sel_other w _ f t' (htabs t' hne) hnodes
        show t' < (w.tables.push _).size ↔ _
        simp only [Array.size_push]; omega
      · intro t' hne _
        exact rel_other w _ t' (htabs t' hne) (fun n' => (hnodes n').2)
  · have hrel' : (w.nodeOf n).rel.isSome = false := by simpa using hrel
    simp only [hrel', Bool.false_eq_true, ↓reduceIte]
    have hnodes : ∀ n', ((({ w with tables := w.tables.push { node := n, k := 0, target := Entity.zero, active := true, rows := #[], cap := if fs = true then (w.nodeOf n).capInc else 1 } } : World).setNode n
          { w.nodeOf n with active := true, tables := #[w.tables.size] }).nodeOf n').mask = (w.nodeOf n').mask ∧
        ((({ w with tables := w.tables.push { node := n, k := 0, target := Entity.zero, active := true, rows := #[], cap := if fs = true then (w.nodeOf n).capInc else 1 } } : World).setNode n
          { w.nodeOf n with active := true, tables := #[w.tables.size] }).nodeOf n').rel = (w.nodeOf n').rel := by
      intro n'
      exact nodeOf_setNode_fields _ _ _ _ rfl rfl
    have htabs : ∀ t', t' ≠ w.tables.size → (({ w with tables := w.tables.push { node := n, k := 0, target := Entity.zero, active := true, rows := #[], cap := if fs = true then (w.nodeOf n).capInc else 1 } } : World).setNode n
          { w.nodeOf n with active := true, tables := #[w.tables.size] }).tableOf t' = w.tableOf t' := by
      intro t' hne
      rw [tableOf_setNode, tableOf_push, if_neg hne]
    refine cinv_cacheAdd w _ w.tables.size hC ?_ ?_ ?_ ?_ ?_ ?_ ?_
    · rfl
    · rfl
    · show w.tables.size < (w.tables.push _).size; simp
    · rw [tableOf_setNode, tableOf_push, if_pos rfl]
    · intro f hs; exact absurd hs.1 (Nat.lt_irrefl _)
    · intro f t' hne
      apply sel_other w _ f t' (htabs t' hne) hnodes
      show t' < (w.tables.push _).size ↔ _
      simp only [Array.size_push]; omega
    · intro t' hne _
      exact rel_other w _ t' (htabs t' hne) (fun n' => (hnodes n').2)

theorem cinv_removeTable (w : World) (hC : CInv w) (t : Nat) (ht : t < w.tables.size)
    (hrel : (w.nodeOf (w.tableOf t).node).rel.isSome = true) : CInv (w.removeTable t) := by
  unfold removeTable
  simp only []
  have hnodes : ∀ n', (((w.setNode (w.tableOf t).node { w.nodeOf (w.tableOf t).node with
        tmap := assocDel (w.nodeOf (w.tableOf t).node).tmap (w.tableOf t).target,
        free := (w.nodeOf (w.tableOf t).node).free ++ [(w.tableOf t).k] }).setTable t { w.tableOf t with active := false, rows := #[] }).nodeOf n').mask = (w.nodeOf n').mask ∧
      (((w.setNode (w.tableOf t).node { w.nodeOf (w.tableOf t).node with
        tmap := assocDel (w.nodeOf (w.tableOf t).node).tmap (w.tableOf t).target,
        free := (w.nodeOf (w.tableOf t).node).free ++ [(w.tableOf t).k] }).setTable t { w.tableOf t with active := false, rows := #[] }).nodeOf n').rel = (w.nodeOf n').rel := by
    intro n'
    rw [nodeOf_setTable]
    exact nodeOf_setNode_fields _ _ _ _ rfl rfl
  have hself : ((w.setNode (w.tableOf t).node { w.nodeOf (w.tableOf t).node with
        tmap := assocDel (w.nodeOf (w.tableOf t).node).tmap (w.tableOf t).target,
        free := (w.nodeOf (w.tableOf t).node).free ++ [(w.tableOf t).k] }).setTable t { w.tableOf t with active := false, rows := #[] }).tableOf t
      = { w.tableOf t with active := false, rows := #[] } :=
    tableOf_setTable_eq _ _ _ (by show t < (w.setNode _ _).tables.size; exact ht)
  have htabs : ∀ t', t' ≠ t → ((w.setNode (w.tableOf t).node { w.nodeOf (w.tableOf t).node with
        tmap := assocDel (w.nodeOf (w.tableOf t).node).tmap (w.tableOf t).target,
        free := (w.nodeOf (w.tableOf t).node).free ++ [(w.tableOf t).k] }).setTable t { w.tableOf t with active := false, rows := #[] }).tableOf t' = w.tableOf t' := by
    intro t' hne
    rw [tableOf_setTable_ne _ _ _ _ (Ne.symm hne)]; rfl
  refine cinv_cacheRemove w _ t hC ?_ ?_ ?_ ?_ ?_ ?_ ?_
  · rfl
  · rfl
  · unfold tableRel nodeOfTable; rw [hself]; simp only []; rw [(hnodes _).2]; exact hrel
  · unfold tableMask nodeOfTable; rw [hself]; simp only []; exact (hnodes _).1
  · intro f hs; have h2 := hs.2.1; rw [hself] at h2; exact absurd h2 (by simp)
  · intro f t' hne
    exact sel_other w _ f t' (htabs t' hne) hnodes (by simp [setNode, setTable])
  · intro t' _
    by_cases e : t' = t
    · subst e
      unfold tableRel nodeOfTable; rw [hself]; simp only []; exact (hnodes _).2
    · exact rel_other w _ t' (htabs t' e) (fun n' => (hnodes n').2)

theorem cinv_cleanupTable (w : World) (hC : CInv w) (t : Nat) (ht : t < w.tables.size) : CInv (w.cleanupTable t) := by
  unfold cleanupTable
  simp only []
  split
  · exact hC
  · rename_i hc
    split
    · exact hC
    · simp only [Bool.or_eq_true, decide_eq_true_eq, not_or, Bool.not_eq_true, Option.isNone_iff_eq_none] at hc
      apply cinv_removeTable w hC t ht
      cases hr : (w.nodeOf (w.tableOf t).node).rel
      · exact absurd hr hc.1.2
      · rfl

/-! ### the graph walk leaves the cache alone -/

/-- tables and cache untouched, old nodes keep mask and relation (closed under the two
    graph-walk steps) -/
structure CacheSame (w w' : World) : Prop where
  tables : w'.tables = w.tables
  cache : w'.cache = w.cache
  next : w'.cacheNext = w.cacheNext
  nsize : w.nodes.size ≤ w'.nodes.size
  old : ∀ n, n < w.nodes.size → (w'.nodeOf n).mask = (w.nodeOf n).mask ∧ (w'.nodeOf n).rel = (w.nodeOf n).rel

theorem cacheSame_closed : StepClosed CacheSame where
  refl w := ⟨rfl, rfl, rfl, Nat.le_refl _, fun _ _ => ⟨rfl, rfl⟩⟩
  trans a b c h1 h2 := ⟨h2.tables.trans h1.tables, h2.cache.trans h1.cache, h2.next.trans h1.next, Nat.le_trans h1.nsize h2.nsize,
    fun n hn => ⟨(h2.old n (Nat.lt_of_lt_of_le hn h1.nsize)).1.trans (h1.old n hn).1, (h2.old n (Nat.lt_of_lt_of_le hn h1.nsize)).2.trans (h1.old n hn).2⟩⟩
  nbrs w n nb := ⟨rfl, rfl, rfl, by simp [setNode], fun k _ => nodeOf_setNode_fields _ _ _ _ rfl rfl⟩
  node w m r := by
    refine ⟨rfl, rfl, rfl, by simp [createNode], ?_⟩
    intro k hk
    unfold createNode nodeOf; simp only []
    rw [getD_push]; simp [Nat.ne_of_lt hk]

theorem cinv_cacheSame {w w' : World} (h : CacheSame w w') (hn : TNodeOK w) (hC : CInv w) : CInv w' := by
  have hto : ∀ t, w'.tableOf t = w.tableOf t := by intro t; unfold tableOf; rw [h.tables]
  have hrel : ∀ t, t < w.tables.size → w'.tableRel t = w.tableRel t := by
    intro t ht; unfold tableRel nodeOfTable; rw [hto]; exact (h.old _ (hn t ht)).2
  have hmask : ∀ t, t < w.tables.size → w'.tableMask t = w.tableMask t := by
    intro t ht; unfold tableMask nodeOfTable; rw [hto]; exact (h.old _ (hn t ht)).1
  apply cinv_frame hC h.cache h.next _ hrel
  intro f t
  by_cases ht : t < w.tables.size
  · exact sel_of_same f t (by rw [h.tables]) (by rw [hto]) (by rw [hto]) (hmask t ht) (hrel t ht)
  · constructor
    · intro hs; exact absurd (by rw [← h.tables]; exact hs.1) ht
    · intro hs; exact absurd hs.1 ht

/-! ### what the uncached `getArchetypes` computes -/

theorem mem_matchingTables (w : World) (hK : KInv w) (hV : CovInv w) (f : Filter) (t : Nat) :
    t ∈ w.matchingTables f ↔ Sel w f t := by
  unfold matchingTables
  rw [List.mem_flatMap]
  constructor
  · intro ⟨n, hn, ht⟩
    rw [List.mem_range] at hn
    simp only [] at ht
    split at ht
    · cases ht
    · rename_i hc
      simp only [Bool.or_eq_true, Bool.not_eq_true', not_or, Bool.not_eq_false] at hc
      split at ht
      · rename_i tg r hft hr
        cases hg : assocGet (w.nodeOf n).tmap tg with
        | none => rw [hg] at ht; cases ht
        | some t0 =>
          rw [hg] at ht
          simp only [Option.toList_some, List.mem_singleton] at ht
          subst ht
          obtain ⟨_, a, b, c, d, _⟩ := tmap_table w hK n tg t hg
          refine ⟨a, c, ?_, ?_⟩
          · unfold tableMask nodeOfTable; rw [b]; exact hc.2
          · intro tg' h1 _; rw [hft] at h1; cases h1; exact d
      · rename_i hnot
        rw [List.mem_filter] at ht
        obtain ⟨hm, hact⟩ := ht
        rw [Array.mem_toList_iff, Array.mem_iff_getElem?] at hm
        obtain ⟨i, hi⟩ := hm
        have hilt : i < (w.nodeOf n).tables.size := by
          apply Classical.byContradiction; intro hx
          rw [Array.getElem?_eq_none (by omega)] at hi; cases hi
        have hget : (w.nodeOf n).tables.getD i 0 = t := by
          rw [Array.getD_eq_getD_getElem?, hi]; rfl
        obtain ⟨a, b, _⟩ := hK.node.tables n hn i hilt
        rw [hget] at a b
        refine ⟨a, hact, ?_, ?_⟩
        · unfold tableMask nodeOfTable; rw [b]; exact hc.2
        · intro tg h1 h2
          unfold tableRel nodeOfTable at h2; rw [b] at h2
          cases hr : (w.nodeOf n).rel with
          | none => rw [hr] at h2; cases h2
          | some r => exact absurd hr (hnot tg r h1)
  · intro ⟨hlt, hact, hsat, htg⟩
    have hnlt := hK.node.tnode t hlt
    obtain ⟨c1, c2⟩ := hV.cover t hlt
    refine ⟨(w.tableOf t).node, List.mem_range.2 hnlt, ?_⟩
    simp only []
    have hnact : (w.nodeOf (w.tableOf t).node).active = true := by
      cases ha : (w.nodeOf (w.tableOf t).node).active
      · have := hV.active _ hnlt ha; rw [this] at c1; simp at c1
      · rfl
    have hsat' : f.sat (w.nodeOf (w.tableOf t).node).mask = true := hsat
    simp only [hnact, hsat', Bool.not_true, Bool.or_self, Bool.false_eq_true, ↓reduceIte]
    split
    · rename_i tg r hft hr
      have hrs : (w.nodeOf (w.tableOf t).node).rel.isSome = true := by rw [hr]; rfl
      have := hK.tgt.complete t hlt hact hrs
      rw [htg tg hft (by unfold tableRel nodeOfTable; exact hrs)] at this
      rw [this]; simp
    · rw [List.mem_filter]
      refine ⟨?_, hact⟩
      rw [Array.mem_toList_iff, Array.mem_iff_getElem?]
      refine ⟨(w.tableOf t).k, ?_⟩
      rw [Array.getElem?_eq_getElem c1]
      rw [Array.getD_eq_getD_getElem?, Array.getElem?_eq_getElem c1] at c2
      exact congrArg some c2

theorem nodup_matchingTables (w : World) (hK : KInv w) (f : Filter) : (w.matchingTables f).Nodup := by
  unfold matchingTables
  rw [List.nodup_iff_pairwise_ne, List.pairwise_flatMap]
  -- every element produced for node `n` belongs to node `n`
  have hnode : ∀ n, n < w.nodes.size → ∀ t, t ∈ (if (!(w.nodeOf n).active || !f.sat (w.nodeOf n).mask) = true then []
        else match f.relTarget?, (w.nodeOf n).rel with
          | some tg, some _ => (assocGet (w.nodeOf n).tmap tg).toList
          | _, _ => (w.nodeOf n).tables.toList.filter (fun t => (w.tableOf t).active)) → (w.tableOf t).node = n := by
    intro n hn t ht
    split at ht
    · cases ht
    · split at ht
      · rename_i tg r _ _
        cases hg : assocGet (w.nodeOf n).tmap tg with
        | none => rw [hg] at ht; cases ht
        | some t0 =>
          rw [hg] at ht
          simp only [Option.toList_some, List.mem_singleton] at ht
          subst ht
          exact (tmap_table w hK n tg t hg).2.2.1
      · rw [List.mem_filter] at ht
        obtain ⟨hm, _⟩ := ht
        rw [Array.mem_toList_iff, Array.mem_iff_getElem?] at hm
        obtain ⟨i, hi⟩ := hm
        have hilt : i < (w.nodeOf n).tables.size := by
          apply Classical.byContradiction; intro hx
          rw [Array.getElem?_eq_none (by omega)] at hi; cases hi
        have hget : (w.nodeOf n).tables.getD i 0 = t := by
          rw [Array.getD_eq_getD_getElem?, hi]; rfl
        have := (hK.node.tables n hn i hilt).2.1
        rw [hget] at this; exact this
  constructor
  · intro n hn
    rw [List.mem_range] at hn
    simp only []
    split
    · exact List.Pairwise.nil
    · split
      · cases assocGet (w.nodeOf n).tmap _ with
        | none => exact List.Pairwise.nil
        | some t0 => simp
      · apply List.Pairwise.sublist (List.filter_sublist)
        rw [List.pairwise_iff_getElem]
        intro i j hi hj hij heq
        simp only [Array.length_toList] at hi hj
        simp only [Array.getElem_toList] at heq
        have := tables_inj w hK.node n hn i j hi hj (by
          rw [Array.getD_eq_getD_getElem?, Array.getD_eq_getD_getElem?, Array.getElem?_eq_getElem hi, Array.getElem?_eq_getElem hj]
          exact congrArg (fun o => Option.getD (some o) 0) heq)
        omega
  · apply List.Pairwise.imp_of_mem (R := fun a b => a ≠ b)
    · intro a b ha hb hab x hx y hy hxy
      rw [List.mem_range] at ha hb
      have h1 := hnode a ha x hx
      have h2 := hnode b hb y hy
      rw [hxy] at h1; rw [h1] at h2; exact hab h2
    · exact List.nodup_range

end Arche.Cache
