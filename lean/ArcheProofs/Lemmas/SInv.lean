/-
  The skeleton invariant `SInv`: everything about nodes, tables and the cache that does not
  depend on which entities sit where — node lists (`NodeInv`), tables/targets/free lists
  (`TInv`), coverage (`CovInv`), cache (`CInv`). Kept by the graph walk, `createTable`,
  `removeTable`, `cleanupTable(s)` and by all row movements; hence by the single-entity
  operations built from them.
-/
import ArcheProofs.Lemmas.CacheWorld

namespace Arche.SInv
open Arche Arche.World Arche.Arr Arche.Storage Arche.IndexInv Arche.SameRows Arche.Graph Arche.Closed Arche.TInv Arche.KInv Arche.Cov Arche.Cache Arche.Remove

structure SInv (w : World) : Prop where
  node : NodeInv w
  tgt : TInv w
  cov : CovInv w
  cache : CInv w

/-- the closed graph-walk steps keep the skeleton (the node invariant of the result is supplied
    by the walk's own specification) -/
theorem sinv_walk {w w2 : World} (hcl : ∀ R, StepClosed R → R w w2) (i2 : NodeInv w2) (h : SInv w) : SInv w2 :=
  ⟨i2, tinv_graphOnly (hcl _ graphOnly_closed) h.node.tnode h.tgt,
   cov_graphOnly (hcl _ graphOnly_closed) (hcl _ actSame_closed) h.node.tnode h.cov,
   cinv_cacheSame (hcl _ cacheSame_closed) h.node.tnode h.cache⟩

theorem sinv_createTable (w : World) (h : SInv w) (n : Nat) (hn : n < w.nodes.size) (target : Entity) (fs : Bool)
    (hfresh : (w.nodeOf n).rel.isSome = true → assocGet (w.nodeOf n).tmap target = none)
    (hempty : (w.nodeOf n).rel.isSome = false → (w.nodeOf n).tables.size = 0) :
    SInv (w.createTable n target fs).1 :=
  ⟨(createTable_spec w h.node n hn target fs hempty).2.1, (tinv_createTable w h.tgt h.node n hn target fs hfresh hempty).1,
   cov_createTable w h.cov h.node n hn target fs hempty, cinv_createTable w h.cache h.node h.tgt n hn target fs⟩

theorem sinv_removeTable (w : World) (h : SInv w) (t : Nat) (ht : t < w.tables.size)
    (hact : (w.tableOf t).active = true) (hrel : (w.nodeOf (w.tableOf t).node).rel.isSome = true) :
    SInv (w.removeTable t) :=
  ⟨nodeInv_removeTable w h.node h.tgt t ht hact hrel, tinv_removeTable w h.tgt h.node t ht hact hrel,
   cov_removeTable w h.cov t, cinv_removeTable w h.cache t ht hrel⟩

theorem sinv_cleanupTable (w : World) (h : SInv w) (t : Nat) (ht : t < w.tables.size) : SInv (w.cleanupTable t) := by
  unfold cleanupTable
  simp only []
  split
  · exact h
  · rename_i hc
    split
    · exact h
    · simp only [Bool.or_eq_true, decide_eq_true_eq, not_or, Bool.not_eq_true, Option.isNone_iff_eq_none] at hc
      apply sinv_removeTable w h t ht
      · simpa using hc.2
      · cases hr : (w.nodeOf (w.tableOf t).node).rel
        · exact absurd hr hc.1.2
        · rfl

/-- the skeleton reads only nodes, tables (not their rows, except that retired tables are
    empty) and the cache -/
theorem sinv_congr {w w' : World} (hn : w'.nodes = w.nodes) (ht : w'.tables = w.tables) (hc : w'.cache = w.cache)
    (hx : w'.cacheNext = w.cacheNext) (h : SInv w) : SInv w' := by
  cases w; cases w'
  simp only at hn ht hc hx
  subst hn; subst ht; subst hc; subst hx
  exact ⟨⟨h.node.tnode, h.node.tables, h.node.free, h.node.tmap⟩,
    ⟨h.tgt.sound, h.tgt.complete, h.tgt.free, h.tgt.freeNodup, h.tgt.empty, h.tgt.norel⟩,
    ⟨h.cov.cover, h.cov.active, h.cov.single, h.cov.nonempty⟩,
    ⟨fun e he => ⟨(h.cache.entries e he).inj, (h.cache.entries e he).mem, (h.cache.entries e he).sound, (h.cache.entries e he).complete⟩,
     h.cache.ids, h.cache.idsInj⟩⟩

theorem cache_dropRow (w : World) (t r : Nat) (ht : t < w.tables.size) (hr : r < (w.tableOf t).rows.size) :
    (dropRow w t r).cache = w.cache ∧ (dropRow w t r).cacheNext = w.cacheNext := by
  unfold dropRow
  simp only []
  rw [removeRowFix_eq _ _ _ ht hr]
  split <;> exact ⟨rfl, rfl⟩

/-- a row movement keeps table fields and nodes, hence `CovInv` and `CInv` -/
theorem rows_frame {w w' : World} (hV : CovInv w) (hC : CInv w) (hts : w'.tables.size = w.tables.size) (hn : w'.nodes = w.nodes)
    (hc : w'.cache = w.cache) (hx : w'.cacheNext = w.cacheNext)
    (hf : ∀ t, (w'.tableOf t).target = (w.tableOf t).target ∧ (w'.tableOf t).active = (w.tableOf t).active ∧
      (w'.tableOf t).k = (w.tableOf t).k ∧ (w'.tableOf t).node = (w.tableOf t).node) :
    CovInv w' ∧ CInv w' := by
  have hno : ∀ n, w'.nodeOf n = w.nodeOf n := by intro n; unfold nodeOf; rw [hn]
  have hrel : ∀ t, w'.tableRel t = w.tableRel t := by
    intro t; unfold tableRel nodeOfTable; rw [(hf t).2.2.2, hno]
  have hmask : ∀ t, w'.tableMask t = w.tableMask t := by
    intro t; unfold tableMask nodeOfTable; rw [(hf t).2.2.2, hno]
  constructor
  · apply cov_frame hV hts (by rw [hn])
    · intro t; exact ⟨(hf t).2.2.1, (hf t).2.2.2⟩
    · intro n; rw [hno]; exact ⟨rfl, rfl, rfl⟩
  · apply cinv_frame hC hc hx _ (fun t _ => hrel t)
    intro f t
    exact sel_of_same f t (by rw [hts]) (hf t).2.1 (hf t).1 (hmask t) (hrel t)

theorem sinv_pushRow (w : World) (h : SInv w) (t : Nat) (ht : t < w.tables.size) (row : Row) (cap : Nat)
    (hact : (w.tableOf t).active = true) : SInv (pushRow w t row cap) := by
  obtain ⟨a, b⟩ := rows_frame (w' := pushRow w t row cap) h.cov h.cache (tables_size_pushRow _ _ _ _) (node_pushRow _ _ _ _ ht 0).2 rfl rfl
    (fun t' => ⟨(fields_pushRow _ _ _ _ ht t').1, (fields_pushRow _ _ _ _ ht t').2.1, (fields_pushRow _ _ _ _ ht t').2.2, (node_pushRow _ _ _ _ ht t').1⟩)
  exact ⟨nodeInv_pushRow w h.node t ht row cap, tinv_pushRow w h.tgt t ht row cap hact, a, b⟩

theorem sinv_dropRow (w : World) (h : SInv w) (t r : Nat) (ht : t < w.tables.size) (hr : r < (w.tableOf t).rows.size) :
    SInv (dropRow w t r) := by
  obtain ⟨a, b⟩ := rows_frame (w' := dropRow w t r) h.cov h.cache (tables_size_dropRow _ _ _ ht hr) (node_dropRow _ _ _ ht hr 0).2
    (cache_dropRow w t r ht hr).1 (cache_dropRow w t r ht hr).2
    (fun t' => ⟨(fields_dropRow _ _ _ ht hr t').1, (fields_dropRow _ _ _ ht hr t').2.1, (fields_dropRow _ _ _ ht hr t').2.2, (node_dropRow _ _ _ ht hr t').1⟩)
  exact ⟨nodeInv_dropRow w h.node t r ht hr, tinv_dropRow w h.tgt t r ht hr, a, b⟩

theorem sinv_markTarget (w : World) (h : SInv w) (t : Entity) : SInv (w.markTarget t) := by
  unfold markTarget; split
  · exact h
  · exact sinv_congr (w := w) rfl rfl rfl rfl h

/-! ### `cleanupTables` -/

theorem sinv_cleanStep (w : World) (hK : KInv w) (h : SInv w) (target : Entity) (n : Nat) : SInv (cleanStep target w n) := by
  unfold cleanStep
  split
  · rename_i t hg
    obtain ⟨_, a, b, c, _, r⟩ := tmap_table w hK n target t hg
    split
    · exact sinv_removeTable w h t a c (by rw [b]; exact r)
    · exact h
  · exact h

theorem sinv_cleanFold (target : Entity) (l : List Nat) (w : World) (hK : KInv w) (h : SInv w) :
    SInv (l.foldl (cleanStep target) w) := by
  induction l generalizing w with
  | nil => exact h
  | cons n rest ih =>
    simp only [List.foldl_cons]
    exact ih _ (cleaned_cleanStep w hK target n).kinv (sinv_cleanStep w hK h target n)

theorem sinv_cleanupTables (w : World) (hK : KInv w) (h : SInv w) (target : Entity) : SInv (w.cleanupTables target) := by
  rw [cleanupTables_eq]; exact sinv_cleanFold target _ w hK h

end Arche.SInv
