/-
  The loop of `exchangeBatchNoNotify` over the selected tables with the row counts recorded when
  the call was made (`exchangeBatchLoop_spec`): every selected entity is moved exactly as
  `exchangeArch_spec` says, relative to the world *at the time of the call*; everybody else is
  untouched.
-/
import ArcheProofs.Lemmas.Frames

namespace Arche.BatchLoop
open Arche Arche.World Arche.Arr Arche.Storage Arche.IndexInv Arche.SameRows Arche.Graph Arche.Closed Arche.TInv Arche.KInv Arche.Move Arche.Remove Arche.Cov Arche.Cache Arche.SInv Arche.Batch Arche.BatchOps Arche.DInv Arche.Frames
open Arche.Props.C01 (At WInv)

/-- the exchange is legal for entities with component set `m`: every removed component is
    present (one after the other), no added component is -/
def Legal (m : Mask) (add rem : List CompId) : Prop := RemOK m rem ∧ ∀ id ∈ add, Mask.get m id = false

/-- the recorded `(table, row count)` list is consistent with the world: distinct tables, and
    every non-empty entry names an existing table that still has the recorded rows and for
    whose component set the exchange is legal -/
structure LensOK (w : World) (add rem : List CompId) (lens : List (Nat × Nat)) : Prop where
  nodup : (lens.map (·.1)).Nodup
  ok : ∀ p ∈ lens, p.2 ≠ 0 → p.1 < w.tables.size ∧ p.2 = (w.tableOf p.1).rows.size ∧ Legal (w.tableMask p.1) add rem

/-- entity `id` is in one of the recorded rows -/
def Sel (w : World) (lens : List (Nat × Nat)) (id : Nat) : Prop :=
  ∃ p ∈ lens, p.2 ≠ 0 ∧ ∃ i, i < p.2 ∧ (rowAt w p.1 i).ent.id = id

theorem exchangeBatchLoop_nil (w : World) (add rem : List CompId) (rel : Option CompId) (target : Entity) (acc : Array BatchEntry) :
    w.exchangeBatchLoop add rem rel target [] acc = (w, .ok acc) := by
  unfold exchangeBatchLoop; rfl

theorem exchangeBatchLoop_zero (w : World) (add rem : List CompId) (rel : Option CompId) (target : Entity) (acc : Array BatchEntry)
    (t : Nat) (rest : List (Nat × Nat)) :
    w.exchangeBatchLoop add rem rel target ((t, 0) :: rest) acc = w.exchangeBatchLoop add rem rel target rest acc := by
  rw [exchangeBatchLoop]; rfl

theorem exchangeBatchLoop_err (w : World) (add rem : List CompId) (rel : Option CompId) (target : Entity) (acc : Array BatchEntry)
    (t ln : Nat) (rest : List (Nat × Nat)) (hln : ln ≠ 0) (p : Panic) (h : (w.exchangeArch t ln add rem rel target).2 = .error p) :
    (w.exchangeBatchLoop add rem rel target ((t, ln) :: rest) acc).2 = .error p := by
  rw [exchangeBatchLoop]
  have : (ln == 0) = false := by simp [hln]
  simp only [this, Bool.false_eq_true, ↓reduceIte]
  generalize w.exchangeArch t ln add rem rel target = r at h
  obtain ⟨w1, o⟩ := r
  simp only [] at h
  subst h
  rfl

theorem exchangeBatchLoop_ok (w : World) (add rem : List CompId) (rel : Option CompId) (target : Entity) (acc : Array BatchEntry)
    (t ln : Nat) (rest : List (Nat × Nat)) (hln : ln ≠ 0) (b : BatchEntry) (h : (w.exchangeArch t ln add rem rel target).2 = .ok b) :
    w.exchangeBatchLoop add rem rel target ((t, ln) :: rest) acc =
      (w.exchangeArch t ln add rem rel target).1.exchangeBatchLoop add rem rel target rest (acc.push b) := by
  rw [exchangeBatchLoop]
  have : (ln == 0) = false := by simp [hln]
  simp only [this, Bool.false_eq_true, ↓reduceIte]
  generalize w.exchangeArch t ln add rem rel target = r at h
  obtain ⟨w1, o⟩ := r
  simp only [] at h
  subst h
  rfl

theorem legal_mask_ne (m1 m2 : Mask) (add rem : List CompId) (h1 : Legal m1 add rem) (h2 : Legal m2 add rem)
    (hne : ¬ (add = [] ∧ rem = [])) : newMask m1 add rem ≠ m2 := by
  intro heq
  cases rem with
  | cons r rest =>
    have hp2 : Mask.get m2 r = true := h2.1.1
    have hp1 : Mask.get m1 r = true := h1.1.1
    have := congrArg (fun x => Mask.get x r) heq
    simp only [Arche.Props.C01.get_newMask, hp1, hp2, List.contains_cons, beq_self_eq_true, Bool.true_or, Bool.not_true, Bool.and_false,
      Bool.false_or] at this
    have hra : add.contains r = false := by
      cases hc : add.contains r
      · rfl
      · have := h1.2 r (by simpa using hc); rw [hp1] at this; cases this
    rw [hra] at this; cases this
  | nil =>
    cases add with
    | nil => exact hne ⟨rfl, rfl⟩
    | cons a rest =>
      have hp : Mask.get m2 a = false := h2.2 a (List.mem_cons_self)
      have := congrArg (fun x => Mask.get x a) heq
      simp [Arche.Props.C01.get_newMask, hp] at this

theorem active_of_nonempty (w : World) (hK : KInv w) (t : Nat) (ht : t < w.tables.size) (h : 0 < (w.tableOf t).rows.size) :
    (w.tableOf t).active = true := by
  cases ha : (w.tableOf t).active
  · have := hK.tgt.empty t ht ha; rw [this] at h; simp at h
  · rfl

theorem archTarget_congr (w w1 : World) (mask : Mask) (rel : Option CompId) (target : Entity) (t : Nat) (rem : List CompId)
    (hreg : w1.reg = w.reg) (htgt : (w1.tableOf t).target = (w.tableOf t).target) (hmask : w1.tableMask t = w.tableMask t) :
    w1.archTarget mask rel target t rem = w.archTarget mask rel target t rem := by
  unfold archTarget keptTarget; simp only []; rw [hreg, htgt, hmask]

/-- what the batch did to the entity that was in row `i` of table `t` of world `w`: in `w'` it
    sits in row `b.start + i` of `b.tbl`, whose component set is `old − rem + add` and whose
    target is the one the rule computes from the entity's old table; kept values are copied,
    added components read zero -/
def MovedTo (w w' : World) (add rem : List CompId) (rel : Option CompId) (target : Entity) (t i : Nat) (b : BatchEntry) : Prop :=
  b.old = some t ∧ b.tbl < w'.tables.size ∧
  loc w' (rowAt w t i).ent.id = some ⟨b.tbl, b.start + i⟩ ∧
  rowAt w' b.tbl (b.start + i) = ⟨(rowAt w t i).ent, movedVals (w.tableIds t) (w'.tableIds b.tbl) (rowAt w t i).vals⟩ ∧
  w'.tableMask b.tbl = newMask (w.tableMask t) add rem ∧
  ∃ mask tgt, exchangeMask (w.tableMask t) add rem = .ok mask ∧ w.archTarget mask rel target t rem = .ok tgt ∧
    (w'.tableOf b.tbl).target = (if (w'.tableRel b.tbl).isSome then tgt else Entity.zero)

structure LoopPost (w w' : World) (add rem : List CompId) (rel : Option CompId) (target : Entity)
    (lens : List (Nat × Nat)) (news : List BatchEntry) : Prop where
  kinv : KInv w'
  sinv : SInv w'
  tsize : w.tables.size ≤ w'.tables.size
  pool : w'.pool = w.pool
  reg : w'.reg = w.reg
  dinv : DInv w → DInv w' ∧ w'.cfg = w.cfg
  binv : (∀ id ∈ add, id < w.reg.count) → BInv w → BInv w'
  sz : Sz w w'
  old : ∀ t, t < w.tables.size → w'.tableIds t = w.tableIds t ∧ w'.tableMask t = w.tableMask t ∧ w'.tableRel t = w.tableRel t
  entries : news.map (fun b => (b.old, b.stop - b.start)) = (lens.filter (fun p => p.2 != 0)).map (fun p => (some p.1, p.2))
  stop : ∀ b ∈ news, b.start ≤ b.stop
  moved : ∀ p ∈ lens, p.2 ≠ 0 → ∀ i, i < p.2 → ∃ b ∈ news, MovedTo w w' add rem rel target p.1 i b
  others : ∀ id l, ¬ Sel w lens id → loc w id = some l →
    loc w' id = some l ∧ rowAt w' l.tbl l.row = rowAt w l.tbl l.row ∧ (w'.tableOf l.tbl).target = (w.tableOf l.tbl).target
  locs : ∀ id, ¬ Sel w lens id → loc w' id = loc w id

theorem sel_cons_zero (w : World) (t : Nat) (rest : List (Nat × Nat)) (id : Nat) : Sel w ((t, 0) :: rest) id ↔ Sel w rest id := by
  constructor
  · rintro ⟨p, hp, hnz, h⟩
    rcases List.mem_cons.1 hp with rfl | hp
    · exact absurd rfl hnz
    · exact ⟨p, hp, hnz, h⟩
  · rintro ⟨p, hp, hnz, h⟩
    exact ⟨p, List.mem_cons_of_mem _ hp, hnz, h⟩

/-- **the loop over the selected tables** -/
theorem exchangeBatchLoop_spec (add rem : List CompId) (rel : Option CompId) (target : Entity) (hne : ¬ (add = [] ∧ rem = [])) :
    ∀ (lens : List (Nat × Nat)) (w : World) (acc : Array BatchEntry) (w' : World) (bs : Array BatchEntry),
      KInv w → SInv w → LensOK w add rem lens →
      w.exchangeBatchLoop add rem rel target lens acc = (w', .ok bs) →
      ∃ news, bs.toList = acc.toList ++ news ∧ LoopPost w w' add rem rel target lens news := by
  intro lens
  induction lens with
  | nil =>
    intro w acc w' bs hK hS _ h
    rw [exchangeBatchLoop_nil] at h
    simp only [Prod.mk.injEq, Except.ok.injEq] at h
    obtain ⟨rfl, rfl⟩ := h
    refine ⟨[], by simp, ⟨hK, hS, Nat.le_refl _, rfl, rfl, fun d => ⟨d, rfl⟩, fun _ b => b, Sz.refl w, fun _ _ => ⟨rfl, rfl, rfl⟩, rfl, ?_, ?_, ?_, fun _ _ => rfl⟩⟩
    · intro b hb; cases hb
    · intro p hp; cases hp
    · intro id l _ hl; exact ⟨hl, rfl, rfl⟩
  | cons hd rest ih =>
    obtain ⟨t, ln⟩ := hd
    intro w acc w' bs hK hS hL h
    have hLrest_nodup : (rest.map (·.1)).Nodup := by
      have := hL.nodup; simp only [List.map_cons, List.nodup_cons] at this; exact this.2
    have htnot : ∀ p ∈ rest, p.1 ≠ t := by
      intro p hp heq
      have := hL.nodup; simp only [List.map_cons, List.nodup_cons] at this
      exact this.1 (by rw [← heq]; exact List.mem_map_of_mem hp)
    by_cases hln : ln = 0
    · subst hln
      rw [exchangeBatchLoop_zero] at h
      have hL' : LensOK w add rem rest := ⟨hLrest_nodup, fun p hp hnz => hL.ok p (List.mem_cons_of_mem _ hp) hnz⟩
      obtain ⟨news, hbs, hP⟩ := ih w acc w' bs hK hS hL' h
      refine ⟨news, hbs, ⟨hP.kinv, hP.sinv, hP.tsize, hP.pool, hP.reg, hP.dinv, hP.binv, hP.sz, hP.old, ?_, hP.stop, ?_, ?_, ?_⟩⟩
      · rw [hP.entries]; simp
      · intro p hp hnz i hi
        rcases List.mem_cons.1 hp with rfl | hp
        · exact absurd rfl hnz
        · exact hP.moved p hp hnz i hi
      · intro id l hns hl
        exact hP.others id l (fun hs => hns ((sel_cons_zero w t rest id).2 hs)) hl
      · intro id hns
        exact hP.locs id (fun hs => hns ((sel_cons_zero w t rest id).2 hs))
    · obtain ⟨htlt, hlen, hlegal⟩ := hL.ok (t, ln) List.mem_cons_self hln
      simp only [] at htlt hlen hlegal
      subst hlen
      cases hA : (w.exchangeArch t (w.tableOf t).rows.size add rem rel target).2 with
      | error p =>
        have := exchangeBatchLoop_err w add rem rel target acc t _ rest hln p hA
        rw [h] at this; cases this
      | ok b =>
        rw [exchangeBatchLoop_ok w add rem rel target acc t _ rest hln b hA] at h
        obtain ⟨mask, tgt, hm, htg, k1, s1, hts1, hp1, hr1, hblt, hbne, hbo, hbstop, hbmask, hbtarget, hmoved, hothers, hold, hsrcrows, hrows, htargets, hlocs⟩ :=
          exchangeArch_spec w hK hS t htlt add rem rel target hne b hA _ rfl
        have hdinv1 := fun d => dinv_exchangeArch w d hK.node t _ htlt add rem rel target b hA
        have hsz1 := sz_exchangeArch w t _ add rem rel target b hA
        have hbinv1 := fun hadd bi => binv_exchangeArch w bi hK.node t _ htlt add rem rel target hadd b hA
        generalize hw1 : (w.exchangeArch t (w.tableOf t).rows.size add rem rel target).1 = w1 at *
        -- the remaining entries are untouched
        have hrest : ∀ p ∈ rest, p.2 ≠ 0 → p.1 < w.tables.size ∧ p.1 ≠ t ∧ p.1 ≠ b.tbl ∧ (w1.tableOf p.1).rows = (w.tableOf p.1).rows := by
          intro p hp hnz
          obtain ⟨a1, a2, a3⟩ := hL.ok p (List.mem_cons_of_mem _ hp) hnz
          have hpt := htnot p hp
          have hpb : p.1 ≠ b.tbl := by
            intro heq
            apply legal_mask_ne _ _ add rem hlegal a3 hne
            rw [← hbmask, ← heq, (hold p.1 a1).2.1]
          exact ⟨a1, hpt, hpb, hrows p.1 a1 hpt hpb⟩
        have hL1 : LensOK w1 add rem rest := by
          refine ⟨hLrest_nodup, ?_⟩
          intro p hp hnz
          obtain ⟨a1, a2, a3⟩ := hL.ok p (List.mem_cons_of_mem _ hp) hnz
          obtain ⟨_, _, _, hr⟩ := hrest p hp hnz
          exact ⟨Nat.lt_of_lt_of_le a1 hts1, by rw [hr]; exact a2, by rw [(hold p.1 a1).2.1]; exact a3⟩
        obtain ⟨news1, hbs, hP⟩ := ih w1 (acc.push b) w' bs k1 s1 hL1 h
        have hrowAt : ∀ p ∈ rest, p.2 ≠ 0 → ∀ i, rowAt w1 p.1 i = rowAt w p.1 i := by
          intro p hp hnz i; unfold rowAt; rw [(hrest p hp hnz).2.2.2]
        -- an entity of the head table is in no later recorded row
        have hnotsel : ∀ i, i < (w.tableOf t).rows.size → ¬ Sel w1 rest (rowAt w t i).ent.id := by
          rintro i hi ⟨p, hp, hnz, j, hj, hje⟩
          obtain ⟨a1, a2, a3⟩ := hL.ok p (List.mem_cons_of_mem _ hp) hnz
          rw [hrowAt p hp hnz] at hje
          have h1 := hK.idx.bwd p.1 j ⟨a1, by rw [← a2]; exact hj⟩
          have h2 := hK.idx.bwd t i ⟨htlt, hi⟩
          rw [hje, h2] at h1
          simp only [Option.some.injEq, Loc.mk.injEq] at h1
          exact htnot p hp h1.1.symm
        refine ⟨b :: news1, by rw [hbs]; simp, ⟨hP.kinv, hP.sinv, Nat.le_trans hts1 hP.tsize, by rw [hP.pool, hp1], by rw [hP.reg, hr1], ?_, ?_, ?_, ?_, ?_, ?_, ?_, ?_, ?_⟩⟩
        · intro d
          obtain ⟨d1, c1⟩ := hdinv1 d
          obtain ⟨d2, c2⟩ := hP.dinv d1
          exact ⟨d2, c2.trans c1⟩
        · intro hadd bi
          exact hP.binv (by rw [hr1]; exact hadd) (hbinv1 hadd bi).1
        · exact Sz.trans hsz1 hP.sz
        · intro t' ht'
          obtain ⟨a, b', c⟩ := hP.old t' (Nat.lt_of_lt_of_le ht' hts1)
          obtain ⟨a', b'', c'⟩ := hold t' ht'
          exact ⟨by rw [a, a'], by rw [b', b''], by rw [c, c']⟩
        · have : ((w.tableOf t).rows.size != 0) = true := by simp [hln]
          simp only [List.map_cons, List.filter_cons, this, ↓reduceIte]
          rw [hP.entries, hbo, hbstop]
          simp
        · intro b' hb'
          rcases List.mem_cons.1 hb' with rfl | hb'
          · rw [hbstop]; omega
          · exact hP.stop b' hb'
        · intro p hp hnz i hi
          rcases List.mem_cons.1 hp with rfl | hp
          · refine ⟨b, List.mem_cons_self, ?_⟩
            simp only [] at hi ⊢
            obtain ⟨m1, m2⟩ := hmoved i hi
            obtain ⟨o1, o2, o3⟩ := hP.others _ _ (hnotsel i hi) m1
            simp only [] at o2 o3
            obtain ⟨q1, q2, q3⟩ := hP.old b.tbl hblt
            refine ⟨hbo, Nat.lt_of_lt_of_le hblt hP.tsize, o1, ?_, by rw [q2]; exact hbmask, mask, tgt, hm, htg, ?_⟩
            · rw [o2, m2, q1]
            · rw [o3, q3]; exact hbtarget
          · obtain ⟨b', hb', n1, n2, n3, n4, n5, mask', tgt', n6, n7, n8⟩ := hP.moved p hp hnz i hi
            obtain ⟨a1, a2, a3, a4⟩ := hrest p hp hnz
            have hact : (w.tableOf p.1).active = true := by
              apply active_of_nonempty w hK p.1 a1
              obtain ⟨_, e2, _⟩ := hL.ok p (List.mem_cons_of_mem _ hp) hnz
              rw [← e2]; omega
            refine ⟨b', List.mem_cons_of_mem _ hb', n1, n2, ?_, ?_, ?_, mask', tgt', ?_, ?_, n8⟩
            · rw [← hrowAt p hp hnz]; exact n3
            · rw [n4, hrowAt p hp hnz, (hold p.1 a1).1]
            · rw [n5, (hold p.1 a1).2.1]
            · rw [← (hold p.1 a1).2.1]; exact n6
            · rw [← archTarget_congr w w1 mask' rel target p.1 rem hr1 (htargets p.1 a1 hact) (hold p.1 a1).2.1]; exact n7
        · intro id l hns hl
          have hnothead : ∀ i, i < (w.tableOf t).rows.size → (rowAt w t i).ent.id ≠ id := by
            intro i hi heq
            exact hns ⟨(t, (w.tableOf t).rows.size), List.mem_cons_self, hln, i, hi, heq⟩
          obtain ⟨c1, c2⟩ := hothers id l hnothead hl
          have hns1 : ¬ Sel w1 rest id := by
            rintro ⟨p, hp, hnz, j, hj, hje⟩
            rw [hrowAt p hp hnz] at hje
            exact hns ⟨p, List.mem_cons_of_mem _ hp, hnz, j, hj, hje⟩
          obtain ⟨d1, d2, d3⟩ := hP.others id l hns1 c1
          have hv := (hK.idx.fwd id l hl).1
          have hact : (w.tableOf l.tbl).active = true := active_of_nonempty w hK l.tbl hv.1 (by have := hv.2; omega)
          exact ⟨d1, by rw [d2, c2], by rw [d3, htargets l.tbl hv.1 hact]⟩
        · intro id hns
          have hnothead : ∀ i, i < (w.tableOf t).rows.size → (rowAt w t i).ent.id ≠ id := by
            intro i hi heq
            exact hns ⟨(t, (w.tableOf t).rows.size), List.mem_cons_self, hln, i, hi, heq⟩
          have hns1 : ¬ Sel w1 rest id := by
            rintro ⟨p, hp, hnz, j, hj, hje⟩
            rw [hrowAt p hp hnz] at hje
            exact hns ⟨p, List.mem_cons_of_mem _ hp, hnz, j, hj, hje⟩
          rw [hP.locs id hns1, hlocs id hnothead]

end Arche.BatchLoop
