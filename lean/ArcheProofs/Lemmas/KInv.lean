/-
  The full structural invariant `KInv` (node lists, neighbour graph, index ↔ rows, tables /
  targets) and its preservation by the building blocks of the single-entity operations:
  `findOrCreateTable`, row push / drop, `markTarget`, `cleanupTable`.
-/
import ArcheProofs.Lemmas.TInv
import ArcheProofs.Lemmas.Move

namespace Arche.KInv
open Arche Arche.World Arche.Arr Arche.Storage Arche.IndexInv Arche.SameRows Arche.Graph Arche.Closed Arche.TInv Arche.Move

structure KInv (w : World) : Prop where
  node : NodeInv w
  graph : GraphInv w
  idx : IdxInv w
  tgt : TInv w

/-! ### `findOrCreateTable` -/

theorem nodeGetTable_some (w : World) (hI : NodeInv w) (hT : TInv w) (n : Nat) (hn : n < w.nodes.size) (target : Entity) (t : Nat)
    (h : w.nodeGetTable n target = some t) :
    t < w.tables.size ∧ (w.tableOf t).node = n ∧ (w.tableOf t).active = true ∧
    (w.tableOf t).target = (if (w.nodeOf n).rel.isSome then target else Entity.zero) := by
  unfold nodeGetTable at h
  simp only [] at h
  by_cases hr : (w.nodeOf n).rel.isSome = true
  · simp only [hr, ↓reduceIte] at h ⊢
    obtain ⟨i, hi, hget⟩ := hI.tmap n hn target t h
    have := hI.tables n hn i hi
    rw [hget] at this
    have hs := hT.sound n hn target t h
    exact ⟨this.1, this.2.1, hs.2.1, hs.1⟩
  · simp only [hr, Bool.false_eq_true, ↓reduceIte] at h ⊢
    have hsz : 0 < (w.nodeOf n).tables.size := by
      rw [Array.getElem?_eq_some_iff] at h; exact h.1
    have := hI.tables n hn 0 hsz
    have hget : (w.nodeOf n).tables.getD 0 0 = t := by
      rw [Array.getD_eq_getD_getElem?, h]; rfl
    rw [hget] at this
    have hrn : (w.nodeOf n).rel = none := by simpa using hr
    have hnr := hT.norel t this.1 (by rw [this.2.1]; exact hrn)
    exact ⟨this.1, this.2.1, hnr.2, hnr.1⟩

/-- `findOrCreateTable` keeps the table / target invariant; the table it returns is active and
    carries the requested target (zero when its component set has no relation) -/
theorem tinv_findOrCreateTable (w : World) (hI : NodeInv w) (hG : GraphInv w) (hT : TInv w) (start : Nat) (hs : start < w.tables.size)
    (add rem : List CompId) (target : Entity) (hrem : RemOK (w.tableMask start) rem) :
    TInv (w.findOrCreateTable start add rem target).1 ∧
    ∀ t, (w.findOrCreateTable start add rem target).2 = .ok t →
      ((w.findOrCreateTable start add rem target).1.tableOf t).active = true ∧
      ((w.findOrCreateTable start add rem target).1.tableOf t).target =
        (if ((w.findOrCreateTable start add rem target).1.tableRel t).isSome then target else Entity.zero) := by
  obtain ⟨w2, n2, s2, i2, g2, hn2, hcl, hres⟩ := findOrCreateTable_parts w hI hG start hs add rem target hrem
  have t2 : TInv w2 := tinv_graphOnly (hcl _ graphOnly_closed) hI.tnode hT
  rcases hres with ⟨p, hp⟩ | ⟨_, ⟨t, hg, hp⟩ | ⟨hg, hp⟩⟩
  · rw [hp]; exact ⟨t2, fun t ht => by cases ht⟩
  · rw [hp]
    refine ⟨t2, ?_⟩
    intro t' ht'; cases ht'
    obtain ⟨a, b, c, d⟩ := nodeGetTable_some w2 i2 t2 n2 hn2 target t hg
    refine ⟨c, ?_⟩
    rw [d]; unfold tableRel nodeOfTable; rw [b]
  · rw [hp]
    simp only []
    have hfresh : (w2.nodeOf n2).rel.isSome = true → assocGet (w2.nodeOf n2).tmap target = none := by
      intro hr; unfold nodeGetTable at hg; simpa [hr] using hg
    have hempty : (w2.nodeOf n2).rel.isSome = false → (w2.nodeOf n2).tables.size = 0 := by
      intro hr
      unfold nodeGetTable at hg
      simp only [hr, Bool.false_eq_true, ↓reduceIte] at hg
      rw [Array.getElem?_eq_none_iff] at hg; omega
    obtain ⟨a, b, c, _⟩ := tinv_createTable w2 t2 i2 n2 hn2 target true hfresh hempty
    obtain ⟨c1, _, _, c4⟩ := createTable_spec w2 i2 n2 hn2 target true hempty
    refine ⟨a, ?_⟩
    intro t' ht'; cases ht'
    refine ⟨b, ?_⟩
    rw [c]; unfold tableRel nodeOfTable; rw [c4, (c1.nodes n2 hn2).2.2]

/-! ### row movements keep node and graph invariants -/

theorem graphInv_of_nodes {w w' : World} (h : w'.nodes = w.nodes) (hG : GraphInv w) : GraphInv w' := by
  refine ⟨?_⟩
  intro n hn id nx hg
  unfold nodeOf at hg ⊢
  rw [h] at hn hg ⊢
  exact hG.links n hn id nx hg

theorem nodeInv_setIndex (w : World) (hI : NodeInv w) (i : Nat) (l : Option Loc) : NodeInv (w.setIndex i l) :=
  ⟨hI.tnode, hI.tables, hI.free, hI.tmap⟩

theorem nodeInv_pushRow (w : World) (hI : NodeInv w) (t : Nat) (ht : t < w.tables.size) (row : Row) (cap : Nat) :
    NodeInv (pushRow w t row cap) := by
  unfold pushRow
  apply nodeInv_setIndex
  apply nodeInv_setTable w hI t _ ht <;> rfl

theorem nodeInv_dropRow (w : World) (hI : NodeInv w) (t r : Nat) (ht : t < w.tables.size) (hr : r < (w.tableOf t).rows.size) :
    NodeInv (dropRow w t r) := by
  unfold dropRow
  simp only []
  rw [removeRowFix_eq _ _ _ ht hr]
  split
  · apply nodeInv_setIndex
    apply nodeInv_setTable w hI t _ ht <;> rfl
  · apply nodeInv_setIndex
    apply nodeInv_setIndex
    apply nodeInv_setTable w hI t _ ht <;> rfl

/-! ### `markTarget`, `removeTable`, `cleanupTable` -/

theorem kinv_flags (w : World) (h : KInv w) (f : Array Bool) : KInv { w with flags := f } :=
  ⟨⟨h.node.tnode, h.node.tables, h.node.free, h.node.tmap⟩, ⟨h.graph.links⟩, ⟨h.idx.fwd, h.idx.bwd, h.idx.width⟩,
   ⟨h.tgt.sound, h.tgt.complete, h.tgt.free, h.tgt.freeNodup, h.tgt.empty, h.tgt.norel⟩⟩

theorem kinv_markTarget (w : World) (h : KInv w) (t : Entity) : KInv (w.markTarget t) := by
  unfold markTarget; split
  · exact h
  · exact kinv_flags w h _

theorem nodeInv_removeTable (w : World) (hI : NodeInv w) (hT : TInv w) (t : Nat) (ht : t < w.tables.size)
    (hact : (w.tableOf t).active = true) (hrel : (w.nodeOf (w.tableOf t).node).rel.isSome = true) :
    NodeInv (w.removeTable t) := by
  obtain ⟨hklt, _⟩ := slot_of_active w hT hI t ht hact hrel
  have hnlt := hI.tnode t ht
  unfold removeTable
  simp only []
  have h1 : NodeInv (w.setNode (w.tableOf t).node { w.nodeOf (w.tableOf t).node with
      tmap := assocDel (w.nodeOf (w.tableOf t).node).tmap (w.tableOf t).target,
      free := (w.nodeOf (w.tableOf t).node).free ++ [(w.tableOf t).k] }) := by
    apply nodeInv_setNode w hI _ hnlt
    · exact hI.tables _ hnlt
    · intro k hk
      simp only [List.mem_append, List.mem_singleton] at hk
      rcases hk with hk | hk
      · exact hI.free _ hnlt k hk
      · rw [hk]; exact hklt
    · intro e t' hg
      simp only [] at hg
      rw [assocGet_assocDel] at hg
      split at hg
      · cases hg
      · exact hI.tmap _ hnlt e t' hg
  have h2 := nodeInv_setTable _ h1 t { w.tableOf t with active := false, rows := #[] } ht rfl rfl
  exact nodeInv_of_cache _ _ rfl h2

theorem kinv_removeTable (w : World) (h : KInv w) (t : Nat) (ht : t < w.tables.size) (hz : (w.tableOf t).rows.size = 0)
    (hact : (w.tableOf t).active = true) (hrel : (w.nodeOf (w.tableOf t).node).rel.isSome = true) :
    KInv (w.removeTable t) := by
  have hs := of_removeTable w t ht hz
  refine ⟨nodeInv_removeTable w h.node h.tgt t ht hact hrel, ?_, SameRows.idxInv hs h.node.tnode h.idx,
    tinv_removeTable w h.tgt h.node t ht hact hrel⟩
  -- neighbour lists and masks are untouched
  refine ⟨?_⟩
  intro n hn id nx hg
  have hno : ∀ m, ((w.removeTable t).nodeOf m).nbrs = (w.nodeOf m).nbrs ∧ ((w.removeTable t).nodeOf m).mask = (w.nodeOf m).mask := by
    intro m
    unfold removeTable
    simp only []
    rw [nodeOf_cacheRemove, nodeOf_setTable, nodeOf_setNode]
    split
    · rename_i hh; rw [hh.1]; exact ⟨rfl, rfl⟩
    · exact ⟨rfl, rfl⟩
  have hsz : (w.removeTable t).nodes.size = w.nodes.size := by
    unfold removeTable; simp only []
    show (w.nodes.setIfInBounds _ _).size = _; simp
  rw [hsz] at hn ⊢
  rw [(hno n).1] at hg
  rw [(hno nx).2, (hno n).2]
  exact h.graph.links n hn id nx hg

theorem kinv_cleanupTable (w : World) (h : KInv w) (t : Nat) (ht : t < w.tables.size) : KInv (w.cleanupTable t) := by
  unfold cleanupTable
  simp only []
  split
  · exact h
  · rename_i hc
    split
    · exact h
    · simp only [Bool.or_eq_true, decide_eq_true_eq, not_or, Bool.not_eq_true, Option.isNone_iff_eq_none] at hc
      apply kinv_removeTable w h t ht (by omega)
      · simpa using hc.2
      · cases hr : (w.nodeOf (w.tableOf t).node).rel
        · exact absurd hr hc.1.2
        · rfl

end Arche.KInv
