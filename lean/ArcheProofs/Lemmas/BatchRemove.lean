/-
  `Batch.RemoveEntities`, one table at a time. While the entities of a table are processed the
  index is already cleared for those handled although their rows are still in the table — the
  index ↔ rows bijection does not hold mid-way. The proof separates the index writes from the rest
  (`removeEntitiesRows_eq`): nothing in the per-entity work (retiring the empty tables of a dead
  target, clearing its flag, recycling the handle) reads the index, so it can be analysed on the
  world with the *original* index, where all invariants hold at every step (`rowsCore_spec`);
  clearing the rows of the table and the index entries of its entities together restores the
  bijection (`tableStep_spec`).
-/
import ArcheProofs.Lemmas.SetRelLoop

namespace Arche.BatchRemove
open Arche Arche.World Arche.Arr Arche.Storage Arche.IndexInv Arche.SameRows Arche.Graph Arche.Closed Arche.TInv Arche.KInv Arche.Move Arche.Remove Arche.Cov Arche.Cache Arche.SInv Arche.DInv Arche.Create Arche.Frames Arche.Batch Arche.BatchOps Arche.GInv Arche.GOps Arche.GVals

/-- the world with another index -/
def wi (w : World) (ix : Array (Option Loc)) : World := { w with index := ix }

theorem wi_removeTable (w : World) (ix : Array (Option Loc)) (t : Nat) : wi (w.removeTable t) ix = (wi w ix).removeTable t := rfl

theorem wi_cleanStep (w : World) (ix : Array (Option Loc)) (e : Entity) (n : Nat) : wi (cleanStep e w n) ix = cleanStep e (wi w ix) n := by
  unfold cleanStep
  have h1 : (wi w ix).nodeOf n = w.nodeOf n := rfl
  rw [h1]
  cases assocGet (w.nodeOf n).tmap e with
  | none => rfl
  | some t =>
    simp only []
    have h2 : (wi w ix).tableOf t = w.tableOf t := rfl
    rw [h2]
    split <;> rfl

theorem wi_cleanFold (e : Entity) (l : List Nat) (w : World) (ix : Array (Option Loc)) :
    wi (l.foldl (cleanStep e) w) ix = l.foldl (cleanStep e) (wi w ix) := by
  induction l generalizing w with
  | nil => rfl
  | cons n ns ih => simp only [List.foldl_cons]; rw [ih, wi_cleanStep]

theorem wi_cleanupTables (w : World) (ix : Array (Option Loc)) (e : Entity) : wi (w.cleanupTables e) ix = (wi w ix).cleanupTables e := by
  rw [cleanupTables_eq, cleanupTables_eq, wi_cleanFold]; rfl

/-- the per-entity work of `removeEntities` without the index write -/
def coreStep (w : World) (e : Entity) : World :=
  let w := if w.flag e.id then (w.cleanupTables e).setFlag e.id false else w
  { w with pool := w.pool.recycle e }

def rowsCore (w : World) (es : List Entity) : World := es.foldl coreStep w

def clearIdx (ix : Array (Option Loc)) (es : List Entity) : Array (Option Loc) := es.foldl (fun a e => a.setIfInBounds e.id none) ix

theorem wi_coreStep (w : World) (ix : Array (Option Loc)) (e : Entity) : wi (coreStep w e) ix = coreStep (wi w ix) e := by
  unfold coreStep
  simp only []
  have hf : (wi w ix).flag e.id = w.flag e.id := rfl
  rw [hf]
  split
  · show wi ({ (w.cleanupTables e).setFlag e.id false with pool := _ } : World) ix = _
    rw [← wi_cleanupTables]; rfl
  · rfl

theorem wi_wi (w : World) (a b : Array (Option Loc)) : wi (wi w a) b = wi w b := rfl
theorem wi_self (w : World) : wi w w.index = w := rfl

/-- `removeEntitiesRows` = the index-free work, with the index entries of the entities cleared -/
theorem removeEntitiesRows_eq (es : List Entity) : ∀ (w : World), w.removeEntitiesRows es = wi (rowsCore w es) (clearIdx w.index es) := by
  induction es with
  | nil => intro w; rfl
  | cons e es ih =>
    intro w
    unfold removeEntitiesRows
    simp only []
    have hstep : ({ (if (w.setIndex e.id none).flag e.id then ((w.setIndex e.id none).cleanupTables e).setFlag e.id false else w.setIndex e.id none) with
        pool := (if (w.setIndex e.id none).flag e.id then ((w.setIndex e.id none).cleanupTables e).setFlag e.id false else w.setIndex e.id none).pool.recycle e } : World) =
        wi (coreStep w e) (w.index.setIfInBounds e.id none) := by
      have : w.setIndex e.id none = wi w (w.index.setIfInBounds e.id none) := rfl
      rw [this, wi_coreStep]; rfl
    rw [hstep, ih]
    unfold rowsCore clearIdx
    simp only [List.foldl_cons]
    have hcomm : ∀ (l : List Entity) (w0 : World) (ix : Array (Option Loc)), wi (l.foldl coreStep (wi w0 ix)) ix = wi (l.foldl coreStep w0) ix := by
      intro l
      induction l with
      | nil => intro w0 ix; rfl
      | cons x xs ihx =>
        intro w0 ix
        simp only [List.foldl_cons]
        rw [← wi_coreStep, ihx]
    have hfold : ∀ (l : List Entity) (w0 : World) (ix ix2 : Array (Option Loc)), wi (l.foldl coreStep (wi w0 ix)) ix2 = wi (l.foldl coreStep w0) ix2 := by
      intro l w0 ix ix2
      have := hcomm l w0 ix
      have h2 : wi (wi (l.foldl coreStep (wi w0 ix)) ix) ix2 = wi (wi (l.foldl coreStep w0) ix) ix2 := by rw [this]
      exact h2
    exact hfold es (coreStep w e) _ _

/-! ## the index-free work keeps every invariant -/

/-- what the index-free work may change: it keeps the invariants, all rows, the index, every
    table's target and node; it only retires empty tables, clears flags and recycles handles -/
structure CoreRel (w w' : World) : Prop where
  kinv : KInv w'
  sinv : SInv w'
  dsame : DSame w w'
  sz : Sz w w'
  tsize : w'.tables.size = w.tables.size
  index : w'.index = w.index
  locks : w'.locks = w.locks
  rows : ∀ t, (w'.tableOf t).rows = (w.tableOf t).rows
  fields : ∀ t, (w'.tableOf t).target = (w.tableOf t).target ∧ (w'.tableOf t).node = (w.tableOf t).node

theorem CoreRel.refl (w : World) (hK : KInv w) (hS : SInv w) : CoreRel w w :=
  ⟨hK, hS, DSame.refl w, Sz.refl w, rfl, rfl, rfl, fun _ => rfl, fun _ => ⟨rfl, rfl⟩⟩

theorem CoreRel.trans {a b c : World} (h1 : CoreRel a b) (h2 : CoreRel b c) : CoreRel a c :=
  ⟨h2.kinv, h2.sinv, DSame.trans h1.dsame h2.dsame, Sz.trans h1.sz h2.sz, h2.tsize.trans h1.tsize, h2.index.trans h1.index, h2.locks.trans h1.locks,
   fun t => (h2.rows t).trans (h1.rows t),
   fun t => ⟨(h2.fields t).1.trans (h1.fields t).1, (h2.fields t).2.trans (h1.fields t).2⟩⟩

theorem coreStep_rel (w : World) (hK : KInv w) (hS : SInv w) (e : Entity) : CoreRel w (coreStep w e) ∧ (coreStep w e).pool = w.pool.recycle e := by
  unfold coreStep
  simp only []
  have h1 : CoreRel w (if w.flag e.id then (w.cleanupTables e).setFlag e.id false else w) ∧
      (if w.flag e.id then (w.cleanupTables e).setFlag e.id false else w).pool = w.pool := by
    split
    · have c := cleaned_cleanupTables w hK e
      have s := sinv_cleanupTables w hK hS e
      have d : DSame w (w.cleanupTables e) := by rw [cleanupTables_eq]; exact dsame_cleanFold e _ w
      have m : Misc w (w.cleanupTables e) := by rw [cleanupTables_eq]; exact misc_cleanFold e _ w
      refine ⟨⟨kinv_flags _ c.kinv _, sinv_congr (w := w.cleanupTables e) rfl rfl rfl rfl s,
        DSame.trans d (DSame.of_setFlag _ _ _), Sz.trans (Sz.of_misc m) (Sz.of_setFlag _ _ _), c.tsize, m.index, m.locks, ?_, c.fields⟩, ?_⟩
      · intro t
        show ((w.cleanupTables e).tableOf t).rows = _
        by_cases ht : t < w.tables.size
        · exact (c.same.rows t ht).1
        · have a : (w.cleanupTables e).tableOf t = default := by
            unfold tableOf; rw [Array.getD_eq_getD_getElem?, Array.getElem?_eq_none (by rw [c.tsize]; omega)]; rfl
          have b' : w.tableOf t = default := by unfold tableOf; rw [Array.getD_eq_getD_getElem?, Array.getElem?_eq_none (by omega)]; rfl
          rw [a, b']
      · show (w.cleanupTables e).pool = w.pool
        exact m.pool
    · exact ⟨CoreRel.refl w hK hS, rfl⟩
  generalize (if w.flag e.id then (w.cleanupTables e).setFlag e.id false else w) = w1 at h1
  obtain ⟨c1, hp1⟩ := h1
  have c2 : CoreRel w1 ({ w1 with pool := w1.pool.recycle e } : World) :=
    ⟨kinv_congr (w := w1) rfl rfl rfl c1.kinv, sinv_congr (w := w1) rfl rfl rfl rfl c1.sinv,
      DSame.of_nodes rfl rfl rfl, ⟨rfl, rfl⟩, rfl, rfl, rfl, fun _ => rfl, fun _ => ⟨rfl, rfl⟩⟩
  exact ⟨CoreRel.trans c1 c2, by show w1.pool.recycle e = _; rw [hp1]⟩

/-- the pool after recycling the handles of a list, in order -/
def recycleAll (p : Pool) (es : List Entity) : Pool := es.foldl Pool.recycle p

theorem rowsCore_rel (es : List Entity) : ∀ (w : World), KInv w → SInv w →
    CoreRel w (rowsCore w es) ∧ (rowsCore w es).pool = recycleAll w.pool es := by
  induction es with
  | nil => intro w hK hS; exact ⟨CoreRel.refl w hK hS, rfl⟩
  | cons e es ih =>
    intro w hK hS
    obtain ⟨c1, p1⟩ := coreStep_rel w hK hS e
    obtain ⟨c2, p2⟩ := ih (coreStep w e) c1.kinv c1.sinv
    unfold rowsCore recycleAll at *
    simp only [List.foldl_cons]
    exact ⟨CoreRel.trans c1 c2, by rw [p2, p1]⟩

/-! ## helpers -/

theorem clearIdx_getD (es : List Entity) (ix : Array (Option Loc)) (id : Nat) :
    (clearIdx ix es).getD id none = if id ∈ es.map (·.id) then none else ix.getD id none := by
  induction es generalizing ix with
  | nil => simp [clearIdx]
  | cons e es ih =>
    unfold clearIdx at ih ⊢
    simp only [List.foldl_cons, List.map_cons, List.mem_cons]
    rw [ih]
    by_cases h1 : id ∈ es.map (·.id)
    · simp [h1]
    · simp only [h1, ↓reduceIte, or_false]
      rw [getD_set]
      by_cases h2 : id = e.id
      · subst h2; simp only [↓reduceIte]
        split
        · rfl
        · rename_i hc
          simp only [true_and, Nat.not_lt] at hc
          rw [Array.getD_eq_getD_getElem?, Array.getElem?_eq_none hc]; rfl
      · simp only [h2, ↓reduceIte]
        rw [if_neg (fun hc => h2 hc.1.symm)]

theorem clearIdx_size (es : List Entity) (ix : Array (Option Loc)) : (clearIdx ix es).size = ix.size := by
  induction es generalizing ix with
  | nil => rfl
  | cons e es ih => unfold clearIdx at ih ⊢; simp only [List.foldl_cons]; rw [ih]; simp

theorem mem_foldl_erase (es live : List Entity) (hnd : live.Nodup) (x : Entity) :
    x ∈ es.foldl List.erase live ↔ x ∈ live ∧ x ∉ es := by
  induction es generalizing live with
  | nil => simp
  | cons e es ih =>
    simp only [List.foldl_cons, List.mem_cons, not_or]
    rw [ih (live.erase e) (hnd.erase e), hnd.mem_erase_iff]
    constructor
    · rintro ⟨⟨a, b⟩, c⟩; exact ⟨b, a, c⟩
    · rintro ⟨a, b, c⟩; exact ⟨⟨b, a⟩, c⟩

theorem nodup_foldl_erase (es live : List Entity) (hnd : live.Nodup) : (es.foldl List.erase live).Nodup := by
  induction es generalizing live with
  | nil => exact hnd
  | cons e es ih => simp only [List.foldl_cons]; exact ih _ (hnd.erase e)

/-- recycling distinct live handles one after the other -/
theorem recycleAll_inv (es : List Entity) : ∀ (p : Pool) (issued live : List Entity) (free : List Nat), PoolInv.Inv p issued live free →
    es.Nodup → (∀ e ∈ es, e ∈ live) →
    ∃ free', PoolInv.Inv (recycleAll p es) issued (es.foldl List.erase live) free' ∧ (recycleAll p es).ents.size = p.ents.size := by
  induction es with
  | nil => intro p issued live free h _ _; exact ⟨free, h, rfl⟩
  | cons e es ih =>
    intro p issued live free h hnd hall
    have he := hall e List.mem_cons_self
    have h1 := PoolInv.recycle_inv p issued live free h e he
    simp only [List.nodup_cons] at hnd
    obtain ⟨free', h2, hsz⟩ := ih (p.recycle e) issued (live.erase e) (e.id :: free) h1 hnd.2 (by
      intro x hx
      rw [h.live_nodup.mem_erase_iff]
      exact ⟨fun heq => hnd.1 (heq ▸ hx), hall x (List.mem_cons_of_mem _ hx)⟩)
    refine ⟨free', by unfold recycleAll at *; simpa using h2, ?_⟩
    unfold recycleAll at *
    simp only [List.foldl_cons]
    rw [hsz]; unfold Pool.recycle; simp

/-! ## one table -/

/-- the entities of a table, in row order -/
def entsOf (w : World) (t : Nat) : List Entity := (w.tableOf t).rows.toList.map (·.ent)

/-- the per-table step of `removeEntities` (after the events were collected) -/
def tableStep (w : World) (t : Nat) : World :=
  let w1 := w.removeEntitiesRows (entsOf w t)
  (w1.setTable t { w1.tableOf t with rows := #[] }).cleanupTable t

theorem mem_entsOf (w : World) (t : Nat) (e : Entity) : e ∈ entsOf w t ↔ ∃ i, i < (w.tableOf t).rows.size ∧ (rowAt w t i).ent = e := by
  unfold entsOf
  rw [List.mem_map]
  constructor
  · rintro ⟨row, hrow, rfl⟩
    obtain ⟨i, hi, hget⟩ := List.getElem_of_mem hrow
    simp only [Array.length_toList] at hi
    refine ⟨i, hi, ?_⟩
    unfold rowAt
    rw [Array.getD_eq_getD_getElem?, Array.getElem?_eq_getElem hi]
    simp only [Array.getElem_toList] at hget
    rw [← hget]; rfl
  · rintro ⟨i, hi, he⟩
    refine ⟨(w.tableOf t).rows[i], by simp, ?_⟩
    rw [← he]; unfold rowAt
    rw [Array.getD_eq_getD_getElem?, Array.getElem?_eq_getElem hi]; rfl

/-- **one table of a batch removal**: the global invariant is kept; the entities of the table
    leave `live` and the index; the table is empty; nothing else moves; the pool recycled the
    handles in row order -/
theorem tableStep_spec (w : World) (issued live : List Entity) (G : GInv w issued live) (t : Nat) (ht : t < w.tables.size) :
    GInv (tableStep w t) issued ((entsOf w t).foldl List.erase live) ∧
    (∀ id, loc (tableStep w t) id = if id ∈ (entsOf w t).map (·.id) then none else loc w id) ∧
    ((tableStep w t).tableOf t).rows = #[] ∧
    (∀ t', t' ≠ t → ((tableStep w t).tableOf t').rows = (w.tableOf t').rows) ∧
    (∀ t', ((tableStep w t).tableOf t').target = (w.tableOf t').target ∧ ((tableStep w t).tableOf t').node = (w.tableOf t').node) ∧
    (tableStep w t).tables.size = w.tables.size ∧ (tableStep w t).pool = recycleAll w.pool (entsOf w t) ∧
    DSame w (tableStep w t) ∧ (tableStep w t).locks = w.locks := by
  unfold tableStep
  simp only []
  rw [removeEntitiesRows_eq]
  obtain ⟨c1, hp1⟩ := rowsCore_rel (entsOf w t) w G.k G.s
  generalize hw1 : rowsCore w (entsOf w t) = w1 at *
  generalize hix : clearIdx w.index (entsOf w t) = ix
  -- the world with the cleared index
  have hto2 : ∀ x, (wi w1 ix).tableOf x = w1.tableOf x := fun _ => rfl
  have hnode2 : ∀ n, (wi w1 ix).nodeOf n = w1.nodeOf n := fun _ => rfl
  generalize hw3 : (wi w1 ix).setTable t { (wi w1 ix).tableOf t with rows := #[] } = w3
  have ht1 : t < w1.tables.size := by rw [c1.tsize]; exact ht
  have hto3 : ∀ x, w3.tableOf x = if t = x then { w1.tableOf t with rows := #[] } else w1.tableOf x := by
    intro x; rw [← hw3]
    by_cases e : t = x
    · subst e; rw [tableOf_setTable_eq _ _ _ (by show t < w1.tables.size; exact ht1)]; simp only [↓reduceIte]; rfl
    · rw [tableOf_setTable_ne _ _ _ _ e]; simp only [e, ↓reduceIte]; rfl
  have hn3 : w3.nodes = w1.nodes := by rw [← hw3]; rfl
  have hts3 : w3.tables.size = w1.tables.size := by rw [← hw3]; simp [setTable]; rfl
  have hf3 : ∀ x, (w3.tableOf x).target = (w1.tableOf x).target ∧ (w3.tableOf x).active = (w1.tableOf x).active ∧
      (w3.tableOf x).k = (w1.tableOf x).k ∧ (w3.tableOf x).node = (w1.tableOf x).node := by
    intro x; rw [hto3]; split
    · rename_i e; subst e; exact ⟨rfl, rfl, rfl, rfl⟩
    · exact ⟨rfl, rfl, rfl, rfl⟩
  have hrows3 : ∀ x, (w3.tableOf x).rows = if t = x then #[] else (w.tableOf x).rows := by
    intro x; rw [hto3]; split
    · rfl
    · exact c1.rows x
  have hloc3 : ∀ id, loc w3 id = if id ∈ (entsOf w t).map (·.id) then none else loc w id := by
    intro id
    have : loc w3 id = ix.getD id none := by rw [← hw3]; rfl
    rw [this, ← hix, clearIdx_getD]; rfl
  have hids3 : ∀ x, w3.tableIds x = w.tableIds x := by
    intro x
    have a : w3.tableIds x = w1.tableIds x := by unfold tableIds nodeOfTable nodeOf; rw [(hf3 x).2.2.2, hn3]
    have b : w1.tableIds x = w.tableIds x := by
      unfold tableIds nodeOfTable; rw [(c1.fields x).2]; exact (c1.dsame.core _).1
    rw [a, b]
  -- invariants of `w3`
  have node3 : NodeInv w3 := by
    rw [← hw3]
    exact nodeInv_setTable (wi w1 ix) ⟨c1.kinv.node.tnode, c1.kinv.node.tables, c1.kinv.node.free, c1.kinv.node.tmap⟩ t _ ht1 rfl rfl
  have tgt2 : TInv (wi w1 ix) := ⟨c1.kinv.tgt.sound, c1.kinv.tgt.complete, c1.kinv.tgt.free, c1.kinv.tgt.freeNodup, c1.kinv.tgt.empty, c1.kinv.tgt.norel⟩
  have tgt3 : TInv w3 := by
    rw [← hw3]
    exact tinv_setRows (wi w1 ix) tgt2 t ht1 _ rfl rfl rfl (fun _ => rfl)
  have idx3 : IdxInv w3 := by
    refine ⟨?_, ?_, ?_⟩
    · intro id l hl
      rw [hloc3] at hl
      split at hl
      · cases hl
      · rename_i hnot
        obtain ⟨hv, hid⟩ := G.k.idx.fwd id l hl
        have hne : t ≠ l.tbl := by
          intro heq
          apply hnot
          rw [List.mem_map]
          exact ⟨(rowAt w l.tbl l.row).ent, (mem_entsOf w t _).2 ⟨l.row, by rw [heq]; exact hv.2, by rw [heq]⟩, hid⟩
        refine ⟨⟨by rw [hts3, c1.tsize]; exact hv.1, by rw [hrows3, if_neg hne]; exact hv.2⟩, ?_⟩
        unfold rowAt at hid ⊢
        rw [hrows3, if_neg hne]; exact hid
    · intro x r hv
      have hne : t ≠ x := by
        intro heq
        have := hv.2
        rw [hrows3, if_pos heq] at this
        simp at this
      have hvw : validRow w x r := ⟨by rw [← c1.tsize, ← hts3]; exact hv.1, by have := hv.2; rw [hrows3, if_neg hne] at this; exact this⟩
      have hrow : rowAt w3 x r = rowAt w x r := by unfold rowAt; rw [hrows3, if_neg hne]
      rw [hrow, hloc3]
      have hb := G.k.idx.bwd x r hvw
      rw [if_neg, hb]
      intro hmem
      rw [List.mem_map] at hmem
      obtain ⟨e', he', heq⟩ := hmem
      obtain ⟨i, hi, hie⟩ := (mem_entsOf w t e').1 he'
      have hb2 := G.k.idx.bwd t i ⟨ht, hi⟩
      rw [hie, heq, hb] at hb2
      simp only [Option.some.injEq, Loc.mk.injEq] at hb2
      exact hne hb2.1.symm
    · intro x r hv
      have hne : t ≠ x := by
        intro heq
        have := hv.2
        rw [hrows3, if_pos heq] at this
        simp at this
      have hvw : validRow w x r := ⟨by rw [← c1.tsize, ← hts3]; exact hv.1, by have := hv.2; rw [hrows3, if_neg hne] at this; exact this⟩
      have hrow : rowAt w3 x r = rowAt w x r := by unfold rowAt; rw [hrows3, if_neg hne]
      rw [hrow, hids3]; exact G.k.idx.width x r hvw
  have k3 : KInv w3 := ⟨node3, graphInv_of_nodes hn3 ⟨c1.kinv.graph.links⟩, idx3, tgt3⟩
  have s2 : SInv (wi w1 ix) := sinv_congr (w := w1) rfl rfl rfl rfl c1.sinv
  obtain ⟨cov3, ci3⟩ := rows_frame (w' := w3) s2.cov s2.cache hts3 hn3 (by rw [← hw3]; rfl) (by rw [← hw3]; rfl) hf3
  have s3 : SInv w3 := ⟨node3, tgt3, cov3, ci3⟩
  have ht3 : t < w3.tables.size := by rw [hts3]; exact ht1
  have k4 := kinv_cleanupTable w3 k3 t ht3
  have s4 := sinv_cleanupTable w3 s3 t ht3
  have sr4 := of_cleanupTable w3 t ht3
  have m4 := misc_cleanupTable w3 t
  have d3 : DSame w w3 := DSame.trans c1.dsame (by rw [← hw3]; exact DSame.of_nodes rfl rfl rfl)
  have d4 : DSame w (w3.cleanupTable t) := DSame.trans d3 (dsame_cleanupTable w3 t)
  have hts4 : (w3.cleanupTable t).tables.size = w.tables.size := by
    have : (w3.cleanupTable t).tables.size = w3.tables.size := by
      unfold cleanupTable; simp only []
      split
      · rfl
      · split
        · rfl
        · unfold removeTable; simp [setTable, setNode, cacheRemove]
    rw [this, hts3, c1.tsize]
  have hpool3 : w3.pool = recycleAll w.pool (entsOf w t) := by rw [← hw3]; exact hp1
  have hrows4 : ∀ x, ((w3.cleanupTable t).tableOf x).rows = (w3.tableOf x).rows := by
    intro x
    by_cases hx : x < w3.tables.size
    · exact (sr4.rows x hx).1
    · have a : (w3.cleanupTable t).tableOf x = default := by
        unfold tableOf; rw [Array.getD_eq_getD_getElem?, Array.getElem?_eq_none (by rw [hts4, ← c1.tsize, ← hts3]; omega)]; rfl
      have b : w3.tableOf x = default := by unfold tableOf; rw [Array.getD_eq_getD_getElem?, Array.getElem?_eq_none (by omega)]; rfl
      rw [a, b]
  have hloc4 : ∀ id, loc (w3.cleanupTable t) id = if id ∈ (entsOf w t).map (·.id) then none else loc w id := by
    intro id; rw [SameRows.loc_eq sr4]; exact hloc3 id
  -- the ghost lists
  obtain ⟨free, hL⟩ := G.link
  have hents_live : ∀ e ∈ entsOf w t, e ∈ live := by
    intro e he
    obtain ⟨i, hi, hie⟩ := (mem_entsOf w t e).1 he
    have hb := G.k.idx.bwd t i ⟨ht, hi⟩
    rw [hie] at hb
    exact (hL.stored e).2 ⟨⟨t, i⟩, hb, hie⟩
  have hents_nodup : (entsOf w t).Nodup := by
    unfold entsOf
    rw [List.nodup_iff_pairwise_ne, List.pairwise_iff_getElem]
    intro i j hi hj hij heq
    simp only [List.length_map, Array.length_toList] at hi hj
    simp only [List.getElem_map, Array.getElem_toList] at heq
    have h1 := G.k.idx.bwd t i ⟨ht, hi⟩
    have h2 := G.k.idx.bwd t j ⟨ht, hj⟩
    have e1 : (rowAt w t i).ent = (w.tableOf t).rows[i].ent := by
      unfold rowAt; rw [Array.getD_eq_getD_getElem?, Array.getElem?_eq_getElem hi]; rfl
    have e2 : (rowAt w t j).ent = (w.tableOf t).rows[j].ent := by
      unfold rowAt; rw [Array.getD_eq_getD_getElem?, Array.getElem?_eq_getElem hj]; rfl
    rw [e1] at h1; rw [e2] at h2
    rw [heq, h2] at h1
    simp only [Option.some.injEq, Loc.mk.injEq, true_and] at h1
    omega
  obtain ⟨free', hP', hpsz⟩ := recycleAll_inv (entsOf w t) w.pool issued live free hL.pool hents_nodup hents_live
  have hisz : (w3.cleanupTable t).index.size = w.index.size := by
    rw [m4.index, ← hw3]
    show ix.size = _
    rw [← hix, clearIdx_size]
  have hfsz : (w3.cleanupTable t).flags.size = w.flags.size := by
    rw [m4.flags, ← hw3]
    show w1.flags.size = _
    exact c1.sz.flags
  refine ⟨⟨k4, s4, d4.dinv G.d, binv_of_dsame d4 G.b, ⟨by rw [hts4]; exact G.root.size, ?_⟩, free', ?_⟩, hloc4, ?_, ?_, ?_, hts4, by rw [m4.pool]; exact hpool3, d4, ?_⟩
  · have hnode0 : ((w3.cleanupTable t).tableOf 0).node = (w.tableOf 0).node := by
      rw [(cleanupTable_fields w3 t 0).2, (hf3 0).2.2.2, (c1.fields 0).2]
    unfold tableMask nodeOfTable
    rw [hnode0, (d4.core _).2.1]; exact G.root.mask
  · refine ⟨by rw [m4.pool, hpool3]; exact hP', by rw [hisz, m4.pool, hpool3, hpsz]; exact hL.isize, by rw [hfsz, hisz]; exact hL.fsize, ?_⟩
    intro e'
    rw [mem_foldl_erase _ _ hL.pool.live_nodup, hL.stored e']
    constructor
    · rintro ⟨⟨l0, h1, h2⟩, hnot⟩
      have hidnot : e'.id ∉ (entsOf w t).map (·.id) := by
        intro hmem
        rw [List.mem_map] at hmem
        obtain ⟨e2, he2, heq⟩ := hmem
        obtain ⟨i, hi, hie⟩ := (mem_entsOf w t e2).1 he2
        have hb := G.k.idx.bwd t i ⟨ht, hi⟩
        rw [hie, heq, h1] at hb
        simp only [Option.some.injEq] at hb
        rw [hb] at h2
        exact hnot (by rw [← h2, hie]; exact he2)
      have hv := (G.k.idx.fwd _ _ h1).1
      have hne : t ≠ l0.tbl := by
        intro heq
        exact hnot ((mem_entsOf w t e').2 ⟨l0.row, by rw [heq]; exact hv.2, by rw [heq]; exact h2⟩)
      refine ⟨l0, by rw [hloc4, if_neg hidnot]; exact h1, ?_⟩
      unfold rowAt at h2 ⊢
      rw [hrows4, hrows3, if_neg hne]; exact h2
    · rintro ⟨l', h1, h2⟩
      rw [hloc4] at h1
      split at h1
      · cases h1
      · rename_i hidnot
        have hv := (G.k.idx.fwd _ _ h1).1
        have hne : t ≠ l'.tbl := by
          intro heq
          apply hidnot
          rw [List.mem_map]
          exact ⟨(rowAt w l'.tbl l'.row).ent, (mem_entsOf w t _).2 ⟨l'.row, by rw [heq]; exact hv.2, by rw [heq]⟩, (G.k.idx.fwd _ _ h1).2⟩
        have h2' : (rowAt w l'.tbl l'.row).ent = e' := by
          unfold rowAt at h2 ⊢
          rw [hrows4, hrows3, if_neg hne] at h2; exact h2
        refine ⟨⟨l', h1, h2'⟩, ?_⟩
        intro hmem
        apply hidnot
        rw [List.mem_map]; exact ⟨e', hmem, rfl⟩
  · rw [hrows4, hrows3, if_pos rfl]
  · intro t' hne; rw [hrows4, hrows3, if_neg (fun h => hne h.symm)]
  · intro t'
    obtain ⟨a, b⟩ := cleanupTable_fields w3 t t'
    rw [a, b, (hf3 t').1, (hf3 t').2.2.2, (c1.fields t').1, (c1.fields t').2]; exact ⟨rfl, rfl⟩
  · rw [m4.locks, ← hw3]
    show w1.locks = w.locks
    exact c1.locks

/-! ## all selected tables -/

/-- the entities in the listed tables, table by table, row by row -/
def selEnts (w : World) (ts : List Nat) : List Entity := ts.flatMap (entsOf w)

theorem removeEntitiesTables_nil (w : World) (cnt : Nat) (evs : List Delivery) : w.removeEntitiesTables [] cnt evs = (w, cnt, evs) := by
  unfold removeEntitiesTables; rfl

theorem removeEntitiesTables_cons (w : World) (t : Nat) (ts : List Nat) (cnt : Nat) (evs : List Delivery) :
    ∃ evs', w.removeEntitiesTables (t :: ts) cnt evs =
      if (w.tableOf t).rows.size = 0 then w.removeEntitiesTables ts cnt evs
      else (tableStep w t).removeEntitiesTables ts (cnt + (w.tableOf t).rows.size) evs' := by
  rw [removeEntitiesTables]
  simp only []
  by_cases h : (w.tableOf t).rows.size = 0
  · simp only [h, beq_self_eq_true, ↓reduceIte]; exact ⟨evs, trivial⟩
  · have : ((w.tableOf t).rows.size == 0) = false := by simp [h]
    simp only [this, Bool.false_eq_true, ↓reduceIte, h]
    exact ⟨_, rfl⟩

theorem entsOf_empty (w : World) (t : Nat) (h : (w.tableOf t).rows.size = 0) : entsOf w t = [] := by
  unfold entsOf
  have : (w.tableOf t).rows = #[] := Array.eq_empty_of_size_eq_zero h
  rw [this]; rfl

theorem entsOf_length (w : World) (t : Nat) : (entsOf w t).length = (w.tableOf t).rows.size := by
  unfold entsOf; simp

theorem recycleAll_append (p : Pool) (a b : List Entity) : recycleAll p (a ++ b) = recycleAll (recycleAll p a) b := by
  unfold recycleAll; rw [List.foldl_append]

/-- **the loop of `Batch.RemoveEntities` over the selected tables** -/
theorem removeTables_spec : ∀ (ts : List Nat) (w : World) (issued live : List Entity) (cnt : Nat) (evs : List Delivery),
    GInv w issued live → ts.Nodup → (∀ t ∈ ts, t < w.tables.size) →
    GInv (w.removeEntitiesTables ts cnt evs).1 issued ((selEnts w ts).foldl List.erase live) ∧
    (w.removeEntitiesTables ts cnt evs).2.1 = cnt + (selEnts w ts).length ∧
    (∀ id, loc (w.removeEntitiesTables ts cnt evs).1 id = if id ∈ (selEnts w ts).map (·.id) then none else loc w id) ∧
    (∀ t ∈ ts, ((w.removeEntitiesTables ts cnt evs).1.tableOf t).rows = #[]) ∧
    (∀ t, t ∉ ts → ((w.removeEntitiesTables ts cnt evs).1.tableOf t).rows = (w.tableOf t).rows) ∧
    (∀ t, ((w.removeEntitiesTables ts cnt evs).1.tableOf t).target = (w.tableOf t).target ∧
      ((w.removeEntitiesTables ts cnt evs).1.tableOf t).node = (w.tableOf t).node) ∧
    (w.removeEntitiesTables ts cnt evs).1.tables.size = w.tables.size ∧
    (w.removeEntitiesTables ts cnt evs).1.pool = recycleAll w.pool (selEnts w ts) ∧
    DSame w (w.removeEntitiesTables ts cnt evs).1 ∧ (w.removeEntitiesTables ts cnt evs).1.locks = w.locks := by
  intro ts
  induction ts with
  | nil =>
    intro w issued live cnt evs G _ _
    rw [removeEntitiesTables_nil]
    refine ⟨G, rfl, fun _ => by simp [selEnts], ?_, fun _ _ => rfl, fun _ => ⟨rfl, rfl⟩, rfl, rfl, DSame.refl w, rfl⟩
    intro t ht; cases ht
  | cons t ts ih =>
    intro w issued live cnt evs G hnd hlt
    obtain ⟨evs', heq⟩ := removeEntitiesTables_cons w t ts cnt evs
    rw [heq]
    simp only [List.nodup_cons] at hnd
    have hlt' : ∀ t' ∈ ts, t' < w.tables.size := fun t' h => hlt t' (List.mem_cons_of_mem _ h)
    by_cases h0 : (w.tableOf t).rows.size = 0
    · simp only [h0, ↓reduceIte]
      obtain ⟨a1, a2, a3, a4, a5, a6, a7, a8, a9, a10⟩ := ih w issued live cnt evs G hnd.2 hlt'
      have hsel : selEnts w (t :: ts) = selEnts w ts := by
        unfold selEnts; simp only [List.flatMap_cons]; rw [entsOf_empty w t h0]; rfl
      rw [hsel]
      refine ⟨a1, a2, a3, ?_, ?_, a6, a7, a8, a9, a10⟩
      · intro t' ht'
        rcases List.mem_cons.1 ht' with rfl | ht'
        · rw [a5 t' hnd.1]; exact Array.eq_empty_of_size_eq_zero h0
        · exact a4 t' ht'
      · intro t' hnot
        exact a5 t' (fun h => hnot (List.mem_cons_of_mem _ h))
    · simp only [h0, ↓reduceIte]
      have htlt := hlt t List.mem_cons_self
      obtain ⟨G1, hloc1, hr1, hro1, hf1, hts1, hp1, hd1, hl1⟩ := tableStep_spec w issued live G t htlt
      generalize hw1 : tableStep w t = w1 at *
      obtain ⟨a1, a2, a3, a4, a5, a6, a7, a8, a9, a10⟩ := ih w1 issued _ (cnt + (w.tableOf t).rows.size) evs' G1 hnd.2 (fun t' h => by rw [hts1]; exact hlt' t' h)
      have hents : ∀ t' ∈ ts, entsOf w1 t' = entsOf w t' := by
        intro t' ht'
        unfold entsOf
        rw [hro1 t' (fun h => hnd.1 (h ▸ ht'))]
      have hsel1 : selEnts w1 ts = selEnts w ts := by
        unfold selEnts
        have : ∀ (l : List Nat), (∀ t' ∈ l, entsOf w1 t' = entsOf w t') → l.flatMap (entsOf w1) = l.flatMap (entsOf w) := by
          intro l
          induction l with
          | nil => intro _; rfl
          | cons x xs ihx =>
            intro hx
            simp only [List.flatMap_cons]
            rw [hx x List.mem_cons_self, ihx (fun t' ht' => hx t' (List.mem_cons_of_mem _ ht'))]
        exact this ts hents
      have hsel : selEnts w (t :: ts) = entsOf w t ++ selEnts w ts := by unfold selEnts; simp only [List.flatMap_cons]
      rw [hsel1] at a1 a2 a3 a8
      rw [hsel]
      refine ⟨by rw [List.foldl_append]; exact a1, by rw [a2, List.length_append, entsOf_length]; omega, ?_, ?_, ?_, ?_, a7.trans hts1, by rw [a8, hp1, recycleAll_append], DSame.trans hd1 a9, a10.trans hl1⟩
      · intro id
        rw [a3, hloc1]
        simp only [List.map_append, List.mem_append]
        by_cases h2 : id ∈ (selEnts w ts).map (·.id)
        · simp [h2]
        · simp only [h2, ↓reduceIte, or_false]
      · intro t' ht'
        rcases List.mem_cons.1 ht' with rfl | ht'
        · rw [a5 t' hnd.1]; exact hr1
        · exact a4 t' ht'
      · intro t' hnot
        rw [a5 t' (fun h => hnot (List.mem_cons_of_mem _ h)), hro1 t' (fun h => hnot (h ▸ List.mem_cons_self))]
      · intro t'
        exact ⟨(a6 t').1.trans (hf1 t').1, (a6 t').2.trans (hf1 t').2⟩

/-- **`Batch.RemoveEntities(filter)`**: never fails on an unlocked world with lock bits to spare
    and a known filter; removes exactly the entities of the selected tables; returns their
    number; keeps the global invariant -/
theorem ginv_removeEntities (w : World) (issued live : List Entity) (G : GInv w issued live) (f : Filter) (n : Nat)
    (hok : (w.removeEntities f).out = .ok n) :
    ∃ ts, w.getTables f = some ts ∧
      GInv (w.removeEntities f).w issued ((selEnts w ts).foldl List.erase live) ∧ n = (selEnts w ts).length ∧
      (∀ id, loc (w.removeEntities f).w id = if id ∈ (selEnts w ts).map (·.id) then none else loc w id) ∧
      (w.removeEntities f).w.pool = recycleAll w.pool (selEnts w ts) ∧
      (∀ id, Arche.Props.C08.view (w.removeEntities f).w id = if id ∈ (selEnts w ts).map (·.id) then none else Arche.Props.C08.view w id) := by
  unfold removeEntities at hok ⊢
  by_cases hl : w.isLocked = true
  · simp [hl, World.fail] at hok
  simp only [hl, Bool.false_eq_true, ↓reduceIte] at hok ⊢
  cases hg : w.getTables f with
  | none => simp [hg, World.fail] at hok
  | some ts =>
    simp only [hg] at hok ⊢
    cases hlk : w.lock with
    | none => simp [hlk, World.fail] at hok
    | some wb =>
      obtain ⟨wl, b⟩ := wb
      simp only [hlk] at hok ⊢
      have Gl := ginv_lock w issued live G wl b hlk
      obtain ⟨hnd, hmem⟩ := Arche.Props.C08.selection w G.k G.s f ts hg
      have hfields : wl.tables = w.tables ∧ wl.index = w.index ∧ wl.pool = w.pool := by
        unfold World.lock at hlk
        split at hlk
        · cases hlk
        · simp only [Option.some.injEq, Prod.mk.injEq] at hlk; rw [← hlk.1]; exact ⟨rfl, rfl, rfl⟩
      have hlt : ∀ t ∈ ts, t < wl.tables.size := by
        intro t ht; rw [hfields.1]; exact ((hmem t).1 ht).1
      obtain ⟨a1, a2, a3, _, a5, a6, _, a8, a9, a10⟩ := removeTables_spec ts wl issued live 0 [] Gl hnd hlt
      have hsel : selEnts wl ts = selEnts w ts := by unfold selEnts entsOf tableOf; rw [hfields.1]
      have hlocl : ∀ id, loc wl id = loc w id := by intro id; unfold loc; rw [hfields.2.1]
      rw [hsel] at a1 a2 a3 a8
      generalize hr : wl.removeEntitiesTables ts 0 [] = r at *
      obtain ⟨w2, cnt, evs⟩ := r
      simp only [] at a1 a2 a3 a5 a6 a8 a9 a10 hok ⊢
      simp only [Except.ok.injEq] at hok
      have hul : ∀ x, ((w2.unlock b).getD w2).tableOf x = w2.tableOf x ∧ ((w2.unlock b).getD w2).nodes = w2.nodes ∧
          ((w2.unlock b).getD w2).index = w2.index := by
        intro x; unfold World.unlock; split <;> exact ⟨rfl, rfl, rfl⟩
      refine ⟨ts, rfl, ?_, by rw [← hok, a2]; omega, ?_, ?_, ?_⟩
      · cases hu : w2.unlock b with
        | none => simp only [Option.getD_none]; exact a1
        | some w3 => simp only [Option.getD_some]; exact ginv_unlock w2 _ _ a1 w3 b hu
      · intro id
        have : loc ((w2.unlock b).getD w2) id = loc w2 id := by
          unfold World.unlock; split <;> rfl
        rw [this, a3, hlocl]
      · have : ((w2.unlock b).getD w2).pool = w2.pool := by unfold World.unlock; split <;> rfl
        rw [this, a8, hfields.2.2]
      · intro id
        have hlocu : loc ((w2.unlock b).getD w2) id = loc w2 id := by unfold loc; rw [(hul 0).2.2]
        by_cases hsel' : id ∈ (selEnts w ts).map (·.id)
        · rw [if_pos hsel']
          exact Arche.Props.C08.view_none _ id (by rw [hlocu, a3, if_pos hsel'])
        · rw [if_neg hsel']
          cases hl0 : loc w id with
          | none =>
            rw [Arche.Props.C08.view_none w id hl0]
            exact Arche.Props.C08.view_none _ id (by rw [hlocu, a3, if_neg hsel', hlocl]; exact hl0)
          | some l =>
            have hv := (G.k.idx.fwd id l hl0)
            have hnotin : l.tbl ∉ ts := by
              intro hin
              apply hsel'
              rw [List.mem_map]
              refine ⟨(rowAt w l.tbl l.row).ent, ?_, hv.2⟩
              unfold selEnts
              rw [List.mem_flatMap]
              exact ⟨l.tbl, hin, (mem_entsOf w l.tbl _).2 ⟨l.row, hv.1.2, rfl⟩⟩
            have htow : ∀ x, wl.tableOf x = w.tableOf x := by intro x; unfold tableOf; rw [hfields.1]
            have hnodesl : wl.nodes = w.nodes := by
              unfold World.lock at hlk
              split at hlk
              · cases hlk
              · simp only [Option.some.injEq, Prod.mk.injEq] at hlk; rw [← hlk.1]
            have hrow : rowAt ((w2.unlock b).getD w2) l.tbl l.row = rowAt w l.tbl l.row := by
              unfold rowAt; rw [(hul l.tbl).1, a5 l.tbl hnotin, htow]
            have hnode : (((w2.unlock b).getD w2).tableOf l.tbl).node = (w.tableOf l.tbl).node := by
              rw [(hul l.tbl).1, (a6 l.tbl).2, htow]
            have hcore : ∀ n, (((w2.unlock b).getD w2).nodeOf n).ids = (w.nodeOf n).ids ∧ (((w2.unlock b).getD w2).nodeOf n).mask = (w.nodeOf n).mask := by
              intro n
              have h1 : ((w2.unlock b).getD w2).nodeOf n = w2.nodeOf n := by unfold nodeOf; rw [(hul 0).2.1]
              have h2 : wl.nodeOf n = w.nodeOf n := by unfold nodeOf; rw [hnodesl]
              rw [h1, (a9.core n).1, (a9.core n).2.1, h2]; exact ⟨rfl, rfl⟩
            rw [Arche.Props.C08.view_of_at w id l.tbl _ ⟨l, hl0, rfl, rfl⟩,
              Arche.Props.C08.view_of_at _ id l.tbl (rowAt w l.tbl l.row) ⟨l, by rw [hlocu, a3, if_neg hsel', hlocl]; exact hl0, rfl, hrow⟩]
            unfold Arche.Props.C08.mkView tableIds tableMask nodeOfTable
            rw [hnode, (hcore _).1, (hcore _).2, (hul l.tbl).1, (a6 l.tbl).1, htow]

end Arche.BatchRemove
