/-
  The entity pool invariant (ecs/pool.go as modelled in ArcheModel.Pool) with ghost history:
  `issued` = every handle issued since init/reset, `live` = the handles currently alive.
  Proved: the invariant holds initially and is preserved by get / recycle / reset.
-/
import ArcheModel.Pool
import ArcheProofs.Lemmas.Arr

namespace Arche.PoolInv
open Arche Arche.Arr

def slot (p : Pool) (i : Nat) : Entity := p.ents.getD i default

/-- the implicit free list: starting at `nx`, following the `.id` fields, visits exactly `free` -/
def Linked (p : Pool) : Nat → List Nat → Prop
  | _, [] => True
  | nx, f :: fs => nx = f ∧ Linked p (slot p f).id fs

theorem linked_frame (p p' : Pool) (fs : List Nat) (nx : Nat)
    (h : ∀ f ∈ fs, slot p' f = slot p f) : Linked p nx fs → Linked p' nx fs := by
  induction fs generalizing nx with
  | nil => intro _; trivial
  | cons f fs ih =>
    intro ⟨h1, h2⟩
    refine ⟨h1, ?_⟩
    rw [h f (List.mem_cons_self)]
    exact ih _ (fun g hg => h g (List.mem_cons_of_mem _ hg)) h2

structure Inv (p : Pool) (issued live : List Entity) (free : List Nat) : Prop where
  size_pos : 1 ≤ p.ents.size
  zero_slot : (slot p 0).gen = 4294967295
  free_nodup : free.Nodup
  free_range : ∀ f ∈ free, 0 < f ∧ f < p.ents.size
  linked : Linked p p.next free
  avail : p.available = free.length
  self_id : ∀ i, 0 < i → i < p.ents.size → i ∉ free → (slot p i).id = i
  live_iff : ∀ h, h ∈ live ↔ (0 < h.id ∧ h.id < p.ents.size ∧ h.id ∉ free ∧ h.gen = (slot p h.id).gen)
  live_nodup : live.Nodup
  issued_gen : ∀ h ∈ issued, 0 < h.id ∧ h.id < p.ents.size ∧ h.gen ≤ (slot p h.id).gen ∧ (h.id ∈ free → h.gen < (slot p h.id).gen)
  live_issued : ∀ h ∈ live, h ∈ issued

theorem inv_init : Inv Pool.init [] [] [] := by
  refine ⟨by decide, by decide, List.nodup_nil, by simp, trivial, rfl, ?_, ?_, List.nodup_nil, by simp, by simp⟩
  · intro i h0 h1; simp [Pool.init] at h1; omega
  · intro h; simp [Pool.init]; omega

/-- `Alive` in terms of the slot -/
theorem alive_eq (p : Pool) (e : Entity) (h : e.id < p.ents.size) :
    p.alive e = (e.gen == (slot p e.id).gen) := by
  unfold Pool.alive Pool.alive? slot
  simp [h, Array.getD_eq_getD_getElem?]

theorem alive_out_of_range (p : Pool) (e : Entity) (h : ¬ e.id < p.ents.size) : p.alive e = false := by
  unfold Pool.alive Pool.alive?; simp [h]

/-! ### get -/

theorem get_inv (p : Pool) (issued live : List Entity) (free : List Nat) (h : Inv p issued live free) :
    ∃ free', Inv (p.get).1 ((p.get).2 :: issued) ((p.get).2 :: live) free' ∧ (p.get).2 ∉ issued ∧
      (p.get).2 ∉ live ∧ 0 < (p.get).2.id := by
  unfold Pool.get
  by_cases ha : p.available = 0
  · -- fresh slot
    have hfree : free = [] := by
      have := h.avail; rw [ha] at this; exact List.length_eq_zero_iff.1 this.symm
    subst hfree
    simp only [ha, beq_self_eq_true, ↓reduceIte]
    have hs := h.size_pos
    have slot_old : ∀ nx av i, i < p.ents.size → slot { ents := p.ents.push ⟨p.ents.size, 0⟩, next := nx, available := av } i = slot p i := by
      intro nx av i hi; unfold slot; simp only []; rw [getD_push]; simp [Nat.ne_of_lt hi]
    have slot_new : ∀ nx av, slot { ents := p.ents.push ⟨p.ents.size, 0⟩, next := nx, available := av } p.ents.size = ⟨p.ents.size, 0⟩ := by
      intro nx av; unfold slot; simp only []; rw [getD_push]; simp
    have fresh : (⟨p.ents.size, 0⟩ : Entity) ∉ issued := by
      intro hm; have := (h.issued_gen _ hm).2.1; simp at this
    refine ⟨[], ⟨?_, ?_, List.nodup_nil, by simp, trivial, rfl, ?_, ?_, ?_, ?_, ?_⟩, fresh, ?_, by show 0 < p.ents.size; omega⟩
    · simp [Array.size_push]
    · rw [slot_old _ _ 0 (by omega)]; exact h.zero_slot
    · intro i h0 h1 _
      simp only [Array.size_push] at h1
      by_cases hi : i = p.ents.size
      · subst hi; rw [slot_new]
      · rw [slot_old _ _ i (by omega)]; exact h.self_id i h0 (by omega) (by simp)
    · intro x
      simp only [List.mem_cons, Array.size_push, List.not_mem_nil, not_false_eq_true, true_and]
      constructor
      · intro hx
        rcases hx with rfl | hx
        · simp only []; rw [slot_new]; simp; omega
        · have := (h.live_iff x).1 hx
          simp only [List.not_mem_nil, not_false_eq_true, true_and] at this
          rw [slot_old _ _ _ this.2.1]; exact ⟨this.1, by omega, this.2.2⟩
      · intro ⟨h0, h1, hg⟩
        by_cases hi : x.id = p.ents.size
        · left
          rw [hi, slot_new] at hg
          cases x; simp only [] at hi hg; simp [hi, hg]
        · right
          rw [slot_old _ _ _ (by omega)] at hg
          exact (h.live_iff x).2 ⟨h0, by omega, by simp, hg⟩
    · refine List.nodup_cons.2 ⟨?_, h.live_nodup⟩
      intro hm; exact fresh (h.live_issued _ hm)
    · intro x hx
      simp only [List.mem_cons] at hx
      simp only [Array.size_push, List.not_mem_nil, false_implies, and_true]
      rcases hx with rfl | hx
      · simp only []; rw [slot_new]; simp; omega
      · have := h.issued_gen x hx
        rw [slot_old _ _ _ this.2.1]; exact ⟨this.1, by omega, this.2.2.1⟩
    · intro x hx
      simp only [List.mem_cons] at hx ⊢
      rcases hx with rfl | hx
      · exact Or.inl rfl
      · exact Or.inr (h.live_issued x hx)
    · intro hm; exact fresh (h.live_issued _ hm)
  · -- recycled slot
    have hne : (p.available == 0) = false := by simp [ha]
    simp only [hne, Bool.false_eq_true, ↓reduceIte]
    obtain ⟨f, fs, hf⟩ : ∃ f fs, free = f :: fs := by
      cases hfr : free with
      | nil => have := h.avail; rw [hfr] at this; simp at this; exact absurd this ha
      | cons f fs => exact ⟨f, fs, rfl⟩
    subst hf
    have hl := h.linked
    obtain ⟨hnext, hlink⟩ := hl
    have hfr := h.free_range f (List.mem_cons_self)
    have hnd := List.nodup_cons.1 h.free_nodup
    -- the new pool
    let p' : Pool := { ents := p.ents.setIfInBounds p.next { (p.ents.getD p.next default) with id := p.next },
                       next := (p.ents.getD p.next default).id, available := p.available - 1 }
    have slot_other : ∀ i, i ≠ f → slot p' i = slot p i := by
      intro i hi; unfold slot; simp only [p']; rw [getD_set_ne _ _ _ _ _ (by rw [hnext]; exact fun e => hi e.symm)]
    have slot_f : slot p' f = ⟨f, (slot p f).gen⟩ := by
      unfold slot; simp only [p']; rw [hnext, getD_set_eq _ _ _ _ hfr.2]
    have size_eq : p'.ents.size = p.ents.size := by simp [p']
    have fresh : (⟨f, (slot p f).gen⟩ : Entity) ∉ issued := by
      intro hm
      have := (h.issued_gen _ hm).2.2.2 (List.mem_cons_self)
      simp at this
    show ∃ free', Inv p' (⟨p.next, (p.ents.getD p.next default).gen⟩ :: issued) (⟨p.next, (p.ents.getD p.next default).gen⟩ :: live) free' ∧ _
    have he : (⟨p.next, (p.ents.getD p.next default).gen⟩ : Entity) = ⟨f, (slot p f).gen⟩ := by
      rw [hnext]; rfl
    rw [he]
    refine ⟨fs, ⟨?_, ?_, hnd.2, ?_, ?_, ?_, ?_, ?_, ?_, ?_, ?_⟩, fresh, ?_, by first | exact hfr.1 | (rw [hnext]; exact hfr.1)⟩
    · rw [size_eq]; exact h.size_pos
    · rw [slot_other 0 (by omega)]; exact h.zero_slot
    · intro g hg; rw [size_eq]; exact h.free_range g (List.mem_cons_of_mem _ hg)
    · show Linked p' (p.ents.getD p.next default).id fs
      rw [hnext]
      apply linked_frame p p' fs _ _ hlink
      intro g hg; apply slot_other; intro e; subst e; exact hnd.1 hg
    · show p.available - 1 = fs.length
      have := h.avail; simp at this; omega
    · intro i h0 h1 hi
      rw [size_eq] at h1
      by_cases hif : i = f
      · subst hif; rw [slot_f]
      · rw [slot_other i hif]; exact h.self_id i h0 h1 (by simp [hif, hi])
    · intro x
      rw [size_eq]
      simp only [List.mem_cons]
      constructor
      · intro hx
        rcases hx with rfl | hx
        · simp only []; rw [slot_f]; exact ⟨hfr.1, hfr.2, hnd.1, rfl⟩
        · have := (h.live_iff x).1 hx
          simp only [List.mem_cons, not_or] at this
          rw [slot_other _ this.2.2.1.1]
          exact ⟨this.1, this.2.1, this.2.2.1.2, this.2.2.2⟩
      · intro ⟨h0, h1, hnf, hg⟩
        by_cases hif : x.id = f
        · left
          rw [hif, slot_f] at hg
          cases x; simp only [] at hif hg; simp [hif, hg]
        · right
          rw [slot_other _ hif] at hg
          exact (h.live_iff x).2 ⟨h0, h1, by simp [hif, hnf], hg⟩
    · refine List.nodup_cons.2 ⟨?_, h.live_nodup⟩
      intro hm; exact fresh (h.live_issued _ hm)
    · intro x hx
      rw [size_eq]
      simp only [List.mem_cons] at hx
      rcases hx with rfl | hx
      · simp only []; rw [slot_f]
        exact ⟨hfr.1, hfr.2, Nat.le_refl _, fun hm => absurd hm hnd.1⟩
      · have hi := h.issued_gen x hx
        by_cases hif : x.id = f
        · rw [hif, slot_f]; simp only []
          have := hi.2.2.2 (by rw [hif]; exact List.mem_cons_self)
          rw [hif] at this
          exact ⟨by omega, hfr.2, Nat.le_of_lt this, fun hm => absurd hm hnd.1⟩
        · rw [slot_other _ hif]
          exact ⟨hi.1, hi.2.1, hi.2.2.1, fun hm => hi.2.2.2 (List.mem_cons_of_mem _ hm)⟩
    · intro x hx
      simp only [List.mem_cons] at hx ⊢
      rcases hx with rfl | hx
      · exact Or.inl rfl
      · exact Or.inr (h.live_issued x hx)
    · intro hm; exact fresh (h.live_issued _ hm)

/-! ### recycle -/

theorem recycle_inv (p : Pool) (issued live : List Entity) (free : List Nat) (h : Inv p issued live free)
    (e : Entity) (he : e ∈ live) :
    Inv (p.recycle e) issued (live.erase e) (e.id :: free) := by
  have hl := (h.live_iff e).1 he
  obtain ⟨h0, h1, hnf, hg⟩ := hl
  let p' := p.recycle e
  have slot_other : ∀ i, i ≠ e.id → slot p' i = slot p i := by
    intro i hi; unfold slot; simp only [p', Pool.recycle]; rw [getD_set_ne _ _ _ _ _ (fun x => hi x.symm)]
  have slot_e : slot p' e.id = ⟨p.next, (slot p e.id).gen + 1⟩ := by
    unfold slot; simp only [p', Pool.recycle]; rw [getD_set_eq _ _ _ _ h1]
  have size_eq : p'.ents.size = p.ents.size := by simp [p', Pool.recycle]
  show Inv p' issued (live.erase e) (e.id :: free)
  refine ⟨?_, ?_, List.nodup_cons.2 ⟨hnf, h.free_nodup⟩, ?_, ?_, ?_, ?_, ?_, h.live_nodup.erase e, ?_, ?_⟩
  · rw [size_eq]; exact h.size_pos
  · rw [slot_other 0 (by omega)]; exact h.zero_slot
  · intro f hf
    rw [size_eq]
    simp only [List.mem_cons] at hf
    rcases hf with rfl | hf
    · exact ⟨h0, h1⟩
    · exact h.free_range f hf
  · show Linked p' e.id (e.id :: free)
    refine ⟨rfl, ?_⟩
    rw [slot_e]; simp only []
    apply linked_frame p p' free _ _ h.linked
    intro g hg; apply slot_other; intro x; subst x; exact hnf hg
  · show p.available + 1 = (e.id :: free).length
    simp [h.avail]
  · intro i hi0 hi1 hi
    rw [size_eq] at hi1
    simp only [List.mem_cons, not_or] at hi
    rw [slot_other i hi.1]; exact h.self_id i hi0 hi1 hi.2
  · intro x
    rw [size_eq]
    rw [h.live_nodup.mem_erase_iff]
    simp only [List.mem_cons, not_or]
    constructor
    · intro ⟨hne, hx⟩
      have := (h.live_iff x).1 hx
      have hid : x.id ≠ e.id := by
        intro hid
        apply hne
        have hxg := this.2.2.2
        rw [hid] at hxg
        cases x; cases e; simp only [] at hid hxg hg; simp [hid, hxg, hg]
      rw [slot_other _ hid]
      exact ⟨this.1, this.2.1, ⟨hid, this.2.2.1⟩, this.2.2.2⟩
    · intro ⟨hx0, hx1, ⟨hid, hxf⟩, hxg⟩
      rw [slot_other _ hid] at hxg
      refine ⟨?_, (h.live_iff x).2 ⟨hx0, hx1, hxf, hxg⟩⟩
      intro heq; subst heq; exact hid rfl
  · intro x hx
    rw [size_eq]
    have hi := h.issued_gen x hx
    by_cases hid : x.id = e.id
    · rw [hid, slot_e]; simp only []
      have := hi.2.2.1; rw [hid] at this
      exact ⟨h0, h1, by omega, fun _ => by omega⟩
    · rw [slot_other _ hid]
      refine ⟨hi.1, hi.2.1, hi.2.2.1, ?_⟩
      intro hm
      simp only [List.mem_cons] at hm
      rcases hm with hm | hm
      · exact absurd hm hid
      · exact hi.2.2.2 hm
  · intro x hx
    exact h.live_issued x (List.mem_of_mem_erase hx)

/-! ### reset -/

theorem reset_inv (p : Pool) (issued live : List Entity) (free : List Nat) (h : Inv p issued live free) :
    Inv p.reset [] [] [] := by
  have hs := h.size_pos
  refine ⟨?_, ?_, List.nodup_nil, by simp, trivial, rfl, ?_, ?_, List.nodup_nil, by simp, by simp⟩
  · simp only [Pool.reset]; rw [size_extract01 _ (by omega)]; omega
  · unfold slot; simp only [Pool.reset]; rw [getD_extract01 _ _ (by omega)]; exact h.zero_slot
  · intro i h0 h1; simp only [Pool.reset] at h1; rw [size_extract01 _ (by omega)] at h1; omega
  · intro x; simp only [Pool.reset, List.not_mem_nil, false_iff, not_and]
    rw [size_extract01 _ (by omega)]; omega

end Arche.PoolInv
