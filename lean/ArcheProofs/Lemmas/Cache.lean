/-
  The filter cache (ecs/cache.go): what a registered entry's table list must be, and that
  `addArchetype` / `removeArchetype` (with the lazily built position map, swap-removal and the
  index fix-up of the swapped element) maintain it.
-/
import ArcheProofs.Lemmas.Cov

namespace Arche.Cache
open Arche Arche.World Arche.Arr Arche.Storage Arche.IndexInv Arche.SameRows Arche.Graph Arche.Closed Arche.TInv Arche.KInv Arche.Cov

/-! ### arrays without duplicates, swap-removal -/

/-- no element occurs at two positions -/
def AInj (a : Array Nat) : Prop := ∀ (i j x : Nat), a[i]? = some x → a[j]? = some x → i = j

theorem removeAt_size (a : Array Nat) (idx : Nat) : (removeAt a idx).1.size = a.size - 1 := by
  unfold removeAt; split <;> simp

theorem removeAt_swap (a : Array Nat) (idx : Nat) : (removeAt a idx).2 = (idx + 1 != a.size) := by
  unfold removeAt; split
  · rename_i h; simp at h; simp [h]
  · rename_i h; simp at h; simp [h]

theorem removeAt_get (a : Array Nat) (idx : Nat) (h : idx < a.size) (i : Nat) :
    (removeAt a idx).1[i]? = if i + 1 < a.size then (if i = idx then a[a.size - 1]? else a[i]?) else none := by
  unfold removeAt
  split
  · rename_i he
    simp only [beq_iff_eq] at he
    simp only [Array.getElem?_pop]
    by_cases hi : i + 1 < a.size
    · have : i < a.size - 1 := by omega
      have hne : i ≠ idx := by omega
      simp [hi, this, hne]
    · have : ¬ i < a.size - 1 := by omega
      simp [hi, this]
  · rename_i he
    simp only [beq_iff_eq] at he
    simp only [Array.getElem?_pop, Array.size_setIfInBounds]
    by_cases hi : i + 1 < a.size
    · have h1 : i < a.size - 1 := by omega
      simp only [h1, ↓reduceIte, hi]
      rw [Array.getElem?_setIfInBounds]
      by_cases e : i = idx
      · subst e
        simp only [↓reduceIte, h]
        rw [Array.getD_eq_getD_getElem?, Array.getElem?_eq_getElem (by omega : a.size - 1 < a.size)]
        rfl
      · simp [e, Ne.symm e]
    · have : ¬ i < a.size - 1 := by omega
      simp [hi, this]

/-! ### association lists with unique keys -/

theorem assocGet_mem {α β} [DecidableEq α] (l : List (α × β)) (a : α) (b : β) (h : assocGet l a = some b) : (a, b) ∈ l := by
  unfold assocGet at h
  split at h
  · rename_i p hp
    cases h
    have h1 := List.mem_of_find?_eq_some hp
    have h2 := List.find?_some hp
    simp only [beq_iff_eq] at h2
    rw [← h2]; exact h1
  · cases h

theorem assocGet_of_mem {α β} [DecidableEq α] (l : List (α × β)) (a : α) (b : β)
    (hu : ∀ b', (a, b') ∈ l → b' = b) (hm : (a, b) ∈ l) : assocGet l a = some b := by
  unfold assocGet
  cases hf : l.find? (fun p => p.1 == a) with
  | none =>
    have := List.find?_eq_none.1 hf (a, b) hm
    simp at this
  | some p =>
    have h1 := List.mem_of_find?_eq_some hf
    have h2 := List.find?_some hf
    simp only [beq_iff_eq] at h2
    obtain ⟨p1, p2⟩ := p
    simp only at h2
    subst h2
    simp only [Option.some.injEq]
    exact hu p2 h1

/-! ### what an entry must list -/

/-- table `t` is selected by filter `f`: it exists, is active, its mask matches and — for a
    relation filter on a table with a relation — its target is the filter's -/
def Sel (w : World) (f : Filter) (t : Nat) : Prop :=
  t < w.tables.size ∧ (w.tableOf t).active = true ∧ f.sat (w.tableMask t) = true ∧
  (∀ tg, f.relTarget? = some tg → (w.tableRel t).isSome = true → (w.tableOf t).target = tg)

structure EntryInv (w : World) (e : CacheEntry) : Prop where
  inj : AInj e.archs
  mem : ∀ t : Nat, (∃ i : Nat, e.archs[i]? = some t) ↔ Sel w e.filter t
  sound : ∀ ix, e.indices = some ix → ∀ t i : Nat, assocGet ix t = some i → e.archs[i]? = some t
  complete : ∀ ix, e.indices = some ix → ∀ t i : Nat, e.archs[i]? = some t → (w.tableRel t).isSome = true → assocGet ix t = some i

/-- `Cache.addArchetype`, for one entry -/
def addUpd (w : World) (t : Nat) (e : CacheEntry) : CacheEntry :=
  if !e.filter.sat (w.tableMask t) then e
  else if !(w.tableRel t).isSome then { e with archs := e.archs.push t }
  else match e.filter.relTarget? with
    | some ft =>
      if ft == (w.tableOf t).target then
        { e with archs := e.archs.push t,
                 indices := e.indices.map (fun ix => assocSet ix t e.archs.size) }
      else e
    | none =>
      { e with archs := e.archs.push t,
               indices := e.indices.map (fun ix => assocSet ix t e.archs.size) }

theorem cacheAdd_eq (w : World) (t : Nat) : w.cacheAdd t = { w with cache := w.cache.map (addUpd w t) } := rfl

/-- `Cache.removeArchetype`, for one entry -/
def remUpd (w : World) (t : Nat) (e : CacheEntry) : CacheEntry :=
  let e := if e.indices.isNone && e.filter.sat (w.tableMask t) then { e with indices := some (w.cacheMapArchetypes e) } else e
  match e.indices with
  | none => e
  | some ix =>
    match assocGet ix t with
    | none => e
    | some idx =>
      let (archs, swap) := removeAt e.archs idx
      let ix := if swap then assocSet ix (archs.getD idx 0) idx else ix
      { e with archs := archs, indices := some (assocDel ix t) }

theorem cacheRemove_eq (w : World) (t : Nat) : w.cacheRemove t = { w with cache := w.cache.map (remUpd w t) } := rfl

theorem push_get (a : Array Nat) (t i : Nat) : (a.push t)[i]? = if i = a.size then some t else a[i]? := by
  rw [Array.getElem?_push]

/-- adding a table that was not selected before (new, or just re-activated): the entry lists it
    iff the filter selects it now, and stays duplicate-free with a consistent position map -/
theorem entryInv_addUpd (w0 w1 : World) (t : Nat) (e : CacheEntry) (h0 : EntryInv w0 e)
    (ht : t < w1.tables.size) (hact : (w1.tableOf t).active = true)
    (hnot : ¬ Sel w0 e.filter t)
    (hother : ∀ t', t' ≠ t → (Sel w1 e.filter t' ↔ Sel w0 e.filter t'))
    (hrel : ∀ t', t' ≠ t → t' < w0.tables.size → w1.tableRel t' = w0.tableRel t') :
    EntryInv w1 (addUpd w1 t e) := by
  have hnotin : ∀ i : Nat, e.archs[i]? ≠ some t := fun i hi => hnot ((h0.mem t).1 ⟨i, hi⟩)
  have hselt : Sel w1 e.filter t ↔ (e.filter.sat (w1.tableMask t) = true ∧
      (∀ tg, e.filter.relTarget? = some tg → (w1.tableRel t).isSome = true → (w1.tableOf t).target = tg)) :=
    ⟨fun h => ⟨h.2.2.1, h.2.2.2⟩, fun h => ⟨ht, hact, h.1, h.2⟩⟩
  have hrel' : ∀ t' i : Nat, e.archs[i]? = some t' → w1.tableRel t' = w0.tableRel t' := by
    intro t' i hi
    have hs := (h0.mem t').1 ⟨i, hi⟩
    exact hrel t' (fun e' => hnotin i (e' ▸ hi)) hs.1
  -- the entry is left as it is
  have keep : ¬ Sel w1 e.filter t → EntryInv w1 e := by
    intro hns
    refine ⟨h0.inj, ?_, h0.sound, ?_⟩
    · intro t'
      by_cases e' : t' = t
      · subst e'
        exact ⟨fun ⟨i, hi⟩ => absurd hi (hnotin i), fun h => absurd h hns⟩
      · rw [hother t' e']; exact h0.mem t'
    · intro ix hix t' i hi hr
      rw [hrel' t' i hi] at hr
      exact h0.complete ix hix t' i hi hr
  -- the table is appended, with or without a position entry
  have pushed : Sel w1 e.filter t → ∀ (ind : Option (List (Nat × Nat))),
      (ind = e.indices ∧ (w1.tableRel t).isSome = false ∨ ind = e.indices.map (fun ix => assocSet ix t e.archs.size)) →
      EntryInv w1 { e with archs := e.archs.push t, indices := ind } := by
    intro hs ind hind
    refine ⟨?_, ?_, ?_, ?_⟩
    · intro i j x hi hj
      simp only [push_get] at hi hj
      by_cases ei : i = e.archs.size <;> by_cases ej : j = e.archs.size
      · omega
      · rw [if_pos ei] at hi; rw [if_neg ej] at hj; cases hi; exact absurd hj (hnotin j)
      · rw [if_neg ei] at hi; rw [if_pos ej] at hj; cases hj; exact absurd hi (hnotin i)
      · rw [if_neg ei] at hi; rw [if_neg ej] at hj; exact h0.inj i j x hi hj
    · intro t'
      simp only [push_get]
      by_cases e' : t' = t
      · subst e'
        exact ⟨fun _ => hs, fun _ => ⟨e.archs.size, by simp⟩⟩
      · rw [hother t' e', ← h0.mem t']
        constructor
        · intro ⟨i, hi⟩
          by_cases ei : i = e.archs.size
          · rw [if_pos ei] at hi; cases hi; exact absurd rfl e'
          · rw [if_neg ei] at hi; exact ⟨i, hi⟩
        · intro ⟨i, hi⟩
          have : i < e.archs.size := by
            apply Classical.byContradiction; intro hc
            rw [Array.getElem?_eq_none (by omega)] at hi; cases hi
          exact ⟨i, by rw [if_neg (by omega)]; exact hi⟩
    · intro ix hix t' i hg
      simp only [push_get]
      rcases hind with ⟨h1, _⟩ | h1
      · rw [h1] at hix
        have := h0.sound ix hix t' i hg
        have hlt : i < e.archs.size := by
          apply Classical.byContradiction; intro hc
          rw [Array.getElem?_eq_none (by omega)] at this; cases this
        rw [if_neg (by omega)]; exact this
      · rw [h1] at hix
        cases hei : e.indices with
        | none => rw [hei] at hix; cases hix
        | some ix0 =>
          rw [hei] at hix
          simp only [Option.map_some, Option.some.injEq] at hix
          subst hix
          rw [assocGet_assocSet] at hg
          split at hg
          · rename_i heq; cases hg; subst heq; simp
          · have := h0.sound ix0 hei t' i hg
            have hlt : i < e.archs.size := by
              apply Classical.byContradiction; intro hc
              rw [Array.getElem?_eq_none (by omega)] at this; cases this
            rw [if_neg (by omega)]; exact this
    · intro ix hix t' i hi hr
      simp only [push_get] at hi
      rcases hind with ⟨h1, hnr⟩ | h1
      · rw [h1] at hix
        by_cases ei : i = e.archs.size
        · rw [if_pos ei] at hi; cases hi; rw [hnr] at hr; cases hr
        · rw [if_neg ei] at hi
          rw [hrel' t' i hi] at hr
          exact h0.complete ix hix t' i hi hr
      · rw [h1] at hix
        cases hei : e.indices with
        | none => rw [hei] at hix; cases hix
        | some ix0 =>
          rw [hei] at hix
          simp only [Option.map_some, Option.some.injEq] at hix
          subst hix
          rw [assocGet_assocSet]
          by_cases ei : i = e.archs.size
          · rw [if_pos ei] at hi; cases hi; simp [ei]
          · rw [if_neg ei] at hi
            have hne : t' ≠ t := fun e' => hnotin i (e' ▸ hi)
            rw [if_neg hne]
            rw [hrel' t' i hi] at hr
            exact h0.complete ix0 hei t' i hi hr
  unfold addUpd
  by_cases hsat : e.filter.sat (w1.tableMask t) = true
  · simp only [hsat, Bool.not_true, Bool.false_eq_true, ↓reduceIte]
    by_cases hr : (w1.tableRel t).isSome = true
    · simp only [hr, Bool.not_true, Bool.false_eq_true, ↓reduceIte]
      cases hft : e.filter.relTarget? with
      | none =>
        simp only []
        apply pushed (hselt.2 ⟨hsat, fun tg h => by rw [hft] at h; cases h⟩) _ (Or.inr rfl)
      | some ft =>
        simp only []
        by_cases heq : ft = (w1.tableOf t).target
        · simp only [heq, beq_self_eq_true, ↓reduceIte]
          apply pushed (hselt.2 ⟨hsat, fun tg h _ => by rw [hft] at h; cases h; exact heq.symm⟩) _ (Or.inr rfl)
        · have : (ft == (w1.tableOf t).target) = false := by simpa using heq
          simp only [this, Bool.false_eq_true, ↓reduceIte]
          apply keep
          intro hs
          exact heq (hs.2.2.2 ft hft hr).symm
    · have hr' : (w1.tableRel t).isSome = false := by simpa using hr
      simp only [hr', Bool.not_false, ↓reduceIte]
      apply pushed (hselt.2 ⟨hsat, fun tg _ h => by rw [hr'] at h; cases h⟩) _ (Or.inl ⟨rfl, hr'⟩)
  · have hsat' : e.filter.sat (w1.tableMask t) = false := by simpa using hsat
    simp only [hsat', Bool.not_false, ↓reduceIte]
    apply keep
    intro hs; rw [hs.2.2.1] at hsat'; cases hsat'

/-! ### removal -/

theorem map_mem (w : World) (e : CacheEntry) (t i : Nat) :
    (t, i) ∈ w.cacheMapArchetypes e ↔ e.archs[i]? = some t ∧ (w.tableRel t).isSome = true := by
  unfold cacheMapArchetypes
  rw [List.mem_filterMap]
  constructor
  · intro ⟨a, ha, hf⟩
    obtain ⟨t0, i0⟩ := a
    simp only at hf
    split at hf
    · rename_i hr
      cases hf
      rw [List.mem_zipIdx_iff_getElem?] at ha
      simp only [Array.getElem?_toList] at ha
      exact ⟨ha, hr⟩
    · cases hf
  · intro ⟨h1, h2⟩
    refine ⟨(t, i), ?_, by simp [h2]⟩
    rw [List.mem_zipIdx_iff_getElem?]
    simp only [Array.getElem?_toList]
    exact h1

/-- position after a swap-removal at `idx` ↦ position before it -/
theorem removeAt_get' (a : Array Nat) (idx : Nat) (h : idx < a.size) (i x : Nat) :
    (removeAt a idx).1[i]? = some x ↔ i + 1 < a.size ∧ a[if i = idx then a.size - 1 else i]? = some x := by
  rw [removeAt_get a idx h]
  by_cases hi : i + 1 < a.size
  · simp only [hi, ↓reduceIte, true_and]
    by_cases e : i = idx <;> simp [e]
  · simp [hi]

/-- retiring a relation table: the entry drops it (if it lists it), stays duplicate-free, and
    its position map stays exact for the remaining relation tables, including the one swapped
    into the gap -/
theorem entryInv_remUpd (w0 w1 : World) (t : Nat) (e : CacheEntry) (h0 : EntryInv w0 e)
    (hrelt : (w1.tableRel t).isSome = true) (hmask : w1.tableMask t = w0.tableMask t)
    (hnow : ¬ Sel w1 e.filter t)
    (hother : ∀ t', t' ≠ t → (Sel w1 e.filter t' ↔ Sel w0 e.filter t'))
    (hrel : ∀ t', t' < w0.tables.size → w1.tableRel t' = w0.tableRel t') :
    EntryInv w1 (remUpd w1 t e) := by
  have hrel' : ∀ t' i : Nat, e.archs[i]? = some t' → w1.tableRel t' = w0.tableRel t' := by
    intro t' i hi
    exact hrel t' ((h0.mem t').1 ⟨i, hi⟩).1
  -- step A: the position map exists afterwards whenever the filter matches the table's mask
  obtain ⟨e1, he1a, he1f, hsnd, hcmp, hnone, hres⟩ : ∃ e1 : CacheEntry, e1.archs = e.archs ∧ e1.filter = e.filter ∧
      (∀ ix, e1.indices = some ix → ∀ t' i : Nat, assocGet ix t' = some i → e.archs[i]? = some t') ∧
      (∀ ix, e1.indices = some ix → ∀ t' i : Nat, e.archs[i]? = some t' → (w1.tableRel t').isSome = true → assocGet ix t' = some i) ∧
      (e1.indices = none → e.filter.sat (w1.tableMask t) = false) ∧
      remUpd w1 t e = (match e1.indices with
        | none => e1
        | some ix =>
          match assocGet ix t with
          | none => e1
          | some idx =>
            { e1 with archs := (removeAt e1.archs idx).1,
                      indices := some (assocDel (if (removeAt e1.archs idx).2 then assocSet ix ((removeAt e1.archs idx).1.getD idx 0) idx else ix) t) }) := by
    by_cases hb : (e.indices.isNone && e.filter.sat (w1.tableMask t)) = true
    · refine ⟨{ e with indices := some (w1.cacheMapArchetypes e) }, rfl, rfl, ?_, ?_, ?_, ?_⟩
      · intro ix hix t' i hg
        cases hix
        exact ((map_mem w1 e t' i).1 (assocGet_mem _ _ _ hg)).1
      · intro ix hix t' i hi hr
        cases hix
        apply assocGet_of_mem _ _ _ _ ((map_mem w1 e t' i).2 ⟨hi, hr⟩)
        intro i' hm
        exact h0.inj i' i t' ((map_mem w1 e t' i').1 hm).1 hi
      · intro h; cases h
      · unfold remUpd; simp only [hb, ↓reduceIte]
    · refine ⟨e, rfl, rfl, ?_, ?_, ?_, ?_⟩
      · intro ix hix t' i hg; exact h0.sound ix hix t' i hg
      · intro ix hix t' i hi hr
        rw [hrel' t' i hi] at hr
        exact h0.complete ix hix t' i hi hr
      · intro hn
        simp only [hn, Option.isNone_none, Bool.true_and, Bool.not_eq_true] at hb
        exact hb
      · have hb' : (e.indices.isNone && e.filter.sat (w1.tableMask t)) = false := by simpa using hb
        unfold remUpd; simp only [hb', Bool.false_eq_true, ↓reduceIte]
  rw [hres]
  -- the entry is left as it is: it does not list the table
  have keep : (∀ i : Nat, e.archs[i]? ≠ some t) → EntryInv w1 e1 := by
    intro hnotin
    refine ⟨by rw [he1a]; exact h0.inj, ?_, by rw [he1a]; exact hsnd, by rw [he1a]; exact hcmp⟩
    intro t'
    rw [he1a, he1f]
    by_cases e' : t' = t
    · subst e'
      exact ⟨fun ⟨i, hi⟩ => absurd hi (hnotin i), fun h => absurd h hnow⟩
    · rw [hother t' e']; exact h0.mem t'
  cases hix : e1.indices with
  | none =>
    simp only []
    apply keep
    intro i hi
    have hs := (h0.mem t).1 ⟨i, hi⟩
    have := hnone hix
    rw [hmask] at this
    rw [hs.2.2.1] at this; cases this
  | some ix =>
    simp only []
    cases hg : assocGet ix t with
    | none =>
      simp only []
      apply keep
      intro i hi
      have := hcmp ix hix t i hi hrelt
      rw [hg] at this; cases this
    | some idx =>
      simp only []
      have hidx : e.archs[idx]? = some t := hsnd ix hix t idx hg
      have hlt : idx < e.archs.size := by
        apply Classical.byContradiction; intro hc
        rw [Array.getElem?_eq_none (by omega)] at hidx; cases hidx
      rw [he1a]
      -- facts about positions
      have hpos : ∀ i x : Nat, (removeAt e.archs idx).1[i]? = some x ↔
          i + 1 < e.archs.size ∧ e.archs[if i = idx then e.archs.size - 1 else i]? = some x := removeAt_get' e.archs idx hlt
      have hnot_t : ∀ i : Nat, (removeAt e.archs idx).1[i]? ≠ some t := by
        intro i hi
        obtain ⟨h1, h2⟩ := (hpos i t).1 hi
        have := h0.inj _ _ t h2 hidx
        split at this <;> omega
      refine ⟨?_, ?_, ?_, ?_⟩
      · intro i j x hi hj
        obtain ⟨a1, a2⟩ := (hpos i x).1 hi
        obtain ⟨b1, b2⟩ := (hpos j x).1 hj
        have := h0.inj _ _ x a2 b2
        split at this <;> split at this <;> omega
      · intro t'
        simp only [he1f]
        by_cases e' : t' = t
        · subst e'
          exact ⟨fun ⟨i, hi⟩ => absurd hi (hnot_t i), fun h => absurd h hnow⟩
        · rw [hother t' e', ← h0.mem t']
          constructor
          · intro ⟨i, hi⟩
            exact ⟨_, ((hpos i t').1 hi).2⟩
          · intro ⟨j, hj⟩
            have hjlt : j < e.archs.size := by
              apply Classical.byContradiction; intro hc
              rw [Array.getElem?_eq_none (by omega)] at hj; cases hj
            have hjne : j ≠ idx := by
              intro hx; rw [hx, hidx] at hj; cases hj; exact e' rfl
            by_cases hl : j = e.archs.size - 1
            · refine ⟨idx, (hpos idx t').2 ⟨by omega, ?_⟩⟩
              simp only [↓reduceIte]; rw [← hl]; exact hj
            · refine ⟨j, (hpos j t').2 ⟨by omega, ?_⟩⟩
              rw [if_neg hjne]; exact hj
      · intro ix2 hix2 t' i hg2
        simp only [Option.some.injEq] at hix2
        subst hix2
        rw [assocGet_assocDel] at hg2
        split at hg2
        · cases hg2
        · rename_i hne
          rw [removeAt_swap] at hg2
          by_cases hsw : (idx + 1 != e.archs.size) = true
          · simp only [hsw, ↓reduceIte] at hg2
            have hsw' : idx + 1 ≠ e.archs.size := by simpa using hsw
            have hm : (removeAt e.archs idx).1[idx]? = some ((removeAt e.archs idx).1.getD idx 0) := by
              rw [Array.getD_eq_getD_getElem?]
              have : idx < (removeAt e.archs idx).1.size := by rw [removeAt_size]; omega
              rw [Array.getElem?_eq_getElem this]; rfl
            rw [assocGet_assocSet] at hg2
            split at hg2
            · rename_i heq
              cases hg2
              rw [heq]; exact hm
            · rename_i hne2
              have h1 := hsnd ix hix t' i hg2
              have hilt : i < e.archs.size := by
                apply Classical.byContradiction; intro hc
                rw [Array.getElem?_eq_none (by omega)] at h1; cases h1
              have hi1 : i ≠ idx := by intro hx; rw [hx, hidx] at h1; cases h1; exact hne rfl
              have hi2 : i ≠ e.archs.size - 1 := by
                intro hx
                apply hne2
                have := (hpos idx ((removeAt e.archs idx).1.getD idx 0)).1 hm
                simp only [↓reduceIte] at this
                rw [← hx, h1] at this
                exact Option.some.inj this.2
              exact (hpos i t').2 ⟨by omega, by rw [if_neg hi1]; exact h1⟩
          · have hsw' : (idx + 1 != e.archs.size) = false := by simpa using hsw
            simp only [hsw', Bool.false_eq_true, ↓reduceIte] at hg2
            have hlast : idx + 1 = e.archs.size := by simpa using hsw'
            have h1 := hsnd ix hix t' i hg2
            have hilt : i < e.archs.size := by
              apply Classical.byContradiction; intro hc
              rw [Array.getElem?_eq_none (by omega)] at h1; cases h1
            have hi1 : i ≠ idx := by intro hx; rw [hx, hidx] at h1; cases h1; exact hne rfl
            exact (hpos i t').2 ⟨by omega, by rw [if_neg hi1]; exact h1⟩
      · intro ix2 hix2 t' i hi hr
        simp only [Option.some.injEq] at hix2
        subst hix2
        have hne : t' ≠ t := fun hx => hnot_t i (hx ▸ hi)
        rw [assocGet_assocDel, if_neg hne, removeAt_swap]
        obtain ⟨a1, a2⟩ := (hpos i t').1 hi
        by_cases hsw : (idx + 1 != e.archs.size) = true
        · simp only [hsw, ↓reduceIte]
          rw [assocGet_assocSet]
          have hm : (removeAt e.archs idx).1[idx]? = some ((removeAt e.archs idx).1.getD idx 0) := by
            rw [Array.getD_eq_getD_getElem?]
            have hsw' : idx + 1 ≠ e.archs.size := by simpa using hsw
            have : idx < (removeAt e.archs idx).1.size := by rw [removeAt_size]; omega
            rw [Array.getElem?_eq_getElem this]; rfl
          by_cases ei : i = idx
          · subst ei
            rw [hm] at hi
            rw [if_pos (Option.some.inj hi).symm]
          · rw [if_neg ei] at a2
            have hmm := ((hpos idx ((removeAt e.archs idx).1.getD idx 0)).1 hm).2
            simp only [↓reduceIte] at hmm
            have hne2 : t' ≠ (removeAt e.archs idx).1.getD idx 0 := by
              intro hx
              rw [← hx] at hmm
              have := h0.inj _ _ t' hmm a2
              omega
            rw [if_neg hne2]
            exact hcmp ix hix t' i a2 hr
        · have hsw' : (idx + 1 != e.archs.size) = false := by simpa using hsw
          simp only [hsw', Bool.false_eq_true, ↓reduceIte]
          have hlast : idx + 1 = e.archs.size := by simpa using hsw'
          have ei : i ≠ idx := by omega
          rw [if_neg ei] at a2
          exact hcmp ix hix t' i a2 hr

end Arche.Cache
