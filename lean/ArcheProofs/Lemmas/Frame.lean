/-
  Frame lemmas: the fields of the world that structural operations never touch
  (`aux` = resources, resource count, registry, configuration, listener).
-/
import ArcheModel.Ops

namespace Arche.Frame
open Arche Arche.World

/-- the part of the world no entity/table/cache/lock operation may change -/
structure Aux where
  resources : Array (Option Nat)
  resCount : Nat
  reg : Registry
  cfg : Config
  listener : Option Listener

def aux (w : World) : Aux := ⟨w.resources, w.resCount, w.reg, w.cfg, w.listener⟩

@[simp] theorem aux_setNode (w : World) (n nd) : aux (w.setNode n nd) = aux w := rfl
@[simp] theorem aux_setTable (w : World) (t tb) : aux (w.setTable t tb) = aux w := rfl
@[simp] theorem aux_setFlag (w : World) (i v) : aux (w.setFlag i v) = aux w := rfl
@[simp] theorem aux_setIndex (w : World) (i l) : aux (w.setIndex i l) = aux w := rfl
@[simp] theorem aux_markTarget (w : World) (t) : aux (w.markTarget t) = aux w := by
  unfold markTarget; split <;> simp
@[simp] theorem aux_cacheAdd (w : World) (t) : aux (w.cacheAdd t) = aux w := rfl
@[simp] theorem aux_cacheRemove (w : World) (t) : aux (w.cacheRemove t) = aux w := rfl
@[simp] theorem aux_createNode (w : World) (m r) : aux (w.createNode m r).1 = aux w := rfl
@[simp] theorem aux_findOrCreateNodeSlow (w : World) (m r) : aux (w.findOrCreateNodeSlow m r).1 = aux w := by
  unfold findOrCreateNodeSlow; split <;> simp
@[simp] theorem aux_createTable (w : World) (n t f) : aux (w.createTable n t f).1 = aux w := by
  unfold createTable
  simp only []
  split
  · split <;> (first | rfl | simp)
  · first | rfl | simp
@[simp] theorem aux_walk (w : World) (c i m r) : aux (w.walk c i m r).1 = aux w := by
  unfold walk; split <;> simp
@[simp] theorem aux_removeTable (w : World) (t) : aux (w.removeTable t) = aux w := by
  unfold removeTable; simp
@[simp] theorem aux_cleanupTable (w : World) (t) : aux (w.cleanupTable t) = aux w := by
  unfold cleanupTable; simp only []; split <;> (try split) <;> simp

@[simp] theorem aux_cleanupTables (w : World) (t) : aux (w.cleanupTables t) = aux w := by
  unfold cleanupTables
  generalize List.range w.nodes.size = l
  induction l generalizing w with
  | nil => rfl
  | cons n ns ih =>
    simp only [List.foldl_cons]
    rw [ih]
    split
    · split <;> simp
    · rfl

@[simp] theorem aux_walkRem (reg : Registry) (s : WalkSt) (i) : aux (walkRem reg s i).w = aux s.w := by
  unfold walkRem; simp

theorem aux_walkAdd (reg : Registry) (m) (s s' : WalkSt) (i) (h : walkAdd reg m s i = .ok s') : aux s'.w = aux s.w := by
  unfold walkAdd at h
  split at h; · cases h
  split at h; · cases h
  split at h; · cases h
  cases h
  simp only []
  exact aux_walk _ _ _ _ _

@[simp] theorem aux_walkAdds (reg : Registry) (m) (s : WalkSt) (l) : aux (walkAdds reg m s l).1.w = aux s.w := by
  induction l generalizing s with
  | nil => rfl
  | cons i is ih =>
    unfold walkAdds
    split
    · rfl
    · rename_i s' h; rw [ih, aux_walkAdd _ _ _ _ _ h]

theorem aux_foldl_walkRem (reg : Registry) (l : List CompId) (s : WalkSt) : aux (l.foldl (walkRem reg) s).w = aux s.w := by
  induction l generalizing s with
  | nil => rfl
  | cons i is ih => simp only [List.foldl_cons]; rw [ih, aux_walkRem]

@[simp] theorem aux_findOrCreateTable (w : World) (st a r t) : aux (w.findOrCreateTable st a r t).1 = aux w := by
  unfold findOrCreateTable
  simp only []
  split
  · simp [aux_foldl_walkRem]
  · split
    · simp [aux_foldl_walkRem]
    · simp [aux_foldl_walkRem]

@[simp] theorem aux_tableAlloc (w : World) (t e) : aux (w.tableAlloc t e).1 = aux w := rfl
@[simp] theorem aux_tableRemove (w : World) (t r) : aux (w.tableRemove t r).1 = aux w := by
  unfold tableRemove; simp only []; split <;> rfl
@[simp] theorem aux_removeRowFix (w : World) (t r) : aux (w.removeRowFix t r) = aux w := by
  unfold removeRowFix; simp only []; split <;> simp
@[simp] theorem aux_setCell (w : World) (t r i v) : aux (w.setCell t r i v) = aux w := by
  unfold setCell; split
  · rfl
  · split <;> simp
@[simp] theorem aux_createEntity (w : World) (t) : aux (w.createEntity t).1 = aux w := by
  unfold createEntity; simp only []; split <;> (first | rfl | simp)
@[simp] theorem aux_createEntities (w : World) (t n) : aux (w.createEntities t n).1 = aux w := by
  induction n generalizing w with
  | zero => rfl
  | succ n ih => unfold createEntities; simp [ih]
@[simp] theorem aux_copyTo (w : World) (e i v) : aux (w.copyTo e i v).1 = aux w := by
  unfold copyTo; split
  · rfl
  · simp only []; split <;> simp
@[simp] theorem aux_copyAll (w : World) (e l) : aux (w.copyAll e l).1 = aux w := by
  induction l generalizing w with
  | nil => rfl
  | cons c cs ih =>
    obtain ⟨i, v⟩ := c
    unfold copyAll
    split
    · rename_i w' p h; have := aux_copyTo w e i v; rw [h] at this; exact this
    · rename_i w' h; rw [ih]; have := aux_copyTo w e i v; rw [h] at this; exact this
@[simp] theorem aux_copyAllTo (w : World) (c es) : aux (w.copyAllTo c es).1 = aux w := by
  induction es generalizing w with
  | nil => rfl
  | cons e es ih =>
    unfold copyAllTo
    split
    · rename_i w' p h; have := aux_copyAll w e c; rw [h] at this; exact this
    · rename_i w' h; rw [ih]; have := aux_copyAll w e c; rw [h] at this; exact this
@[simp] theorem aux_moveEntity (w : World) (e l t) : aux (w.moveEntity e l t) = aux w := by
  unfold moveEntity; simp


macro "frame_auto" : tactic => `(tactic| (simp only []; repeat' (first | rfl | (simp; done) | split)))

/-- after `split` on `match f x with | (w', _) => …`: transport the frame lemma of `f` through `h : f x = (w', _)` -/
macro "frame_pair" h:ident : tactic =>
  `(tactic| (have h2 := congrArg (fun q => aux (Prod.fst q)) $h; simp at h2; simp [← h2]))

@[simp] theorem aux_lock (w w' : World) (b) (h : w.lock = some (w', b)) : aux w' = aux w := by
  unfold lock at h; split at h
  · cases h
  · cases h; rfl
@[simp] theorem aux_unlock (w w' : World) (b) (h : w.unlock b = some w') : aux w' = aux w := by
  unfold unlock at h; split at h
  · cases h
  · cases h; rfl
@[simp] theorem aux_unlock_getD (w : World) (b) : aux ((w.unlock b).getD w) = aux w := by
  cases h : w.unlock b with
  | none => rfl
  | some w' => simp [aux_unlock w w' b h]

@[simp] theorem aux_fail {α} (w : World) (p) : aux (w.fail p : Res α).w = aux w := rfl

@[simp] theorem aux_newEntity (w : World) (c) : aux (w.newEntity c).w = aux w := by
  unfold newEntity; frame_auto
@[simp] theorem aux_newEntityWith (w : World) (c) : aux (w.newEntityWith c).w = aux w := by
  unfold newEntityWith
  simp only []
  split; · rfl
  split; · simp
  split; · simp
  split
  · rename_i w' p h; frame_pair h
  · rename_i w' h; frame_pair h


@[simp] theorem aux_newEntityTarget (w : World) (r t c v) : aux (w.newEntityTarget r t c v).w = aux w := by
  unfold newEntityTarget
  simp only []
  split; · rfl
  split; · rfl
  split; · simp; split <;> simp
  split; · simp; split <;> simp
  split
  · rename_i w' p h
    have h2 := congrArg (fun q => aux (Prod.fst q)) h
    simp only [] at h2
    split at h2 <;> simp at h2 <;> (simp [← h2]; try (split <;> simp))
  · rename_i w' h
    have h2 := congrArg (fun q => aux (Prod.fst q)) h
    simp only [] at h2
    split at h2 <;> simp at h2 <;> (simp [← h2]; try (split <;> simp))


theorem aux_foldl {β} (f : World → β → World) (hf : ∀ w b, aux (f w b) = aux w) (l : List β) (w : World) :
    aux (l.foldl f w) = aux w := by
  induction l generalizing w with
  | nil => rfl
  | cons b bs ih => simp only [List.foldl_cons]; rw [ih, hf]

@[simp] theorem aux_resetNode (w : World) (n : Nat) : aux (w.resetNode n) = aux w := by
  unfold resetNode
  simp only []
  split; · rfl
  split; · rfl
  apply aux_foldl
  intro w t
  split; · rfl
  split
  · simp
  · rfl

end Arche.Frame
