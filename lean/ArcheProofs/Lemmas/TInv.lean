/-
  The table / target invariant: one active table per (relation node, target); the node's
  target map names exactly the active tables; retired tables are inactive, empty and listed in
  the node's free list once; tables of nodes without a relation have the zero target.
  Preservation by the graph walk, by `createTable` (new, reused, non-relation), by
  `removeTable` and by row movements.
-/
import ArcheProofs.Lemmas.Closed

namespace Arche.TInv
open Arche Arche.World Arche.Arr Arche.Storage Arche.IndexInv Arche.SameRows Arche.Graph Arche.Closed

structure TInv (w : World) : Prop where
  sound : ∀ n, n < w.nodes.size → ∀ e t, assocGet (w.nodeOf n).tmap e = some t →
      (w.tableOf t).target = e ∧ (w.tableOf t).active = true ∧ (w.nodeOf n).rel.isSome = true
  complete : ∀ t, t < w.tables.size → (w.tableOf t).active = true →
      (w.nodeOf (w.tableOf t).node).rel.isSome = true →
      assocGet (w.nodeOf (w.tableOf t).node).tmap (w.tableOf t).target = some t
  free : ∀ n, n < w.nodes.size → ∀ k ∈ (w.nodeOf n).free, (w.tableOf ((w.nodeOf n).tables.getD k 0)).active = false
  freeNodup : ∀ n, n < w.nodes.size → (w.nodeOf n).free.Nodup
  empty : ∀ t, t < w.tables.size → (w.tableOf t).active = false → (w.tableOf t).rows = #[]
  norel : ∀ t, t < w.tables.size → (w.nodeOf (w.tableOf t).node).rel = none →
      (w.tableOf t).target = Entity.zero ∧ (w.tableOf t).active = true

/-- only the graph changed: tables untouched, old nodes keep their table lists / maps / free
    lists / relation, new nodes have none -/
structure GraphOnly (w w' : World) : Prop where
  tables : w'.tables = w.tables
  nsize : w.nodes.size ≤ w'.nodes.size
  old : ∀ n, n < w.nodes.size → (w'.nodeOf n).tmap = (w.nodeOf n).tmap ∧ (w'.nodeOf n).free = (w.nodeOf n).free ∧
      (w'.nodeOf n).tables = (w.nodeOf n).tables ∧ (w'.nodeOf n).rel = (w.nodeOf n).rel
  new : ∀ n, w.nodes.size ≤ n → n < w'.nodes.size → (w'.nodeOf n).tmap = [] ∧ (w'.nodeOf n).free = [] ∧ (w'.nodeOf n).tables = #[]

theorem graphOnly_closed : StepClosed GraphOnly where
  refl w := ⟨rfl, Nat.le_refl _, fun _ _ => ⟨rfl, rfl, rfl, rfl⟩, fun n h1 h2 => by omega⟩
  trans a b c h1 h2 := by
    refine ⟨h2.tables.trans h1.tables, Nat.le_trans h1.nsize h2.nsize, ?_, ?_⟩
    · intro n hn
      obtain ⟨a1, a2, a3, a4⟩ := h1.old n hn
      obtain ⟨b1, b2, b3, b4⟩ := h2.old n (Nat.lt_of_lt_of_le hn h1.nsize)
      exact ⟨b1.trans a1, b2.trans a2, b3.trans a3, b4.trans a4⟩
    · intro n hge hlt
      by_cases hb : n < b.nodes.size
      · obtain ⟨a1, a2, a3⟩ := h1.new n hge hb
        obtain ⟨b1, b2, b3, _⟩ := h2.old n hb
        exact ⟨b1.trans a1, b2.trans a2, b3.trans a3⟩
      · exact h2.new n (by omega) hlt
  nbrs w n nb := by
    refine ⟨rfl, by simp [setNode], ?_, ?_⟩
    · intro k _
      rw [nodeOf_setNode]
      split
      · rename_i h; rw [h.1]; exact ⟨rfl, rfl, rfl, rfl⟩
      · exact ⟨rfl, rfl, rfl, rfl⟩
    · intro k h1 h2; simp [setNode] at h2; omega
  node w m r := by
    refine ⟨rfl, by simp [createNode], ?_, ?_⟩
    · intro k hk
      unfold createNode nodeOf; simp only []
      rw [getD_push]; simp [Nat.ne_of_lt hk]
    · intro k h1 h2
      have : k = w.nodes.size := by simp [createNode] at h2; omega
      subst this
      unfold createNode nodeOf; simp only []
      rw [getD_push]; simp

theorem tinv_graphOnly {w w' : World} (h : GraphOnly w w') (hn : TNodeOK w) (hT : TInv w) : TInv w' := by
  have hto : ∀ t, w'.tableOf t = w.tableOf t := by intro t; unfold tableOf; rw [h.tables]
  have hts : w'.tables.size = w.tables.size := by rw [h.tables]
  refine ⟨?_, ?_, ?_, ?_, ?_, ?_⟩
  · intro n hlt e t hg
    rw [hto]
    by_cases ho : n < w.nodes.size
    · rw [(h.old n ho).1] at hg; rw [(h.old n ho).2.2.2]; exact hT.sound n ho e t hg
    · rw [(h.new n (by omega) hlt).1] at hg; cases hg
  · intro t ht
    rw [hts] at ht
    rw [hto]
    obtain ⟨a1, _, _, a4⟩ := h.old _ (hn t ht)
    rw [a1, a4]
    exact hT.complete t ht
  · intro n hlt k hk
    rw [hto]
    by_cases ho : n < w.nodes.size
    · obtain ⟨_, a2, a3, _⟩ := h.old n ho
      rw [a2] at hk; rw [a3]; exact hT.free n ho k hk
    · rw [(h.new n (by omega) hlt).2.1] at hk; cases hk
  · intro n hlt
    by_cases ho : n < w.nodes.size
    · rw [(h.old n ho).2.1]; exact hT.freeNodup n ho
    · rw [(h.new n (by omega) hlt).2.1]; exact List.nodup_nil
  · intro t ht; rw [hts] at ht; rw [hto]; exact hT.empty t ht
  · intro t ht
    rw [hts] at ht
    rw [hto, (h.old _ (hn t ht)).2.2.2]
    exact hT.norel t ht


/-! ### installing a table for a target in a relation node -/

theorem tables_inj (w : World) (hI : NodeInv w) (n : Nat) (hn : n < w.nodes.size) (i j : Nat)
    (hi : i < (w.nodeOf n).tables.size) (hj : j < (w.nodeOf n).tables.size)
    (h : (w.nodeOf n).tables.getD i 0 = (w.nodeOf n).tables.getD j 0) : i = j := by
  have a := (hI.tables n hn i hi).2.2
  have b := (hI.tables n hn j hj).2.2
  rw [h] at a; rw [a] at b; exact b

/-- general form of "table `t` (new or retired) becomes the active table of node `n` for `target`" -/
theorem tinv_install (w w' : World) (hT : TInv w) (hI : NodeInv w) (n : Nat) (hn : n < w.nodes.size)
    (hrel : (w.nodeOf n).rel.isSome = true) (target : Entity) (t : Nat) (tbNew : Table) (ndNew : Node)
    (hts : ∀ t', t' < w'.tables.size ↔ (t' < w.tables.size ∨ t' = t))
    (hns : w'.nodes.size = w.nodes.size)
    (hto : ∀ t', w'.tableOf t' = if t' = t then tbNew else w.tableOf t')
    (hno : ∀ m, w'.nodeOf m = if m = n then ndNew else w.nodeOf m)
    (hb1 : tbNew.node = n) (hb2 : tbNew.active = true) (hb3 : tbNew.target = target)
    (hd1 : ndNew.rel = (w.nodeOf n).rel) (hd2 : ndNew.tmap = assocSet (w.nodeOf n).tmap target t)
    (hfresh : assocGet (w.nodeOf n).tmap target = none)
    (told : t < w.tables.size → (w.tableOf t).active = false ∧ (w.tableOf t).node = n)
    (hf1 : ∀ k ∈ ndNew.free, k ∈ (w.nodeOf n).free ∧ ndNew.tables.getD k 0 = (w.nodeOf n).tables.getD k 0 ∧
        (w.nodeOf n).tables.getD k 0 ≠ t)
    (hf2 : ndNew.free.Nodup) : TInv w' := by
  -- an active table of the old world is not `t`
  have hact : ∀ t', t' < w.tables.size → (w.tableOf t').active = true → t' ≠ t := by
    intro t' h1 h2 e; subst e; rw [(told h1).1] at h2; cases h2
  -- tables listed in an old target map are below the old size
  have hmaplt : ∀ m, m < w.nodes.size → ∀ e t', assocGet (w.nodeOf m).tmap e = some t' → t' < w.tables.size := by
    intro m hm e t' hg
    obtain ⟨i, hi, hti⟩ := hI.tmap m hm e t' hg
    rw [← hti]; exact (hI.tables m hm i hi).1
  have hrs : ∀ m, (w'.nodeOf m).rel = (w.nodeOf m).rel := by
    intro m; rw [hno]; split
    · rename_i h; rw [h, hd1]
    · rfl
  refine ⟨?_, ?_, ?_, ?_, ?_, ?_⟩
  · intro m hm e t' hg
    rw [hns] at hm
    rw [hno] at hg
    rw [hto, hrs]
    by_cases e1 : m = n
    · subst e1
      simp only [↓reduceIte] at hg
      rw [hd2, assocGet_assocSet] at hg
      split at hg
      · rename_i he; cases hg; subst he; simp [hb3, hb2, hrel]
      · have := hT.sound m hm e t' hg
        rw [if_neg (hact t' (hmaplt m hm e t' hg) this.2.1)]; exact this
    · simp only [e1, ↓reduceIte] at hg
      have := hT.sound m hm e t' hg
      rw [if_neg (hact t' (hmaplt m hm e t' hg) this.2.1)]; exact this
  · intro t' ht' hac hr
    rw [hto] at hac hr ⊢
    by_cases e1 : t' = t
    · subst e1
      simp only [↓reduceIte] at hac hr ⊢
      rw [hb1, hno]; simp only [↓reduceIte]
      rw [hd2, hb3, assocGet_assocSet]; simp
    · simp only [e1, ↓reduceIte] at hac hr ⊢
      have hlt : t' < w.tables.size := by rcases (hts t').1 ht' with h | h; exact h; exact absurd h e1
      rw [hno] at hr ⊢
      by_cases e2 : (w.tableOf t').node = n
      · simp only [e2, ↓reduceIte] at hr ⊢
        rw [hd1] at hr
        have hc := hT.complete t' hlt hac (by rw [e2]; exact hr)
        rw [e2] at hc
        rw [hd2, assocGet_assocSet]
        split
        · rename_i he; rw [he, hfresh] at hc; cases hc
        · exact hc
      · simp only [e2, ↓reduceIte] at hr ⊢
        exact hT.complete t' hlt hac hr
  · intro m hm k hk
    rw [hns] at hm
    rw [hno] at hk ⊢
    rw [hto]
    by_cases e1 : m = n
    · subst e1
      simp only [↓reduceIte] at hk ⊢
      obtain ⟨a, b, c⟩ := hf1 k hk
      rw [b, if_neg c]; exact hT.free m hm k a
    · simp only [e1, ↓reduceIte] at hk ⊢
      have hklt := hI.free m hm k hk
      have hnode := (hI.tables m hm k hklt).2.1
      have : (w.nodeOf m).tables.getD k 0 ≠ t := by
        intro e; rw [e] at hnode
        have hlt := (hI.tables m hm k hklt).1
        rw [e] at hlt
        exact e1 (hnode.symm.trans (told hlt).2)
      rw [if_neg this]; exact hT.free m hm k hk
  · intro m hm
    rw [hns] at hm
    rw [hno]
    by_cases e1 : m = n
    · subst e1; simp only [↓reduceIte]; exact hf2
    · simp only [e1, ↓reduceIte]; exact hT.freeNodup m hm
  · intro t' ht' hac
    rw [hto] at hac ⊢
    by_cases e1 : t' = t
    · subst e1; simp only [↓reduceIte] at hac; rw [hb2] at hac; cases hac
    · simp only [e1, ↓reduceIte] at hac ⊢
      have hlt : t' < w.tables.size := by rcases (hts t').1 ht' with h | h; exact h; exact absurd h e1
      exact hT.empty t' hlt hac
  · intro t' ht' hr
    rw [hto] at hr ⊢
    by_cases e1 : t' = t
    · subst e1
      simp only [↓reduceIte] at hr
      rw [hb1, hno] at hr; simp only [↓reduceIte] at hr
      rw [hd1] at hr; rw [hr] at hrel; cases hrel
    · simp only [e1, ↓reduceIte] at hr ⊢
      have hlt : t' < w.tables.size := by rcases (hts t').1 ht' with h | h; exact h; exact absurd h e1
      rw [hno] at hr
      by_cases e2 : (w.tableOf t').node = n
      · simp only [e2, ↓reduceIte] at hr
        rw [hd1] at hr; rw [hr] at hrel; cases hrel
      · simp only [e2, ↓reduceIte] at hr
        exact hT.norel t' hlt hr


theorem tableOf_cacheAdd (w : World) (t t' : Nat) : (w.cacheAdd t).tableOf t' = w.tableOf t' := rfl
theorem nodeOf_cacheAdd (w : World) (t n : Nat) : (w.cacheAdd t).nodeOf n = w.nodeOf n := rfl
theorem tableOf_setNode (w : World) (n : Nat) (nd : Node) (t : Nat) : (w.setNode n nd).tableOf t = w.tableOf t := rfl

theorem mem_dropLast_ne_last {α} [DecidableEq α] (l : List α) (hn : l.Nodup) (k x : α) (hl : l.getLast? = some k)
    (hx : x ∈ l.dropLast) : x ≠ k ∧ x ∈ l := by
  have hdec : l = l.dropLast ++ [k] := by
    have hne : l ≠ [] := by intro e; subst e; cases hl
    have h1 := List.dropLast_concat_getLast hne
    have h2 : l.getLast hne = k := by
      rw [List.getLast?_eq_some_getLast hne] at hl; exact Option.some.inj hl
    rw [h2] at h1; exact h1.symm
  refine ⟨?_, mem_of_mem_dropLast l x hx⟩
  intro e; subst e
  rw [hdec] at hn
  have := (List.nodup_append.1 hn).2.2 x hx x (by simp)
  exact this rfl

/-- `createTable` keeps the table / target invariant (for a relation node: when the node has no
    table for that target yet; for a plain node: when it has no table yet) and the created
    table is active with the requested target (zero for a plain node) -/
theorem tinv_createTable (w : World) (hT : TInv w) (hI : NodeInv w) (n : Nat) (hn : n < w.nodes.size) (target : Entity) (fs : Bool)
    (hfresh : (w.nodeOf n).rel.isSome = true → assocGet (w.nodeOf n).tmap target = none)
    (hempty : (w.nodeOf n).rel.isSome = false → (w.nodeOf n).tables.size = 0) :
    TInv (w.createTable n target fs).1 ∧
    ((w.createTable n target fs).1.tableOf (w.createTable n target fs).2).active = true ∧
    ((w.createTable n target fs).1.tableOf (w.createTable n target fs).2).target =
      (if (w.nodeOf n).rel.isSome then target else Entity.zero) ∧
    ((w.createTable n target fs).1.tableOf (w.createTable n target fs).2).rows = #[] := by
  unfold createTable
  simp only []
  by_cases hrel : (w.nodeOf n).rel.isSome = true
  · simp only [hrel, ↓reduceIte]
    cases hfree : (w.nodeOf n).free.getLast? with
    | some k =>
      simp only []
      have hk : k ∈ (w.nodeOf n).free := List.mem_of_getLast? hfree
      have hklt := hI.free n hn k hk
      obtain ⟨htlt, htn, htk⟩ := hI.tables n hn k hklt
      have hinact := hT.free n hn k hk
      generalize ht : (w.nodeOf n).tables.getD k 0 = t at *
      have hto : ∀ t', (((w.setTable t { w.tableOf t with active := true, target := target }).setNode n
            { w.nodeOf n with free := (w.nodeOf n).free.dropLast, tmap := assocSet (w.nodeOf n).tmap target t }).cacheAdd t).tableOf t'
          = if t' = t then { w.tableOf t with active := true, target := target } else w.tableOf t' := by
        intro t'
        rw [tableOf_cacheAdd, tableOf_setNode]
        by_cases e : t' = t
        · subst e; simp [htlt]
        · rw [tableOf_setTable_ne _ _ _ _ (fun x => e x.symm)]; simp [e]
      have hno : ∀ m, (((w.setTable t { w.tableOf t with active := true, target := target }).setNode n
            { w.nodeOf n with free := (w.nodeOf n).free.dropLast, tmap := assocSet (w.nodeOf n).tmap target t }).cacheAdd t).nodeOf m
          = if m = n then { w.nodeOf n with free := (w.nodeOf n).free.dropLast, tmap := assocSet (w.nodeOf n).tmap target t } else w.nodeOf m := by
        intro m
        rw [nodeOf_cacheAdd, nodeOf_setNode]
        by_cases e : m = n
        · subst e; simp [hn]
        · have : ¬ (n = m ∧ n < (w.setTable t { w.tableOf t with active := true, target := target }).nodes.size) := fun x => e x.1.symm
          rw [if_neg this, if_neg e]; rfl
      refine ⟨?_, ?_, ?_, ?_⟩
      · apply tinv_install w _ hT hI n hn hrel target t { w.tableOf t with active := true, target := target }
          { w.nodeOf n with free := (w.nodeOf n).free.dropLast, tmap := assocSet (w.nodeOf n).tmap target t }
          ?_ ?_ hto hno htn rfl rfl rfl rfl (hfresh hrel) (fun _ => ⟨hinact, htn⟩) ?_ ?_
        · intro t'
          show t' < (w.setTable t _).tables.size ↔ _
          rw [tables_size_setTable]
          constructor
          · intro h; exact Or.inl h
          · intro h; rcases h with h | h; exact h; rw [h]; exact htlt
        · show ((w.setTable t _).nodes.setIfInBounds n _).size = _
          simp
        · intro k' hk'
          simp only [] at hk' ⊢
          obtain ⟨hne, hmem⟩ := mem_dropLast_ne_last _ (hT.freeNodup n hn) k k' hfree hk'
          refine ⟨hmem, trivial, ?_⟩
          intro e
          apply hne
          exact tables_inj w hI n hn k' k (hI.free n hn k' hmem) hklt (by rw [e, ht])
        · simp only []
          exact List.Nodup.sublist (List.dropLast_sublist _) (hT.freeNodup n hn)
      · rw [hto]; simp
      · rw [hto]; simp
      · rw [hto]; simp only [↓reduceIte]; exact hT.empty t htlt hinact
    | none =>
      simp only []
      have hto : ∀ t', ((({ w with tables := w.tables.push { node := n, k := (w.nodeOf n).tables.size, target := target, active := true, rows := #[], cap := (w.nodeOf n).capInc } } : World).setNode n
            { w.nodeOf n with active := true, tables := (w.nodeOf n).tables.push w.tables.size, tmap := assocSet (w.nodeOf n).tmap target w.tables.size }).cacheAdd w.tables.size).tableOf t'
          = if t' = w.tables.size then { node := n, k := (w.nodeOf n).tables.size, target := target, active := true, rows := #[], cap := (w.nodeOf n).capInc } else w.tableOf t' := by
        intro t'
        rw [tableOf_cacheAdd, tableOf_setNode, tableOf_push]
      have hno : ∀ m, ((({ w with tables := w.tables.push { node := n, k := (w.nodeOf n).tables.size, target := target, active := true, rows := #[], cap := (w.nodeOf n).capInc } } : World).setNode n
            { w.nodeOf n with active := true, tables := (w.nodeOf n).tables.push w.tables.size, tmap := assocSet (w.nodeOf n).tmap target w.tables.size }).cacheAdd w.tables.size).nodeOf m
          = if m = n then { w.nodeOf n with active := true, tables := (w.nodeOf n).tables.push w.tables.size, tmap := assocSet (w.nodeOf n).tmap target w.tables.size } else w.nodeOf m := by
        intro m
        rw [nodeOf_cacheAdd, nodeOf_setNode]
        by_cases e : m = n
        · subst e
          have : m < ({ w with tables := w.tables.push { node := m, k := (w.nodeOf m).tables.size, target := target, active := true, rows := #[], cap := (w.nodeOf m).capInc } } : World).nodes.size := hn
          simp [this]
        · have : ¬ (n = m ∧ n < ({ w with tables := w.tables.push { node := n, k := (w.nodeOf n).tables.size, target := target, active := true, rows := #[], cap := (w.nodeOf n).capInc } } : World).nodes.size) := fun x => e x.1.symm
          simp only [this, e, ↓reduceIte]
          rfl
      refine ⟨?_, ?_, ?_, ?_⟩
      · apply tinv_install w _ hT hI n hn hrel target w.tables.size
          { node := n, k := (w.nodeOf n).tables.size, target := target, active := true, rows := #[], cap := (w.nodeOf n).capInc }
          { w.nodeOf n with active := true, tables := (w.nodeOf n).tables.push w.tables.size, tmap := assocSet (w.nodeOf n).tmap target w.tables.size }
          ?_ ?_ hto hno rfl rfl rfl rfl rfl (hfresh hrel) (fun h => absurd h (Nat.lt_irrefl _)) ?_ ?_
        · intro t'
          show t' < (w.tables.push _).size ↔ _
          rw [Array.size_push]; omega
        · show (w.nodes.setIfInBounds n _).size = _
          simp
        · intro k' hk'
          simp only [] at hk' ⊢
          have hklt := hI.free n hn k' hk'
          refine ⟨hk', ?_, ?_⟩
          · rw [getD_push]; simp [Nat.ne_of_lt hklt]
          · have := (hI.tables n hn k' hklt).1
            exact Nat.ne_of_lt this
        · exact hT.freeNodup n hn
      · rw [hto]; simp
      · rw [hto]; simp
      · rw [hto]; simp
  · simp only [hrel, Bool.false_eq_true, ↓reduceIte]
    have hrel' : (w.nodeOf n).rel.isSome = false := by simpa using hrel
    have hrn : (w.nodeOf n).rel = none := by simpa using hrel'
    have hemp := hempty hrel'
    have hto : ∀ t', ((({ w with tables := w.tables.push { node := n, k := 0, target := Entity.zero, active := true, rows := #[], cap := if fs then (w.nodeOf n).capInc else 1 } } : World).setNode n
          { w.nodeOf n with active := true, tables := #[w.tables.size] }).cacheAdd w.tables.size).tableOf t'
        = if t' = w.tables.size then { node := n, k := 0, target := Entity.zero, active := true, rows := #[], cap := if fs then (w.nodeOf n).capInc else 1 } else w.tableOf t' := by
      intro t'
      rw [tableOf_cacheAdd, tableOf_setNode, tableOf_push]
    have hno : ∀ m, ((({ w with tables := w.tables.push { node := n, k := 0, target := Entity.zero, active := true, rows := #[], cap := if fs then (w.nodeOf n).capInc else 1 } } : World).setNode n
          { w.nodeOf n with active := true, tables := #[w.tables.size] }).cacheAdd w.tables.size).nodeOf m
        = if m = n then { w.nodeOf n with active := true, tables := #[w.tables.size] } else w.nodeOf m := by
      intro m
      rw [nodeOf_cacheAdd, nodeOf_setNode]
      by_cases e : m = n
      · subst e
        have : m < ({ w with tables := w.tables.push { node := m, k := 0, target := Entity.zero, active := true, rows := #[], cap := if fs then (w.nodeOf m).capInc else 1 } } : World).nodes.size := hn
        simp [this]
      · have : ¬ (n = m ∧ n < ({ w with tables := w.tables.push { node := n, k := 0, target := Entity.zero, active := true, rows := #[], cap := if fs then (w.nodeOf n).capInc else 1 } } : World).nodes.size) := fun x => e x.1.symm
        simp only [this, e, ↓reduceIte]
        rfl
    generalize hw' : ((({ w with tables := w.tables.push { node := n, k := 0, target := Entity.zero, active := true, rows := #[], cap := if fs then (w.nodeOf n).capInc else 1 } } : World).setNode n
          { w.nodeOf n with active := true, tables := #[w.tables.size] }).cacheAdd w.tables.size) = w' at *
    have hts : w'.tables.size = w.tables.size + 1 := by rw [← hw']; show (w.tables.push _).size = _; simp
    have hns : w'.nodes.size = w.nodes.size := by rw [← hw']; show (w.nodes.setIfInBounds n _).size = _; simp
    have hmaplt : ∀ m, m < w.nodes.size → ∀ e t', assocGet (w.nodeOf m).tmap e = some t' → t' < w.tables.size := by
      intro m hm e t' hg
      obtain ⟨i, hi, hti⟩ := hI.tmap m hm e t' hg
      rw [← hti]; exact (hI.tables m hm i hi).1
    have hnofree : (w.nodeOf n).free = [] := by
      cases hf : (w.nodeOf n).free with
      | nil => rfl
      | cons k ks => have := hI.free n hn k (by rw [hf]; exact List.mem_cons_self); omega
    refine ⟨⟨?_, ?_, ?_, ?_, ?_, ?_⟩, ?_, ?_, ?_⟩
    · intro m hm e t' hg
      rw [hns] at hm
      rw [hno] at hg
      have hg' : assocGet (w.nodeOf m).tmap e = some t' := by
        by_cases e1 : m = n
        · subst e1; simpa using hg
        · simpa [e1] using hg
      rw [hto, if_neg (Nat.ne_of_lt (hmaplt m hm e t' hg'))]
      have hrs : (w'.nodeOf m).rel = (w.nodeOf m).rel := by
        rw [hno]; split
        · rename_i h; rw [h]
        · rfl
      rw [hrs]
      exact hT.sound m hm e t' hg'
    · intro t' ht' hac hr
      rw [hto] at hac hr ⊢
      by_cases e1 : t' = w.tables.size
      · subst e1
        simp only [↓reduceIte] at hr
        rw [hno] at hr; simp only [↓reduceIte] at hr
        rw [hrn] at hr; cases hr
      · simp only [e1, ↓reduceIte] at hac hr ⊢
        have hlt : t' < w.tables.size := by omega
        rw [hno] at hr ⊢
        by_cases e2 : (w.tableOf t').node = n
        · simp only [e2, ↓reduceIte] at hr; rw [hrn] at hr; cases hr
        · simp only [e2, ↓reduceIte] at hr ⊢
          exact hT.complete t' hlt hac hr
    · intro m hm k hk
      rw [hns] at hm
      rw [hno] at hk ⊢
      by_cases e1 : m = n
      · subst e1
        simp only [↓reduceIte] at hk
        rw [hnofree] at hk; cases hk
      · simp only [e1, ↓reduceIte] at hk ⊢
        have hklt := hI.free m hm k hk
        have := (hI.tables m hm k hklt).1
        rw [hto, if_neg (Nat.ne_of_lt this)]
        exact hT.free m hm k hk
    · intro m hm
      rw [hns] at hm
      rw [hno]
      by_cases e1 : m = n
      · subst e1; simp only [↓reduceIte]; exact hT.freeNodup m hm
      · simp only [e1, ↓reduceIte]; exact hT.freeNodup m hm
    · intro t' ht' hac
      rw [hto] at hac ⊢
      by_cases e1 : t' = w.tables.size
      · subst e1; simp at hac
      · simp only [e1, ↓reduceIte] at hac ⊢
        exact hT.empty t' (by omega) hac
    · intro t' ht' hr
      rw [hto] at hr ⊢
      by_cases e1 : t' = w.tables.size
      · subst e1; simp
      · simp only [e1, ↓reduceIte] at hr ⊢
        rw [hno] at hr
        by_cases e2 : (w.tableOf t').node = n
        · simp only [e2, ↓reduceIte] at hr
          have := hT.norel t' (by omega) (by rw [e2]; exact hrn)
          exact this
        · simp only [e2, ↓reduceIte] at hr
          exact hT.norel t' (by omega) hr
    · rw [hto]; simp
    · rw [hto]; simp
    · rw [hto]; simp


/-! ### retiring a table -/

theorem tableOf_cacheRemove (w : World) (t t' : Nat) : (w.cacheRemove t).tableOf t' = w.tableOf t' := rfl
theorem nodeOf_cacheRemove (w : World) (t n : Nat) : (w.cacheRemove t).nodeOf n = w.nodeOf n := rfl

/-- the slot of an active relation table in its node's table list -/
theorem slot_of_active (w : World) (hT : TInv w) (hI : NodeInv w) (t : Nat) (ht : t < w.tables.size)
    (hact : (w.tableOf t).active = true) (hrel : (w.nodeOf (w.tableOf t).node).rel.isSome = true) :
    (w.tableOf t).k < (w.nodeOf (w.tableOf t).node).tables.size ∧
    (w.nodeOf (w.tableOf t).node).tables.getD (w.tableOf t).k 0 = t := by
  have hc := hT.complete t ht hact hrel
  obtain ⟨i, hi, hti⟩ := hI.tmap _ (hI.tnode t ht) _ _ hc
  have := (hI.tables _ (hI.tnode t ht) i hi).2.2
  rw [hti] at this
  rw [this]; exact ⟨hi, hti⟩

theorem tinv_removeTable (w : World) (hT : TInv w) (hI : NodeInv w) (t : Nat) (ht : t < w.tables.size)
    (hact : (w.tableOf t).active = true) (hrel : (w.nodeOf (w.tableOf t).node).rel.isSome = true) :
    TInv (w.removeTable t) := by
  have hnlt := hI.tnode t ht
  obtain ⟨hklt, hslot⟩ := slot_of_active w hT hI t ht hact hrel
  unfold removeTable
  simp only []
  generalize hn : (w.tableOf t).node = n at *
  have hto : ∀ t', (((w.setNode n { w.nodeOf n with tmap := assocDel (w.nodeOf n).tmap (w.tableOf t).target, free := (w.nodeOf n).free ++ [(w.tableOf t).k] }).setTable t
        { node := n, k := (w.tableOf t).k, target := (w.tableOf t).target, active := false, rows := #[], cap := (w.tableOf t).cap }).cacheRemove t).tableOf t' =
      if t' = t then { node := n, k := (w.tableOf t).k, target := (w.tableOf t).target, active := false, rows := #[], cap := (w.tableOf t).cap } else w.tableOf t' := by
    intro t'
    rw [tableOf_cacheRemove]
    by_cases e : t' = t
    · subst e
      rw [tableOf_setTable_eq _ _ _ (by show t' < (w.setNode n _).tables.size; exact ht)]; simp
    · rw [tableOf_setTable_ne _ _ _ _ (fun x => e x.symm)]; simp [e]; rfl
  have hno : ∀ m, (((w.setNode n { w.nodeOf n with tmap := assocDel (w.nodeOf n).tmap (w.tableOf t).target, free := (w.nodeOf n).free ++ [(w.tableOf t).k] }).setTable t
        { node := n, k := (w.tableOf t).k, target := (w.tableOf t).target, active := false, rows := #[], cap := (w.tableOf t).cap }).cacheRemove t).nodeOf m =
      if m = n then { w.nodeOf n with tmap := assocDel (w.nodeOf n).tmap (w.tableOf t).target, free := (w.nodeOf n).free ++ [(w.tableOf t).k] } else w.nodeOf m := by
    intro m
    rw [nodeOf_cacheRemove, nodeOf_setTable, nodeOf_setNode]
    by_cases e : m = n
    · subst e; simp [hnlt]
    · have : ¬ (n = m ∧ n < w.nodes.size) := fun x => e x.1.symm
      rw [if_neg this, if_neg e]
  generalize hw' : (((w.setNode n { w.nodeOf n with tmap := assocDel (w.nodeOf n).tmap (w.tableOf t).target, free := (w.nodeOf n).free ++ [(w.tableOf t).k] }).setTable t
        { node := n, k := (w.tableOf t).k, target := (w.tableOf t).target, active := false, rows := #[], cap := (w.tableOf t).cap }).cacheRemove t) = w' at *
  have hts : w'.tables.size = w.tables.size := by
    rw [← hw']; show ((w.setNode n _).tables.setIfInBounds t _).size = _; simp [setNode]
  have hns : w'.nodes.size = w.nodes.size := by
    rw [← hw']; show (w.nodes.setIfInBounds n _).size = _; simp
  -- a table listed in a target map belongs to that node
  have hmapnode : ∀ m, m < w.nodes.size → ∀ e t', assocGet (w.nodeOf m).tmap e = some t' → (w.tableOf t').node = m := by
    intro m hm e t' hg
    obtain ⟨i, hi, hti⟩ := hI.tmap m hm e t' hg
    rw [← hti]; exact (hI.tables m hm i hi).2.1
  refine ⟨?_, ?_, ?_, ?_, ?_, ?_⟩
  · intro m hm e t' hg
    rw [hns] at hm
    rw [hno] at hg
    by_cases e1 : m = n
    · subst e1
      simp only [↓reduceIte] at hg
      rw [assocGet_assocDel] at hg
      split at hg
      · cases hg
      · rename_i hne
        have hs := hT.sound m hm e t' hg
        have : t' ≠ t := by intro x; subst x; exact hne hs.1.symm
        rw [hto, if_neg this, hno]; simp only [↓reduceIte]; exact hs
    · simp only [e1, ↓reduceIte] at hg
      have hs := hT.sound m hm e t' hg
      have : t' ≠ t := by intro x; subst x; rw [hmapnode m hm e t' hg] at hn; exact e1 hn
      rw [hto, if_neg this, hno, if_neg e1]; exact hs
  · intro t' ht' hac hr
    rw [hts] at ht'
    rw [hto] at hac hr ⊢
    by_cases e1 : t' = t
    · subst e1; simp at hac
    · simp only [e1, ↓reduceIte] at hac hr ⊢
      rw [hno] at hr ⊢
      by_cases e2 : (w.tableOf t').node = n
      · simp only [e2, ↓reduceIte] at hr ⊢
        have hc := hT.complete t' ht' hac (by rw [e2]; exact hr)
        rw [e2] at hc
        rw [assocGet_assocDel]
        split
        · rename_i he
          have hc2 := hT.complete t ht hact (by rw [hn]; exact hrel)
          rw [hn, ← he, hc] at hc2
          cases hc2; exact absurd rfl e1
        · exact hc
      · simp only [e2, ↓reduceIte] at hr ⊢
        exact hT.complete t' ht' hac hr
  · intro m hm k hk
    rw [hns] at hm
    rw [hno] at hk ⊢
    by_cases e1 : m = n
    · subst e1
      simp only [↓reduceIte, List.mem_append, List.mem_singleton] at hk ⊢
      rcases hk with hk | hk
      · have := hT.free m hm k hk
        have hne : (w.nodeOf m).tables.getD k 0 ≠ t := by intro x; rw [x, hact] at this; cases this
        rw [hto, if_neg hne]; exact this
      · subst hk; rw [hslot, hto]; simp
    · simp only [e1, ↓reduceIte] at hk ⊢
      have := hT.free m hm k hk
      have hne : (w.nodeOf m).tables.getD k 0 ≠ t := by intro x; rw [x, hact] at this; cases this
      rw [hto, if_neg hne]; exact this
  · intro m hm
    rw [hns] at hm
    rw [hno]
    by_cases e1 : m = n
    · subst e1
      simp only [↓reduceIte]
      rw [List.nodup_append]
      refine ⟨hT.freeNodup m hm, by simp, ?_⟩
      intro a ha b hb
      simp only [List.mem_singleton] at hb
      intro e
      rw [e, hb] at ha
      have := hT.free m hm _ ha
      rw [hslot, hact] at this; cases this
    · simp only [e1, ↓reduceIte]; exact hT.freeNodup m hm
  · intro t' ht' hac
    rw [hts] at ht'
    rw [hto] at hac ⊢
    by_cases e1 : t' = t
    · subst e1; simp
    · simp only [e1, ↓reduceIte] at hac ⊢; exact hT.empty t' ht' hac
  · intro t' ht' hr
    rw [hts] at ht'
    rw [hto] at hr ⊢
    by_cases e1 : t' = t
    · rw [if_pos e1] at hr
      simp only [] at hr
      rw [hno] at hr; simp only [↓reduceIte] at hr
      rw [hr] at hrel; cases hrel
    · simp only [e1, ↓reduceIte] at hr ⊢
      rw [hno] at hr
      by_cases e2 : (w.tableOf t').node = n
      · simp only [e2, ↓reduceIte] at hr; rw [hr] at hrel; cases hrel
      · simp only [e2, ↓reduceIte] at hr; exact hT.norel t' ht' hr

/-! ### row movements -/

/-- replacing a table's rows / capacity (node, slot, target, activity unchanged) keeps the
    invariant as long as an inactive table stays empty -/
theorem tinv_setRows (w : World) (hT : TInv w) (t : Nat) (ht : t < w.tables.size) (tb' : Table)
    (h1 : tb'.node = (w.tableOf t).node) (h3 : tb'.target = (w.tableOf t).target)
    (h4 : tb'.active = (w.tableOf t).active) (h5 : (w.tableOf t).active = false → tb'.rows = #[]) :
    TInv (w.setTable t tb') := by
  have hto : ∀ t', (w.setTable t tb').tableOf t' = if t' = t then tb' else w.tableOf t' := by
    intro t'
    by_cases e : t' = t
    · subst e; simp [ht]
    · rw [tableOf_setTable_ne _ _ _ _ (fun x => e x.symm)]; simp [e]
  have hfield : ∀ t', ((w.setTable t tb').tableOf t').node = (w.tableOf t').node ∧ ((w.setTable t tb').tableOf t').target = (w.tableOf t').target ∧
      ((w.setTable t tb').tableOf t').active = (w.tableOf t').active := by
    intro t'; rw [hto]
    by_cases e : t' = t
    · subst e; simp [h1, h3, h4]
    · simp [e]
  refine ⟨?_, ?_, ?_, ?_, ?_, ?_⟩
  · intro n hn e t' hg
    rw [(hfield t').2.1, (hfield t').2.2]; exact hT.sound n hn e t' hg
  · intro t' ht' hac hr
    rw [tables_size_setTable] at ht'
    rw [(hfield t').1] at hr ⊢
    rw [(hfield t').2.2] at hac; rw [(hfield t').2.1]
    exact hT.complete t' ht' hac hr
  · intro n hn k hk
    rw [(hfield _).2.2]; exact hT.free n hn k hk
  · intro n hn; exact hT.freeNodup n hn
  · intro t' ht' hac
    rw [tables_size_setTable] at ht'
    rw [(hfield t').2.2] at hac
    rw [hto]
    by_cases e : t' = t
    · subst e; simp only [↓reduceIte]; exact h5 hac
    · simp only [e, ↓reduceIte]; exact hT.empty t' ht' hac
  · intro t' ht' hr
    rw [tables_size_setTable] at ht'
    rw [(hfield t').1] at hr
    rw [(hfield t').2.1, (hfield t').2.2]; exact hT.norel t' ht' hr

theorem tinv_setIndex (w : World) (hT : TInv w) (i : Nat) (l : Option Loc) : TInv (w.setIndex i l) :=
  ⟨hT.sound, hT.complete, hT.free, hT.freeNodup, hT.empty, hT.norel⟩

theorem tinv_pushRow (w : World) (hT : TInv w) (t : Nat) (ht : t < w.tables.size) (row : Row) (cap : Nat)
    (hact : (w.tableOf t).active = true) : TInv (pushRow w t row cap) := by
  unfold pushRow
  apply tinv_setIndex
  exact tinv_setRows w hT t ht _ rfl rfl rfl (fun h => by rw [hact] at h; cases h)

theorem tinv_dropRow (w : World) (hT : TInv w) (t r : Nat) (ht : t < w.tables.size) (hr : r < (w.tableOf t).rows.size) :
    TInv (dropRow w t r) := by
  have hact : (w.tableOf t).active = true := by
    cases h : (w.tableOf t).active
    · have := hT.empty t ht h; rw [this] at hr; simp at hr
    · rfl
  unfold dropRow
  simp only []
  rw [removeRowFix_eq _ _ _ ht hr]
  split
  · apply tinv_setIndex
    exact tinv_setRows w hT t ht _ rfl rfl rfl (fun h => by rw [hact] at h; cases h)
  · apply tinv_setIndex
    apply tinv_setIndex
    exact tinv_setRows w hT t ht _ rfl rfl rfl (fun h => by rw [hact] at h; cases h)


/-- `createTable` leaves every active table exactly as it was -/
theorem createTable_frame (w : World) (hT : TInv w) (hI : NodeInv w) (n : Nat) (hn : n < w.nodes.size) (target : Entity) (fs : Bool)
    (t' : Nat) (ht' : t' < w.tables.size) (hact : (w.tableOf t').active = true) :
    (w.createTable n target fs).1.tableOf t' = w.tableOf t' := by
  unfold createTable
  simp only []
  split
  · split
    · rename_i k hfree
      simp only []
      have hk : k ∈ (w.nodeOf n).free := List.mem_of_getLast? hfree
      have hinact := hT.free n hn k hk
      have hne : (w.nodeOf n).tables.getD k 0 ≠ t' := by intro e; rw [e, hact] at hinact; cases hinact
      rw [tableOf_cacheAdd, tableOf_setNode, tableOf_setTable_ne _ _ _ _ hne]
    · simp only []
      rw [tableOf_cacheAdd, tableOf_setNode, tableOf_push, if_neg (Nat.ne_of_lt ht')]
  · simp only []
    rw [tableOf_cacheAdd, tableOf_setNode, tableOf_push, if_neg (Nat.ne_of_lt ht')]

theorem removeTable_fields (w : World) (t t' : Nat) :
    ((w.removeTable t).tableOf t').target = (w.tableOf t').target ∧ ((w.removeTable t).tableOf t').node = (w.tableOf t').node := by
  unfold removeTable
  simp only []
  rw [tableOf_cacheRemove]
  by_cases e : t = t'
  · subst e
    by_cases h : t < w.tables.size
    · rw [tableOf_setTable_eq _ _ _ (by show t < (w.setNode _ _).tables.size; exact h)]; exact ⟨rfl, rfl⟩
    · have : ∀ (w0 : World) tb, w0.tables.size = w.tables.size → (w0.setTable t tb).tableOf t = w0.tableOf t := by
        intro w0 tb hs; unfold tableOf setTable; simp only []
        rw [getD_set]; simp [hs, h]
      rw [this (w.setNode _ _) _ rfl]; exact ⟨rfl, rfl⟩
  · rw [tableOf_setTable_ne _ _ _ _ e]; exact ⟨rfl, rfl⟩

theorem cleanupTable_fields (w : World) (t t' : Nat) :
    ((w.cleanupTable t).tableOf t').target = (w.tableOf t').target ∧ ((w.cleanupTable t).tableOf t').node = (w.tableOf t').node := by
  unfold cleanupTable
  simp only []
  split
  · exact ⟨rfl, rfl⟩
  · split
    · exact ⟨rfl, rfl⟩
    · exact removeTable_fields w t t'

end Arche.TInv
