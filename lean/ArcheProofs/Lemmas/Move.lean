/-
  Moving an entity between tables (`moveEntity`, the common core of exchange and setRelation)
  is "swap-remove its row, then push a row with the moved values": the world that the model
  computes in the order of the Go code equals the composition of the two primitives whose
  invariants and frame properties are proved in IndexInv.
-/
import ArcheProofs.Lemmas.IndexInv

namespace Arche.Move
open Arche Arche.World Arche.Arr Arche.Storage Arche.IndexInv

theorem push_set_last {α} (a : Array α) (x y : α) : (a.push x).setIfInBounds a.size y = a.push y := by
  apply Array.ext_getElem?
  intro i
  rw [Array.getElem?_setIfInBounds, Array.getElem?_push, Array.getElem?_push]
  by_cases h : a.size = i
  · subst h; simp
  · have : ¬ i = a.size := fun x => h x.symm
    simp [h, this]

theorem setTable_setTable (w : World) (t : Nat) (a b : Table) : (w.setTable t a).setTable t b = w.setTable t b := by
  unfold setTable; simp only []; rw [Array.setIfInBounds_setIfInBounds]

theorem setTable_comm (w : World) (t t' : Nat) (a b : Table) (h : t ≠ t') :
    (w.setTable t a).setTable t' b = (w.setTable t' b).setTable t a := by
  unfold setTable; simp only []; rw [Array.setIfInBounds_comm _ _ h]

theorem setIndex_setIndex (w : World) (i : Nat) (a b : Option Loc) : (w.setIndex i a).setIndex i b = w.setIndex i b := by
  unfold setIndex; simp only []; rw [Array.setIfInBounds_setIfInBounds]

theorem setTable_setIndex (w : World) (t i : Nat) (tb : Table) (l : Option Loc) :
    (w.setIndex i l).setTable t tb = (w.setTable t tb).setIndex i l := rfl

/-- the values the moved row carries -/
def movedRow (w : World) (e : Entity) (l : Loc) (t : Nat) : Row :=
  ⟨e, movedVals (w.tableIds l.tbl) (w.tableIds t) (rowAt w l.tbl l.row).vals⟩

/-- **moveEntity = dropRow ; pushRow** (for distinct, existing tables) -/
theorem moveEntity_eq (w : World) (e : Entity) (l : Loc) (t : Nat) (ht : t < w.tables.size) (hl : validRow w l.tbl l.row)
    (hne : t ≠ l.tbl) (he : (rowAt w l.tbl l.row).ent = e) :
    w.moveEntity e l t =
      pushRow (dropRow w l.tbl l.row) t (movedRow w e l t) ((w.tableOf t).extend (w.nodeOf (w.tableOf t).node).capInc 1).cap := by
  obtain ⟨hlt, hlr⟩ := hl
  have hne' : l.tbl ≠ t := fun x => hne x.symm
  -- left side: collapse alloc + overwrite of the new row
  unfold moveEntity tableAlloc
  simp only []
  rw [tableOf_setTable_eq _ _ _ ht]
  simp only []
  have hext : ((w.tableOf t).extend (w.nodeOf (w.tableOf t).node).capInc 1).rows = (w.tableOf t).rows := by
    unfold Table.extend; simp only []; split <;> rfl
  have hextn : ((w.tableOf t).extend (w.nodeOf (w.tableOf t).node).capInc 1).node = (w.tableOf t).node := by
    unfold Table.extend; simp only []; split <;> rfl
  have hextk : ((w.tableOf t).extend (w.nodeOf (w.tableOf t).node).capInc 1).k = (w.tableOf t).k := by
    unfold Table.extend; simp only []; split <;> rfl
  have hextt : ((w.tableOf t).extend (w.nodeOf (w.tableOf t).node).capInc 1).target = (w.tableOf t).target := by
    unfold Table.extend; simp only []; split <;> rfl
  have hexta : ((w.tableOf t).extend (w.nodeOf (w.tableOf t).node).capInc 1).active = (w.tableOf t).active := by
    unfold Table.extend; simp only []; split <;> rfl
  rw [setTable_setTable, hext, push_set_last]
  have hids : (w.setTable t { (w.tableOf t).extend (w.nodeOf (w.tableOf t).node).capInc 1 with
      rows := (w.tableOf t).rows.push ⟨e, zeros (w.nodeOf (w.tableOf t).node).ids.length⟩ }).tableIds t = w.tableIds t :=
    tableIds_setTable _ _ _ _ hextn ht
  rw [hids]
  -- right side
  unfold pushRow dropRow
  simp only [tableOf_setIndex]
  rw [removeRowFix_eq _ _ _ hlt hlr]
  have hrow : ((w.tableOf l.tbl).rows.getD l.row default).vals = (rowAt w l.tbl l.row).vals := rfl
  rw [removeRowFix_eq _ _ _ (by simp; exact hlt) (by rw [tableOf_setTable_ne _ _ _ _ hne]; exact hlr)]
  rw [tableOf_setTable_ne _ _ _ _ hne]
  have hrA : ∀ (w' : World) (tb : Table) r, rowAt (w'.setTable t tb) l.tbl r = rowAt w' l.tbl r := by
    intro w' tb r; unfold rowAt; rw [tableOf_setTable_ne _ _ _ _ hne]
  by_cases elast : l.row = (w.tableOf l.tbl).rows.size - 1
  · rw [if_pos elast, if_pos elast]
    simp only [tableOf_setIndex]
    rw [tableOf_setTable_ne _ _ _ _ hne', setTable_comm _ _ _ _ _ hne]
    unfold movedRow
    rw [he, setTable_setIndex, setIndex_setIndex, hextn, hextk, hextt, hexta]
    rfl
  · rw [if_neg elast, if_neg elast, hrA]
    simp only [tableOf_setIndex]
    rw [tableOf_setTable_ne _ _ _ _ hne', setTable_comm _ _ _ _ _ hne]
    unfold movedRow
    rw [he]
    simp only [setTable_setIndex]
    rw [setIndex_setIndex, hextn, hextk, hextt, hexta]
    rfl

end Arche.Move
