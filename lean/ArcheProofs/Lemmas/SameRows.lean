/-
  `SameRows w w'`: `w'` differs from `w` only in the archetype graph, the filter cache, the
  target flags, the locks and in *new, empty* tables (or the activity / target / emptiness of
  tables that hold no rows): every existing row, the entity index and the pool are the same.
  All the graph-walking, table-creating and table-retiring helpers of the model are of this
  kind, which is why they can never disturb component data (C01) — the index invariant and
  every entity's view carry over.
-/
import ArcheProofs.Lemmas.IndexInv

namespace Arche.SameRows
open Arche Arche.World Arche.Arr Arche.Storage Arche.IndexInv

/-- every table belongs to an existing node -/
def TNodeOK (w : World) : Prop := ∀ t, t < w.tables.size → (w.tableOf t).node < w.nodes.size

structure SameRows (w w' : World) : Prop where
  index : w'.index = w.index
  pool : w'.pool = w.pool
  reg : w'.reg = w.reg
  tsize : w.tables.size ≤ w'.tables.size
  nsize : w.nodes.size ≤ w'.nodes.size
  rows : ∀ t, t < w.tables.size → (w'.tableOf t).rows = (w.tableOf t).rows ∧ (w'.tableOf t).node = (w.tableOf t).node
  fresh : ∀ t, w.tables.size ≤ t → t < w'.tables.size → (w'.tableOf t).rows = #[]
  nodes : ∀ n, n < w.nodes.size → (w'.nodeOf n).ids = (w.nodeOf n).ids ∧ (w'.nodeOf n).mask = (w.nodeOf n).mask ∧ (w'.nodeOf n).rel = (w.nodeOf n).rel
  tnode : TNodeOK w → TNodeOK w'

theorem refl (w : World) : SameRows w w :=
  ⟨rfl, rfl, rfl, Nat.le_refl _, Nat.le_refl _, fun _ _ => ⟨rfl, rfl⟩, fun t h1 h2 => by omega, fun _ _ => ⟨rfl, rfl, rfl⟩, id⟩

theorem trans {a b c : World} (h1 : SameRows a b) (h2 : SameRows b c) : SameRows a c := by
  refine ⟨h2.index.trans h1.index, h2.pool.trans h1.pool, h2.reg.trans h1.reg, Nat.le_trans h1.tsize h2.tsize, Nat.le_trans h1.nsize h2.nsize, ?_, ?_, ?_, fun h => h2.tnode (h1.tnode h)⟩
  · intro t ht
    have := h2.rows t (Nat.lt_of_lt_of_le ht h1.tsize)
    have h := h1.rows t ht
    exact ⟨this.1.trans h.1, this.2.trans h.2⟩
  · intro t hge hlt
    by_cases hb : t < b.tables.size
    · rw [(h2.rows t hb).1]; exact h1.fresh t hge hb
    · exact h2.fresh t (by omega) hlt
  · intro n hn
    have := h2.nodes n (Nat.lt_of_lt_of_le hn h1.nsize)
    have h := h1.nodes n hn
    exact ⟨this.1.trans h.1, this.2.1.trans h.2.1, this.2.2.trans h.2.2⟩

/-- table ids carry over -/
theorem tableIds_eq {w w' : World} (h : SameRows w w') (hn : TNodeOK w) (t : Nat) (ht : t < w.tables.size) :
    w'.tableIds t = w.tableIds t := by
  unfold tableIds nodeOfTable
  rw [(h.rows t ht).2]
  exact (h.nodes _ (hn t ht)).1

theorem tableMask_eq {w w' : World} (h : SameRows w w') (hn : TNodeOK w) (t : Nat) (ht : t < w.tables.size) :
    w'.tableMask t = w.tableMask t := by
  unfold tableMask nodeOfTable
  rw [(h.rows t ht).2]
  exact (h.nodes _ (hn t ht)).2.1

theorem tableRel_eq {w w' : World} (h : SameRows w w') (hn : TNodeOK w) (t : Nat) (ht : t < w.tables.size) :
    w'.tableRel t = w.tableRel t := by
  unfold tableRel nodeOfTable
  rw [(h.rows t ht).2]
  exact (h.nodes _ (hn t ht)).2.2

theorem rowAt_eq {w w' : World} (h : SameRows w w') (t r : Nat) (ht : t < w.tables.size) : rowAt w' t r = rowAt w t r := by
  unfold rowAt; rw [(h.rows t ht).1]

theorem loc_eq {w w' : World} (h : SameRows w w') (id : Nat) : loc w' id = loc w id := by
  unfold loc; rw [h.index]

/-- the index invariant carries over -/
theorem idxInv {w w' : World} (h : SameRows w w') (hn : TNodeOK w) (hi : IdxInv w) : IdxInv w' := by
  refine ⟨?_, ?_, ?_⟩
  · intro id l hl
    rw [loc_eq h] at hl
    obtain ⟨⟨h1, h2⟩, h3⟩ := hi.fwd id l hl
    refine ⟨⟨Nat.lt_of_lt_of_le h1 h.tsize, by rw [(h.rows _ h1).1]; exact h2⟩, ?_⟩
    rw [rowAt_eq h _ _ h1]; exact h3
  · intro t r ⟨h1, h2⟩
    by_cases ht : t < w.tables.size
    · rw [(h.rows t ht).1] at h2
      rw [rowAt_eq h _ _ ht, loc_eq h]; exact hi.bwd t r ⟨ht, h2⟩
    · rw [h.fresh t (by omega) h1] at h2; simp at h2
  · intro t r ⟨h1, h2⟩
    by_cases ht : t < w.tables.size
    · rw [(h.rows t ht).1] at h2
      rw [rowAt_eq h _ _ ht, tableIds_eq h hn t ht]; exact hi.width t r ⟨ht, h2⟩
    · rw [h.fresh t (by omega) h1] at h2; simp at h2

/-! ### the helpers of the model are `SameRows` -/

theorem of_setNode (w : World) (n : Nat) (nd : Node)
    (h : nd.ids = (w.nodeOf n).ids ∧ nd.mask = (w.nodeOf n).mask ∧ nd.rel = (w.nodeOf n).rel) : SameRows w (w.setNode n nd) := by
  refine ⟨rfl, rfl, rfl, Nat.le_refl _, by simp [setNode], fun _ _ => ⟨rfl, rfl⟩, fun t h1 h2 => by simp [setNode] at h2; omega, ?_, ?_⟩
  · intro k hk
    unfold nodeOf setNode
    simp only []
    by_cases e : n = k
    · subst e; rw [getD_set_eq _ _ _ _ hk]; exact h
    · rw [getD_set_ne _ _ _ _ _ e]; exact ⟨rfl, rfl, rfl⟩
  · intro ht t hlt
    have := ht t hlt
    simp only [setNode, Array.size_setIfInBounds]
    exact this

theorem of_nodes_same (w : World) (w' : World) (h : w' = { w with cache := w'.cache, flags := w'.flags, locks := w'.locks, cacheNext := w'.cacheNext }) :
    SameRows w w' := by
  rw [h]
  exact ⟨rfl, rfl, rfl, Nat.le_refl _, Nat.le_refl _, fun _ _ => ⟨rfl, rfl⟩, fun t h1 h2 => absurd h2 (Nat.not_lt.2 h1), fun _ _ => ⟨rfl, rfl, rfl⟩, id⟩

theorem of_cacheAdd (w : World) (t : Nat) : SameRows w (w.cacheAdd t) := of_nodes_same _ _ rfl
theorem of_cacheRemove (w : World) (t : Nat) : SameRows w (w.cacheRemove t) := of_nodes_same _ _ rfl
theorem of_setFlag (w : World) (i : Nat) (v : Bool) : SameRows w (w.setFlag i v) := of_nodes_same _ _ rfl
theorem of_markTarget (w : World) (t : Entity) : SameRows w (w.markTarget t) := by
  unfold markTarget; split
  · exact refl w
  · exact of_setFlag _ _ _

theorem of_createNode (w : World) (m : Mask) (r : Option CompId) : SameRows w (w.createNode m r).1 := by
  refine ⟨rfl, rfl, rfl, Nat.le_refl _, by simp [createNode], fun _ _ => ⟨rfl, rfl⟩, fun t h1 h2 => by simp [createNode] at h2; omega, ?_, ?_⟩
  · intro k hk
    unfold nodeOf createNode
    simp only []
    rw [getD_push]
    have : k ≠ w.nodes.size := by omega
    simp [this]
  · intro ht t hlt
    have := ht t hlt
    simp only [createNode, Array.size_push]
    show (w.tableOf t).node < w.nodes.size + 1
    omega

theorem createNode_snd (w : World) (m : Mask) (r : Option CompId) : (w.createNode m r).2 = w.nodes.size := rfl

theorem of_findOrCreateNodeSlow (w : World) (m : Mask) (r : Option CompId) : SameRows w (w.findOrCreateNodeSlow m r).1 := by
  unfold findOrCreateNodeSlow
  split
  · exact refl w
  · exact of_createNode w m r

/-- the node returned by `findOrCreateNodeSlow` exists and has the requested mask -/
theorem findOrCreateNodeSlow_spec (w : World) (m : Mask) (r : Option CompId) :
    (w.findOrCreateNodeSlow m r).2 < (w.findOrCreateNodeSlow m r).1.nodes.size ∧
    ((w.findOrCreateNodeSlow m r).1.nodeOf (w.findOrCreateNodeSlow m r).2).mask = m := by
  unfold findOrCreateNodeSlow
  split
  · rename_i i hi
    have := Array.findIdx?_eq_some_iff_getElem.1 hi
    obtain ⟨hlt, hp, _⟩ := this
    refine ⟨hlt, ?_⟩
    unfold nodeOf
    simp only [Array.getD_eq_getD_getElem?, hlt, Array.getElem?_eq_getElem, Option.getD_some]
    simpa using hp
  · simp only [createNode]
    refine ⟨by simp, ?_⟩
    unfold nodeOf
    simp only []
    rw [getD_push]; simp


/-! ### node invariant: a node's table list, free list and target map are consistent -/

structure NodeInv (w : World) : Prop where
  tnode : TNodeOK w
  tables : ∀ n, n < w.nodes.size → ∀ i, i < (w.nodeOf n).tables.size →
      (w.nodeOf n).tables.getD i 0 < w.tables.size ∧ (w.tableOf ((w.nodeOf n).tables.getD i 0)).node = n ∧
      (w.tableOf ((w.nodeOf n).tables.getD i 0)).k = i
  free : ∀ n, n < w.nodes.size → ∀ k ∈ (w.nodeOf n).free, k < (w.nodeOf n).tables.size
  tmap : ∀ n, n < w.nodes.size → ∀ e t, assocGet (w.nodeOf n).tmap e = some t →
      ∃ i, i < (w.nodeOf n).tables.size ∧ (w.nodeOf n).tables.getD i 0 = t

theorem assocGet_assocSet {α β} [DecidableEq α] (l : List (α × β)) (a a' : α) (b : β) :
    assocGet (assocSet l a b) a' = if a' = a then some b else assocGet l a' := by
  unfold assocGet assocSet
  by_cases h : a' = a
  · subst h; simp
  · simp only [h, ↓reduceIte, List.find?_cons]
    have : ((a, b).1 == a') = false := by simp; exact fun x => h x.symm
    simp only [this]
    congr 1
    rw [List.find?_filter]
    congr 1
    funext p
    by_cases hp : p.1 = a'
    · simp [hp, h]
    · simp [hp]

theorem assocGet_assocDel {α β} [DecidableEq α] (l : List (α × β)) (a a' : α) :
    assocGet (assocDel l a) a' = if a' = a then none else assocGet l a' := by
  unfold assocGet assocDel
  by_cases h : a' = a
  · subst h
    simp only [↓reduceIte]
    have : (l.filter (fun p => p.1 != a')).find? (fun p => p.1 == a') = none := by
      rw [List.find?_eq_none]
      intro p hp
      simp at hp ⊢
      exact hp.2
    rw [this]
  · simp only [h, ↓reduceIte]
    congr 1
    rw [List.find?_filter]
    congr 1
    funext p
    by_cases hp : p.1 = a'
    · simp [hp, h]
    · simp [hp]


theorem mem_of_mem_dropLast {α} (l : List α) (x : α) (h : x ∈ l.dropLast) : x ∈ l := by
  induction l with
  | nil => simp at h
  | cons a as ih =>
    cases as with
    | nil => simp at h
    | cons b bs =>
      simp only [List.dropLast_cons_cons, List.mem_cons] at h ⊢
      rcases h with h | h
      · exact Or.inl h
      · exact Or.inr (by simpa using ih h)

theorem nodeInv_of_cache (w w' : World) (h : w' = { w with cache := w'.cache, flags := w'.flags, locks := w'.locks, cacheNext := w'.cacheNext })
    (hi : NodeInv w) : NodeInv w' := by
  rw [h]; exact ⟨hi.tnode, hi.tables, hi.free, hi.tmap⟩

theorem nodeOf_setNode (w : World) (n k : Nat) (nd : Node) :
    (w.setNode n nd).nodeOf k = if n = k ∧ n < w.nodes.size then nd else w.nodeOf k := by
  unfold nodeOf setNode; simp only []; rw [getD_set]

theorem tableOf_push (w : World) (tb : Table) (t : Nat) :
    ({ w with tables := w.tables.push tb } : World).tableOf t = if t = w.tables.size then tb else w.tableOf t := by
  unfold tableOf; simp only []; rw [getD_push]

theorem nodeInv_setTable (w : World) (hI : NodeInv w) (t : Nat) (tb' : Table) (ht : t < w.tables.size)
    (h1 : tb'.node = (w.tableOf t).node) (h2 : tb'.k = (w.tableOf t).k) : NodeInv (w.setTable t tb') := by
  have htab : ∀ x, (w.setTable t tb').tableOf x = if t = x then tb' else w.tableOf x := by
    intro x
    by_cases e : t = x
    · subst e; rw [tableOf_setTable_eq _ _ _ ht]; simp
    · rw [tableOf_setTable_ne _ _ _ _ e]; simp [e]
  refine ⟨?_, ?_, hI.free, hI.tmap⟩
  · intro x hx
    rw [tables_size_setTable] at hx
    rw [htab]
    split
    · rename_i e; rw [h1]; exact hI.tnode t ht
    · exact hI.tnode x hx
  · intro n hn i hi
    have hno : ∀ k, (w.setTable t tb').nodeOf k = w.nodeOf k := fun _ => rfl
    rw [hno] at hi ⊢
    have := hI.tables n hn i hi
    rw [tables_size_setTable, htab]
    by_cases e : t = (w.nodeOf n).tables.getD i 0
    · rw [if_pos e]; rw [← e] at this ⊢; exact ⟨ht, by rw [h1]; exact this.2.1, by rw [h2]; exact this.2.2⟩
    · rw [if_neg e]; exact this

theorem nodeInv_setNode (w : World) (hI : NodeInv w) (n : Nat) (hn : n < w.nodes.size) (nd' : Node)
    (c1 : ∀ i, i < nd'.tables.size → nd'.tables.getD i 0 < w.tables.size ∧ (w.tableOf (nd'.tables.getD i 0)).node = n ∧ (w.tableOf (nd'.tables.getD i 0)).k = i)
    (c2 : ∀ k ∈ nd'.free, k < nd'.tables.size)
    (c3 : ∀ e t, assocGet nd'.tmap e = some t → ∃ i, i < nd'.tables.size ∧ nd'.tables.getD i 0 = t) :
    NodeInv (w.setNode n nd') := by
  have hnodeOf : ∀ x, (w.setNode n nd').nodeOf x = if n = x then nd' else w.nodeOf x := by
    intro x; rw [nodeOf_setNode]; simp [hn]
  have hsz : (w.setNode n nd').nodes.size = w.nodes.size := by simp [setNode]
  refine ⟨?_, ?_, ?_, ?_⟩
  · intro x hx; rw [hsz]; exact hI.tnode x hx
  · intro x hx i hi
    rw [hsz] at hx
    rw [hnodeOf] at hi ⊢
    split
    · rename_i e; subst e; simp only [↓reduceIte] at hi; exact c1 i hi
    · rename_i e; simp only [e, ↓reduceIte] at hi; exact hI.tables x hx i hi
  · intro x hx k hk
    rw [hsz] at hx
    rw [hnodeOf] at hk ⊢
    split
    · rename_i e; subst e; simp only [↓reduceIte] at hk; exact c2 k hk
    · rename_i e; simp only [e, ↓reduceIte] at hk; exact hI.free x hx k hk
  · intro x hx e t hg
    rw [hsz] at hx
    rw [hnodeOf] at hg ⊢
    split
    · rename_i e2; subst e2; simp only [↓reduceIte] at hg; exact c3 e t hg
    · rename_i e2; simp only [e2, ↓reduceIte] at hg; exact hI.tmap x hx e t hg

theorem nodeInv_pushTable (w : World) (hI : NodeInv w) (tb : Table) (hn : tb.node < w.nodes.size) :
    NodeInv ({ w with tables := w.tables.push tb } : World) := by
  refine ⟨?_, ?_, hI.free, hI.tmap⟩
  · intro x hx
    simp only [Array.size_push] at hx
    rw [tableOf_push]
    split
    · exact hn
    · exact hI.tnode x (by omega)
  · intro n hnn i hi
    have hno : ∀ k, ({ w with tables := w.tables.push tb } : World).nodeOf k = w.nodeOf k := fun _ => rfl
    rw [hno] at hi ⊢
    have := hI.tables n hnn i hi
    rw [tableOf_push]
    have hne : (w.nodeOf n).tables.getD i 0 ≠ w.tables.size := by omega
    simp only [hne, ↓reduceIte, Array.size_push]
    exact ⟨by omega, this.2⟩

theorem sameRows_pushTable (w : World) (tb : Table) (hr : tb.rows = #[]) (hn : tb.node < w.nodes.size) :
    SameRows w ({ w with tables := w.tables.push tb } : World) := by
  refine ⟨rfl, rfl, rfl, by simp, Nat.le_refl _, ?_, ?_, fun _ _ => ⟨rfl, rfl, rfl⟩, ?_⟩
  · intro t ht
    rw [tableOf_push]
    have : t ≠ w.tables.size := by omega
    simp [this]
  · intro t h1 h2
    simp only [Array.size_push] at h2
    rw [tableOf_push]
    have : t = w.tables.size := by omega
    simp [this, hr]
  · intro hto x hx
    simp only [Array.size_push] at hx
    rw [tableOf_push]
    split
    · exact hn
    · exact hto x (by omega)

theorem sameRows_setTable_rows (w : World) (t : Nat) (tb' : Table) (ht : t < w.tables.size)
    (hr : tb'.rows = (w.tableOf t).rows) (hn : tb'.node = (w.tableOf t).node) : SameRows w (w.setTable t tb') := by
  refine ⟨rfl, rfl, rfl, by simp, Nat.le_refl _, ?_, fun x h1 h2 => by simp at h2; omega, fun _ _ => ⟨rfl, rfl, rfl⟩, ?_⟩
  · intro x hx
    by_cases e : t = x
    · subst e; rw [tableOf_setTable_eq _ _ _ ht]; exact ⟨hr, hn⟩
    · rw [tableOf_setTable_ne _ _ _ _ e]; exact ⟨rfl, rfl⟩
  · intro hto x hx
    simp only [tables_size_setTable] at hx
    by_cases e : t = x
    · subst e; rw [tableOf_setTable_eq _ _ _ ht, hn]; exact hto t ht
    · rw [tableOf_setTable_ne _ _ _ _ e]; exact hto x hx

/-- `createTable` on an existing node: rows, index and pool are untouched, the node invariant
    is kept, and the returned table exists and belongs to the node -/
theorem createTable_spec (w : World) (hI : NodeInv w) (n : Nat) (hn : n < w.nodes.size) (target : Entity) (fs : Bool)
    (hempty : (w.nodeOf n).rel.isSome = false → (w.nodeOf n).tables.size = 0) :
    SameRows w (w.createTable n target fs).1 ∧ NodeInv (w.createTable n target fs).1 ∧
    (w.createTable n target fs).2 < (w.createTable n target fs).1.tables.size ∧
    ((w.createTable n target fs).1.tableOf (w.createTable n target fs).2).node = n := by
  unfold createTable
  simp only []
  by_cases hrel : (w.nodeOf n).rel.isSome = true
  · simp only [hrel, ↓reduceIte]
    cases hfree : (w.nodeOf n).free.getLast? with
    | some k =>
      simp only []
      have hk : k ∈ (w.nodeOf n).free := List.mem_of_getLast? hfree
      have hkl := hI.free n hn k hk
      obtain ⟨htv, htn, htk⟩ := hI.tables n hn k hkl
      generalize ht : (w.nodeOf n).tables.getD k 0 = t at *
      have hs1 := sameRows_setTable_rows w t { w.tableOf t with active := true, target := target } htv rfl rfl
      have hi1 := nodeInv_setTable w hI t { w.tableOf t with active := true, target := target } htv rfl rfl
      generalize hw1 : w.setTable t { w.tableOf t with active := true, target := target } = w1 at *
      have hnd1 : w1.nodeOf n = w.nodeOf n := by rw [← hw1]; rfl
      have hn1 : n < w1.nodes.size := by rw [← hw1]; exact hn
      have hs2 : SameRows w1 (w1.setNode n { w.nodeOf n with free := (w.nodeOf n).free.dropLast, tmap := assocSet (w.nodeOf n).tmap target t }) :=
        of_setNode _ _ _ (by rw [hnd1]; exact ⟨rfl, rfl, rfl⟩)
      have hi2 : NodeInv (w1.setNode n { w.nodeOf n with free := (w.nodeOf n).free.dropLast, tmap := assocSet (w.nodeOf n).tmap target t }) := by
        apply nodeInv_setNode w1 hi1 n hn1
        · intro i hi; have := hi1.tables n hn1 i (by rw [hnd1]; exact hi); rw [hnd1] at this; exact this
        · intro k' hk'; exact hI.free n hn k' (mem_of_mem_dropLast _ _ hk')
        · intro e' t' hg
          simp only [] at hg
          rw [assocGet_assocSet] at hg
          split at hg
          · cases hg; exact ⟨k, hkl, ht⟩
          · exact hI.tmap n hn e' t' hg
      refine ⟨trans (trans hs1 hs2) (of_cacheAdd _ _), nodeInv_of_cache _ _ rfl hi2, ?_, ?_⟩
      · show t < w1.tables.size
        rw [← hw1, tables_size_setTable]; exact htv
      · show (w1.tableOf t).node = n
        rw [← hw1, tableOf_setTable_eq _ _ _ htv]; exact htn
    | none =>
      simp only []
      let tb : Table := { node := n, k := (w.nodeOf n).tables.size, target := target, active := true, rows := #[], cap := (w.nodeOf n).capInc }
      have hs1 := sameRows_pushTable w tb rfl hn
      have hi1 := nodeInv_pushTable w hI tb hn
      generalize hw1 : ({ w with tables := w.tables.push tb } : World) = w1 at *
      have hnd1 : w1.nodeOf n = w.nodeOf n := by rw [← hw1]; rfl
      have hn1 : n < w1.nodes.size := by rw [← hw1]; exact hn
      have htab1 : w1.tableOf w.tables.size = tb := by rw [← hw1, tableOf_push]; simp
      have hsz1 : w1.tables.size = w.tables.size + 1 := by rw [← hw1]; simp
      have hs2 : SameRows w1 (w1.setNode n { w.nodeOf n with active := true, tables := (w.nodeOf n).tables.push w.tables.size, tmap := assocSet (w.nodeOf n).tmap target w.tables.size }) :=
        of_setNode _ _ _ (by rw [hnd1]; exact ⟨rfl, rfl, rfl⟩)
      have hi2 : NodeInv (w1.setNode n { w.nodeOf n with active := true, tables := (w.nodeOf n).tables.push w.tables.size, tmap := assocSet (w.nodeOf n).tmap target w.tables.size }) := by
        apply nodeInv_setNode w1 hi1 n hn1
        · intro i hi
          simp only [Array.size_push] at hi
          simp only []
          rw [getD_push]
          split
          · rename_i e; rw [htab1, hsz1]; exact ⟨by omega, rfl, e.symm⟩
          · have := hi1.tables n hn1 i (by rw [hnd1]; omega); rw [hnd1] at this; exact this
        · intro k' hk'
          simp only [Array.size_push]
          have := hI.free n hn k' hk'; omega
        · intro e' t' hg
          simp only [] at hg ⊢
          rw [assocGet_assocSet] at hg
          split at hg
          · cases hg; exact ⟨(w.nodeOf n).tables.size, by simp, by rw [getD_push]; simp⟩
          · obtain ⟨i, hi, hget⟩ := hI.tmap n hn e' t' hg
            exact ⟨i, by simp; omega, by rw [getD_push, if_neg (Nat.ne_of_lt hi)]; exact hget⟩
      refine ⟨trans (trans hs1 hs2) (of_cacheAdd _ _), nodeInv_of_cache _ _ rfl hi2, ?_, ?_⟩
      · show w.tables.size < w1.tables.size
        omega
      · show (w1.tableOf w.tables.size).node = n
        rw [htab1]
  · simp only [hrel, Bool.false_eq_true, ↓reduceIte]
    let tb : Table := { node := n, k := 0, target := Entity.zero, active := true, rows := #[], cap := if fs then (w.nodeOf n).capInc else 1 }
    have hs1 := sameRows_pushTable w tb rfl hn
    have hi1 := nodeInv_pushTable w hI tb hn
    generalize hw1 : ({ w with tables := w.tables.push tb } : World) = w1 at *
    have hnd1 : w1.nodeOf n = w.nodeOf n := by rw [← hw1]; rfl
    have hn1 : n < w1.nodes.size := by rw [← hw1]; exact hn
    have htab1 : w1.tableOf w.tables.size = tb := by rw [← hw1, tableOf_push]; simp
    have hsz1 : w1.tables.size = w.tables.size + 1 := by rw [← hw1]; simp
    have hs2 : SameRows w1 (w1.setNode n { w.nodeOf n with active := true, tables := #[w.tables.size] }) :=
      of_setNode _ _ _ (by rw [hnd1]; exact ⟨rfl, rfl, rfl⟩)
    have hz := hempty (by simpa using hrel)
    have hi2 : NodeInv (w1.setNode n { w.nodeOf n with active := true, tables := #[w.tables.size] }) := by
      apply nodeInv_setNode w1 hi1 n hn1
      · intro i hi
        simp only [List.size_toArray, List.length_cons, List.length_nil, Nat.zero_add, Nat.lt_one_iff] at hi
        subst hi
        show (#[w.tables.size].getD 0 0) < _ ∧ _
        simp only [Array.getD_eq_getD_getElem?, List.size_toArray, List.length_cons, List.length_nil, Nat.zero_add,
          Nat.lt_add_one, Array.getElem?_eq_getElem, List.getElem_toArray, List.getElem_cons_zero, Option.getD_some]
        rw [htab1, hsz1]; exact ⟨by omega, rfl, rfl⟩
      · intro k' hk'
        have := hI.free n hn k' hk'; omega
      · intro e' t' hg
        obtain ⟨i, hi, _⟩ := hI.tmap n hn e' t' hg
        omega
    refine ⟨trans (trans hs1 hs2) (of_cacheAdd _ _), nodeInv_of_cache _ _ rfl hi2, ?_, ?_⟩
    · show w.tables.size < w1.tables.size
      omega
    · show (w1.tableOf w.tables.size).node = n
      rw [htab1]


theorem of_removeTable (w : World) (t : Nat) (ht : t < w.tables.size) (hz : (w.tableOf t).rows.size = 0) :
    SameRows w (w.removeTable t) := by
  unfold removeTable
  simp only []
  have hs1 : SameRows w (w.setNode (w.tableOf t).node { w.nodeOf (w.tableOf t).node with
      tmap := assocDel (w.nodeOf (w.tableOf t).node).tmap (w.tableOf t).target,
      free := (w.nodeOf (w.tableOf t).node).free ++ [(w.tableOf t).k] }) := of_setNode _ _ _ ⟨rfl, rfl, rfl⟩
  generalize hw1 : w.setNode (w.tableOf t).node { w.nodeOf (w.tableOf t).node with
      tmap := assocDel (w.nodeOf (w.tableOf t).node).tmap (w.tableOf t).target,
      free := (w.nodeOf (w.tableOf t).node).free ++ [(w.tableOf t).k] } = w1 at *
  have ht1 : t < w1.tables.size := by rw [← hw1]; exact ht
  have htb : w1.tableOf t = w.tableOf t := by rw [← hw1]; rfl
  have hs2 : SameRows w1 (w1.setTable t { w.tableOf t with active := false, rows := #[] }) := by
    apply sameRows_setTable_rows w1 t _ ht1
    · rw [htb]; exact (Array.eq_empty_of_size_eq_zero hz).symm
    · rw [htb]
  exact trans (trans hs1 hs2) (of_cacheRemove _ _)

theorem of_cleanupTable (w : World) (t : Nat) (ht : t < w.tables.size) : SameRows w (w.cleanupTable t) := by
  unfold cleanupTable
  simp only []
  split
  · exact refl w
  · rename_i hc
    split
    · exact refl w
    · apply of_removeTable w t ht
      simp only [Bool.or_eq_true, decide_eq_true_eq, not_or] at hc
      omega

end Arche.SameRows
