/-
  Frames needed to lift the per-operation specifications to all reachable worlds:
  * `Misc`  — pool, index, flags, locks, resources, listener, configuration and registry are
    untouched by the graph walk, by table creation and retirement;
  * `BInv`  — every node mask only holds registered component ids (needed so that registering a
    new relation type cannot change the relation status of an existing node);
  * `RootInv` — table 0 is the active, target-less table of the empty component set.
-/
import ArcheProofs.Lemmas.Create

namespace Arche.Frames
open Arche Arche.World Arche.Arr Arche.Storage Arche.IndexInv Arche.SameRows Arche.Graph Arche.Closed Arche.TInv Arche.KInv Arche.Move Arche.Remove Arche.Cov Arche.Cache Arche.SInv Arche.DInv Arche.Create

/-- everything but nodes, tables and the filter cache is unchanged -/
structure Misc (w w' : World) : Prop where
  cfg : w'.cfg = w.cfg
  pool : w'.pool = w.pool
  index : w'.index = w.index
  flags : w'.flags = w.flags
  locks : w'.locks = w.locks
  reg : w'.reg = w.reg
  resources : w'.resources = w.resources
  resCount : w'.resCount = w.resCount
  listener : w'.listener = w.listener

namespace Misc
theorem refl (w : World) : Misc w w := ⟨rfl, rfl, rfl, rfl, rfl, rfl, rfl, rfl, rfl⟩
theorem trans {a b c : World} (h1 : Misc a b) (h2 : Misc b c) : Misc a c :=
  ⟨h2.cfg.trans h1.cfg, h2.pool.trans h1.pool, h2.index.trans h1.index, h2.flags.trans h1.flags, h2.locks.trans h1.locks,
   h2.reg.trans h1.reg, h2.resources.trans h1.resources, h2.resCount.trans h1.resCount, h2.listener.trans h1.listener⟩
theorem of_setNode (w : World) (n : Nat) (nd : Node) : Misc w (w.setNode n nd) := ⟨rfl, rfl, rfl, rfl, rfl, rfl, rfl, rfl, rfl⟩
theorem of_setTable (w : World) (t : Nat) (tb : Table) : Misc w (w.setTable t tb) := ⟨rfl, rfl, rfl, rfl, rfl, rfl, rfl, rfl, rfl⟩
theorem of_cacheAdd (w : World) (t : Nat) : Misc w (w.cacheAdd t) := ⟨rfl, rfl, rfl, rfl, rfl, rfl, rfl, rfl, rfl⟩
theorem of_cacheRemove (w : World) (t : Nat) : Misc w (w.cacheRemove t) := ⟨rfl, rfl, rfl, rfl, rfl, rfl, rfl, rfl, rfl⟩
theorem of_pushTable (w : World) (tb : Table) : Misc w ({ w with tables := w.tables.push tb } : World) := ⟨rfl, rfl, rfl, rfl, rfl, rfl, rfl, rfl, rfl⟩
theorem of_createNode (w : World) (m : Mask) (r : Option CompId) : Misc w (w.createNode m r).1 := ⟨rfl, rfl, rfl, rfl, rfl, rfl, rfl, rfl, rfl⟩
end Misc

theorem misc_closed : StepClosed Misc where
  refl := Misc.refl
  trans _ _ _ := Misc.trans
  nbrs w n nb := Misc.of_setNode w n _
  node w m r := Misc.of_createNode w m r

theorem misc_createTable (w : World) (n : Nat) (target : Entity) (fs : Bool) : Misc w (w.createTable n target fs).1 := by
  unfold createTable
  simp only []
  split
  · split
    · refine Misc.trans ?_ (Misc.of_cacheAdd _ _)
      exact Misc.trans (Misc.of_setTable _ _ _) (Misc.of_setNode _ _ _)
    · refine Misc.trans ?_ (Misc.of_cacheAdd _ _)
      exact Misc.trans (Misc.of_pushTable _ _) (Misc.of_setNode _ _ _)
  · refine Misc.trans ?_ (Misc.of_cacheAdd _ _)
    exact Misc.trans (Misc.of_pushTable _ _) (Misc.of_setNode _ _ _)

theorem misc_findOrCreateTable (w : World) (start : Nat) (add rem : List CompId) (target : Entity) :
    Misc w (w.findOrCreateTable start add rem target).1 := by
  obtain ⟨w2, n2, hcl, hres⟩ := findOrCreateTable_decomp w start add rem target
  have h2 : Misc w w2 := hcl _ misc_closed
  rcases hres with ⟨p, hp⟩ | ⟨t, _, hp⟩ | ⟨_, hp⟩
  · rw [hp]; exact h2
  · rw [hp]; exact h2
  · rw [hp]; exact Misc.trans h2 (misc_createTable w2 n2 target true)

theorem misc_removeTable (w : World) (t : Nat) : Misc w (w.removeTable t) := by
  unfold removeTable
  simp only []
  refine Misc.trans ?_ (Misc.of_cacheRemove _ _)
  exact Misc.trans (Misc.of_setNode _ _ _) (Misc.of_setTable _ _ _)

theorem misc_cleanupTable (w : World) (t : Nat) : Misc w (w.cleanupTable t) := by
  unfold cleanupTable
  simp only []
  split
  · exact Misc.refl w
  · split
    · exact Misc.refl w
    · exact misc_removeTable w t

/-! ## node masks hold registered ids only -/

def BInv (w : World) : Prop := ∀ n, n < w.nodes.size → ∀ c, Mask.get (w.nodeOf n).mask c = true → c < w.reg.count

theorem binv_of_dsame {w w' : World} (h : DSame w w') (b : BInv w) : BInv w' := by
  intro n hn c hc
  rw [(h.core n).2.1] at hc
  rw [h.reg]; exact b n (by rw [← h.size]; exact hn) c hc

theorem binv_createNode (w : World) (b : BInv w) (m : Mask) (r : Option CompId) (hm : ∀ c, Mask.get m c = true → c < w.reg.count) :
    BInv (w.createNode m r).1 := by
  have hnew : ((w.createNode m r).1.nodeOf w.nodes.size).mask = m := by
    unfold createNode nodeOf; simp only []; rw [getD_push]; simp
  have hold : ∀ n, n ≠ w.nodes.size → (w.createNode m r).1.nodeOf n = w.nodeOf n := by
    intro n hn; unfold createNode nodeOf; simp only []; rw [getD_push, if_neg hn]
  have hsz : (w.createNode m r).1.nodes.size = w.nodes.size + 1 := by unfold createNode; simp
  intro n hn c hc
  show c < w.reg.count
  by_cases h : n = w.nodes.size
  · rw [h, hnew] at hc; exact hm c hc
  · rw [hold n h] at hc; exact b n (by rw [hsz] at hn; omega) c hc

theorem binv_walk (w : World) (b : BInv w) (curr : Nat) (id : CompId) (m : Mask) (r : Option CompId)
    (hm : ∀ c, Mask.get m c = true → c < w.reg.count) : BInv (w.walk curr id m r).1 := by
  unfold walk
  split
  · exact b
  · simp only []
    have h0 : BInv (w.findOrCreateNodeSlow m r).1 ∧ (w.findOrCreateNodeSlow m r).1.reg = w.reg := by
      unfold findOrCreateNodeSlow; split
      · exact ⟨b, rfl⟩
      · exact ⟨binv_createNode w b m r hm, rfl⟩
    generalize (w.findOrCreateNodeSlow m r).1 = w0 at h0
    generalize (w.findOrCreateNodeSlow m r).2 = nx
    have s1 := DSame.of_setNode w0 nx { w0.nodeOf nx with nbrs := assocSet (w0.nodeOf nx).nbrs id curr } ⟨rfl, rfl, rfl⟩
    generalize w0.setNode nx { w0.nodeOf nx with nbrs := assocSet (w0.nodeOf nx).nbrs id curr } = w1 at s1
    have s2 := DSame.of_setNode w1 curr { w1.nodeOf curr with nbrs := assocSet (w1.nodeOf curr).nbrs id nx } ⟨rfl, rfl, rfl⟩
    exact binv_of_dsame (DSame.trans s1 s2) h0.1

/-- walk-state invariant: the carried world satisfies `BInv` with the starting registry and the
    walked mask holds registered ids only -/
structure BW (reg : Registry) (s : WalkSt) : Prop where
  binv : BInv s.w
  hreg : s.w.reg = reg
  mask : ∀ c, Mask.get s.mask c = true → c < reg.count

theorem bw_walkRem (reg : Registry) (s : WalkSt) (h : BW reg s) (id : CompId) : BW reg (walkRem reg s id) := by
  have hm : ∀ c, Mask.get (Mask.set s.mask id false) c = true → c < reg.count := by
    intro c hc; rw [NatMask.get_set] at hc
    by_cases hci : c = id
    · simp [hci] at hc
    · simp only [hci, ↓reduceIte] at hc; exact h.mask c hc
  unfold walkRem
  simp only []
  refine ⟨binv_walk s.w h.binv s.curr id _ _ (by rw [h.hreg]; exact hm), ?_, hm⟩
  exact ((dinv_walk_reg s.w s.curr id _ _)).trans h.hreg
where
  dinv_walk_reg (w : World) (curr : Nat) (id : CompId) (m : Mask) (r : Option CompId) : (w.walk curr id m r).1.reg = w.reg :=
    (misc_closed_walk w curr id m r).reg
  misc_closed_walk (w : World) (curr : Nat) (id : CompId) (m : Mask) (r : Option CompId) : Misc w (w.walk curr id m r).1 :=
    walk_closed misc_closed w curr id m r

theorem walk_reg (w : World) (curr : Nat) (id : CompId) (m : Mask) (r : Option CompId) : (w.walk curr id m r).1.reg = w.reg :=
  (walk_closed misc_closed w curr id m r).reg

theorem bw_walkRems (reg : Registry) (l : List CompId) (s : WalkSt) (h : BW reg s) : BW reg (l.foldl (walkRem reg) s) := by
  induction l generalizing s with
  | nil => exact h
  | cons id rest ih => simp only [List.foldl_cons]; exact ih _ (bw_walkRem reg s h id)

theorem bw_walkAdd (reg : Registry) (m0 : Mask) (s s' : WalkSt) (h : BW reg s) (id : CompId) (hid : id < reg.count)
    (hr : walkAdd reg m0 s id = .ok s') : BW reg s' := by
  unfold walkAdd at hr
  split at hr; · cases hr
  split at hr; · cases hr
  simp only [] at hr
  split at hr; · cases hr
  cases hr
  have hm : ∀ c, Mask.get (Mask.set s.mask id true) c = true → c < reg.count := by
    intro c hc; rw [NatMask.get_set] at hc
    by_cases hci : c = id
    · rw [hci]; exact hid
    · simp only [hci, ↓reduceIte] at hc; exact h.mask c hc
  exact ⟨binv_walk s.w h.binv s.curr id _ _ (by rw [h.hreg]; exact hm), (walk_reg s.w s.curr id _ _).trans h.hreg, hm⟩

theorem bw_walkAdds (reg : Registry) (m0 : Mask) (l : List CompId) (hl : ∀ id ∈ l, id < reg.count) (s : WalkSt) (h : BW reg s) :
    BW reg (walkAdds reg m0 s l).1 := by
  induction l generalizing s with
  | nil => exact h
  | cons id rest ih =>
    unfold walkAdds
    cases hr : walkAdd reg m0 s id with
    | error p => exact h
    | ok s' =>
      simp only []
      exact ih (fun x hx => hl x (List.mem_cons_of_mem _ hx)) s' (bw_walkAdd reg m0 s s' h id (hl id List.mem_cons_self) hr)

/-- `findOrCreateArchetype` with registered ids keeps `BInv` -/
theorem binv_findOrCreateTable (w : World) (b : BInv w) (hI : NodeInv w) (start : Nat) (hs : start < w.tables.size)
    (add rem : List CompId) (target : Entity) (hadd : ∀ id ∈ add, id < w.reg.count) :
    BInv (w.findOrCreateTable start add rem target).1 := by
  unfold findOrCreateTable
  simp only []
  have hn := hI.tnode start hs
  have h0 : BW w.reg { w := w, curr := (w.tableOf start).node, mask := (w.nodeOf (w.tableOf start).node).mask, rel := (w.nodeOf (w.tableOf start).node).rel } :=
    ⟨b, rfl, b _ hn⟩
  have h1 := bw_walkRems w.reg rem _ h0
  generalize rem.foldl (walkRem w.reg) { w := w, curr := (w.tableOf start).node, mask := (w.nodeOf (w.tableOf start).node).mask, rel := (w.nodeOf (w.tableOf start).node).rel } = s1 at h1
  have h2 := bw_walkAdds w.reg (w.nodeOf (w.tableOf start).node).mask add hadd s1 h1
  generalize walkAdds w.reg (w.nodeOf (w.tableOf start).node).mask s1 add = r2 at h2
  obtain ⟨s2, p⟩ := r2
  simp only [] at h2 ⊢
  cases p with
  | some e => exact h2.binv
  | none =>
    simp only []
    cases hg : s2.w.nodeGetTable s2.curr target with
    | some t => exact h2.binv
    | none => simp only []; exact binv_of_dsame (dsame_createTable s2.w s2.curr target true) h2.binv


/-! ## sizes of the index and of the target flags -/

structure Sz (w w' : World) : Prop where
  index : w'.index.size = w.index.size
  flags : w'.flags.size = w.flags.size

namespace Sz
theorem refl (w : World) : Sz w w := ⟨rfl, rfl⟩
theorem trans {a b c : World} (h1 : Sz a b) (h2 : Sz b c) : Sz a c := ⟨h2.index.trans h1.index, h2.flags.trans h1.flags⟩
theorem of_misc {w w' : World} (h : Misc w w') : Sz w w' := ⟨by rw [h.index], by rw [h.flags]⟩
theorem of_setTable (w : World) (t : Nat) (tb : Table) : Sz w (w.setTable t tb) := ⟨rfl, rfl⟩
theorem of_setIndex (w : World) (i : Nat) (l : Option Loc) : Sz w (w.setIndex i l) := ⟨by unfold setIndex; simp, rfl⟩
theorem of_setFlag (w : World) (i : Nat) (v : Bool) : Sz w (w.setFlag i v) := ⟨rfl, by unfold setFlag; simp⟩
theorem of_markTarget (w : World) (t : Entity) : Sz w (w.markTarget t) := by
  unfold markTarget; split
  · exact refl w
  · exact of_setFlag _ _ _
end Sz

theorem sz_idxFold (dst start : Nat) (l : List (Row × Nat)) (w : World) : Sz w (Batch.idxFold dst start l w) := by
  induction l generalizing w with
  | nil => exact Sz.refl w
  | cons p ps ih =>
    unfold Batch.idxFold at ih ⊢
    simp only [List.foldl_cons]
    exact Sz.trans (Sz.of_setIndex _ _ _) (ih _)

theorem sz_moveAll (w : World) (src dst n : Nat) : Sz w (w.moveAll src dst n).1 := by
  unfold moveAll
  simp only []
  exact Sz.trans (Sz.of_setTable _ _ _) (sz_idxFold dst _ _ _)

theorem sz_removeRowFix (w : World) (t r : Nat) : Sz w (w.removeRowFix t r) := by
  unfold removeRowFix tableRemove
  simp only []
  split
  · simp only [Bool.false_eq_true, ↓reduceIte]; exact Sz.of_setTable _ _ _
  · simp only [↓reduceIte]; exact Sz.trans (Sz.of_setTable _ _ _) (Sz.of_setIndex _ _ _)

theorem sz_moveEntity (w : World) (e : Entity) (l : Loc) (t : Nat) : Sz w (w.moveEntity e l t) := by
  unfold moveEntity tableAlloc
  simp only []
  exact Sz.trans (Sz.trans (Sz.trans (Sz.of_setTable _ _ _) (Sz.of_setTable _ _ _)) (sz_removeRowFix _ _ _)) (Sz.of_setIndex _ _ _)

theorem sz_archFinish (w1 : World) (src dst n : Nat) (tgt : Entity) : Sz w1 (BatchOps.archFinish w1 src dst n tgt).1 := by
  unfold BatchOps.archFinish
  simp only []
  exact Sz.trans (Sz.trans (Sz.trans (sz_moveAll w1 src dst n) (Sz.of_markTarget _ tgt)) (Sz.of_setTable _ _ _)) (Sz.of_misc (misc_cleanupTable _ src))

/-- a successful `exchangeArch` with registered ids keeps `BInv` and the index / flag sizes -/
theorem binv_exchangeArch (w : World) (b : BInv w) (hI : NodeInv w) (src n : Nat) (hs : src < w.tables.size)
    (add rem : List CompId) (rel : Option CompId) (target : Entity) (hadd : ∀ id ∈ add, id < w.reg.count) (be : BatchEntry)
    (hok : (w.exchangeArch src n add rem rel target).2 = .ok be) :
    BInv (w.exchangeArch src n add rem rel target).1 ∧ Sz w (w.exchangeArch src n add rem rel target).1 := by
  obtain ⟨mask, tgt, dst, _, _, _, hw, _⟩ := BatchOps.exchangeArch_ok w src n add rem rel target be hok
  rw [hw]
  have b1 := binv_findOrCreateTable w b hI src hs add rem tgt hadd
  have s := dsame_archFinish (w.findOrCreateTable src add rem tgt).1 src dst n tgt
  exact ⟨binv_of_dsame s b1, Sz.trans (Sz.of_misc (misc_findOrCreateTable w src add rem tgt)) (sz_archFinish _ src dst n tgt)⟩

theorem sz_exchangeArch (w : World) (src n : Nat) (add rem : List CompId) (rel : Option CompId) (target : Entity) (be : BatchEntry)
    (hok : (w.exchangeArch src n add rem rel target).2 = .ok be) : Sz w (w.exchangeArch src n add rem rel target).1 := by
  obtain ⟨mask, tgt, dst, _, _, _, hw, _⟩ := BatchOps.exchangeArch_ok w src n add rem rel target be hok
  rw [hw]
  exact Sz.trans (Sz.of_misc (misc_findOrCreateTable w src add rem tgt)) (sz_archFinish _ src dst n tgt)

/-! ## the root table -/

/-- table 0 exists and has the empty component set -/
structure RootInv (w : World) : Prop where
  size : 0 < w.tables.size
  mask : w.tableMask 0 = 0

/-- …hence it is active and has no target -/
theorem root_active (w : World) (hK : KInv w) (hD : DInv w) (h : RootInv w) :
    (w.tableOf 0).active = true ∧ (w.tableOf 0).target = Entity.zero := by
  have hn := hK.node.tnode 0 h.size
  have hrel : (w.nodeOf (w.tableOf 0).node).rel = none := by
    cases hr : (w.nodeOf (w.tableOf 0).node).rel with
    | none => rfl
    | some c =>
      have := (hD.rel _ hn c).1 hr
      have hm : (w.nodeOf (w.tableOf 0).node).mask = 0 := h.mask
      rw [hm] at this
      simp [Mask.get] at this
  obtain ⟨a, b⟩ := hK.tgt.norel 0 h.size hrel
  exact ⟨b, a⟩

end Arche.Frames
