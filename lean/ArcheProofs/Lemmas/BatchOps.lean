/-
  Batch operations, one source table at a time: `findOrCreateTable` summarised for a legal
  exchange (`foc_all`), the tail `markTarget; cleanupTable` (`tail_all`), and what
  `exchangeArch` does to the world (`exchangeArch_spec`).
-/
import ArcheProofs.Props.C07
import ArcheProofs.Lemmas.Batch

namespace Arche.BatchOps
open Arche Arche.World Arche.Arr Arche.Storage Arche.IndexInv Arche.SameRows Arche.Graph Arche.Closed Arche.TInv Arche.KInv Arche.Move Arche.Remove Arche.Cov Arche.Cache Arche.SInv Arche.Batch
open Arche.Props.C01 (At WInv)

/-- everything the exchange paths use about `findOrCreateTable` when it succeeds -/
theorem foc_all (w : World) (hK : KInv w) (hS : SInv w) (src : Nat) (hs : src < w.tables.size)
    (add rem : List CompId) (tgt : Entity) (hrem : RemOK (w.tableMask src) rem) (hne : ¬ (add = [] ∧ rem = []))
    (dst : Nat) (hf : (w.findOrCreateTable src add rem tgt).2 = .ok dst) :
    KInv (w.findOrCreateTable src add rem tgt).1 ∧ SInv (w.findOrCreateTable src add rem tgt).1 ∧
    SameRows w (w.findOrCreateTable src add rem tgt).1 ∧
    dst < (w.findOrCreateTable src add rem tgt).1.tables.size ∧ dst ≠ src ∧
    (w.findOrCreateTable src add rem tgt).1.tableMask dst = newMask (w.tableMask src) add rem ∧
    ((w.findOrCreateTable src add rem tgt).1.tableOf dst).active = true ∧
    ((w.findOrCreateTable src add rem tgt).1.tableOf dst).target =
      (if ((w.findOrCreateTable src add rem tgt).1.tableRel dst).isSome then tgt else Entity.zero) ∧
    (∀ t, t < w.tables.size → (w.tableOf t).active = true → (w.findOrCreateTable src add rem tgt).1.tableOf t = w.tableOf t) ∧
    (∀ id ∈ add, Mask.get (w.tableMask src) id = false) := by
  obtain ⟨s1, n1, g1, hspec⟩ := findOrCreateTable_spec w hK.node hK.graph src hs add rem tgt hrem
  obtain ⟨t1, htgt1⟩ := tinv_findOrCreateTable w hK.node hK.graph hK.tgt src hs add rem tgt hrem
  have hS1 := Arche.Props.C07.findOrCreateTable_sinv w hS hK.graph src hs add rem tgt hrem
  obtain ⟨htlt, htmask⟩ := hspec dst hf
  obtain ⟨hact1, htarget1⟩ := htgt1 dst hf
  have hframe1 : ∀ t, t < w.tables.size → (w.tableOf t).active = true →
      (w.findOrCreateTable src add rem tgt).1.tableOf t = w.tableOf t := by
    intro t ht hact
    obtain ⟨w2, n2, s2, i2, g2, hn2, hcl, hres⟩ := findOrCreateTable_parts w hK.node hK.graph src hs add rem tgt hrem
    have hgo : GraphOnly w w2 := hcl _ graphOnly_closed
    have t2 : TInv w2 := tinv_graphOnly hgo hK.node.tnode hK.tgt
    have hto : w2.tableOf t = w.tableOf t := by unfold tableOf; rw [hgo.tables]
    have ht2 : t < w2.tables.size := by rw [hgo.tables]; exact ht
    rcases hres with ⟨p, hp⟩ | ⟨_, ⟨t', _, hp⟩ | ⟨_, hp⟩⟩
    · rw [hp, hto]
    · rw [hp, hto]
    · rw [hp]; simp only []
      rw [createTable_frame w2 t2 i2 n2 hn2 tgt true t ht2 (by rw [hto]; exact hact), hto]
  have i1 : IdxInv (w.findOrCreateTable src add rem tgt).1 := SameRows.idxInv s1 hK.node.tnode hK.idx
  have hadds := findOrCreateTable_ok_adds w src add rem tgt dst (by rw [← hf])
  have hmne := Arche.Props.C01.newMask_ne _ _ _ hrem hadds hne
  have hsrcmask : (w.findOrCreateTable src add rem tgt).1.tableMask src = w.tableMask src :=
    SameRows.tableMask_eq s1 hK.node.tnode _ hs
  have htne : dst ≠ src := by
    intro heq; apply hmne; rw [← htmask, heq, ← hsrcmask]; rfl
  exact ⟨⟨n1, g1, i1, t1⟩, hS1, s1, htlt, htne, htmask, hact1, htarget1, hframe1, hadds⟩

/-- the tail of every move path: flag the target, retire the source if it became an empty
    table of a dead target -/
theorem tail_all (w : World) (hK : KInv w) (hS : SInv w) (tgt : Entity) (src : Nat) (hs : src < w.tables.size) :
    KInv ((w.markTarget tgt).cleanupTable src) ∧ SInv ((w.markTarget tgt).cleanupTable src) ∧
    SameRows w ((w.markTarget tgt).cleanupTable src) ∧
    ((w.markTarget tgt).cleanupTable src).tables.size = w.tables.size ∧
    (∀ t, (((w.markTarget tgt).cleanupTable src).tableOf t).target = (w.tableOf t).target ∧
          (((w.markTarget tgt).cleanupTable src).tableOf t).node = (w.tableOf t).node) := by
  have k4 := kinv_markTarget w hK tgt
  have s4 := sinv_markTarget w hS tgt
  have hsz4 : (w.markTarget tgt).tables.size = w.tables.size := by unfold markTarget setFlag; split <;> rfl
  have hto4 : ∀ t, (w.markTarget tgt).tableOf t = w.tableOf t := by intro t; unfold markTarget setFlag; split <;> rfl
  have k5 := kinv_cleanupTable _ k4 src (by rw [hsz4]; exact hs)
  have s5 := sinv_cleanupTable _ s4 src (by rw [hsz4]; exact hs)
  have sr : SameRows w ((w.markTarget tgt).cleanupTable src) :=
    SameRows.trans (of_markTarget w tgt) (of_cleanupTable _ _ (by rw [hsz4]; exact hs))
  refine ⟨k5, s5, sr, ?_, ?_⟩
  · have : ((w.markTarget tgt).cleanupTable src).tables.size = (w.markTarget tgt).tables.size := by
      unfold cleanupTable; simp only []
      split
      · rfl
      · split
        · rfl
        · unfold removeTable; simp [setTable, setNode, cacheRemove]
    rw [this, hsz4]
  · intro t
    obtain ⟨a, b⟩ := cleanupTable_fields (w.markTarget tgt) src t
    rw [a, b, hto4]; exact ⟨rfl, rfl⟩

/-- the same target the single-entity exchange computes, when the given target passes the
    liveness check -/
theorem archTarget_eq_exchangeTarget (w : World) (mask : Mask) (rel : Option CompId) (target : Entity) (src : Nat) (rem : List CompId)
    (h : rel.isSome = true → w.checkTarget target = none) :
    w.archTarget mask rel target src rem = w.exchangeTarget mask rel target src rem := by
  unfold archTarget exchangeTarget
  cases rel with
  | none => rfl
  | some r =>
    simp only []
    split
    · rfl
    · split
      · rfl
      · rw [h rfl]

theorem markTarget_setTable (w : World) (tg : Entity) (t : Nat) (tb : Table) :
    (w.markTarget tg).setTable t tb = (w.setTable t tb).markTarget tg := by
  unfold markTarget; split <;> rfl

theorem tableOf_markTarget (w : World) (tg : Entity) (t : Nat) : (w.markTarget tg).tableOf t = w.tableOf t := by
  unfold markTarget; split <;> rfl

/-- the part of `exchangeArch` after the destination table is known -/
def archFinish (w1 : World) (src dst n : Nat) (tgt : Entity) : World × BatchEntry :=
  let m := w1.moveAll src dst n
  let w := m.1.markTarget tgt
  let w := w.setTable src { w.tableOf src with rows := #[] }
  let w := w.cleanupTable src
  (w, ⟨dst, some src, m.2, (w.tableOf dst).rows.size⟩)

/-- a successful `exchangeArch` decomposed: mask, target, destination, then the move -/
theorem exchangeArch_ok (w : World) (src n : Nat) (add rem : List CompId) (rel : Option CompId) (target : Entity) (b : BatchEntry)
    (hok : (w.exchangeArch src n add rem rel target).2 = .ok b) :
    ∃ mask tgt dst, exchangeMask (w.tableMask src) add rem = .ok mask ∧ w.archTarget mask rel target src rem = .ok tgt ∧
      (w.findOrCreateTable src add rem tgt).2 = .ok dst ∧
      (w.exchangeArch src n add rem rel target).1 = (archFinish (w.findOrCreateTable src add rem tgt).1 src dst n tgt).1 ∧
      b = (archFinish (w.findOrCreateTable src add rem tgt).1 src dst n tgt).2 := by
  unfold exchangeArch at hok ⊢
  cases hm : exchangeMask (w.tableMask src) add rem with
  | error p => rw [hm] at hok; cases hok
  | ok mask =>
    rw [hm] at hok
    simp only [] at hok ⊢
    cases ht : w.archTarget mask rel target src rem with
    | error p => rw [ht] at hok; cases hok
    | ok tgt =>
      rw [ht] at hok
      simp only [] at hok ⊢
      cases hf : (w.findOrCreateTable src add rem tgt).2 with
      | error p => rw [hf] at hok; cases hok
      | ok dst =>
        rw [hf] at hok
        simp only [] at hok ⊢
        refine ⟨mask, tgt, dst, rfl, ht, hf, rfl, ?_⟩
        simp only [Except.ok.injEq] at hok
        rw [← hok]; rfl

theorem archFinish_entry (w1 : World) (src dst n : Nat) (tgt : Entity) :
    (archFinish w1 src dst n tgt).2.tbl = dst ∧ (archFinish w1 src dst n tgt).2.old = some src ∧
    (archFinish w1 src dst n tgt).2.start = (w1.tableOf dst).rows.size ∧
    (archFinish w1 src dst n tgt).2.stop = ((archFinish w1 src dst n tgt).1.tableOf dst).rows.size := by
  unfold archFinish
  simp only []
  refine ⟨trivial, trivial, ?_, trivial⟩
  unfold moveAll
  simp only []

/-- with all rows of the source moved, the world after `archFinish` is
    `moveAllClear; markTarget; cleanupTable` -/
theorem archFinish_world (w1 : World) (src dst : Nat) (tgt : Entity) :
    (archFinish w1 src dst (w1.tableOf src).rows.size tgt).1 = ((moveAllClear w1 src dst).markTarget tgt).cleanupTable src := by
  unfold archFinish moveAllClear
  simp only []
  rw [markTarget_setTable, tableOf_markTarget]

/-- **one source table of a batch exchange**: all invariants are kept; every entity of the
    source ends in the destination table — component set `old − rem + add`, the target the rule
    computes, kept values copied, new ones zero, at row `start + i` — every other entity keeps
    table and row content; the other tables keep rows, component lists and targets. -/
theorem exchangeArch_spec (w : World) (hK : KInv w) (hS : SInv w) (src : Nat) (hs : src < w.tables.size)
    (add rem : List CompId) (rel : Option CompId) (target : Entity) (hne : ¬ (add = [] ∧ rem = [])) (b : BatchEntry)
    (hok : (w.exchangeArch src (w.tableOf src).rows.size add rem rel target).2 = .ok b)
    (w' : World) (hw' : w' = (w.exchangeArch src (w.tableOf src).rows.size add rem rel target).1) :
    ∃ mask tgt, exchangeMask (w.tableMask src) add rem = .ok mask ∧ w.archTarget mask rel target src rem = .ok tgt ∧
    KInv w' ∧ SInv w' ∧ w.tables.size ≤ w'.tables.size ∧ w'.pool = w.pool ∧ w'.reg = w.reg ∧
    b.tbl < w'.tables.size ∧ b.tbl ≠ src ∧ b.old = some src ∧ b.stop = b.start + (w.tableOf src).rows.size ∧
    w'.tableMask b.tbl = newMask (w.tableMask src) add rem ∧
    (w'.tableOf b.tbl).target = (if (w'.tableRel b.tbl).isSome then tgt else Entity.zero) ∧
    (∀ i, i < (w.tableOf src).rows.size →
      loc w' (rowAt w src i).ent.id = some ⟨b.tbl, b.start + i⟩ ∧
      rowAt w' b.tbl (b.start + i) =
        ⟨(rowAt w src i).ent, movedVals (w.tableIds src) (w'.tableIds b.tbl) (rowAt w src i).vals⟩) ∧
    (∀ id l, (∀ i, i < (w.tableOf src).rows.size → (rowAt w src i).ent.id ≠ id) → loc w id = some l →
      loc w' id = some l ∧ rowAt w' l.tbl l.row = rowAt w l.tbl l.row) ∧
    (∀ t, t < w.tables.size → w'.tableIds t = w.tableIds t ∧ w'.tableMask t = w.tableMask t ∧ w'.tableRel t = w.tableRel t) ∧
    (w'.tableOf src).rows = #[] ∧
    (∀ t, t < w.tables.size → t ≠ src → t ≠ b.tbl → (w'.tableOf t).rows = (w.tableOf t).rows) ∧
    (∀ t, t < w.tables.size → (w.tableOf t).active = true → (w'.tableOf t).target = (w.tableOf t).target) ∧
    (∀ id, (∀ i, i < (w.tableOf src).rows.size → (rowAt w src i).ent.id ≠ id) → loc w' id = loc w id) := by
  obtain ⟨mask, tgt, dst, hm, ht, hf, hw, hb⟩ := exchangeArch_ok w src _ add rem rel target b hok
  refine ⟨mask, tgt, hm, ht, ?_⟩
  obtain ⟨hremok, _⟩ := Arche.Props.C01.remOK_of_exchangeMask _ _ _ _ hm
  obtain ⟨k1, s1, sr1, hdlt, hdne, hdmask, hdact, hdtarget, hframe, hadds⟩ := foc_all w hK hS src hs add rem tgt hremok hne dst hf
  have hsz : ((w.findOrCreateTable src add rem tgt).1.tableOf src).rows.size = (w.tableOf src).rows.size := by
    rw [(sr1.rows src hs).1]
  rw [hw] at hw'
  obtain ⟨hbt, hbo, hbs, hbstop⟩ := archFinish_entry (w.findOrCreateTable src add rem tgt).1 src dst (w.tableOf src).rows.size tgt
  rw [← hb, ← hw'] at hbstop
  rw [← hb] at hbt hbo hbs
  rw [← hsz] at hw'
  rw [archFinish_world] at hw'
  clear hb hw
  generalize hw1 : (w.findOrCreateTable src add rem tgt).1 = w1 at *
  have hs1 : src < w1.tables.size := Nat.lt_of_lt_of_le hs sr1.tsize
  obtain ⟨k2, s2⟩ := kinv_moveAllClear w1 k1 s1 src dst hdne.symm hs1 hdlt hdact
  obtain ⟨ht2, hts2, hn2, _, _, hp2, _, hr2, hmoved, hothers⟩ := moveAllClear_spec w1 k1.idx src dst hdne.symm hs1 hdlt
  have hrow2 := rowAt_moveAllClear w1 k1.idx src dst hdne.symm hs1 hdlt
  have hf2 := fields_moveAllClear w1 k1.idx src dst hdne.symm hs1 hdlt
  generalize hw2 : moveAllClear w1 src dst = w2 at *
  have hs2 : src < w2.tables.size := by rw [hts2]; exact hs1
  obtain ⟨k4, s4, sr4, hsz4, hfields4⟩ := tail_all w2 k2 s2 tgt src hs2
  rw [← hw'] at k4 s4 sr4 hsz4 hfields4
  -- the batch entry
  have tn1 : TNodeOK w1 := k1.node.tnode
  have tn2 : TNodeOK w2 := k2.node.tnode
  -- ids / masks
  have hnode2 : ∀ t, (w2.tableOf t).node = (w1.tableOf t).node := fun t => (hf2 t).2.2.2
  have hids2 : ∀ t, w2.tableIds t = w1.tableIds t := by
    intro t; unfold tableIds nodeOfTable nodeOf; rw [hnode2, hn2]
  have hmask2 : ∀ t, w2.tableMask t = w1.tableMask t := by
    intro t; unfold tableMask nodeOfTable nodeOf; rw [hnode2, hn2]
  have hrel2 : ∀ t, w2.tableRel t = w1.tableRel t := by
    intro t; unfold tableRel nodeOfTable nodeOf; rw [hnode2, hn2]
  have hids4 : ∀ t, t < w1.tables.size → w'.tableIds t = w1.tableIds t := by
    intro t h; rw [SameRows.tableIds_eq sr4 tn2 t (by rw [hts2]; exact h), hids2]
  have hmask4 : ∀ t, t < w1.tables.size → w'.tableMask t = w1.tableMask t := by
    intro t h; rw [SameRows.tableMask_eq sr4 tn2 t (by rw [hts2]; exact h), hmask2]
  have hrel4 : ∀ t, t < w1.tables.size → w'.tableRel t = w1.tableRel t := by
    intro t h; rw [SameRows.tableRel_eq sr4 tn2 t (by rw [hts2]; exact h), hrel2]
  have hrows4 : ∀ t, t < w1.tables.size → (w'.tableOf t).rows = (w2.tableOf t).rows := by
    intro t h; exact (sr4.rows t (by rw [hts2]; exact h)).1
  have hsize : ((w1.tableOf src).rows.size) = (w.tableOf src).rows.size := hsz
  have hrowsrc : ∀ i, rowAt w1 src i = rowAt w src i := fun i => SameRows.rowAt_eq sr1 _ _ hs
  refine ⟨k4, s4, ?_, ?_, ?_, ?_, ?_, hbo, ?_, ?_, ?_, ?_, ?_, ?_, ?_, ?_, ?_, ?_⟩
  · rw [hsz4, hts2]; exact sr1.tsize
  · rw [sr4.pool, hp2, sr1.pool]
  · rw [sr4.reg, hr2, sr1.reg]
  · rw [hbt, hsz4, hts2]; exact hdlt
  · rw [hbt]; exact hdne
  · -- stop
    rw [hbstop, hbs, hrows4 dst hdlt, ht2, if_neg hdne, if_pos rfl]
    simp only [Array.size_append, List.size_toArray]
    unfold newRows
    simp only [List.length_map, Array.length_toList]
    rw [hsize]
  · rw [hbt, hmask4 dst hdlt]; exact hdmask
  · rw [hbt, (hfields4 dst).1, (hf2 dst).1, hdtarget, hrel4 dst hdlt]
  · intro i hi
    rw [hbt, hbs]
    have hi1 : i < (w1.tableOf src).rows.size := by rw [hsize]; exact hi
    refine ⟨?_, ?_⟩
    · rw [SameRows.loc_eq sr4, ← hrowsrc i]; exact hmoved i hi1
    · rw [SameRows.rowAt_eq sr4 _ _ (by rw [hts2]; exact hdlt), hrow2, if_neg hdne, if_pos rfl]
      rw [if_neg (by omega)]
      have : (w1.tableOf dst).rows.size + i - (w1.tableOf dst).rows.size = i := by omega
      rw [this, if_pos hi1, hrowsrc i, hids4 dst hdlt, SameRows.tableIds_eq sr1 hK.node.tnode src hs]
  · intro id l0 hid hl0
    have h1 : loc w1 id = some l0 := by rw [SameRows.loc_eq sr1]; exact hl0
    have hv := (hK.idx.fwd id l0 hl0)
    have hv0 := (k1.idx.fwd id l0 h1)
    have hlsrc : l0.tbl ≠ src := by
      intro heq
      apply hid l0.row (by rw [← hsize, ← heq]; exact hv0.1.2)
      rw [← hrowsrc, ← heq]; exact hv0.2
    refine ⟨?_, ?_⟩
    · rw [SameRows.loc_eq sr4, hothers id]; exact h1
      intro i hi; rw [hrowsrc]; exact hid i (by rw [← hsize]; exact hi)
    · rw [SameRows.rowAt_eq sr4 _ _ (by rw [hts2]; exact hv0.1.1), hrow2, if_neg hlsrc, ← SameRows.rowAt_eq sr1 _ _ hv.1.1]
      by_cases hd : l0.tbl = dst
      · rw [if_pos hd, if_pos (by rw [← hd]; exact hv0.1.2), ← hd]
      · rw [if_neg hd]
  · intro t h
    have h1 : t < w1.tables.size := Nat.lt_of_lt_of_le h sr1.tsize
    exact ⟨by rw [hids4 t h1, SameRows.tableIds_eq sr1 hK.node.tnode t h],
           by rw [hmask4 t h1, SameRows.tableMask_eq sr1 hK.node.tnode t h],
           by rw [hrel4 t h1, SameRows.tableRel_eq sr1 hK.node.tnode t h]⟩
  · rw [hrows4 src hs1, ht2, if_pos rfl]
  · intro t h hts htd
    have h1 : t < w1.tables.size := Nat.lt_of_lt_of_le h sr1.tsize
    rw [hrows4 t h1, ht2, if_neg hts, if_neg (by rw [hbt] at htd; exact htd)]
    exact (sr1.rows t h).1
  · intro t h hact
    rw [(hfields4 t).1, (hf2 t).1, hframe t h hact]
  · intro id hid
    rw [SameRows.loc_eq sr4, hothers id (fun i hi => by rw [hrowsrc]; exact hid i (by rw [← hsize]; exact hi)), SameRows.loc_eq sr1]

end Arche.BatchOps
