/-
  Frame lemmas, second part: finding or creating the destination table touches neither the
  lock mask nor the target flags (`aux2`).
-/
import ArcheProofs.Lemmas.Frame

namespace Arche.Frame
open Arche Arche.World

def aux2 (w : World) : LockMask × Array Bool := (w.locks, w.flags)

@[simp] theorem aux2_setNode (w : World) (n nd) : aux2 (w.setNode n nd) = aux2 w := rfl
@[simp] theorem aux2_setTable (w : World) (t tb) : aux2 (w.setTable t tb) = aux2 w := rfl
@[simp] theorem aux2_setIndex (w : World) (i l) : aux2 (w.setIndex i l) = aux2 w := rfl
@[simp] theorem aux2_cacheAdd (w : World) (t) : aux2 (w.cacheAdd t) = aux2 w := rfl
@[simp] theorem aux2_cacheRemove (w : World) (t) : aux2 (w.cacheRemove t) = aux2 w := rfl
@[simp] theorem aux2_createNode (w : World) (m r) : aux2 (w.createNode m r).1 = aux2 w := rfl
@[simp] theorem aux2_findOrCreateNodeSlow (w : World) (m r) : aux2 (w.findOrCreateNodeSlow m r).1 = aux2 w := by
  unfold findOrCreateNodeSlow; split <;> simp
@[simp] theorem aux2_createTable (w : World) (n t f) : aux2 (w.createTable n t f).1 = aux2 w := by
  unfold createTable
  simp only []
  split
  · split <;> (first | rfl | simp)
  · first | rfl | simp
@[simp] theorem aux2_walk (w : World) (c i m r) : aux2 (w.walk c i m r).1 = aux2 w := by
  unfold walk; split <;> simp
@[simp] theorem aux2_walkRem (reg : Registry) (s : WalkSt) (i) : aux2 (walkRem reg s i).w = aux2 s.w := by
  unfold walkRem; simp

theorem aux2_walkAdd (reg : Registry) (m) (s s' : WalkSt) (i) (h : walkAdd reg m s i = .ok s') : aux2 s'.w = aux2 s.w := by
  unfold walkAdd at h
  split at h; · cases h
  split at h; · cases h
  split at h; · cases h
  cases h
  simp only []
  exact aux2_walk _ _ _ _ _

@[simp] theorem aux2_walkAdds (reg : Registry) (m) (s : WalkSt) (l) : aux2 (walkAdds reg m s l).1.w = aux2 s.w := by
  induction l generalizing s with
  | nil => rfl
  | cons i is ih =>
    unfold walkAdds
    split
    · rfl
    · rename_i s' h; rw [ih, aux2_walkAdd _ _ _ _ _ h]

theorem aux2_foldl_walkRem (reg : Registry) (l : List CompId) (s : WalkSt) : aux2 (l.foldl (walkRem reg) s).w = aux2 s.w := by
  induction l generalizing s with
  | nil => rfl
  | cons i is ih => simp only [List.foldl_cons]; rw [ih, aux2_walkRem]

@[simp] theorem aux2_findOrCreateTable (w : World) (st a r t) : aux2 (w.findOrCreateTable st a r t).1 = aux2 w := by
  unfold findOrCreateTable
  simp only []
  split
  · simp [aux2_foldl_walkRem]
  · split
    · simp [aux2_foldl_walkRem]
    · simp [aux2_foldl_walkRem]

end Arche.Frame
