/-
  Coverage invariant: every table is listed by its node at position `k`; a node that was never
  given a table is the only kind of inactive node; a node without a relation has at most one
  table. With `NodeInv` this makes "the tables of node n" and "the tables whose node is n" the
  same set — what `Reset`, the node walk of queries and `getArchetypes` rely on when they
  enumerate tables through the nodes.
-/
import ArcheProofs.Lemmas.KInv

namespace Arche.Cov
open Arche Arche.World Arche.Arr Arche.Storage Arche.IndexInv Arche.SameRows Arche.Graph Arche.Closed Arche.TInv Arche.KInv

structure CovInv (w : World) : Prop where
  cover : ∀ t, t < w.tables.size → (w.tableOf t).k < (w.nodeOf (w.tableOf t).node).tables.size ∧
      (w.nodeOf (w.tableOf t).node).tables.getD (w.tableOf t).k 0 = t
  active : ∀ n, n < w.nodes.size → (w.nodeOf n).active = false → (w.nodeOf n).tables = #[]
  single : ∀ n, n < w.nodes.size → (w.nodeOf n).rel = none → (w.nodeOf n).tables.size ≤ 1
  nonempty : ∀ n, n < w.nodes.size → (w.nodeOf n).active = true → 0 < (w.nodeOf n).tables.size

/-- nothing `CovInv` reads changed -/
theorem cov_frame {w w' : World} (hC : CovInv w) (hts : w'.tables.size = w.tables.size) (hns : w'.nodes.size = w.nodes.size)
    (ht : ∀ t, (w'.tableOf t).k = (w.tableOf t).k ∧ (w'.tableOf t).node = (w.tableOf t).node)
    (hn : ∀ n, (w'.nodeOf n).tables = (w.nodeOf n).tables ∧ (w'.nodeOf n).active = (w.nodeOf n).active ∧ (w'.nodeOf n).rel = (w.nodeOf n).rel) :
    CovInv w' := by
  refine ⟨?_, ?_, ?_, ?_⟩
  rotate_left 3
  · intro n hlt ha
    rw [hns] at hlt
    rw [(hn n).2.1] at ha
    rw [(hn n).1]
    exact hC.nonempty n hlt ha
  · intro t hlt
    rw [hts] at hlt
    rw [(ht t).1, (ht t).2, (hn _).1]
    exact hC.cover t hlt
  · intro n hlt ha
    rw [hns] at hlt
    rw [(hn n).2.1] at ha
    rw [(hn n).1]
    exact hC.active n hlt ha
  · intro n hlt hr
    rw [hns] at hlt
    rw [(hn n).2.2] at hr
    rw [(hn n).1]
    exact hC.single n hlt hr

/-- old nodes keep their activity flag (closed under the two graph-walk steps) -/
structure ActSame (w w' : World) : Prop where
  nsize : w.nodes.size ≤ w'.nodes.size
  old : ∀ n, n < w.nodes.size → (w'.nodeOf n).active = (w.nodeOf n).active
  new : ∀ n, w.nodes.size ≤ n → n < w'.nodes.size → (w'.nodeOf n).active = false

theorem actSame_closed : StepClosed ActSame where
  refl w := ⟨Nat.le_refl _, fun _ _ => rfl, fun n h1 h2 => by omega⟩
  trans a b c h1 h2 := ⟨Nat.le_trans h1.nsize h2.nsize, fun n hn => (h2.old n (Nat.lt_of_lt_of_le hn h1.nsize)).trans (h1.old n hn),
    fun n hge hlt => by
      by_cases hb : n < b.nodes.size
      · rw [h2.old n hb]; exact h1.new n hge hb
      · exact h2.new n (by omega) hlt⟩
  nbrs w n nb := by
    refine ⟨by simp [setNode], ?_, ?_⟩
    · intro k _
      rw [nodeOf_setNode]
      split
      · rename_i h; rw [h.1]
      · rfl
    · intro k h1 h2
      have : (w.setNode n { w.nodeOf n with nbrs := nb }).nodes.size = w.nodes.size := by simp [setNode]
      omega
  node w m r := by
    refine ⟨by simp [createNode], ?_, ?_⟩
    · intro k hk
      unfold createNode nodeOf; simp only []
      rw [getD_push]; simp [Nat.ne_of_lt hk]
    · intro k h1 h2
      have hs : (w.createNode m r).1.nodes.size = w.nodes.size + 1 := by simp [createNode]
      have : k = w.nodes.size := by omega
      subst this
      unfold createNode nodeOf; simp only []
      rw [getD_push]; simp

theorem cov_graphOnly {w w' : World} (h : GraphOnly w w') (ha : ActSame w w') (hn : TNodeOK w) (hC : CovInv w) : CovInv w' := by
  have hto : ∀ t, w'.tableOf t = w.tableOf t := by intro t; unfold tableOf; rw [h.tables]
  have hts : w'.tables.size = w.tables.size := by rw [h.tables]
  refine ⟨?_, ?_, ?_, ?_⟩
  rotate_left 3
  · intro n hlt hact
    by_cases ho : n < w.nodes.size
    · rw [(h.old n ho).2.2.1]; rw [ha.old n ho] at hact; exact hC.nonempty n ho hact
    · rw [ha.new n (by omega) hlt] at hact; cases hact
  · intro t ht
    rw [hts] at ht
    rw [hto, (h.old _ (hn t ht)).2.2.1]
    exact hC.cover t ht
  · intro n hlt hact
    by_cases ho : n < w.nodes.size
    · rw [(h.old n ho).2.2.1]; rw [ha.old n ho] at hact; exact hC.active n ho hact
    · exact (h.new n (by omega) hlt).2.2
  · intro n hlt hr
    by_cases ho : n < w.nodes.size
    · rw [(h.old n ho).2.2.1]; rw [(h.old n ho).2.2.2] at hr; exact hC.single n ho hr
    · rw [(h.new n (by omega) hlt).2.2]; simp

/-! ### `createTable` -/

theorem cov_createTable (w : World) (hC : CovInv w) (hI : NodeInv w) (n : Nat) (hn : n < w.nodes.size) (target : Entity) (fs : Bool)
    (hempty : (w.nodeOf n).rel.isSome = false → (w.nodeOf n).tables.size = 0) :
    CovInv (w.createTable n target fs).1 := by
  unfold createTable
  simp only []
  by_cases hrel : (w.nodeOf n).rel.isSome = true
  · simp only [hrel, ↓reduceIte]
    cases hfree : (w.nodeOf n).free.getLast? with
    | some k =>
      simp only []
      have hk : k ∈ (w.nodeOf n).free := List.mem_of_getLast? hfree
      have hklt := hI.free n hn k hk
      obtain ⟨htlt, _, _⟩ := hI.tables n hn k hklt
      generalize ht : (w.nodeOf n).tables.getD k 0 = t at *
      apply cov_frame hC
      · simp [cacheAdd, setNode, setTable]
      · simp [cacheAdd, setNode, setTable]
      · intro t'
        rw [tableOf_cacheAdd, tableOf_setNode]
        by_cases e : t = t'
        · subst e; rw [tableOf_setTable_eq _ _ _ htlt]; exact ⟨rfl, rfl⟩
        · rw [tableOf_setTable_ne _ _ _ _ e]; exact ⟨rfl, rfl⟩
      · intro n'
        rw [nodeOf_cacheAdd, nodeOf_setNode]
        split
        · rename_i h; rw [← h.1]; exact ⟨rfl, rfl, rfl⟩
        · exact ⟨rfl, rfl, rfl⟩
    | none =>
      simp only []
      have hnodeOf : ∀ x, ((({ w with tables := w.tables.push { node := n, k := (w.nodeOf n).tables.size, target := target, active := true, rows := #[], cap := (w.nodeOf n).capInc } } : World).setNode n
            { w.nodeOf n with active := true, tables := (w.nodeOf n).tables.push w.tables.size, tmap := assocSet (w.nodeOf n).tmap target w.tables.size }).cacheAdd w.tables.size).nodeOf x
          = if n = x then { w.nodeOf n with active := true, tables := (w.nodeOf n).tables.push w.tables.size, tmap := assocSet (w.nodeOf n).tmap target w.tables.size } else w.nodeOf x := by
        intro x
        rw [nodeOf_cacheAdd, nodeOf_setNode]
        have : n < ({ w with tables := w.tables.push { node := n, k := (w.nodeOf n).tables.size, target := target, active := true, rows := #[], cap := (w.nodeOf n).capInc } } : World).nodes.size := hn
        simp only [this, and_true]
        split <;> rfl
      have htableOf : ∀ x, ((({ w with tables := w.tables.push { node := n, k := (w.nodeOf n).tables.size, target := target, active := true, rows := #[], cap := (w.nodeOf n).capInc } } : World).setNode n
            { w.nodeOf n with active := true, tables := (w.nodeOf n).tables.push w.tables.size, tmap := assocSet (w.nodeOf n).tmap target w.tables.size }).cacheAdd w.tables.size).tableOf x
          = if x = w.tables.size then { node := n, k := (w.nodeOf n).tables.size, target := target, active := true, rows := #[], cap := (w.nodeOf n).capInc } else w.tableOf x := by
        intro x
        rw [tableOf_cacheAdd, tableOf_setNode, tableOf_push]
      refine ⟨?_, ?_, ?_, ?_⟩
      rotate_left 3
      · intro x hx hact
        have hx' : x < w.nodes.size := by simpa [cacheAdd, setNode] using hx
        rw [hnodeOf] at hact ⊢
        by_cases e : n = x
        · rw [if_pos e]; simp
        · rw [if_neg e] at hact ⊢; exact hC.nonempty x hx' hact
      · intro t hlt
        have hlt' : t < w.tables.size + 1 := by simpa [cacheAdd, setNode] using hlt
        rw [htableOf]
        by_cases e : t = w.tables.size
        · rw [if_pos e]
          simp only []
          rw [hnodeOf, if_pos rfl]
          simp only [Array.size_push]
          refine ⟨by omega, ?_⟩
          rw [getD_push, if_pos rfl]; exact e.symm
        · rw [if_neg e]
          have hlt2 : t < w.tables.size := by omega
          obtain ⟨c1, c2⟩ := hC.cover t hlt2
          rw [hnodeOf]
          by_cases en : n = (w.tableOf t).node
          · rw [if_pos en]
            simp only [Array.size_push]
            rw [← en] at c1 c2
            refine ⟨by omega, ?_⟩
            rw [getD_push, if_neg (Nat.ne_of_lt c1)]; exact c2
          · rw [if_neg en]; exact ⟨c1, c2⟩
      · intro x hx hact
        have hx' : x < w.nodes.size := by simpa [cacheAdd, setNode] using hx
        rw [hnodeOf] at hact ⊢
        by_cases e : n = x
        · rw [if_pos e] at hact; simp at hact
        · rw [if_neg e] at hact ⊢; exact hC.active x hx' hact
      · intro x hx hr
        have hx' : x < w.nodes.size := by simpa [cacheAdd, setNode] using hx
        rw [hnodeOf] at hr ⊢
        by_cases e : n = x
        · rw [if_pos e] at hr
          simp only [] at hr
          rw [hr] at hrel; cases hrel
        · rw [if_neg e] at hr ⊢; exact hC.single x hx' hr
  · have hrel' : (w.nodeOf n).rel.isSome = false := by simpa using hrel
    have hsz0 := hempty hrel'
    simp only [hrel', Bool.false_eq_true, ↓reduceIte]
    have hnodeOf : ∀ x, ((({ w with tables := w.tables.push { node := n, k := 0, target := Entity.zero, active := true, rows := #[], cap := if fs = true then (w.nodeOf n).capInc else 1 } } : World).setNode n
          { w.nodeOf n with active := true, tables := #[w.tables.size] }).cacheAdd w.tables.size).nodeOf x
        = if n = x then { w.nodeOf n with active := true, tables := #[w.tables.size] } else w.nodeOf x := by
      intro x
      rw [nodeOf_cacheAdd, nodeOf_setNode]
      have : n < ({ w with tables := w.tables.push { node := n, k := 0, target := Entity.zero, active := true, rows := #[], cap := if fs = true then (w.nodeOf n).capInc else 1 } } : World).nodes.size := hn
      simp only [this, and_true]
      split <;> rfl
    have htableOf : ∀ x, ((({ w with tables := w.tables.push { node := n, k := 0, target := Entity.zero, active := true, rows := #[], cap := if fs = true then (w.nodeOf n).capInc else 1 } } : World).setNode n
          { w.nodeOf n with active := true, tables := #[w.tables.size] }).cacheAdd w.tables.size).tableOf x
        = if x = w.tables.size then { node := n, k := 0, target := Entity.zero, active := true, rows := #[], cap := if fs = true then (w.nodeOf n).capInc else 1 } else w.tableOf x := by
      intro x
      rw [tableOf_cacheAdd, tableOf_setNode, tableOf_push]
    refine ⟨?_, ?_, ?_, ?_⟩
    rotate_left 3
    · intro x hx hact
      have hx' : x < w.nodes.size := by simpa [cacheAdd, setNode] using hx
      rw [hnodeOf] at hact ⊢
      by_cases e : n = x
      · rw [if_pos e]; simp
      · rw [if_neg e] at hact ⊢; exact hC.nonempty x hx' hact
    · intro t hlt
      have hlt' : t < w.tables.size + 1 := by simpa [cacheAdd, setNode] using hlt
      rw [htableOf]
      by_cases e : t = w.tables.size
      · rw [if_pos e]
        simp only []
        rw [hnodeOf, if_pos rfl]
        simp [e]
      · rw [if_neg e]
        have hlt2 : t < w.tables.size := by omega
        obtain ⟨c1, c2⟩ := hC.cover t hlt2
        rw [hnodeOf]
        by_cases en : n = (w.tableOf t).node
        · rw [← en, hsz0] at c1; omega
        · rw [if_neg en]; exact ⟨c1, c2⟩
    · intro x hx hact
      have hx' : x < w.nodes.size := by simpa [cacheAdd, setNode] using hx
      rw [hnodeOf] at hact ⊢
      by_cases e : n = x
      · rw [if_pos e] at hact; simp at hact
      · rw [if_neg e] at hact ⊢; exact hC.active x hx' hact
    · intro x hx hr
      have hx' : x < w.nodes.size := by simpa [cacheAdd, setNode] using hx
      rw [hnodeOf] at hr ⊢
      by_cases e : n = x
      · rw [if_pos e]; simp
      · rw [if_neg e] at hr ⊢; exact hC.single x hx' hr

/-! ### `removeTable`, `cleanupTable`, rows -/

theorem removeTable_skel (w : World) (t : Nat) :
    (w.removeTable t).tables.size = w.tables.size ∧ (w.removeTable t).nodes.size = w.nodes.size ∧
    (∀ t', ((w.removeTable t).tableOf t').k = (w.tableOf t').k ∧ ((w.removeTable t).tableOf t').node = (w.tableOf t').node) ∧
    (∀ n, ((w.removeTable t).nodeOf n).tables = (w.nodeOf n).tables ∧ ((w.removeTable t).nodeOf n).active = (w.nodeOf n).active ∧
      ((w.removeTable t).nodeOf n).rel = (w.nodeOf n).rel) := by
  refine ⟨by simp [removeTable, cacheRemove, setTable, setNode], by simp [removeTable, cacheRemove, setTable, setNode], ?_, ?_⟩
  · intro t'
    unfold removeTable
    simp only []
    rw [tableOf_cacheRemove]
    by_cases e : t = t'
    · subst e
      by_cases h : t < w.tables.size
      · rw [tableOf_setTable_eq _ _ _ (by show t < (w.setNode _ _).tables.size; exact h)]; exact ⟨rfl, rfl⟩
      · have : ∀ (w0 : World) tb, w0.tables.size = w.tables.size → (w0.setTable t tb).tableOf t = w0.tableOf t := by
          intro w0 tb hs; unfold tableOf setTable; simp only []
          rw [getD_set]; simp [hs, h]
        rw [this (w.setNode _ _) _ rfl]; exact ⟨rfl, rfl⟩
    · rw [tableOf_setTable_ne _ _ _ _ e]; exact ⟨rfl, rfl⟩
  · intro n
    unfold removeTable
    simp only []
    rw [nodeOf_cacheRemove, nodeOf_setTable, nodeOf_setNode]
    split
    · rename_i h; rw [← h.1]; exact ⟨rfl, rfl, rfl⟩
    · exact ⟨rfl, rfl, rfl⟩

theorem cov_removeTable (w : World) (hC : CovInv w) (t : Nat) : CovInv (w.removeTable t) := by
  obtain ⟨a, b, c, d⟩ := removeTable_skel w t
  exact cov_frame hC a b c d

theorem cov_cleanupTable (w : World) (hC : CovInv w) (t : Nat) : CovInv (w.cleanupTable t) := by
  unfold cleanupTable
  simp only []
  split
  · exact hC
  · split
    · exact hC
    · exact cov_removeTable w hC t

/-- `CovInv` reads only the nodes and the tables' `k` / `node` -/
theorem cov_setRows (w : World) (hC : CovInv w) (t : Nat) (tb' : Table) (h1 : tb'.node = (w.tableOf t).node) (h2 : tb'.k = (w.tableOf t).k) :
    CovInv (w.setTable t tb') := by
  apply cov_frame (w' := w.setTable t tb') hC (by simp) (by simp [setTable])
  · intro t'
    by_cases e : t = t'
    · subst e
      by_cases h : t < w.tables.size
      · rw [tableOf_setTable_eq _ _ _ h]; exact ⟨h2, h1⟩
      · have : (w.setTable t tb').tableOf t = w.tableOf t := by
          unfold tableOf setTable; simp only []; rw [getD_set]; simp [h]
        rw [this]; exact ⟨rfl, rfl⟩
    · rw [tableOf_setTable_ne _ _ _ _ e]; exact ⟨rfl, rfl⟩
  · intro n; exact ⟨rfl, rfl, rfl⟩

theorem cov_congr {w w' : World} (hn : w'.nodes = w.nodes) (ht : w'.tables = w.tables) (h : CovInv w) : CovInv w' := by
  cases w; cases w'
  simp only at hn ht
  subst hn; subst ht
  exact ⟨h.cover, h.active, h.single, h.nonempty⟩

end Arche.Cov
