/-
  Entity creation and the link between the entity pool and the index (`LInv`): the handles the
  pool considers live are exactly the handles stored in table rows, the index and the target
  flags have one slot per pool slot. `createEntity` = take a handle from the pool, grow index
  and flags if the id is fresh, push a zero row (`createEntity_eq`); it keeps all invariants and
  the new handle is stored where the index says, with every component zero.
-/
import ArcheProofs.Lemmas.DInv
import ArcheProofs.Lemmas.PoolInv

namespace Arche.Create
open Arche Arche.World Arche.Arr Arche.Storage Arche.IndexInv Arche.SameRows Arche.Graph Arche.Closed Arche.TInv Arche.KInv Arche.Move Arche.Remove Arche.Cov Arche.Cache Arche.SInv Arche.DInv

/-- pool ↔ storage link, with the ghost history of the pool invariant -/
structure LInv (w : World) (issued live : List Entity) (free : List Nat) : Prop where
  pool : PoolInv.Inv w.pool issued live free
  isize : w.index.size = w.pool.ents.size
  fsize : w.flags.size = w.index.size
  stored : ∀ e, e ∈ live ↔ ∃ l, loc w e.id = some l ∧ (rowAt w l.tbl l.row).ent = e

/-- the world prepared for a new entity: the handle taken from the pool, index and flags grown
    by one empty slot when its id is fresh -/
def prep (w : World) : World :=
  if (w.pool.get).2.id == w.index.size then
    { w with pool := (w.pool.get).1, index := w.index.push none, flags := w.flags.push false }
  else { w with pool := (w.pool.get).1 }

/-- the row of a new entity: every component zero -/
def newRow (w : World) (t : Nat) : Row := ⟨(w.pool.get).2, zeros (w.tableIds t).length⟩

def newCap (w : World) (t : Nat) : Nat := ((w.tableOf t).extend (w.nodeOf (w.tableOf t).node).capInc 1).cap

theorem prep_fields (w : World) : (prep w).nodes = w.nodes ∧ (prep w).tables = w.tables ∧ (prep w).cache = w.cache ∧
    (prep w).cacheNext = w.cacheNext ∧ (prep w).cfg = w.cfg ∧ (prep w).reg = w.reg ∧ (prep w).pool = (w.pool.get).1 ∧ (prep w).locks = w.locks := by
  unfold prep; split <;> exact ⟨rfl, rfl, rfl, rfl, rfl, rfl, rfl, rfl⟩

theorem loc_prep (w : World) (id : Nat) : loc (prep w) id = loc w id := by
  unfold prep loc
  split
  · simp only []
    rw [getD_push]
    split
    · rename_i h; rw [h, Array.getD_eq_getD_getElem?, Array.getElem?_eq_none (Nat.le_refl _)]; rfl
    · rfl
  · rfl

theorem tableOf_prep (w : World) (t : Nat) : (prep w).tableOf t = w.tableOf t := by
  unfold tableOf; rw [(prep_fields w).2.1]

theorem rowAt_prep (w : World) (t r : Nat) : rowAt (prep w) t r = rowAt w t r := by
  unfold rowAt; rw [tableOf_prep]

theorem createEntity_eq (w : World) (t : Nat) (hsz : w.flags.size = w.index.size) :
    (w.createEntity t).2 = (w.pool.get).2 ∧
    (w.createEntity t).1 = (pushRow (prep w) t (newRow w t) (newCap w t)).setFlag (w.pool.get).2.id false := by
  unfold createEntity tableAlloc prep newRow newCap pushRow
  simp only []
  have hext : ((w.tableOf t).extend (w.nodeOf (w.tableOf t).node).capInc 1).rows = (w.tableOf t).rows := by
    unfold Table.extend; simp only []; split <;> rfl
  have hextn : ((w.tableOf t).extend (w.nodeOf (w.tableOf t).node).capInc 1).node = (w.tableOf t).node := by
    unfold Table.extend; simp only []; split <;> rfl
  have hextk : ((w.tableOf t).extend (w.nodeOf (w.tableOf t).node).capInc 1).k = (w.tableOf t).k := by
    unfold Table.extend; simp only []; split <;> rfl
  have hextt : ((w.tableOf t).extend (w.nodeOf (w.tableOf t).node).capInc 1).target = (w.tableOf t).target := by
    unfold Table.extend; simp only []; split <;> rfl
  have hexta : ((w.tableOf t).extend (w.nodeOf (w.tableOf t).node).capInc 1).active = (w.tableOf t).active := by
    unfold Table.extend; simp only []; split <;> rfl
  simp only [tableOf, nodeOf] at hext hextn hextk hextt hexta
  generalize hg : w.pool.get = g
  obtain ⟨pool, e⟩ := g
  simp only []
  by_cases hfresh : (e.id == w.index.size) = true
  · have hid : e.id = w.index.size := by simpa using hfresh
    simp only [setTable, hfresh, ↓reduceIte, setIndex, setFlag, tableOf, tableIds, nodeOfTable, nodeOf, true_and]
    simp only [hext, hextn, hextk, hextt, hexta, hid]
    have h1 : (w.index.push none).setIfInBounds w.index.size (some ⟨t, (w.tables.getD t default).rows.size⟩) =
        w.index.push (some ⟨t, (w.tables.getD t default).rows.size⟩) := push_set_last _ _ _
    have h2 : (w.flags.push false).setIfInBounds w.index.size false = w.flags.push false := by
      rw [← hsz]; exact push_set_last _ _ _
    rw [h1, h2]
  · simp only [setTable, hfresh, Bool.false_eq_true, ↓reduceIte, setIndex, setFlag, tableOf, tableIds, nodeOfTable, nodeOf, true_and]
    simp only [hext, hextn, hextk, hextt, hexta]



/-- `KInv` reads the index only through `loc` -/
theorem kinv_of_loc {w w' : World} (hn : w'.nodes = w.nodes) (ht : w'.tables = w.tables) (hloc : ∀ id, loc w' id = loc w id)
    (h : KInv w) : KInv w' := by
  cases w; cases w'
  simp only at hn ht
  subst hn; subst ht
  refine ⟨⟨h.node.tnode, h.node.tables, h.node.free, h.node.tmap⟩, ⟨h.graph.links⟩, ⟨?_, ?_, h.idx.width⟩,
   ⟨h.tgt.sound, h.tgt.complete, h.tgt.free, h.tgt.freeNodup, h.tgt.empty, h.tgt.norel⟩⟩
  · intro id l hl; rw [hloc] at hl; exact h.idx.fwd id l hl
  · intro t r hv; rw [hloc]; exact h.idx.bwd t r hv

/-- the id the pool hands out is either the next fresh slot or an existing one -/
theorem get_shape (p : Pool) (issued live : List Entity) (free : List Nat) (h : PoolInv.Inv p issued live free) :
    ((p.get).2.id = p.ents.size ∧ (p.get).1.ents.size = p.ents.size + 1) ∨
    ((p.get).2.id < p.ents.size ∧ (p.get).1.ents.size = p.ents.size) := by
  unfold Pool.get
  by_cases ha : p.available = 0
  · left; simp [ha]
  · right
    have hb : (p.available == 0) = false := by simp [ha]
    simp only [hb, Bool.false_eq_true, ↓reduceIte]
    refine ⟨?_, by simp⟩
    have hlen : free.length ≠ 0 := by rw [← h.avail]; exact ha
    cases free with
    | nil => simp at hlen
    | cons f fs =>
      have := h.linked
      unfold PoolInv.Linked at this
      rw [this.1]
      exact (h.free_range f List.mem_cons_self).2

/-- **createEntity**: all invariants are kept; the handle is new (never issued since the last
    reset), not the zero entity, stored at the end of table `t` with every component zero;
    nothing else moves -/
theorem createEntity_spec (w : World) (issued live : List Entity) (free : List Nat)
    (hK : KInv w) (hS : SInv w) (hL : LInv w issued live free) (t : Nat) (ht : t < w.tables.size) (hact : (w.tableOf t).active = true)
    (w' : World) (hw' : w' = (w.createEntity t).1) (e : Entity) (he : e = (w.createEntity t).2) :
    ∃ free', KInv w' ∧ SInv w' ∧ LInv w' (e :: issued) (e :: live) free' ∧ DSame w w' ∧
      e ∉ issued ∧ 0 < e.id ∧ w'.pool = (w.pool.get).1 ∧ w'.locks = w.locks ∧
      loc w' e.id = some ⟨t, (w.tableOf t).rows.size⟩ ∧
      rowAt w' t (w.tableOf t).rows.size = ⟨e, zeros (w.tableIds t).length⟩ ∧
      (∀ id, id ≠ e.id → loc w' id = loc w id) ∧
      (∀ t' r, ¬ (t' = t ∧ r = (w.tableOf t).rows.size) → rowAt w' t' r = rowAt w t' r) ∧
      w'.nodes = w.nodes ∧ w'.tables.size = w.tables.size ∧
      (∀ t', (w'.tableOf t').target = (w.tableOf t').target ∧ (w'.tableOf t').active = (w.tableOf t').active ∧
        (w'.tableOf t').node = (w.tableOf t').node) ∧
      (w'.tableOf t).rows.size = (w.tableOf t).rows.size + 1 ∧
      (∀ t', t' ≠ t → (w'.tableOf t').rows = (w.tableOf t').rows) := by
  obtain ⟨he2, hweq⟩ := createEntity_eq w t hL.fsize
  rw [hweq] at hw'
  rw [he2] at he
  obtain ⟨free', hP', hni, hnl, hpos⟩ := PoolInv.get_inv w.pool issued live free hL.pool
  rw [← he] at hP' hni hnl hpos
  obtain ⟨pn, pt, pc, px, pcfg, preg, ppool, plocks⟩ := prep_fields w
  have hshape := get_shape w.pool issued live free hL.pool
  rw [← he] at hshape
  -- the prepared world
  have hK0 : KInv (prep w) := kinv_of_loc pn pt (loc_prep w) hK
  have hS0 : SInv (prep w) := sinv_congr pn pt pc px hS
  have ht0 : t < (prep w).tables.size := by rw [pt]; exact ht
  have hact0 : ((prep w).tableOf t).active = true := by rw [tableOf_prep]; exact hact
  have hids0 : ∀ t', (prep w).tableIds t' = w.tableIds t' := by
    intro t'; unfold tableIds nodeOfTable nodeOf; rw [tableOf_prep, pn]
  have hisz0 : (prep w).index.size = (w.pool.get).1.ents.size ∧ (prep w).flags.size = (prep w).index.size := by
    unfold prep
    rw [← he]
    rcases hshape with ⟨a, b⟩ | ⟨a, b⟩
    · have : (e.id == w.index.size) = true := by rw [a, hL.isize]; simp
      simp only [this, ↓reduceIte, Array.size_push]
      exact ⟨by rw [b, hL.isize], by rw [hL.fsize]⟩
    · have : (e.id == w.index.size) = false := by rw [hL.isize]; simp; omega
      simp only [this, Bool.false_eq_true, ↓reduceIte]
      exact ⟨by rw [b, hL.isize], hL.fsize⟩
  have hidlt : e.id < (prep w).index.size := by
    rw [hisz0.1]
    rcases hshape with ⟨a, b⟩ | ⟨a, b⟩ <;> omega
  -- the id is not stored
  have hfree : loc w e.id = none := by
    cases hl : loc w e.id with
    | none => rfl
    | some l =>
      exfalso
      obtain ⟨_, hid0⟩ := hK.idx.fwd e.id l hl
      have hlive0 : (rowAt w l.tbl l.row).ent ∈ live := (hL.stored _).2 ⟨l, by rw [hid0]; exact hl, rfl⟩
      have a := (hP'.live_iff (rowAt w l.tbl l.row).ent).1 (List.mem_cons_of_mem _ hlive0)
      have b := (hP'.live_iff e).1 List.mem_cons_self
      have : (rowAt w l.tbl l.row).ent = e := by
        have hg : (rowAt w l.tbl l.row).ent.gen = e.gen := by rw [a.2.2.2, b.2.2.2, hid0]
        cases hh : (rowAt w l.tbl l.row).ent with
        | mk i g =>
          rw [hh] at hid0 hg
          cases e with
          | mk i' g' => simp only at hid0 hg; rw [hid0, hg]
      rw [this] at hlive0; exact hnl hlive0
  have hrow : newRow w t = ⟨e, zeros (w.tableIds t).length⟩ := by unfold newRow; rw [← he]
  rw [← he, hrow] at hw'
  have hwidth : (⟨e, zeros (w.tableIds t).length⟩ : Row).vals.length = ((prep w).tableIds t).length := by
    rw [hids0]; unfold zeros; simp
  have hfree0 : loc (prep w) (⟨e, zeros (w.tableIds t).length⟩ : Row).ent.id = none := by rw [loc_prep]; exact hfree
  have k1 : KInv (pushRow (prep w) t ⟨e, zeros (w.tableIds t).length⟩ (newCap w t)) :=
    ⟨nodeInv_pushRow _ hK0.node _ ht0 _ _, graphInv_of_nodes (node_pushRow _ _ _ _ ht0 0).2 hK0.graph,
     pushRow_inv _ hK0.idx t _ _ ht0 hidlt hfree0 hwidth, tinv_pushRow _ hK0.tgt _ ht0 _ _ hact0⟩
  have s1 := sinv_pushRow (prep w) hS0 t ht0 ⟨e, zeros (w.tableIds t).length⟩ (newCap w t) hact0
  have hloc1 : ∀ j, loc (pushRow (prep w) t ⟨e, zeros (w.tableIds t).length⟩ (newCap w t)) j =
      if e.id = j then some ⟨t, (w.tableOf t).rows.size⟩ else loc w j := by
    intro j
    unfold pushRow
    simp only []
    rw [loc_setIndex]
    simp only [index_setTable, hidlt, and_true]
    rw [tableOf_prep, ← loc_prep w j]; rfl
  have hrow1 := rowAt_pushRow (prep w) t ⟨e, zeros (w.tableIds t).length⟩ (newCap w t) ht0
  generalize hw1 : pushRow (prep w) t ⟨e, zeros (w.tableIds t).length⟩ (newCap w t) = w1 at *
  -- the flag write
  have hflag : w' = { w1 with flags := w1.flags.setIfInBounds e.id false } := by rw [hw']; rfl
  have k2 : KInv w' := by rw [hflag]; exact kinv_flags w1 k1 _
  have s2 : SInv w' := by rw [hflag]; exact sinv_congr (w := w1) rfl rfl rfl rfl s1
  have hloc2 : ∀ j, loc w' j = if e.id = j then some ⟨t, (w.tableOf t).rows.size⟩ else loc w j := by
    intro j; rw [hflag]; exact hloc1 j
  have hrow2 : ∀ t' r', rowAt w' t' r' = if t' = t ∧ r' = (w.tableOf t).rows.size then ⟨e, zeros (w.tableIds t).length⟩ else rowAt w t' r' := by
    intro t' r'
    have : rowAt w' t' r' = rowAt w1 t' r' := by rw [hflag]; rfl
    rw [this, hrow1, tableOf_prep, rowAt_prep]
  have hto : ∀ t', w'.tableOf t' = w1.tableOf t' := by intro t'; rw [hflag]; rfl
  have hfields : ∀ t', (w'.tableOf t').target = (w.tableOf t').target ∧ (w'.tableOf t').active = (w.tableOf t').active ∧
      (w'.tableOf t').node = (w.tableOf t').node := by
    intro t'
    rw [hto, ← hw1, (fields_pushRow _ _ _ _ ht0 t').1, (fields_pushRow _ _ _ _ ht0 t').2.1, (node_pushRow _ _ _ _ ht0 t').1, tableOf_prep]
    exact ⟨rfl, rfl, rfl⟩
  have hnodes : w'.nodes = w.nodes := by
    have : w'.nodes = w1.nodes := by rw [hflag]
    rw [this, ← hw1, (node_pushRow _ _ _ _ ht0 0).2, pn]
  have htsz : w'.tables.size = w.tables.size := by
    have : w'.tables.size = w1.tables.size := by rw [hflag]
    rw [this, ← hw1, tables_size_pushRow, pt]
  have hcfgreg : w'.cfg = w.cfg ∧ w'.reg = w.reg ∧ w'.pool = (w.pool.get).1 ∧ w'.locks = w.locks := by
    have : w'.cfg = w1.cfg ∧ w'.reg = w1.reg ∧ w'.pool = w1.pool ∧ w'.locks = w1.locks := by rw [hflag]; exact ⟨rfl, rfl, rfl, rfl⟩
    rw [this.1, this.2.1, this.2.2.1, this.2.2.2, ← hw1]
    unfold pushRow setIndex setTable
    exact ⟨pcfg, preg, ppool, plocks⟩
  have hrows : (w'.tableOf t).rows.size = (w.tableOf t).rows.size + 1 ∧ ∀ t', t' ≠ t → (w'.tableOf t').rows = (w.tableOf t').rows := by
    refine ⟨?_, ?_⟩
    · rw [hto, ← hw1]; unfold pushRow; simp only [tableOf_setIndex]
      rw [tableOf_setTable_eq _ _ _ ht0, tableOf_prep]; simp
    · intro t' hne
      rw [hto, ← hw1]; unfold pushRow; simp only [tableOf_setIndex]
      rw [tableOf_setTable_ne _ _ _ _ (fun h => hne h.symm), tableOf_prep]
  refine ⟨free', k2, s2, ?_, DSame.of_nodes hcfgreg.1 hcfgreg.2.1 hnodes, hni, hpos, hcfgreg.2.2.1, hcfgreg.2.2.2, ?_, ?_, ?_, ?_, hnodes, htsz, hfields, hrows.1, hrows.2⟩
  · -- the link invariant
    have hisz' : w'.index.size = (prep w).index.size ∧ w'.flags.size = (prep w).flags.size := by
      rw [hflag, ← hw1]; unfold pushRow setIndex setTable; simp
    refine ⟨by rw [hcfgreg.2.2.1]; exact hP', by rw [hisz'.1, hcfgreg.2.2.1]; exact hisz0.1, by rw [hisz'.2, hisz'.1]; exact hisz0.2, ?_⟩
    intro e'
    constructor
    · intro hm
      rcases List.mem_cons.1 hm with rfl | hm
      · exact ⟨⟨t, (w.tableOf t).rows.size⟩, by rw [hloc2, if_pos rfl], by rw [hrow2, if_pos ⟨rfl, rfl⟩]⟩
      · obtain ⟨l, h1, h2⟩ := (hL.stored e').1 hm
        have hne : e.id ≠ e'.id := by intro heq; rw [← heq, hfree] at h1; cases h1
        refine ⟨l, by rw [hloc2, if_neg hne]; exact h1, ?_⟩
        have hv := (hK.idx.fwd _ _ h1).1
        rw [hrow2, if_neg (by intro hc; have := hv.2; rw [hc.1, hc.2] at this; omega)]; exact h2
    · rintro ⟨l, h1, h2⟩
      rw [hloc2] at h1
      by_cases heq : e.id = e'.id
      · rw [if_pos heq] at h1
        simp only [Option.some.injEq] at h1
        rw [← h1, hrow2, if_pos ⟨rfl, rfl⟩] at h2
        simp only at h2
        rw [← h2]; exact List.mem_cons_self
      · rw [if_neg heq] at h1
        have hv := (hK.idx.fwd _ _ h1).1
        rw [hrow2, if_neg (by intro hc; have := hv.2; rw [hc.1, hc.2] at this; omega)] at h2
        exact List.mem_cons_of_mem _ ((hL.stored e').2 ⟨l, h1, h2⟩)
  · rw [hloc2, if_pos rfl]
  · rw [hrow2, if_pos ⟨rfl, rfl⟩]
  · intro id hid; rw [hloc2, if_neg (fun h => hid h.symm)]
  · intro t' r hne; rw [hrow2, if_neg hne]

end Arche.Create
