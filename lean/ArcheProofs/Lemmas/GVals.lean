/-
  Value writes and flag writes keep the global invariant: replacing the rows of a table by rows
  with the same entities and the same widths (`ginv_setRows`), hence `setCell` (`World.Set`, a
  write through the `Get` pointer), `copyTo` / `copyAll` (`Assign`, `NewEntityWith`, builders),
  and `markTarget`.
-/
import ArcheProofs.Lemmas.GOps

namespace Arche.GVals
open Arche Arche.World Arche.Arr Arche.Storage Arche.IndexInv Arche.SameRows Arche.Graph Arche.Closed Arche.TInv Arche.KInv Arche.Move Arche.Remove Arche.Cov Arche.Cache Arche.SInv Arche.DInv Arche.Create Arche.Frames Arche.BatchOps Arche.GInv Arche.GOps

/-- replacing the rows of a table by rows holding the same entities, with the same widths -/
theorem ginv_setRows (w : World) (issued live : List Entity) (G : GInv w issued live) (t : Nat) (ht : t < w.tables.size) (rows' : Array Row)
    (hsz : rows'.size = (w.tableOf t).rows.size)
    (hrow : ∀ r, (rows'.getD r default).ent = ((w.tableOf t).rows.getD r default).ent ∧
      (rows'.getD r default).vals.length = ((w.tableOf t).rows.getD r default).vals.length) :
    GInv (w.setTable t { w.tableOf t with rows := rows' }) issued live := by
  generalize hw' : w.setTable t { w.tableOf t with rows := rows' } = w'
  have hto : ∀ x, w'.tableOf x = if t = x then { w.tableOf t with rows := rows' } else w.tableOf x := by
    intro x; rw [← hw']
    by_cases e : t = x
    · subst e; rw [tableOf_setTable_eq _ _ _ ht]; simp
    · rw [tableOf_setTable_ne _ _ _ _ e]; simp [e]
  have hn : w'.nodes = w.nodes := by rw [← hw']; rfl
  have hts : w'.tables.size = w.tables.size := by rw [← hw']; simp [setTable]
  have hf : ∀ x, (w'.tableOf x).target = (w.tableOf x).target ∧ (w'.tableOf x).active = (w.tableOf x).active ∧
      (w'.tableOf x).k = (w.tableOf x).k ∧ (w'.tableOf x).node = (w.tableOf x).node := by
    intro x; rw [hto]; split
    · rename_i e; subst e; exact ⟨rfl, rfl, rfl, rfl⟩
    · exact ⟨rfl, rfl, rfl, rfl⟩
  have hids : ∀ x, w'.tableIds x = w.tableIds x := by
    intro x; unfold tableIds nodeOfTable nodeOf; rw [(hf x).2.2.2, hn]
  have hmask : ∀ x, w'.tableMask x = w.tableMask x := by
    intro x; unfold tableMask nodeOfTable nodeOf; rw [(hf x).2.2.2, hn]
  have hrsz : ∀ x, (w'.tableOf x).rows.size = (w.tableOf x).rows.size := by
    intro x; rw [hto]; split
    · rename_i e; subst e; exact hsz
    · rfl
  have hrowAt : ∀ x r, (rowAt w' x r).ent = (rowAt w x r).ent ∧ (rowAt w' x r).vals.length = (rowAt w x r).vals.length := by
    intro x r; unfold rowAt; rw [hto]; split
    · rename_i e; subst e; exact hrow r
    · exact ⟨rfl, rfl⟩
  have hloc : ∀ id, loc w' id = loc w id := by intro id; rw [← hw']; rfl
  have hvalid : ∀ x r, validRow w' x r ↔ validRow w x r := by
    intro x r; unfold validRow; rw [hts, hrsz]
  have ds : DSame w w' := by rw [← hw']; exact DSame.of_setTable _ _ _
  have node' : NodeInv w' := by rw [← hw']; exact nodeInv_setTable w G.k.node t _ ht rfl rfl
  have tgt' : TInv w' := by
    rw [← hw']
    refine tinv_setRows w G.k.tgt t ht { w.tableOf t with rows := rows' } rfl rfl rfl ?_
    intro hina
    have := G.k.tgt.empty t ht hina
    rw [this] at hsz
    exact Array.eq_empty_of_size_eq_zero (by simpa using hsz)
  have idx' : IdxInv w' := by
    refine ⟨?_, ?_, ?_⟩
    · intro id l hl
      rw [hloc] at hl
      obtain ⟨a, b⟩ := G.k.idx.fwd id l hl
      exact ⟨(hvalid _ _).2 a, by rw [(hrowAt _ _).1]; exact b⟩
    · intro x r hv
      rw [hloc, (hrowAt x r).1]; exact G.k.idx.bwd x r ((hvalid _ _).1 hv)
    · intro x r hv
      rw [(hrowAt x r).2, hids]; exact G.k.idx.width x r ((hvalid _ _).1 hv)
  obtain ⟨cov', ci'⟩ := rows_frame (w' := w') G.s.cov G.s.cache hts hn (by rw [← hw']; rfl) (by rw [← hw']; rfl) hf
  obtain ⟨free, hL⟩ := G.link
  refine ⟨⟨node', graphInv_of_nodes hn G.k.graph, idx', tgt'⟩, ⟨node', tgt', cov', ci'⟩, ds.dinv G.d, binv_of_dsame ds G.b,
    ⟨by rw [hts]; exact G.root.size, by rw [hmask]; exact G.root.mask⟩, free, ?_⟩
  exact linv_transfer' G.k (by rw [← hw']; rfl) (by rw [← hw']; rfl) (by rw [← hw']; rfl) (fun x r _ => (hrowAt x r).1) hL

/-- `World.Set` / a write through the `Get` pointer -/
theorem ginv_setCell (w : World) (issued live : List Entity) (G : GInv w issued live) (t r : Nat) (id : CompId) (v : Val) :
    GInv (w.setCell t r id v) issued live := by
  unfold setCell
  split
  · exact G
  · split
    · exact G
    · rename_i c hc hz
      by_cases ht : t < w.tables.size
      · apply ginv_setRows w issued live G t ht
        · simp
        · intro r'
          rw [getD_set]
          split
          · rename_i h; simp only [List.length_set]; rw [h.1]; exact ⟨rfl, rfl⟩
          · exact ⟨rfl, rfl⟩
      · have : ∀ tb, w.setTable t tb = w := by
          intro tb; unfold setTable
          have : w.tables.setIfInBounds t tb = w.tables := by
            apply Array.ext
            · simp
            · intro i h1 h2; rw [Array.getElem_setIfInBounds]; split
              · omega
              · rfl
          rw [this]
        rw [this]; exact G

theorem ginv_copyTo (w : World) (issued live : List Entity) (G : GInv w issued live) (e : Entity) (id : CompId) (v : Val) :
    GInv (w.copyTo e id v).1 issued live := by
  unfold copyTo
  split
  · exact G
  · simp only []
    split
    · exact G
    · exact ginv_setCell w issued live G _ _ id v

theorem ginv_copyAll (e : Entity) : ∀ (comps : List (CompId × Val)) (w : World) (issued live : List Entity), GInv w issued live →
    GInv (w.copyAll e comps).1 issued live := by
  intro comps
  induction comps with
  | nil => intro w issued live G; exact G
  | cons p ps ih =>
    intro w issued live G
    obtain ⟨id, v⟩ := p
    unfold copyAll
    have G1 := ginv_copyTo w issued live G e id v
    generalize w.copyTo e id v = r at G1
    obtain ⟨w1, o⟩ := r
    cases o with
    | some p => exact G1
    | none => exact ih w1 issued live G1

/-- flag writes -/
theorem ginv_flags (w : World) (issued live : List Entity) (G : GInv w issued live) (fl : Array Bool) (hsz : fl.size = w.flags.size) :
    GInv ({ w with flags := fl } : World) issued live := by
  have ds : DSame w ({ w with flags := fl } : World) := DSame.of_nodes rfl rfl rfl
  obtain ⟨free, hL⟩ := G.link
  exact ⟨kinv_flags w G.k fl, sinv_congr (w := w) rfl rfl rfl rfl G.s, ds.dinv G.d, binv_of_dsame ds G.b, ⟨G.root.size, G.root.mask⟩, free,
    linv_transfer' (w := w) G.k rfl rfl hsz (fun _ _ _ => rfl) hL⟩

theorem ginv_markTarget (w : World) (issued live : List Entity) (G : GInv w issued live) (t : Entity) : GInv (w.markTarget t) issued live := by
  unfold markTarget
  split
  · exact G
  · unfold setFlag; exact ginv_flags w issued live G _ (by simp)

end Arche.GVals
