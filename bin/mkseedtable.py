#!/usr/bin/env python3
"""mkseedtable.py: rewrites the table of seeded changes in DESIGN.md (between the markers
<!-- SEEDED-BEGIN --> and <!-- SEEDED-END -->) from seeded/*/meta.json and seeded/RESULTS.json."""
import json, os, glob, re
V = os.path.dirname(os.path.dirname(os.path.abspath(__file__)))
res = json.load(open(os.path.join(V, "seeded", "RESULTS.json")))
rows = ["| change | breaks | what it is (file, function) | needs, to manifest | caught by (quick tier) | reported as |", "|---|---|---|---|---|---|"]
for d in sorted(glob.glob(os.path.join(V, "seeded", "C*-*"))):
    name = os.path.basename(d)
    m = json.load(open(os.path.join(d, "meta.json")))
    def cut(s, n):
        s = re.sub(r"\s+", " ", s).replace("|", "/")
        return s if len(s) <= n else s[: n - 1].rsplit(" ", 1)[0] + " …"
    r = res.get(name, {})
    caught = sorted(p for p, x in r.items() if x.get("rc") == 1)
    missed = sorted(p for p, x in r.items() if x.get("rc") != 1)
    how = []
    for p in caught:
        line = r[p].get("line", "")
        if "no-failing-input-found" in line:
            how.append("%s: broken obligation / hidden-state correspondence, no-failing-input-found" % p)
        elif "proof" in line:
            how.append("%s: broken proof obligation" % p)
        elif "pure" in line:
            how.append("%s: Go function vs set definition (concrete input)" % p)
        elif "generic" in line or "race" in line or "C14-" in line or "C13-" in line:
            how.append("%s: special arm (%s)" % (p, os.path.basename(line.split("replay=")[-1]).split(".")[0]))
        else:
            how.append("%s: shrunk operation sequence" % p)
    rows.append("| %s | %s | %s | %s | %s | %s |" % (name, m.get("property", name[:3]), cut(m.get("summary", ""), 230), cut(m.get("needs", ""), 230),
                                                  ", ".join(caught) + (" (missed by: " + ", ".join(missed) + ")" if missed else ""), "; ".join(how)))
p = os.path.join(V, "DESIGN.md")
s = open(p).read()
b, e = "<!-- SEEDED-BEGIN -->", "<!-- SEEDED-END -->"
if b in s:
    s = s[: s.index(b) + len(b)] + "\n" + "\n".join(rows) + "\n" + s[s.index(e):]
    open(p, "w").write(s)
    print("table updated: %d changes" % (len(rows) - 2))
else:
    print("markers not found")
