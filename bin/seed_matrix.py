#!/usr/bin/env python3
"""seed_matrix.py [--all] [--tier quick|thorough] [dirs…]: applies each seeded change to /repo, runs the owning
property's check (with --all: every property's quick check), undoes the change, and records
which checks raised an alarm in /verif/seeded/RESULTS.json."""
import json, os, subprocess, sys, glob, time
VERIF = os.path.dirname(os.path.dirname(os.path.abspath(__file__)))
REPO = os.environ.get("VERIF_REPO", "/repo")
sys.path.insert(0, os.path.join(VERIF, "bin"))
import props as P
args = sys.argv[1:]
allp = "--all" in args
tier = "quick"
if "--tier" in args:
    tier = args[args.index("--tier") + 1]
    del args[args.index("--tier"):args.index("--tier") + 2]
args = [a for a in args if a != "--all"]
dirs = args or sorted(glob.glob(os.path.join(VERIF, "seeded", "C*-*")))
resp = os.path.join(VERIF, "seeded", "RESULTS.json")
results = json.load(open(resp)) if os.path.exists(resp) else {}
assert subprocess.run(["git", "-C", REPO, "status", "--porcelain"], capture_output=True).stdout.strip() == b"", REPO + " not clean"
for d in dirs:
    name = os.path.basename(d.rstrip("/"))
    pid = name.split("-")[0]
    pids = sorted(P.PROPS) if allp else [pid]
    r = subprocess.run(["git", "-C", REPO, "apply", os.path.join(d, "patch.diff")], capture_output=True)
    if r.returncode != 0:
        print(name, "patch does not apply", r.stderr.decode()[:200])
        continue
    try:
        row = results.get(name, {})
        for q in pids:
            t0 = time.time()
            pr = subprocess.run([os.path.join(VERIF, "bin", "check"), q, tier], capture_output=True, timeout=3600)
            out = pr.stdout.decode()
            line = [l for l in out.split("\n") if l.startswith("VIOLATION")]
            row[q] = {"rc": pr.returncode, "line": line[0] if line else "", "wall_s": round(time.time() - t0, 1), "tier": tier}
            print(name, q, pr.returncode, line[0] if line else out.strip().split("\n")[-1][:150], flush=True)
        results[name] = row
    finally:
        subprocess.run(["git", "-C", REPO, "checkout", "--", "."])
        subprocess.run(["git", "-C", REPO, "clean", "-fdq"])
    json.dump(results, open(resp, "w"), indent=1, sort_keys=True)
