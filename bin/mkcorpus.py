#!/usr/bin/env python3
"""mkcorpus.py: writes the deterministic targeted scenarios in /verif/corpus (committed; run by
every check of the properties named in the file name, before the generated traces).
File name: <PID>[+<PID>…]-<what>.ops"""
import os
C = os.path.join(os.path.dirname(os.path.dirname(os.path.abspath(__file__))), "corpus")


def w(name, lines):
    open(os.path.join(C, name), "w").write("\n".join(lines) + "\n")


# C09: all 256 lock bits in use at once, one more is refused, all released, locking works again
L = ["# all lock bits in use at once; the 257th query is refused; after releasing all of them (in an",
     "# interleaved order) the world is unlocked and queries / structural operations work again, repeatedly",
     "world 4 0 256", "reg b8", "new 1 0", "new 1 0"]
for rnd in range(2):
    base = rnd * 257
    for i in range(256):
        L.append("q A 1 0")
    L += ["locked", "q A 1 0", "new 1 0"]            # 257th refused, structural op refused
    order = list(range(0, 256, 2)) + list(range(255, 0, -2))
    for i in order:
        L.append("qx %d" % (base + i))
    L += ["locked", "new 1 0", "q A 1 0", "qn %d" % (base + 257 - rnd), "qx %d" % (base + 257 - rnd), "locked", "rm e0" if rnd == 0 else "rm e1"]
w("C09-lock-depth.ops", L)

# C09: locks held only in one 64-bit word of the lock mask (bits 0-63, 64-127, 128-191, 192-255)
L = ["# 256 queries open; all are closed except those whose lock bit lies in one mask word: the world is still",
     "# locked and structural operations are refused; after closing the rest it is unlocked again",
     "world 4 0 256", "reg b8", "new 1 0", "new 1 0"]
base = 0
for word in range(4):
    for i in range(256):
        L.append("q A 1 0")
    for i in range(256):
        if not (64 * word <= i < 64 * word + 64):
            L.append("qx %d" % (base + i))
    L += ["locked", "new 1 0", "rm e0", "add e0 0", "reset", "stats"]
    for i in range(64 * word, 64 * word + 64):
        L.append("qx %d" % (base + i))
    L += ["locked", "new 1 0", "stats"]
    base += 256
w("C09-lock-words.ops", L)

# C16: the 257th component type is refused and the registry is unchanged
L = ["# 256 component types can be registered and used; the 257th registration panics and leaves the registry as it was",
     "world 4 0 256"]
kinds = ["b8", "b4", "z", "b12", "rel", "b2", "ptr", "b16", "relp", "b1", "ns", "b24", "rel2", "b40"]
for i in range(256):
    L.append("reg " + kinds[i % len(kinds)])
L += ["reg b8", "reg rel", "new 3 0 255 128", "ids e0", "has e0 0", "get e0 0", "set e0 0 7", "get e0 0", "mask e0",
      "new 2 4 17", "relget e1 4", "reg b4", "stats"]
w("C16-type-limit.ops", L)

# C16 + C20: the 257th resource type is refused; all 256 resource ids hold their own value
L = ["# 256 resource types: each id holds its own value at every step; the 257th registration panics",
     "world 4 0 256"]
for i in range(256):
    L.append("resreg")
    L.append("resadd %d %d" % (i, 1000 + i))
    if i % 16 in (0, 15):
        for j in sorted(set([0, 1, 15, 16, 17, i // 2, i - 1, i])):
            if 0 <= j <= i:
                L.append("resget %d" % j)
                L.append("reshas %d" % j)
L += ["resreg", "resget 0", "resget 239", "resget 240", "resget 255", "resrem 240", "reshas 240", "reshas 241", "resadd 240 5", "resget 240"]
w("C16+C20-resource-limit.ops", L)
print("corpus written")
