#!/usr/bin/env python3
"""Regenerates MANIFEST.json from bin/props.py (levels, commands) — run after changing what is claimed."""
import json, os, sys
VERIF = os.path.dirname(os.path.dirname(os.path.abspath(__file__)))
sys.path.insert(0, os.path.join(VERIF, "bin"))
import props as P
TEXT = json.load(open(os.path.join(VERIF, "bin", "claims.json")))
checks = []
na = []
for pid in sorted(P.PROPS):
    c = TEXT.get(pid)
    if not c or c.get("not_applicable"):
        na.append({"property_id": pid, "reason": (c or {}).get("not_applicable", "no check built yet")})
        continue
    checks.append({
        "property_id": pid,
        "quick_cmd": "bin/check %s quick" % pid,
        "thorough_cmd": "bin/check %s thorough" % pid,
        "evidence_file": "/verif/evidence/%s.json" % pid,
        "replay_cmd_template": "bin/check %s quick --replay {path}" % pid,
        "engine": "lean4-proof+correspondence",
        "level_claimed": {"category": P.level_of(pid), "text": c["text"], "design_ref": c.get("design_ref", "DESIGN.md §5 " + pid)},
        "level_note": c["note"],
        "technique": c["technique"],
    })
m = {
    "version": 1,
    "setup_cmd": "bin/setup",
    "hooks": {
        "guard": "verif",
        "enable": "go build -tags verif (files ecs/verif_hooks.go and listener/verif_hooks.go carry //go:build verif); the checks build the harness in /verif/harness against /repo with -tags verif (and verif,tiny)",
        "baseline_off_cmd": "cd /repo && GOPROXY=off GOSUMDB=off GOTOOLCHAIN=local go test -vet=off -count=1 ./...",
        "source_commits": ["f959645", "5539184", "8493235", "b074964"],
        "add_only": True,
    },
    "engines": [
        {"name": "lean4-proof+correspondence", "path": "/verif/lean, /verif/extract, /verif/harness, /verif/bin",
         "serves_properties": [c["property_id"] for c in checks],
         "kind_free_text": "Lean 4 theorems about a hand-written executable model (ArcheModel) and about modules regenerated from the Go source on every run (ArcheGen); the model is tied to the code by a differential correspondence harness (Go, in-process, -tags verif hooks) with per-property projections and ddmin shrinking"},
    ],
    "checks": checks,
    "notes": "see DESIGN.md; known findings and fixed defects in known_findings.json; seeded changes used to validate the checks in seeded/",
    "not_applicable": na,
}
json.dump(m, open(os.path.join(VERIF, "MANIFEST.json"), "w"), indent=1)
print("claimed:", [c["property_id"] for c in checks], "n/a:", [n["property_id"] for n in na])
