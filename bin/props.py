"""Per-property configuration and the three stages of a check (Lean obligations, correspondence,
special arms)."""
import json, os, re, shutil, subprocess, sys, time, glob, hashlib
import concurrent.futures as cf
import vlib
from vlib import VERIF, LEAN, WORK, REPO

COMMON_ASSUMPTIONS = [
    "Lean 4.33.0 kernel; theorems may depend only on propext, Classical.choice, Quot.sound (audited on every run)",
    "the theorems are about the hand-written Lean model (lean/ArcheModel) and the regenerated modules (lean/ArcheGen)",
    "the model is tied to /repo by differential testing over generated operation sequences (bounded: the sequences generated in this run) and by regeneration of ArcheGen from the Go source on every run",
    "Go memory (unsafe pointers, reflect arrays, byte copies), maps, reflect-based isRelation, GC, escape analysis and goroutine scheduling are modelled or outside the model, not verified",
    "the Go harness, the verif hooks (VerifShape must report the real hidden state) and bin/vlib.py (projection and comparison) are trusted",
]

# (profile, sequences, ops per sequence)
Q = lambda *l: list(l)
PROPS = {
    "C01": dict(level="proof", quick=Q(("moves", 480, 150), ("mixed", 320, 150), ("pointers", 80, 150), ("events", 240, 150), ("locks", 320, 200)), thorough=Q(("moves", 6000, 500), ("mixed", 3200, 500), ("batch", 1600, 500), ("pointers", 800, 300), ("relations", 1600, 400))),
    "C02": dict(level="proof", quick=Q(("churn", 480, 200), ("mixed", 240, 150), ("cache", 240, 150), ("relations", 240, 150)), thorough=Q(("churn", 6000, 600), ("mixed", 2400, 500), ("reset", 1600, 400))),
    "C03": dict(level="proof", quick=Q(("queries", 480, 200), ("cache", 240, 150), ("batch", 320, 200)), thorough=Q(("queries", 6000, 500), ("cache", 2400, 400), ("batch", 1600, 400), ("relations", 1600, 400))),
    "C04": dict(level="proof", quick=Q(), thorough=Q()),
    "C05": dict(level="proof", quick=Q(("relations", 560, 200), ("mixed", 240, 150), ("reset", 240, 150)), thorough=Q(("relations", 6000, 500), ("mixed", 2400, 500), ("batch", 1600, 400))),
    "C06": dict(level="proof", quick=Q(("relations", 480, 200), ("cache", 240, 150), ("reset", 320, 200)), thorough=Q(("relations", 6000, 500), ("cache", 2400, 400), ("reset", 1600, 400))),
    "C07": dict(level="proof", quick=Q(("cache", 560, 200), ("relations", 240, 150)), thorough=Q(("cache", 6000, 500), ("relations", 2400, 400), ("reset", 1600, 400), ("batch", 1600, 400))),
    "C08": dict(level="proof", quick=Q(("batch", 560, 200), ("mixed", 240, 150)), thorough=Q(("batch", 6000, 500), ("mixed", 2400, 400), ("cache", 1600, 400))),
    "C09": dict(level="proof", quick=Q(("locks", 480, 200), ("queries", 240, 150)), thorough=Q(("locks", 4800, 500), ("queries", 2400, 400), ("mixed", 1600, 400))),
    "C10": dict(level="proof", quick=Q(("faults", 560, 200), ("mixed", 240, 150)), thorough=Q(("faults", 6000, 500), ("mixed", 2400, 400), ("relations", 1600, 400))),
    "C11": dict(level="proof", quick=Q(("events", 560, 200), ("batch", 240, 150)), thorough=Q(("events", 6000, 500), ("batch", 2400, 400), ("relations", 1600, 400))),
    "C12": dict(level="proof", quick=Q(("events", 560, 200)), thorough=Q(("events", 6000, 500), ("mixed", 2400, 400))),
    "C13": dict(level="other", quick=Q(), thorough=Q()),
    "C14": dict(level="other", quick=Q(("pointers", 240, 200)), thorough=Q(("pointers", 1600, 500))),
    "C15": dict(level="proof", quick=Q(("reset", 560, 200)), thorough=Q(("reset", 6000, 500), ("cache", 1600, 400))),
    "C16": dict(level="proof", quick=Q(("mixed", 240, 150), ("locks", 720, 200), ("relations", 320, 200)), thorough=Q(("mixed", 1600, 400), ("locks", 1600, 400), ("relations", 2400, 400))),
    "C17": dict(level="proof", quick=Q(("churn", 320, 200), ("reset", 240, 150)), thorough=Q(("churn", 4000, 500), ("reset", 2400, 400))),
    "C18": dict(level="proof", quick=Q(), thorough=Q()),
    "C19": dict(level="other", quick=Q(("churn", 320, 120), ("reset", 240, 120)), thorough=Q(("churn", 2400, 300), ("reset", 1600, 300))),
    "C20": dict(level="proof", quick=Q(("resources", 400, 200)), thorough=Q(("resources", 3200, 500), ("mixed", 1200, 300))),
}

def level_of(pid):
    """proof when the property's theorem module exists; otherwise what the correspondence alone gives"""
    lvl = PROPS[pid]["level"]
    if lvl == "proof" and not os.path.exists(os.path.join(LEAN, "ArcheProofs", "Props", pid + ".lean")):
        return "translation_validation"
    return lvl


FORBIDDEN = re.compile(r"\b(sorry|admit|native_decide|bv_decide|implemented_by|unsafe)\b|^axiom\s|maxHeartbeats\s+0")
ALLOWED_AXIOMS = {"propext", "Classical.choice", "Quot.sound"}


def strip_comments(src):
    src = re.sub(r"/-.*?-/", "", src, flags=re.S)
    return "\n".join(l.split("--")[0] for l in src.split("\n"))


def lean_sources():
    res = []
    for d in ("ArcheModel", "ArcheGen", "ArcheProofs"):
        for root, _, files in os.walk(os.path.join(LEAN, d)):
            for f in files:
                if f.endswith(".lean"):
                    res.append(os.path.join(root, f))
    return sorted(res)


AUDIT_BODY = '''
open Lean
#eval show CoreM Unit from do
  let env ← getEnv
  let mods := env.header.moduleNames
  for i in [0:mods.size] do
    let m := mods[i]!
    if (%s).contains m then
      let md := env.header.moduleData[i]!
      for n in md.constNames do
        if n.isInternal then continue
        match env.find? n with
        | some (.thmInfo _) =>
          let ax ← collectAxioms n
          IO.println s!"THM {m} {n} {" ".intercalate (ax.toList.map toString)}"
        | _ => pure ()
'''


def regenerate(work):
    """run the translator / fact extractor against /repo (ArcheGen/*.lean). Returns (ok, log)."""
    ex = os.path.join(VERIF, "extract")
    if not os.path.exists(os.path.join(ex, "main.go")):
        return True, "no extractor yet"
    with vlib.Lock("lake"):
        binp = os.path.join(ex, "bin", "extract")
        os.makedirs(os.path.dirname(binp), exist_ok=True)
        rc, out = vlib.run(["go", "build", "-o", binp, "."], cwd=ex, env=vlib.GOENV)
        if rc != 0:
            return False, "extractor does not build:\n" + out
        rc, out = vlib.run([binp, REPO, os.path.join(LEAN, "ArcheGen")], cwd=ex, env=vlib.GOENV)
        return rc == 0, out


def lean_obligations(pid, work):
    cov = {"obligations": 0, "discharged": 0, "checker_cmd": "cd /verif/lean && lake build ArcheProofs.Props.%s && lake env lean <audit of #print axioms>" % pid,
           "trusted_base": ["Lean 4.33.0 kernel", "axioms: propext, Classical.choice, Quot.sound only", "translator /verif/extract (Go AST -> Lean)", "correspondence harness /verif/harness + bin/vlib.py"],
           "theorems": []}
    viol = []
    rp = os.path.join(VERIF, "replays", "%s-proof.txt" % pid)
    ok, log = regenerate(work)
    if not ok:
        found = search_failing_input(pid, work, "regeneration of ArcheGen from the Go source failed:\n" + log)
        viol.append(found)
        return {"coverage": cov, "violations": viol}
    mod = os.path.join(LEAN, "ArcheProofs", "Props", pid + ".lean")
    if not os.path.exists(mod):
        cov["explanation"] = "no Lean property module for %s yet" % pid
        return {"coverage": cov, "violations": viol}
    # forbidden tokens
    bad = []
    for f in lean_sources():
        for i, l in enumerate(strip_comments(open(f).read()).split("\n")):
            if FORBIDDEN.search(l):
                bad.append("%s:%d: %s" % (f, i + 1, l.strip()))
    # the property's modules: Props/<ID>.lean plus world-level companions Props/<ID>_*.lean
    import glob as _glob
    mods = ["ArcheProofs.Props." + pid] + sorted("ArcheProofs.Props." + os.path.basename(f)[:-5]
                                                 for f in _glob.glob(os.path.join(LEAN, "ArcheProofs", "Props", pid + "_*.lean")))
    cov["modules"] = mods
    ok, out = vlib.lake_build(mods + ["model", "gencheck"])
    if not ok:
        errs = "\n".join(l for l in out.split("\n") if "error" in l or "rror:" in l)[:4000]
        found = search_failing_input(pid, work, "lake build ArcheProofs.Props.%s failed — a theorem (or a regenerated definition it is about) no longer checks:\n%s\n\nfull log tail:\n%s" % (pid, errs, out[-3000:]))
        viol.append(found)
        return {"coverage": cov, "violations": viol}
    audit = os.path.join(LEAN, "Audit_%s_%d.lean" % (pid, os.getpid()))
    open(audit, "w").write("import Lean\n" + "".join("import %s\n" % m for m in mods) + AUDIT_BODY % ("[" + ", ".join("`" + m for m in mods) + "]"))
    try:
        rc, out = vlib.run(["lake", "env", "lean", audit], cwd=LEAN)
    finally:
        os.remove(audit)
    thms = []
    for l in out.split("\n"):
        if l.startswith("THM "):
            p = l.split()
            last = p[2].split(".")[-1]
            if not p[2].startswith("Arche.Props.") or re.match(r"(eq_\d+|eq_def|match_\d+|proof_\d+|congr_simp|sizeOf_spec|injEq|inj|brecOn|below|binductionOn|rec|recOn|casesOn)$", last):
                continue
            thms.append((p[2], p[3:]))
    cov["obligations"] = len(thms) + 1
    okc = 0 if bad else 1
    badthm = []
    for n, ax in thms:
        if set(ax) <= ALLOWED_AXIOMS:
            okc += 1
        else:
            badthm.append((n, ax))
    cov["discharged"] = okc
    cov["theorems"] = [n.replace("Arche.Props.", "") for n, _ in thms]
    cov["axioms_used"] = sorted(set(a for _, ax in thms for a in ax))
    if rc != 0 or not thms or bad or badthm:
        open(rp, "w").write("axiom/sorry audit of ArcheProofs.Props.%s failed\nforbidden tokens: %s\ntheorems with disallowed axioms: %s\naudit output:\n%s\n" % (pid, bad, badthm, out[-3000:]))
        viol.append((rp, "no-failing-input-found"))
    return {"coverage": cov, "violations": viol}


def search_failing_input(pid, work, reason):
    """a proof obligation broke: look for a concrete failing input (property-specific search),
    else report the broken obligation itself"""
    rp = os.path.join(VERIF, "replays", "%s-proof.txt" % pid)
    fn = globals().get("search_" + pid)
    if fn:
        try:
            r = fn(work, reason)
            if r:
                return r
        except Exception as e:  # noqa
            reason += "\n(search for a failing input raised %r)" % (e,)
    open(rp, "w").write("property %s: proof obligation no longer checks; no concrete failing input found by the search.\n\n%s\n" % (pid, reason))
    return (rp, "no-failing-input-found")


def gen_and_compare(pid, harness, profile, seed, seqs, n, work):
    tag = "%s-%s-%d" % (pid, profile, seed)
    ops_p = os.path.join(work, tag + ".ops")
    impl_p = os.path.join(work, tag + ".impl")
    model_p = os.path.join(work, tag + ".model")
    stats_p = os.path.join(work, tag + ".stats")
    p = subprocess.run([harness, "gen", profile, str(seed), str(seqs), str(n), ops_p, impl_p, stats_p],
                       stdout=subprocess.PIPE, stderr=subprocess.STDOUT, timeout=3000, env=dict(os.environ, GOMEMLIMIT="4GiB"))
    gen_log = p.stdout.decode("utf-8", "replace")[-3000:]
    res = {"profile": profile, "seed": seed, "seqs": seqs, "gen_rc": p.returncode}
    if p.returncode != 0:
        # the generator process died (a Go runtime fatal error or a crash in the library not recoverable)
        res.update(kind="gen-crash", log=gen_log)
        return res
    vlib.run_model(ops_p, model_p)
    ops, seeds = vlib.read_ops(ops_p)
    d = vlib.compare(pid, ops, vlib.read_groups(impl_p), vlib.read_groups(model_p))
    res.update(d)
    res["n_ops"] = len(ops)
    try:
        res["stats"] = json.load(open(stats_p))
    except Exception:
        res["stats"] = {}
    if d["kind"] != "ok":
        res["seq_lines"] = vlib.seq_lines(ops, d["seq"])
        # cut after the failing op
        first = next(i for i, (s, _) in enumerate(ops) if s == d["seq"])
        res["seq_lines"] = res["seq_lines"][: d["index"] - first + 1]
        res["seq_seed"] = seeds.get(d["seq"])
    else:
        # sample for the evidence
        res["sample"] = [l for _, l in ops[:12]]
    for f in (ops_p, impl_p, model_p, stats_p):
        if os.path.exists(f):
            os.remove(f)
    return res


def correspondence(pid, tier, seed, harness, work):
    cfg = PROPS[pid]
    plan = cfg[tier]
    cov = {"traces_validated_against_impl": 0, "ops_compared": 0, "ops_executed": 0, "profiles": [], "op_distribution": {}, "panic_distribution": {}, "samples": []}
    viol = []
    # targeted scenarios first (corpus/<PID>[+<PID>…]-<what>.ops, written by bin/mkcorpus.py or minimised past failures)
    cov["corpus_scenarios"] = []
    for path in corpus_files(pid):
        lines = [l.rstrip("\n") for l in open(path) if l.strip() and not l.startswith("#")]
        bad, d = vlib.fails(pid, harness, lines, work, "corpus-" + os.path.basename(path)[:-4].replace("+", "_"))
        cov["corpus_scenarios"].append(os.path.basename(path))
        cov["traces_validated_against_impl"] += 1
        cov["ops_executed"] += len(lines)
        if bad:
            # cut after the failing op, then shrink
            cut = lines
            if isinstance(d.get("index"), int):
                cut = lines[: d["index"] + 1]
            hard = not d.get("soft")
            still, _ = vlib.fails(pid, harness, cut, work, "corpus-cut", need_hard=hard)
            if not still:
                cut = lines
            small, tests = vlib.shrink(pid, harness, cut, work, budget=120, need_hard=hard)
            _, d2 = vlib.fails(pid, harness, small, work, "corpus-final", need_hard=hard)
            h = hashlib.sha256("\n".join(small).encode()).hexdigest()[:10]
            rp = os.path.join(VERIF, "replays", "%s-%s.ops" % (pid, h))
            with open(rp, "w") as f:
                f.write("# property %s: the implementation's trace deviates from the verified model on the property's projection\n" % pid)
                f.write("# targeted scenario %s, shrunk with %d re-executions; replay: bin/check %s quick --replay %s\n" % (os.path.basename(path), tests, pid, rp))
                f.write("# failing op: %s\n" % d2.get("op"))
                f.write("# expected (model, proved to satisfy the property): %s\n" % json.dumps(d2.get("model_proj")))
                f.write("# actual   (implementation):                         %s\n" % json.dumps(d2.get("impl_proj")))
                f.write("\n".join(small) + "\n")
            viol.append((rp, "no-failing-input-found" if d2.get("soft") else ""))
            break
    if not plan or viol:
        cov["evaluations"] = cov["ops_executed"]
        return {"coverage": cov, "violations": viol}
    jobs = []
    # split into chunks so that all cores are used
    for profile, seqs, n in plan:
        chunks = max(1, min(16, seqs // 20))
        per = (seqs + chunks - 1) // chunks
        for c in range(chunks):
            jobs.append((profile, seed * 131 + c, per, n))
    with cf.ThreadPoolExecutor(max_workers=min(16, os.cpu_count() or 4)) as ex:
        futs = [ex.submit(gen_and_compare, pid, harness, p, s, k, n, work) for (p, s, k, n) in jobs]
        results = [f.result() for f in futs]
    bad = []
    for r in results:
        cov["profiles"].append("%s:seed=%d:seqs=%d" % (r["profile"], r["seed"], r["seqs"]))
        if r.get("kind") == "gen-crash":
            rp = os.path.join(VERIF, "replays", "%s-crash-%s-%d.txt" % (pid, r["profile"], r["seed"]))
            open(rp, "w").write("the process driving the real library died (profile %s, seed %d):\n%s\nre-run: harness/bin/harness-verif gen %s %d %d <n> ops impl\n" % (r["profile"], r["seed"], r["log"], r["profile"], r["seed"], r["seqs"]))
            viol.append((rp, ""))
            continue
        cov["traces_validated_against_impl"] += r["seqs"]
        cov["ops_executed"] += r.get("n_ops", 0)
        cov["ops_compared"] += r.get("compared", 0)
        for k, v in r.get("stats", {}).get("ops", {}).items():
            cov["op_distribution"][k] = cov["op_distribution"].get(k, 0) + v
        for k, v in r.get("stats", {}).get("panics", {}).items():
            cov["panic_distribution"][k] = cov["panic_distribution"].get(k, 0) + v
        if r["kind"] == "ok":
            if len(cov["samples"]) < 2:
                cov["samples"].append({"profile": r["profile"], "first_ops": r["sample"]})
            continue
        bad.append(r)
    # one shrunk replay is enough; prefer an observable difference over a hidden-state one
    bad.sort(key=lambda r: (1 if r.get("soft") else 0, len(r.get("seq_lines", []))))
    for r in bad[:1]:
        lines = r["seq_lines"]
        hard = not r.get("soft")
        still, d0 = vlib.fails(pid, harness, lines, work, "repro", need_hard=hard)
        if still:
            small, tests = vlib.shrink(pid, harness, lines, work, budget=300 if tier == "quick" else 1500, need_hard=hard)
            _, d = vlib.fails(pid, harness, small, work, "final", need_hard=hard)
        else:
            small, tests, d = lines, 0, r
        h = hashlib.sha256("\n".join(small).encode()).hexdigest()[:10]
        rp = os.path.join(VERIF, "replays", "%s-%s.ops" % (pid, h))
        soft = bool(d.get("soft"))
        with open(rp, "w") as f:
            f.write("# property %s: the implementation's trace deviates from the verified model on the property's projection\n" % pid)
            f.write("# profile %s, generator seed %s, shrunk with %d re-executions; replay: bin/check %s quick --replay %s\n" % (r["profile"], r.get("seq_seed"), tests, pid, rp))
            if soft:
                f.write("# only hidden state (hook-reported internals) differs from the model; no observable failure was found on this history: the correspondence on which the proof of %s rests no longer checks\n" % pid)
            f.write("# failing op: %s\n" % d.get("op"))
            f.write("# expected (model, proved to satisfy the property): %s\n" % json.dumps(d.get("model_proj")))
            f.write("# actual   (implementation):                         %s\n" % json.dumps(d.get("impl_proj")))
            f.write("\n".join(small) + "\n")
        viol.append((rp, "no-failing-input-found" if soft else ""))
    n_nontrivial = cov["traces_validated_against_impl"]
    cov["evaluations"] = cov["ops_executed"]
    cov["distinct_nontrivial"] = n_nontrivial
    cov["rule"] = "one evaluation = one operation executed on the real library and on the Lean model; a trace (operation sequence from one SplitMix64 seed and profile) counts as distinct non-trivial when it was generated from a distinct seed and contains operations in the property's projection"
    return {"coverage": cov, "violations": viol}


def replay(pid, path, work):
    ok, log, harness = vlib.build_harness("verif")
    if not ok:
        print(log)
        return False
    lines = [l.rstrip("\n") for l in open(path) if l.strip() and not l.startswith("#")]
    f, d = vlib.fails(pid, harness, lines, work, "replay")
    print(json.dumps({k: d.get(k) for k in ("kind", "op", "impl_proj", "model_proj")}, indent=1))
    return not f


def special(pid, tier, seed, harness, work):
    fn = globals().get("special_" + pid)
    if fn:
        return fn(tier, seed, harness, work)
    return {}


def corpus_files(pid):
    """targeted scenarios for this property: corpus/<PID>[+<PID>…]-<what>.ops"""
    res = []
    for f in sorted(glob.glob(os.path.join(VERIF, "corpus", "C*.ops"))):
        if pid in os.path.basename(f).split("-")[0].split("+"):
            res.append(f)
    return res


# ---------------------------------------------------------------------------------------------
# pure-function arm (C04, C12, C16): Go functions vs regenerated Lean definitions vs set oracle

PURE_OPS = {
    "C04": {"get", "set", "not", "and", "or", "xor", "contains", "containsany", "iszero", "reset", "total", "all", "matches"},
    "C12": {"subscribes", "lsubscribes", "subscription"},
    "C16": {"capacity", "capacitynz", "capacityu32"},
}


def pure_arm(pid, tier, seed, work):
    cov = {"pure_inputs": 0, "pure_builds": []}
    viol = []
    n = 4000 if tier == "quick" else 200000
    gencheck = os.path.join(LEAN, ".lake", "build", "bin", "gencheck")
    for tags, arg in (("verif", []), ("verif,tiny", ["64"])):
        ok, log, hb = vlib.build_harness(tags)
        if not ok:
            rp = os.path.join(VERIF, "replays", "%s-build-%s.txt" % (pid, tags.replace(",", "-")))
            open(rp, "w").write("harness does not build with tags %s:\n%s" % (tags, log))
            viol.append((rp, "no-failing-input-found"))
            continue
        inp = os.path.join(work, "pure-%s.in" % tags.replace(",", "-"))
        subprocess.run([hb, "puregen", str(seed), str(n), inp], check=True)
        go = subprocess.run([hb, "purerun", inp], stdout=subprocess.PIPE).stdout.decode().split("\n")
        with open(inp, "rb") as f:
            lean = subprocess.run([gencheck] + arg, stdin=f, stdout=subprocess.PIPE).stdout.decode().split("\n")
        lines = open(inp).read().split("\n")
        cnt = 0
        for i, l in enumerate(lines):
            if not l.strip() or l.split()[0] not in PURE_OPS[pid]:
                continue
            cnt += 1
            g = go[i].split("\t") if i < len(go) else ["<missing>", ""]
            le = lean[i] if i < len(lean) else "<missing>"
            if len(g) > 1 and g[1] != "-" and g[0] != g[1]:  # "-" = no independent oracle; "" = the empty set
                rp = os.path.join(VERIF, "replays", "%s-pure-%s.txt" % (pid, tags.replace(",", "-")))
                open(rp, "w").write("# property %s, build tags %s: the Go function disagrees with the set-semantics definition\n# input line (protocol of harness purerun / lean gencheck):\n%s\n# Go result: %s\n# by definition: %s\n# regenerated Lean definition: %s\n" % (pid, tags, l, g[0], g[1], le))
                viol.append((rp, ""))
                break
            if g[0] != le:
                rp = os.path.join(VERIF, "replays", "%s-translator-%s.txt" % (pid, tags.replace(",", "-")))
                open(rp, "w").write("# property %s, build tags %s: the regenerated Lean definition disagrees with the Go function it was translated from (translator validation)\n%s\n# Go result: %s\n# Lean result: %s\n" % (pid, tags, l, g[0], le))
                viol.append((rp, "no-failing-input-found"))
                break
        cov["pure_inputs"] += cnt
        cov["pure_builds"].append(tags)
    viol.sort(key=lambda v: 1 if v[1] else 0)
    cov["pure_rule"] = "Go function, regenerated Lean definition (lean gencheck) and set-semantics oracle evaluated on the same generated inputs: every single ID, ID pairs across word boundaries, random masks / filter expressions to depth 4 / subscription arguments, both builds"
    return {"coverage": cov, "violations": viol[:1]}


def special_C04(tier, seed, harness, work):
    r = pure_arm("C04", tier, seed, work)
    c = r["coverage"]
    c["evaluations"] = c["pure_inputs"]
    c["distinct_nontrivial"] = c["pure_inputs"]
    c["samples"] = ["get 1,70,200 70", "matches 1,70 & A 1 ! ANY 200", "contains 0,63,64 64"]
    b = builder_arm("C04", tier, seed, "the filter a generic FilterN builds does not select exactly the component sets its current configuration describes")
    return merge_special(r, b)


def search_C04(work, reason):
    r = pure_arm("C04", "quick", 1, work)
    hard = [v for v in r["violations"] if not v[1]]
    if hard:
        rp = hard[0][0]
        open(rp, "a").write("\n# found while searching for a failing input after a proof obligation broke:\n# " + reason.replace("\n", "\n# ")[:3000] + "\n")
        return hard[0]
    return None


def special_C12(tier, seed, harness, work):
    return pure_arm("C12", tier, seed, work)


def search_C12(work, reason):
    r = pure_arm("C12", "quick", 1, work)
    hard = [v for v in r["violations"] if not v[1]]
    return hard[0] if hard else None


def run_script(harness, path, work, tag):
    """run an op script on both sides; returns (ops, impl groups, model groups)"""
    ip, mp = os.path.join(work, tag + ".impl"), os.path.join(work, tag + ".model")
    vlib.run_impl(harness, path, ip, timeout=300)
    vlib.run_model(path, mp, timeout=300)
    ops, _ = vlib.read_ops(path)
    return ops, vlib.read_groups(ip), vlib.read_groups(mp)


def special_C02(tier, seed, harness, work):
    """known finding K1: confirm it still reproduces, report it as KNOWN-FINDING"""
    known = []
    viol = []
    kf = json.load(open(os.path.join(VERIF, "known_findings.json")))["findings"]
    k1 = [f for f in kf if f["id"] == "K1" and f["status"] == "known"]
    path = os.path.join(VERIF, "corpus", "K1-generation-wrap.ops")
    ops, gi, gm = run_script(harness, path, work, "k1")
    idx = [i for i, (_, l) in enumerate(ops) if l.startswith("alive E1:0")][0]
    others_equal = all(a == b for j, (a, b) in enumerate(zip(gi, gm)) if j < idx)
    if gi[idx] == ["= ok 1"] and gm[idx] == ["= ok 0"] and others_equal:
        if k1:
            known.append("handle 1:0 is reported alive again after exactly 2^32 recycles of id 1 (uint32 generation wrap; replay corpus/K1-generation-wrap.ops)")
        else:
            rp = os.path.join(VERIF, "replays", "C02-K1.ops")
            shutil.copy(path, rp)
            viol.append((rp, ""))
    elif not others_equal:
        rp = os.path.join(VERIF, "replays", "C02-K1-script.txt")
        open(rp, "w").write("the K1 scenario diverges before the wrap-around probe:\nimpl: %s\nmodel: %s\n" % (gi, gm))
        viol.append((rp, ""))
    return {"coverage": {"known_finding_scenarios": 1}, "violations": viol, "known": known}


# ---------------------------------------------------------------------------------------------
# C13 determinism: the same operation file, re-executed in fresh processes under different GC
# regimes, must give byte-identical traces (handles, iteration order, events, return values)

def gen_ops(harness, profile, seed, seqs, n, work, tag):
    ops_p = os.path.join(work, tag + ".ops")
    impl_p = os.path.join(work, tag + ".impl")
    subprocess.run([harness, "gen", profile, str(seed), str(seqs), str(n), ops_p, impl_p], check=True,
                   stdout=subprocess.PIPE, stderr=subprocess.STDOUT, timeout=3000)
    return ops_p, impl_p


def special_C13(tier, seed, harness, work):
    cov = {"determinism_runs": 0, "determinism_ops": 0, "regimes": ["same process as generator", "fresh process", "fresh process GOGC=1", "fresh process GC forced every 7 ops", "fresh process GOGC=off", "tiny build x2"]}
    viol = []
    plan = [("mixed", 30, 300), ("relations", 20, 300), ("cache", 20, 300), ("batch", 20, 300), ("events", 20, 300)]
    if tier == "thorough":
        plan = [(p, s * 12, 500) for p, s, n in plan] + [("churn", 200, 500), ("reset", 200, 400)]
    ok_t, _, harness_tiny = vlib.build_harness("verif,tiny")
    for profile, seqs, n in plan:
        ops_p, impl_p = gen_ops(harness, profile, seed * 17 + 3, seqs, n, work, "det-" + profile)
        base = open(impl_p, "rb").read()
        regimes = [("fresh", {}), ("gogc1", {"GOGC": "1"}), ("gcforced", {"VERIF_GC_EVERY": "7"}), ("gcoff", {"GOGC": "off"})]
        for name, env in regimes:
            out = subprocess.run([harness, "run", ops_p], stdout=subprocess.PIPE, env=dict(os.environ, GOMEMLIMIT="4GiB", **env), timeout=3000).stdout
            cov["determinism_runs"] += 1
            if out != base:
                a, b = base.decode(errors="replace").split("\n"), out.decode(errors="replace").split("\n")
                i = next((k for k in range(min(len(a), len(b))) if a[k] != b[k]), min(len(a), len(b)))
                rp = os.path.join(VERIF, "replays", "C13-%s-%s.ops" % (profile, name))
                shutil.copy(ops_p, rp)
                open(rp, "a").write("\n# regime %s: output line %d differs from the first execution\n# first : %s\n# second: %s\n" % (name, i, a[i] if i < len(a) else "<eof>", b[i] if i < len(b) else "<eof>"))
                viol.append((rp, ""))
                break
        cov["determinism_ops"] += len(base.split(b"\n="))
        if viol:
            break
    if ok_t and not viol:
        # the tiny build with itself
        ops_p, impl_p = gen_ops(harness_tiny, "mixed", seed * 17 + 5, 20, 300, work, "det-tiny")
        out = subprocess.run([harness_tiny, "run", ops_p], stdout=subprocess.PIPE, env=dict(os.environ, GOGC="1"), timeout=3000).stdout
        cov["determinism_runs"] += 1
        if out != open(impl_p, "rb").read():
            rp = os.path.join(VERIF, "replays", "C13-tiny.ops")
            shutil.copy(ops_p, rp)
            viol.append((rp, ""))
    cov["evaluations"] = cov["determinism_runs"]
    cov["distinct_nontrivial"] = cov["determinism_runs"]
    cov["rule"] = "one evaluation = one complete re-execution of a generated operation file in a fresh process under a GC regime, compared byte for byte (handles, iteration order, events with delivery context, return values) with the first execution"
    cov["samples"] = ["profile mixed, 30 sequences x 300 ops, regimes fresh / GOGC=1 / forced GC every 7 ops / GOGC=off"]
    cov["explanation"] = "Lean part: the model is a function of the operation list (run_deterministic) and the regenerated fact that non-test code iterates no map (no_map_iteration). The quantifier over processes and GC schedules is explored by re-execution, not proved."
    return {"coverage": cov, "violations": viol}


# ---------------------------------------------------------------------------------------------
# C19 isolation: N worlds driven concurrently, one goroutine each, under the race detector; each
# world's trace must equal the trace of the same sequence run alone

def special_C19(tier, seed, harness, work):
    cov = {"parallel_runs": 0, "worlds": 0}
    viol = []
    with vlib.Lock("go-race"):
        binp = os.path.join(vlib.HARNESS, "bin", "harness-race")
        shutil.copy(os.path.join(REPO, "go.sum"), os.path.join(vlib.HARNESS, "go.sum"))
        mf = ["-modfile", os.path.join(vlib.HARNESS, "go.alt.mod")] if vlib.REPO != "/repo" else []
        rc, out = vlib.run(["go", "build"] + mf + ["-race", "-tags", "verif", "-o", binp, "."], cwd=vlib.HARNESS, env=vlib.GOENV)
    if rc != 0:
        rp = os.path.join(VERIF, "replays", "C19-build.txt")
        open(rp, "w").write("race-enabled harness does not build:\n" + out)
        return {"coverage": cov, "violations": [(rp, "no-failing-input-found")]}
    rounds = 2 if tier == "quick" else 12
    nworlds = 8 if tier == "quick" else 16
    for rd in range(rounds):
        files, alone = [], []
        profiles = ["mixed", "relations", "cache", "batch", "events", "churn", "reset", "moves"]
        for i in range(nworlds):
            # one sequence per file = one world per goroutine; different seeds register types in different orders
            ops_p, impl_p = gen_ops(harness, profiles[i % len(profiles)], seed * 1000 + rd * 100 + i, 1, 400, work, "par-%d-%d" % (rd, i))
            files.append(ops_p)
            alone.append(open(impl_p, "rb").read())
        prefix = os.path.join(work, "parout-%d" % rd)
        p = subprocess.run([binp, "par", prefix] + files, stdout=subprocess.PIPE, stderr=subprocess.PIPE, timeout=3000,
                           env=dict(os.environ, GORACE="halt_on_error=1 exitcode=66"))
        cov["parallel_runs"] += 1
        cov["worlds"] += nworlds
        err = p.stderr.decode(errors="replace")
        if p.returncode != 0 or "DATA RACE" in err:
            rp = os.path.join(VERIF, "replays", "C19-race-%d.txt" % rd)
            with open(rp, "w") as f:
                f.write("# worlds driven concurrently (one goroutine each) under the race detector: exit %d\n%s\n# operation files:\n" % (p.returncode, err[-6000:]))
                for fn in files:
                    f.write("## " + fn + "\n" + open(fn).read() + "\n")
            viol.append((rp, ""))
            break
        for i in range(nworlds):
            got = open("%s.%d" % (prefix, i), "rb").read()
            if got != alone[i]:
                rp = os.path.join(VERIF, "replays", "C19-crosstalk-%d-%d.ops" % (rd, i))
                shutil.copy(files[i], rp)
                open(rp, "a").write("\n# this world's trace differs when it runs concurrently with %d other worlds\n" % (nworlds - 1))
                viol.append((rp, ""))
                break
        if viol:
            break
    cov["evaluations"] = cov["worlds"]
    cov["distinct_nontrivial"] = cov["worlds"]
    cov["rule"] = "one evaluation = one world driven through a generated 400-operation sequence in its own goroutine concurrently with the others, under -race; its trace is compared byte for byte with the same sequence run alone"
    cov["samples"] = ["8 worlds (profiles mixed, relations, cache, batch, events, churn, reset, moves; different registration orders) x 400 ops, 2 rounds"]
    cov["explanation"] = "Lean part: frame over a product of worlds (step_frame) and the regenerated fact that no package-level variable is written outside the never-enabled escape sink (no_shared_mutable_state). Data-race freedom over all interleavings is explored with the race detector, not proved."
    return {"coverage": cov, "violations": viol}


# ---------------------------------------------------------------------------------------------
# C14 pointer-holding components under GC: child processes (a runtime fatal error kills the child)

def special_C14(tier, seed, harness, work):
    cov = {"gc_arm_runs": []}
    viol = []
    secs = "2" if tier == "quick" else "25"
    runs = [("soak natural GC", ["gcarm", "soak", secs, str(seed)], {}),
            ("soak GOGC=1", ["gcarm", "soak", secs, str(seed + 1)], {"GOGC": "1"}),
            ("soak GOGC=10 GOMAXPROCS=2", ["gcarm", "soak", secs, str(seed + 2)], {"GOGC": "10", "GOMAXPROCS": "2"}),
            ("barrier (moves between tables, last row first, under a concurrently running collector; pointer component first / last / in the middle)", ["gcarm", "barrier", "3" if tier == "quick" else "30"], {}),
            ("retain (finalizers run after removal / reset)", ["gcarm", "retain"], {}),
            ("escape (non-escaping literals at call sites)", ["gcarm", "escape"], {}),
            ("alias (value sources pointing into the world's own storage, at capacity boundaries)", ["gcarm", "alias"], {})]
    for name, args, env in runs:
        try:
            p = subprocess.run([harness] + args, stdout=subprocess.PIPE, stderr=subprocess.STDOUT, timeout=600,
                               env=dict(os.environ, GOMEMLIMIT="4GiB", GOTRACEBACK="single", **env))
            out, rc = p.stdout.decode(errors="replace"), p.returncode
        except subprocess.TimeoutExpired:
            out, rc = "timeout", 124
        cov["gc_arm_runs"].append({"run": name, "rc": rc, "summary": out.strip().split("\n")[-1][:200]})
        if rc != 0:
            rp = os.path.join(VERIF, "replays", "C14-%s.txt" % args[1])
            open(rp, "w").write("# C14: %s failed (exit %d). Re-run: /verif/harness/bin/harness-verif %s   (env %s)\n%s\n" % (name, rc, " ".join(args), env, out[-6000:]))
            viol.append((rp, ""))
            break
    cov["evaluations"] = len(cov["gc_arm_runs"])
    cov["distinct_nontrivial"] = len(cov["gc_arm_runs"])
    cov["rule"] = "one evaluation = one child process: a soak of ~300k moves/removals/growth/batch moves on 1500 entities whose components reference heap payloads reachable only through them, with per-entity token checks, under a GC regime; or the finalizer-based retention scenarios; or the call-site shapes"
    cov["samples"] = [r["run"] + ": " + r["summary"] for r in cov["gc_arm_runs"]]
    cov["explanation"] = "GC timing, write barriers for raw byte copies and escape analysis cannot be expressed in a sequential value-level Lean model; this property is explored by the GC arm (soak under three GC regimes, finalizer-based retention, call-site shapes) plus the `pointers` correspondence profile (pointer-carrying components with forced GCs, values compared with the model). Finding F15 (fixed) was found by exactly this soak within milliseconds."
    return {"coverage": cov, "violations": viol}


# ---------------------------------------------------------------------------------------------
# C18 generic API: twin worlds, generic calls vs the documented ID-based equivalents, every arity

def special_C18(tier, seed, harness, work):
    cov = {}
    viol = []
    rounds, steps = (6, 120) if tier == "quick" else (150, 300)
    for tags in ("verif", "verif,tiny"):
        ok, log, hb = vlib.build_harness(tags)
        if not ok:
            rp = os.path.join(VERIF, "replays", "C18-build.txt")
            open(rp, "w").write("harness (with the generic arm) does not build with tags %s:\n%s" % (tags, log))
            return {"coverage": cov, "violations": [(rp, "no-failing-input-found")]}
        p = subprocess.run([hb, "generic", str(seed), str(rounds), str(steps)], stdout=subprocess.PIPE, stderr=subprocess.STDOUT, timeout=3000)
        out = p.stdout.decode(errors="replace")
        cov["generic_arm_" + tags.replace(",", "_")] = out.strip().split("\n")[-1][:300]
        if p.returncode != 0:
            rp = os.path.join(VERIF, "replays", "C18-generic-%s.txt" % tags.replace(",", "-"))
            open(rp, "w").write("# C18: generic call differs from its documented ID-based equivalent (build tags %s)\n# re-run: /verif/harness/bin/harness-%s generic %d %d %d\n%s\n" % (tags, tags.replace(",", "-"), seed, rounds, steps, out[-8000:]))
            viol.append((rp, ""))
            break
    cov["evaluations"] = rounds * steps * 12 * 2
    cov["distinct_nontrivial"] = rounds * 12 * 2
    cov["rule"] = "one evaluation = one step (generic call + ID-based equivalent on the twin world, then full snapshot comparison); distinct non-trivial = (seed, arity, build) combinations, each a different random sequence of MapN/FilterN/QueryN calls incl. builder calls between queries and registration"
    cov["samples"] = ["arity 3: NewWith, Get (write through position pointers), f.Optional(1), f.Query, f.Exclusive(), f.Query, f.Register, f.Query …"]
    if not viol:
        b = builder_arm("C18", tier, seed, "a generic filter does not behave as its current configuration says after an earlier use, refusal, registration cycle or builder call on the same object")
        return merge_special({"coverage": cov, "violations": viol}, b)
    return {"coverage": cov, "violations": viol}


def events_arm(pid, tier, seed, what):
    """listeners acting on the world from inside their callback (nested batch operations, a listener removing itself at
    the last removal event): a replayer driven by the events must rebuild every entity's components, nothing stays locked"""
    cov = {}
    viol = []
    rounds = 60 if tier == "quick" else 1500
    for tags in ("verif", "verif,tiny"):
        ok, log, hb = vlib.build_harness(tags)
        if not ok:
            rp = os.path.join(VERIF, "replays", "%s-build.txt" % pid)
            open(rp, "w").write("harness does not build with tags %s:\n%s" % (tags, log))
            return {"coverage": cov, "violations": [(rp, "no-failing-input-found")]}
        p = subprocess.run([hb, "eventsarm", str(seed), str(rounds)], stdout=subprocess.PIPE, stderr=subprocess.STDOUT, timeout=3000)
        out = p.stdout.decode(errors="replace")
        cov["reentrant_listener_arm_" + tags.replace(",", "_")] = out.strip().split("\n")[-1][:300] if p.returncode == 0 else out.strip().split("\n")[0][:300]
        if p.returncode != 0:
            rp = os.path.join(VERIF, "replays", "%s-events-%s.txt" % (pid, tags.replace(",", "-")))
            open(rp, "w").write("# %s: %s (build tags %s)\n# re-run: /verif/harness/bin/harness-%s eventsarm %d %d\n%s\n" % (pid, what, tags, tags.replace(",", "-"), seed, rounds, out[-8000:]))
            viol.append((rp, ""))
            break
    return {"coverage": cov, "violations": viol}


def builder_arm(pid, tier, seed, what):
    """random builder / registration / lock / use sequences on ONE generic filter object against the documented
    configuration semantics (harness/builderarm.go): expected panics, selected entity sets, lock balance, and an
    unrelated registered filter that must stay intact"""
    cov = {}
    viol = []
    rounds = 1500 if tier == "quick" else 40000
    for tags in ("verif", "verif,tiny"):
        ok, log, hb = vlib.build_harness(tags)
        if not ok:
            rp = os.path.join(VERIF, "replays", "%s-build.txt" % pid)
            open(rp, "w").write("harness does not build with tags %s:\n%s" % (tags, log))
            return {"coverage": cov, "violations": [(rp, "no-failing-input-found")]}
        p = subprocess.run([hb, "builderarm", str(seed), str(rounds)], stdout=subprocess.PIPE, stderr=subprocess.STDOUT, timeout=3000)
        out = p.stdout.decode(errors="replace")
        cov["generic_builder_arm_" + tags.replace(",", "_")] = out.strip().split("\n")[-1][:300] if p.returncode == 0 else out.strip().split("\n")[0][:300]
        if p.returncode != 0:
            rp = os.path.join(VERIF, "replays", "%s-builder-%s.txt" % (pid, tags.replace(",", "-")))
            open(rp, "w").write("# %s: %s (build tags %s)\n# re-run: /verif/harness/bin/harness-%s builderarm %d %d\n%s\n" % (pid, what, tags, tags.replace(",", "-"), seed, rounds, out[-8000:]))
            viol.append((rp, ""))
            break
    return {"coverage": cov, "violations": viol}


def merge_special(a, b):
    cov = dict(a.get("coverage", {}))
    for k, v in b.get("coverage", {}).items():
        if k not in cov:
            cov[k] = v
    return {"coverage": cov, "violations": list(a.get("violations", [])) + list(b.get("violations", []))}


def special_C10(tier, seed, harness, work):
    return builder_arm("C10", tier, seed, "a call on a generic filter that the documentation says panics does not (or a legal one panics), or a refused call left a trace: another registered filter is disturbed or a lock is leaked")


def special_C11(tier, seed, harness, work):
    return events_arm("C11", tier, seed, "with a listener that acts inside its callback, replaying the events no longer rebuilds the world")


def special_C09(tier, seed, harness, work):
    a = events_arm("C09", tier, seed, "a lock is not released, or an operation fails, in a history with a listener that acts inside its callback")
    b = builder_arm("C09", tier, seed, "a generic filter first used in a locked world (its types still unregistered) does not work after the lock is gone, or a lock is leaked")
    return merge_special(a, b)


def special_C16(tier, seed, harness, work):
    """every kind of Go type (struct, basic, pointer, interface, func, chan, generic instantiation ...) maps to one id
    through ComponentID[T] / TypeID / Map[T] and ResourceID[T] / ResourceTypeID / Resource[T]"""
    cov = {}
    viol = []
    for tags in ("verif", "verif,tiny"):
        ok, log, hb = vlib.build_harness(tags)
        if not ok:
            rp = os.path.join(VERIF, "replays", "C16-build.txt")
            open(rp, "w").write("harness does not build with tags %s:\n%s" % (tags, log))
            return {"coverage": cov, "violations": [(rp, "no-failing-input-found")]}
        p = subprocess.run([hb, "typeshapes"], stdout=subprocess.PIPE, stderr=subprocess.STDOUT, timeout=600)
        out = p.stdout.decode(errors="replace")
        cov["type_shapes_" + tags.replace(",", "_")] = out.strip().split("\n")[-1][:300]
        if p.returncode != 0:
            rp = os.path.join(VERIF, "replays", "C16-shapes-%s.txt" % tags.replace(",", "-"))
            open(rp, "w").write("# C16: a Go type does not map to one id through every entry point (build tags %s)\n# re-run: /verif/harness/bin/harness-%s typeshapes\n%s\n" % (tags, tags.replace(",", "-"), out[-8000:]))
            viol.append((rp, ""))
            break
    return {"coverage": cov, "violations": viol}


def special_C15(tier, seed, harness, work):
    """the fixed scenarios of the generic arm keep a generic.Resource mapper across World.Reset and a replacement of the
    resource through other entry points: after Reset a mapper must see what a fresh world would hold"""
    r = special_C20(tier, seed, harness, work)
    viol = []
    for rp, tag in r.get("violations", []):
        np = rp.replace("C20-", "C15-")
        try:
            open(np, "w").write(open(rp).read().replace("# C20:", "# C15 (a generic.Resource mapper kept across Reset / replacement sees a stale value):"))
        except Exception:
            np = rp
        viol.append((np, tag))
    return {"coverage": r.get("coverage", {}), "violations": viol}


def special_C20(tier, seed, harness, work):
    """generic.Resource / ecs.AddResource / GetResource against the ID-based resource calls (fixed scenarios of the generic arm)"""
    cov = {}
    viol = []
    for tags in ("verif", "verif,tiny"):
        ok, log, hb = vlib.build_harness(tags)
        if not ok:
            rp = os.path.join(VERIF, "replays", "C20-build.txt")
            open(rp, "w").write("harness does not build with tags %s:\n%s" % (tags, log))
            return {"coverage": cov, "violations": [(rp, "no-failing-input-found")]}
        p = subprocess.run([hb, "genericfixed"], stdout=subprocess.PIPE, stderr=subprocess.STDOUT, timeout=600)
        out = p.stdout.decode(errors="replace")
        cov["generic_resource_" + tags.replace(",", "_")] = out.strip().split("\n")[-1][:300]
        if p.returncode != 0:
            rp = os.path.join(VERIF, "replays", "C20-generic-%s.txt" % tags.replace(",", "-"))
            open(rp, "w").write("# C20: a resource read through generic.Resource / ecs.GetResource differs from the value stored for its id (build tags %s)\n# re-run: /verif/harness/bin/harness-%s genericfixed\n%s\n" % (tags, tags.replace(",", "-"), out[-8000:]))
            viol.append((rp, ""))
            break
    return {"coverage": cov, "violations": viol}


def search_C13(work, reason):
    """the no-map-iteration fact broke: look for an operation file whose re-execution differs"""
    ok, log, harness = vlib.build_harness("verif")
    if not ok:
        return None
    for seed in (1, 2, 3):
        r = special_C13("quick", seed, harness, work)
        if r["violations"]:
            rp = r["violations"][0][0]
            open(rp, "a").write("\n# found while searching for a failing input after a proof obligation broke:\n# " + reason.replace("\n", "\n# ")[:3000] + "\n")
            return r["violations"][0]
    return None


def search_C19(work, reason):
    """the no-shared-mutable-state fact broke: look for a data race / cross-talk between worlds"""
    ok, log, harness = vlib.build_harness("verif")
    if not ok:
        return None
    for seed in (1, 2):
        r = special_C19("quick", seed, harness, work)
        if r["violations"]:
            rp = r["violations"][0][0]
            open(rp, "a").write("\n# found while searching for a failing input after a proof obligation broke:\n# " + reason.replace("\n", "\n# ")[:3000] + "\n")
            return r["violations"][0]
    return None
