#!/usr/bin/env python3
"""mkprompts.py <ROUND> : writes /tmp/mut/prompts/<PID>.<ROUND>.txt for every property — the prompt a fresh
sub-agent gets for one seeded change (only the property text + its scratch worktree; nothing from /verif except the
one-line summaries of ideas already explored, which were written by earlier sub-agents themselves)."""
import json, sys, os, glob
R = sys.argv[1]
focus = sys.argv[2] if len(sys.argv) > 2 else ""
props = [json.loads(l) for l in open('/verif/properties.jsonl')]
os.makedirs('/tmp/mut/prompts', exist_ok=True)
for p in props:
    pid = p['id']
    ideas = []
    for d in sorted(glob.glob(f'/verif/seeded/{pid}-*')):
        try:
            m = json.load(open(d + '/meta.json'))
            s = m.get('summary', '')
            if s: ideas.append('  * ' + s[:330].replace('\n', ' ') + (' …' if len(s) > 330 else ''))
        except Exception: pass
    txt = f"""You are helping to evaluate how robust a verification effort for the Go library mlange-42/arche (an archetype-based Entity Component System) is. Your job: design ONE realistic code change (a "seeded defect") to the library that BREAKS the semantic property quoted below, while the library still compiles and its whole existing test suite still passes.

Your private scratch git worktree of the repository is /tmp/mut/{pid} . Work ONLY there (never in /repo, never in /verif; do not read /verif). Environment for every shell call: `export GOFLAGS=-mod=mod GOPROXY=off GOSUMDB=off GOTOOLCHAIN=local GOWORK=off` (no network). Test suite: `cd /tmp/mut/{pid} && go test -vet=off -count=1 ./...` . Also must build with `go build -tags tiny ./...` and `go build -tags verif ./...`. Do not modify any *_test.go file, any verif_hooks.go file, go.mod, or documentation; change only library source (ecs/, generic/, filter/, listener/, event/). If you change generic/ code that is generated, change the generated .go file directly (and the template too if you like).

THE PROPERTY (id {pid}):
{json.dumps(p, indent=1)}

Requirements for the change:
- It must look like something a maintainer could plausibly commit (an "optimisation", a refactoring slip, a dropped guard, a reordering, an off-by-one in a rarely hit branch, two sites that each look fine alone) — small (1-15 lines), not a blatant sabotage.
- It must need something SPECIFIC to manifest: a multi-step sequence of operations, an unusual but legal input, a particular state (e.g. a recycled table, a dead target, a capacity boundary, a specific component ID / mask word, nested queries, a listener doing something during a callback, a reset cycle...), not something ordinary use would expose at once. The existing test suite must still pass with it (all packages `ok`).
- It must be genuinely different from these ideas, which have already been explored (do NOT resubmit them or close variants; pick a different function / mechanism, preferably in a file or function none of them touches):
{chr(10).join(ideas)}
- {focus}
- Prefer defects that need a longer or more unusual history to manifest (three or more distinct steps, an interaction of two features such as relations + filter cache + reset, batch operations + listeners, recycling + capacity growth, or two code sites that each look fine alone).

Deliverables, all written into /tmp/mut/{pid}/_mutants/{R}/ :
1. patch.diff — output of `git diff` in the worktree for the library change only (must apply with `git apply` on a clean checkout).
2. demo_test.go — a Go test file whose FIRST line is the comment `// place in: <dir>` (e.g. `// place in: ecs`), with package clause matching that directory's test package (e.g. `package ecs_test` or `package ecs`), containing one or more tests named TestMutant{R}... that FAIL with your change applied and PASS on the unchanged code. The test must use only the public API (plus whatever the package's internal tests could use if you choose package ecs). It must demonstrate a violation of the property as stated (wrong value, wrong set of entities, missing panic, wrong event, etc.), not merely a difference in internals.
3. meta.json — {{"summary": "<file, function, what was changed and why it looks plausible>", "needs": "<what specific sequence/state/input is needed for it to manifest, and what goes wrong>", "demo_run": "<the commands you ran and their outcomes>"}}

You MUST verify yourself, before finishing: (a) with the change: go build (default, -tags tiny, -tags verif) OK and the full suite passes; (b) with the change: the demo test fails; (c) without the change (git checkout -- . , keeping _mutants/): the demo test passes. Leave the worktree clean at the end (git checkout -- . ; remove any copied demo test file), keeping only _mutants/{R}/. If your first idea is caught by the existing tests, try another. Finish with a short report: what you changed, what it needs to manifest, and the verification results.
"""
    open(f'/tmp/mut/prompts/{pid}.{R}.txt', 'w').write(txt)
print('wrote', len(props), 'prompts for round', R)
