#!/bin/bash
# seed_verify.sh <PID> <A|B> : confirm a seeded change delivered by a sub-agent in /tmp/mut/<PID>/_mutants/<X>
# (applies in the scratch worktree: suite passes with it, demo fails with it and passes without it),
# then stores it as /verif/seeded/<PID>-<X>/ (patch.diff, demo, meta.json).
set -u
PID=$1; X=$2
WT=/tmp/mut/$PID
M=$WT/_mutants/$X
export GOPROXY=off GOSUMDB=off GOTOOLCHAIN=local
cd $WT || exit 2
git checkout -q -- . ; git clean -fdq -e _mutants
DIR=$(head -3 $M/demo_test.go | grep -o 'place in: *[a-z/]*' | sed 's/place in: *//' | sed 's#/$##')
[ -z "$DIR" ] && DIR=ecs
git apply --check $M/patch.diff || { echo "PATCH DOES NOT APPLY"; exit 1; }
git apply $M/patch.diff
if git diff --name-only | grep -q '_test.go\|verif_hooks'; then echo "PATCH TOUCHES TESTS/HOOKS"; git checkout -q -- .; exit 1; fi
go build ./... && go build -tags tiny ./... && go build -tags verif ./... || { echo "BUILD FAILS"; git checkout -q -- .; exit 1; }
SUITE=$(go test -vet=off -count=1 ./... 2>&1 | grep -v 'no test files' | grep -cv '^ok')
cp $M/demo_test.go $DIR/zz_mutant_demo_test.go
go test -vet=off -count=1 ./$DIR/ -run 'Mutant|Demo|mutant' > /tmp/mut/$PID-$X.with.log 2>&1; WITH=$?
git checkout -q -- .
go test -vet=off -count=1 ./$DIR/ -run 'Mutant|Demo|mutant' > /tmp/mut/$PID-$X.without.log 2>&1; WITHOUT=$?
rm -f $DIR/zz_mutant_demo_test.go
echo "$PID-$X: suite_failures_with_change=$SUITE demo_with_change_rc=$WITH demo_without_change_rc=$WITHOUT dir=$DIR"
if [ "$SUITE" = "0" ] && [ "$WITH" != "0" ] && [ "$WITHOUT" = "0" ] && grep -q '^--- FAIL\|^FAIL' /tmp/mut/$PID-$X.with.log && grep -q '^ok' /tmp/mut/$PID-$X.without.log; then
  D=/verif/seeded/$PID-$X; mkdir -p $D
  cp $M/patch.diff $D/patch.diff; cp $M/demo_test.go $D/demo_test.go
  python3 - "$M/meta.json" "$D/meta.json" "$PID" "$DIR" <<'PY'
import json,sys
try: m=json.load(open(sys.argv[1]))
except Exception: m={}
m['property']=sys.argv[3]
m['demo_dir']=sys.argv[4]
m['confirmed']="bin/seed_verify.sh: patch applies in a scratch worktree; go build (default, tiny, verif) ok; existing suite passes with the change; demo test fails with the change and passes without it"
json.dump(m,open(sys.argv[2],'w'),indent=1)
PY
  echo "KEPT $D"
else
  echo "REJECTED"; tail -5 /tmp/mut/$PID-$X.with.log; tail -5 /tmp/mut/$PID-$X.without.log
fi
