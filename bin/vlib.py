#!/usr/bin/env python3
"""Shared machinery for /verif/bin/check: building, running both sides of the correspondence,
per-property projections, shrinking, evidence."""
import fcntl, hashlib, json, os, re, shutil, subprocess, sys, time

VERIF = os.path.dirname(os.path.dirname(os.path.abspath(__file__)))
REPO = os.environ.get("VERIF_REPO", "/repo")
LEAN = os.path.join(VERIF, "lean")
HARNESS = os.path.join(VERIF, "harness")
EXTRACT = os.path.join(VERIF, "extract")
WORK = os.path.join(VERIF, "work")
MODEL = os.path.join(LEAN, ".lake", "build", "bin", "model")

GOENV = dict(os.environ, GOFLAGS="-mod=mod", GOPROXY="off", GOSUMDB="off", GOTOOLCHAIN="local",
             GOWORK="off", GOMAXPROCS=os.environ.get("GOMAXPROCS", "8"))


def run(cmd, cwd=None, env=None, timeout=3600, inp=None):
    p = subprocess.run(cmd, cwd=cwd, env=env, stdout=subprocess.PIPE, stderr=subprocess.STDOUT,
                       timeout=timeout, input=inp)
    return p.returncode, p.stdout.decode("utf-8", "replace")


class Lock:
    def __init__(self, name):
        os.makedirs(WORK, exist_ok=True)
        self.path = os.path.join(WORK, name + ".lock")

    def __enter__(self):
        self.f = open(self.path, "w")
        fcntl.flock(self.f, fcntl.LOCK_EX)
        return self

    def __exit__(self, *a):
        fcntl.flock(self.f, fcntl.LOCK_UN)
        self.f.close()


def repo_digest():
    """digest of the non-test Go sources of /repo's working tree (to skip rebuilding when unchanged)"""
    h = hashlib.sha256()
    for root, dirs, files in os.walk(REPO):
        dirs[:] = sorted(d for d in dirs if d not in (".git", "docs", "benchmark", "_examples"))
        for f in sorted(files):
            if f.endswith(".go") or f in ("go.mod", "go.sum") or f.endswith(".go.txt"):
                p = os.path.join(root, f)
                h.update(p.encode())
                with open(p, "rb") as fh:
                    h.update(fh.read())
    return h.hexdigest()


def build_harness(tags="verif"):
    """(re)build the Go harness against /repo's current working tree. Returns (ok, log, binary)."""
    name = "harness-" + tags.replace(",", "-")
    binp = os.path.join(HARNESS, "bin", name)
    with Lock("go-" + name):
        dig = repo_digest() + hashlib.sha256(b"".join(open(os.path.join(HARNESS, f), "rb").read() for f in sorted(os.listdir(HARNESS)) if f.endswith(".go"))).hexdigest()
        stamp = binp + ".stamp"
        if os.path.exists(binp) and os.path.exists(stamp) and open(stamp).read() == dig:
            return True, "cached", binp
        os.makedirs(os.path.dirname(binp), exist_ok=True)
        shutil.copy(os.path.join(REPO, "go.sum"), os.path.join(HARNESS, "go.sum"))
        cmd = ["go", "build", "-tags", tags, "-o", binp, "."]
        if REPO != "/repo":
            # a scratch copy of the repository (background sweeps): same module file with the replace target changed
            alt = os.path.join(HARNESS, "go.alt.mod")
            open(alt, "w").write(open(os.path.join(HARNESS, "go.mod")).read().replace("=> /repo", "=> " + REPO))
            shutil.copy(os.path.join(REPO, "go.sum"), os.path.join(HARNESS, "go.alt.sum"))
            cmd = ["go", "build", "-modfile", alt, "-tags", tags, "-o", binp, "."]
        rc, out = run(cmd, cwd=HARNESS, env=GOENV)
        if rc != 0:
            if os.path.exists(stamp):
                os.remove(stamp)
            return False, out, binp
        open(stamp, "w").write(dig)
        return True, out, binp


def lake_build(targets):
    with Lock("lake"):
        rc, out = run(["lake", "build"] + targets, cwd=LEAN)
    return rc == 0, out


# ---------------------------------------------------------------------------------------------
# trace handling

def read_ops(path):
    """returns list of (seq, line) for op lines (comments carry the sequence headers)"""
    ops = []
    seq = -1
    seeds = {}
    for l in open(path):
        l = l.rstrip("\n")
        if not l.strip():
            continue
        if l.startswith("#"):
            m = re.match(r"# seq (\d+) seed (\d+)", l)
            if m:
                seq = int(m.group(1))
                seeds[seq] = int(m.group(2))
            continue
        ops.append((seq, l))
    return ops, seeds


def read_groups(path):
    """result groups: each starts with a '=' line followed by event lines"""
    groups = []
    for l in open(path, errors="replace"):
        l = l.rstrip("\n")
        if l.startswith("="):
            groups.append([l])
        elif groups:
            groups[-1].append(l)
    return groups


ENT = re.compile(r"(?<![\d:=])(\d+):(\d+)(?![\d:])")
CREATE = ("new", "newv", "bld")


class Canon:
    """rewrites handle values into issue indices (e<k>) using a side's own creation outputs"""

    def __init__(self):
        self.latest = {}
        self.n = 0

    def issue(self, hs):
        for h in hs:
            self.latest[h] = self.n
            self.n += 1

    def sub(self, s):
        def f(m):
            h = m.group(0)
            if m.group(1) == "0":
                return "e-"
            k = self.latest.get(h)
            return ("e%d" % k) if k is not None else ("?" + h)
        return ENT.sub(f, s)


def created_handles(op, res):
    """handles issued by a creation op, in protocol order"""
    if not res.startswith("= ok"):
        return []
    cmd = op.split()[0]
    toks = res.split()[2:]
    if cmd in ("new", "newv"):
        return toks[:1]
    if cmd == "bld":
        if " batchq " in op:
            return toks[1:]
        if " add " in op:
            return []
        return toks
    return []


def status(res):
    p = res.split()
    if len(p) >= 3 and p[1] == "panic":
        return "panic " + p[2]
    return p[1] if len(p) > 1 else res


def strip_targets(s):
    return re.sub(r"\]>\S+", "]", s)


def only_targets(s):
    # "h[...]>t" -> "h>t"
    return re.sub(r"\[[^\]]*\]", "", s)


def qall_set(res):
    # "= ok n agree=1 e.. e.." -> canonical set form, flags duplicates
    p = res.split()
    if len(p) < 4 or p[1] != "ok":
        return res
    ents = p[4:]
    dup = len(set(ents)) != len(ents)
    return "= ok %s %s dup=%d {%s}" % (p[2], p[3], dup, " ".join(sorted(ents)))


STRUCT_SINGLE = {"new", "newv", "bld", "rm", "add", "rem", "xchg", "relxchg", "assign", "relset"}
BATCH = {"b_xchg", "b_xchgq", "b_add", "b_addq", "b_rem", "b_remq", "rb_xchg", "rb_xchgq", "b_setrel",
         "b_setrelq", "rb_set", "rb_setq", "b_rment"}
QOPS = {"q", "qn", "qs", "qc", "qa", "qe", "qh", "qg", "qm", "qi", "qr", "qw", "qx"}


def project(pid, op, group, canon, ctx):
    """the part of one op's observable output that property `pid` owns, canonicalised;
    None = this op is not in the property's projection"""
    cmd = op.split()[0]
    res = group[0]
    evs = group[1:]
    c = canon.sub
    if pid == "C01":
        if cmd in ("get", "has", "mask", "ids", "write", "set", "qg", "qh", "qm", "qi", "qw"):
            return c(res)
        if cmd == "snapshot":
            return strip_targets(c(res))
        if cmd in STRUCT_SINGLE or cmd in BATCH:
            # what a listener reads about the event's entity when the event is delivered
            seen = sorted(" ".join(c(e).split()[1:3]) + " " + m.group(0) for e in evs for m in [re.search(r"V\[.*\]$", c(e))] if m)
            return status(res) + ("\n" + "\n".join(seen) if seen else "")
        if cmd == "inv":
            return "~" + res
        if cmd == "reg":
            return res  # which id a type gets and whether it is a relation decides what the entity reports
        return None
    if pid == "C02":
        if cmd in CREATE or cmd in ("alive", "stats", "dump"):
            return res
        if cmd in ("rm", "reset", "load", "b_rment"):
            return res
        if cmd in ("hasu", "getu", "relu"):
            return status(res)  # a removed entity's slot holds no table
        if cmd == "snapshot":
            return " ".join(sorted(re.findall(r"(\d+:\d+)\[", res)))
        if cmd == "inv":
            return "~" + res  # the index / pool / storage consistency check of the hook
        if cmd in ("qa", "qe", "qc", "qn", "qs") and len(op.split()) > 1 and op.split()[1] in ctx.get("cbq", ()):
            return res  # the new handles of a batch creation, read through the query the call returned (Entity, EntityAt, Count)
        return None
    if pid == "C03":
        if cmd == "qall":
            return qall_set(c(res))
        if cmd in QOPS:
            return c(res)
        if cmd in ("b_xchgq", "b_addq", "b_remq", "rb_xchgq", "b_setrelq", "rb_setq"):
            return status(res)
        return None
    if pid == "C05":
        if cmd in ("relget", "relset", "relxchg", "qr", "rb_xchg", "rb_xchgq", "b_setrel", "b_setrelq", "rb_set", "rb_setq"):
            return c(res) if cmd in ("relget", "qr") else status(res)
        if cmd == "bld" and (" T " in op or " R " in op):
            return status(res)
        if cmd in ("add", "rem", "xchg", "assign"):
            return status(res)
        if cmd == "snapshot":
            return only_targets(c(res))
        if cmd == "qall" and (op.split()[1] == "R" or (op.split()[1] == "C" and op.split()[2] in ctx.get("creg_rel", ()))):
            return qall_set(c(res))
        return None
    if pid == "C06":
        if cmd in ("rm", "b_rment", "reset"):
            return status(res)
        if cmd == "snapshot":
            return c(res)
        if cmd == "inv":
            return "~" + res
        if cmd == "shape" and "n" in op.split()[1]:
            m = re.search(r"(node0\[.*?) \| (cache|locks)|(node0\[.*)$", res)
            return "~" + c(m.group(1) or m.group(3)) if m else None
        if cmd == "qall" and op.split()[1] == "R":
            return qall_set(c(res))
        if cmd in ("relget", "qr"):
            return c(res)
        return None
    if pid == "C07":
        if cmd in ("creg", "cunreg"):
            return res
        if cmd == "qall":
            return qall_set(c(res))
        if cmd in BATCH:
            return c(res) if "q" != cmd[-1] else status(res)
        if cmd == "shape" and "c" in op.split()[1]:
            m = re.search(r"(cache.*?)( \| locks|$)", res)
            return "~" + m.group(1) if m else None
        if cmd == "snapshot":
            return c(res)
        return None
    if pid == "C08":
        if cmd in BATCH:
            return res if cmd[-1] != "q" else status(res)
        if cmd == "bld" and (" batch " in op or " batchq " in op):
            return status(res) + " n=%d" % len(created_handles(op, res))
        if cmd in ("hasu", "getu", "relu"):
            return c(res)  # the entity index behind removed / moved entities, read without a liveness check
        if cmd == "snapshot":
            return c(res)
        if cmd in QOPS and cmd != "q" and op.split()[1] in ctx.get("bq", ()):
            return c(res)
        return None
    if pid == "C09":
        if cmd in ("locked", "reg"):
            return res
        if cmd in ("q", "qx", "qall"):
            return status(res)
        if cmd in ("qn", "qs"):
            return " ".join(res.split()[:3])
        st = status(res)
        if st in ("panic locked", "panic lock-limit", "panic unbalanced"):
            return st
        if cmd in STRUCT_SINGLE or cmd in BATCH or cmd in ("reset", "load", "reg"):
            return st
        if cmd == "shape":
            parts = op.split()[1]
            if "l" in parts:
                m = re.search(r"(locks.*)$", res)
                return "~" + m.group(1) if m else None
            return "~" + c(res)  # shape taken around an operation under lock
        return None
    if pid == "C10":
        st = status(res)
        if cmd in ("snapshot",):
            return c(res)
        if cmd == "shape":
            return "~" + c(re.sub(r" cap=\d+", "", res))
        if cmd == "inv":
            return "~" + res
        return st
    if pid == "C11":
        if ctx.get("full_listener", False) or evs:
            return "\n".join(sorted(c(e) for e in evs))
        return None
    if pid == "C12":
        return "\n".join(c(e) for e in evs)
    if pid == "C15":
        if cmd in CREATE or cmd in ("reset", "alive", "stats", "locked", "resget", "reshas", "reslook"):
            return res
        if cmd == "qall":
            return qall_set(c(res))
        if cmd == "snapshot":
            return c(res)
        if cmd == "shape":
            return "~" + c(res)
        return None
    if pid == "C16":
        if cmd in ("reg", "resreg", "reslook"):
            return res
        if cmd in STRUCT_SINGLE or cmd in ("get", "has", "qall", "snapshot"):
            return c(res) if cmd not in STRUCT_SINGLE else status(res)
        return None
    if pid == "C17":
        if cmd in ("dump", "load", "json", "alive", "reset") or cmd in CREATE or cmd == "rm":
            return res
        if cmd == "shape":
            m = re.search(r"(pool .*? \| index .*?)( \||$)", res)
            return m.group(1) if m else res
        return None
    if pid == "C19":
        # worlds created later in the same sequence (`world+`, loaded from the same dump) must not
        # see anything done in an earlier one
        if ctx.get("after_world_plus"):
            if cmd in CREATE or cmd in ("alive", "stats", "dump", "rm", "load", "snapshot"):
                return res
            if cmd == "shape":
                return "~" + res
        return None
    if pid == "C20":
        if cmd in ("resadd", "resrem", "resget", "reshas", "resreg", "reslook"):
            return res
        return None
    if pid == "ALL":
        return "\n".join(group)
    return None


def compare(pid, ops, impl_groups, model_groups):
    """returns None when the projections agree, else a dict describing the first difference"""
    if len(impl_groups) != len(ops) or len(model_groups) != len(ops):
        n = min(len(impl_groups), len(model_groups), len(ops))
        # the shorter side stopped (crash of a process): report at that op
        base = {"kind": "length", "n_ops": len(ops), "n_impl": len(impl_groups), "n_model": len(model_groups)}
    else:
        n = len(ops)
        base = None
    ci, cm = Canon(), Canon()
    ctx = {}
    nproj = 0
    soft = None
    for i in range(n):
        seq, op = ops[i]
        cmd = op.split()[0]
        gi, gm = impl_groups[i], model_groups[i]
        if cmd in ("world", "world+"):
            ci, cm = Canon(), Canon()
            ctx = {"after_world_plus": cmd == "world+"}
        if cmd == "lst":
            ctx["full_listener"] = op.split()[1:] == ["63", "-"]
        elif cmd in ("nolst", "disp"):
            ctx["full_listener"] = False
        if cmd == "creg" and len(op.split()) > 1 and op.split()[1] == "R":
            m = re.match(r"= ok c(\d+)", gm[0])
            if m:
                ctx.setdefault("creg_rel", set()).add(m.group(1))  # registered relation filters
        if (cmd in BATCH and cmd.endswith("q")) or (cmd == "bld" and " batchq " in op):
            m = re.match(r"= ok q(\d+)", gm[0])
            if m:
                ctx.setdefault("bq", set()).add(m.group(1))
                if cmd == "bld":
                    ctx.setdefault("cbq", set()).add(m.group(1))  # the query a batch creation hands its new handles out through
        ci.issue(created_handles(op, gi[0]))
        cm.issue(created_handles(op, gm[0]))
        pi = project(pid, op, gi, ci, ctx)
        pm = project(pid, op, gm, cm, ctx)
        if pi is not None or pm is not None:
            nproj += 1
        if pi != pm:
            d = {"kind": "projection", "index": i, "seq": seq, "op": op, "impl": gi, "model": gm,
                 "impl_proj": pi, "model_proj": pm, "compared": nproj}
            is_soft = (pi is None or str(pi).startswith("~")) and (pm is None or str(pm).startswith("~"))
            if not is_soft:
                return d
            # hidden-state (soft) difference: remember the first one, keep looking for an observable one
            # within the same sequence
            if soft is None:
                soft = d
    if soft is not None:
        soft["soft"] = True
        soft["compared"] = nproj
        return soft
    if base:
        base.update({"index": n, "seq": ops[n][0] if n < len(ops) else -1, "op": ops[n][1] if n < len(ops) else "", "compared": nproj})
        return base
    return {"kind": "ok", "compared": nproj}


# ---------------------------------------------------------------------------------------------
# running both sides

def run_impl(harness, ops_path, out_path, timeout=600):
    with open(ops_path, "rb") as fi, open(out_path, "wb") as fo:
        p = subprocess.run([harness, "run", "-"], stdin=fi, stdout=fo, stderr=subprocess.PIPE, timeout=timeout,
                           env=dict(os.environ, GOMEMLIMIT="4GiB"))
    return p.returncode, p.stderr.decode("utf-8", "replace")[-2000:]


def run_model(ops_path, out_path, timeout=600):
    with open(ops_path, "rb") as fi, open(out_path, "wb") as fo:
        p = subprocess.run([MODEL], stdin=fi, stdout=fo, stderr=subprocess.PIPE, timeout=timeout)
    return p.returncode, p.stderr.decode("utf-8", "replace")[-2000:]


def seq_lines(ops, seq):
    return [l for s, l in ops if s == seq]


def fails(pid, harness, lines, workdir, tag="shrink", need_hard=False):
    """does this op list still show a projection difference (an observable one if need_hard)?"""
    p = os.path.join(workdir, tag + ".ops")
    open(p, "w").write("# seq 0 seed 0\n" + "\n".join(lines) + "\n")
    run_impl(harness, p, p + ".impl", timeout=120)
    run_model(p, p + ".model", timeout=120)
    ops, _ = read_ops(p)
    d = compare(pid, ops, read_groups(p + ".impl"), read_groups(p + ".model"))
    return d["kind"] != "ok" and not (need_hard and d.get("soft")), d


def shrink(pid, harness, lines, workdir, budget=400, need_hard=False):
    """ddmin over op lines (the first line, `world …`, and registrations are kept)"""
    head = lines[:1]
    body = lines[1:]
    tests = 0

    def bad(b):
        nonlocal tests
        tests += 1
        f, _ = fails(pid, harness, head + b, workdir, need_hard=need_hard)
        return f
    n = 2
    while len(body) >= 2 and tests < budget:
        chunk = max(1, len(body) // n)
        reduced = False
        for i in range(0, len(body), chunk):
            cand = body[:i] + body[i + chunk:]
            if tests >= budget:
                break
            if cand and bad(cand):
                body = cand
                n = max(n - 1, 2)
                reduced = True
                break
        if not reduced:
            if chunk == 1:
                break
            n = min(n * 2, len(body))
    return head + body, tests


def write_evidence(pid, ev):
    os.makedirs(os.path.join(VERIF, "evidence"), exist_ok=True)
    p = os.path.join(VERIF, "evidence", pid + ".json")
    tmp = p + ".tmp%d" % os.getpid()
    json.dump(ev, open(tmp, "w"), indent=1)
    os.replace(tmp, p)
