package main

// Facts about the generated generic API (generic/query_generated.go, generic/map_generated.go):
// purely syntactic, so that every arity 0–12 is covered without instantiating type parameters.

import (
	"fmt"
	"go/ast"
	"go/parser"
	"go/token"
	"path/filepath"
	"regexp"
	"sort"
	"strconv"
	"strings"
)

var arityRe = regexp.MustCompile(`^(Filter|Query|Map)(\d+)$`)

func recvInfo(fd *ast.FuncDecl) (base string, arity int, tparams []string, ok bool) {
	if fd.Recv == nil || len(fd.Recv.List) != 1 {
		return
	}
	rt := fd.Recv.List[0].Type
	if s, isStar := rt.(*ast.StarExpr); isStar {
		rt = s.X
	}
	var name string
	switch x := rt.(type) {
	case *ast.Ident:
		name = x.Name
	case *ast.IndexExpr:
		name = x.X.(*ast.Ident).Name
		tparams = []string{x.Index.(*ast.Ident).Name}
	case *ast.IndexListExpr:
		name = x.X.(*ast.Ident).Name
		for _, i := range x.Indices {
			tparams = append(tparams, i.(*ast.Ident).Name)
		}
	default:
		return
	}
	m := arityRe.FindStringSubmatch(name)
	if m == nil {
		return
	}
	arity, _ = strconv.Atoi(m[2])
	return m[1], arity, tparams, true
}

func callsSelector(body *ast.BlockStmt, chain string) bool {
	found := false
	ast.Inspect(body, func(n ast.Node) bool {
		if call, ok := n.(*ast.CallExpr); ok {
			if exprChain(call.Fun) == chain {
				found = true
			}
		}
		return true
	})
	return found
}

func mentionsChain(body *ast.BlockStmt, chain string) bool {
	found := false
	ast.Inspect(body, func(n ast.Node) bool {
		if e, ok := n.(ast.Expr); ok && exprChain(e) == chain {
			found = true
		}
		return true
	})
	return found
}

func exprChain(e ast.Expr) string {
	switch x := e.(type) {
	case *ast.Ident:
		return x.Name
	case *ast.SelectorExpr:
		return exprChain(x.X) + "." + x.Sel.Name
	case *ast.IndexExpr:
		return exprChain(x.X) + "[" + exprChain(x.Index) + "]"
	case *ast.BasicLit:
		return x.Value
	}
	return "?"
}

func indexOf(l []string, s string) int {
	for i, x := range l {
		if x == s {
			return i
		}
	}
	return -1
}

var idFieldRe = regexp.MustCompile(`^\w+\.id(\d+)$`)

func genericFacts(repo string) (string, []string) {
	errs := []string{}
	fset := token.NewFileSet()
	var sb strings.Builder
	type bf struct {
		arity          int
		method         string
		resets, locked bool
	}
	builders := []bf{}
	queryIds := map[int][][2]int{}
	gets := map[string][][2]int{}
	mapIds := map[int][][2]int{}
	for _, fn := range []string{"query_generated.go", "map_generated.go"} {
		f, err := parser.ParseFile(fset, filepath.Join(repo, "generic", fn), nil, 0)
		if err != nil {
			return "", []string{err.Error()}
		}
		for _, d := range f.Decls {
			fd, ok := d.(*ast.FuncDecl)
			if !ok || fd.Body == nil {
				continue
			}
			// constructors NewMapN: idK: ecs.ComponentID[T](w)
			if fd.Recv == nil && strings.HasPrefix(fd.Name.Name, "NewMap") && fd.Type.TypeParams != nil {
				n, err := strconv.Atoi(strings.TrimPrefix(fd.Name.Name, "NewMap"))
				if err != nil {
					continue
				}
				tps := []string{}
				for _, tp := range fd.Type.TypeParams.List {
					for _, nm := range tp.Names {
						tps = append(tps, nm.Name)
					}
				}
				ast.Inspect(fd.Body, func(nd ast.Node) bool {
					kv, ok := nd.(*ast.KeyValueExpr)
					if !ok {
						return true
					}
					key, ok := kv.Key.(*ast.Ident)
					if !ok || !strings.HasPrefix(key.Name, "id") {
						return true
					}
					k, err := strconv.Atoi(strings.TrimPrefix(key.Name, "id"))
					if err != nil {
						return true
					}
					if call, ok := kv.Value.(*ast.CallExpr); ok {
						if ix, ok := call.Fun.(*ast.IndexExpr); ok && exprChain(ix.X) == "ecs.ComponentID" {
							mapIds[n] = append(mapIds[n], [2]int{k, indexOf(tps, exprChain(ix.Index))})
						}
					}
					return true
				})
				continue
			}
			base, arity, tps, ok := recvInfo(fd)
			if !ok {
				continue
			}
			recv := fd.Recv.List[0].Names[0].Name
			switch base {
			case "Filter":
				switch fd.Name.Name {
				case "Optional", "With", "Without", "Exclusive", "WithRelation":
					builders = append(builders, bf{arity, fd.Name.Name, callsSelector(fd.Body, recv+".compiled.Reset"), mentionsChain(fd.Body, recv+".compiled.locked")})
				case "Query":
					ast.Inspect(fd.Body, func(nd ast.Node) bool {
						kv, ok := nd.(*ast.KeyValueExpr)
						if !ok {
							return true
						}
						key, ok := kv.Key.(*ast.Ident)
						if !ok || !strings.HasPrefix(key.Name, "id") {
							return true
						}
						k, err := strconv.Atoi(strings.TrimPrefix(key.Name, "id"))
						if err != nil {
							return true
						}
						ch := exprChain(kv.Value)
						pre := recv + ".compiled.Ids["
						if strings.HasPrefix(ch, pre) {
							idx, _ := strconv.Atoi(strings.TrimSuffix(strings.TrimPrefix(ch, pre), "]"))
							queryIds[arity] = append(queryIds[arity], [2]int{k, idx})
						} else {
							queryIds[arity] = append(queryIds[arity], [2]int{k, -1})
						}
						return true
					})
				}
			case "Query", "Map":
				if fd.Name.Name == "Get" || (base == "Map" && fd.Name.Name == "GetUnchecked") {
					key := fmt.Sprintf("%s.%s.%d", base, fd.Name.Name, arity)
					// the single return statement at the end of the body lists the positions
					var ret *ast.ReturnStmt
					for _, s := range fd.Body.List {
						if r, ok := s.(*ast.ReturnStmt); ok {
							ret = r
						}
					}
					if ret == nil {
						errs = append(errs, "no return in "+key)
						continue
					}
					for _, r := range ret.Results {
						tpIdx, idIdx := -1, -1
						if call, ok := r.(*ast.CallExpr); ok && len(call.Args) == 1 {
							// (*T)(inner)
							if p, ok := call.Fun.(*ast.ParenExpr); ok {
								if st, ok := p.X.(*ast.StarExpr); ok {
									tpIdx = indexOf(tps, exprChain(st.X))
								}
							}
							if inner, ok := call.Args[0].(*ast.CallExpr); ok && len(inner.Args) > 0 {
								last := exprChain(inner.Args[len(inner.Args)-1])
								if m := idFieldRe.FindStringSubmatch(last); m != nil {
									idIdx, _ = strconv.Atoi(m[1])
								}
							}
						}
						gets[key] = append(gets[key], [2]int{tpIdx, idIdx})
					}
				}
			}
		}
	}
	sort.Slice(builders, func(a, b int) bool {
		if builders[a].arity != builders[b].arity {
			return builders[a].arity < builders[b].arity
		}
		return builders[a].method < builders[b].method
	})
	sb.WriteString("/-- generated filter builders: (arity, method, calls compiled.Reset(), checks compiled.locked) -/\ndef genericBuilderFacts : List (Nat × String × Bool × Bool) := [\n")
	for i, b := range builders {
		sep := ","
		if i == len(builders)-1 {
			sep = ""
		}
		fmt.Fprintf(&sb, "  (%d, %s, %v, %v)%s\n", b.arity, leanStr(b.method), b.resets, b.locked, sep)
	}
	sb.WriteString("]\n\n")
	pairs := func(l [][2]int) string {
		s := make([]string, len(l))
		for i, p := range l {
			s[i] = fmt.Sprintf("(%d, %d)", p[0], p[1])
		}
		return "[" + strings.Join(s, ", ") + "]"
	}
	sb.WriteString("/-- FilterN.Query: (arity, [(k, K)] for each field initialiser `idk: f.compiled.Ids[K]`) -/\ndef genericQueryIdFacts : List (Nat × List (Int × Int)) := [\n")
	ar := []int{}
	for a := range queryIds {
		ar = append(ar, a)
	}
	sort.Ints(ar)
	for i, a := range ar {
		sep := ","
		if i == len(ar)-1 {
			sep = ""
		}
		fmt.Fprintf(&sb, "  (%d, %s)%s\n", a, pairs(queryIds[a]), sep)
	}
	sb.WriteString("]\n\n")
	sb.WriteString("/-- NewMapN: (arity, [(k, index of the type parameter T in `idk: ecs.ComponentID[T](w)`)]) -/\ndef genericMapIdFacts : List (Nat × List (Int × Int)) := [\n")
	ar = ar[:0]
	for a := range mapIds {
		ar = append(ar, a)
	}
	sort.Ints(ar)
	for i, a := range ar {
		sep := ","
		if i == len(ar)-1 {
			sep = ""
		}
		fmt.Fprintf(&sb, "  (%d, %s)%s\n", a, pairs(mapIds[a]), sep)
	}
	sb.WriteString("]\n\n")
	keys := []string{}
	for k := range gets {
		keys = append(keys, k)
	}
	sort.Slice(keys, func(a, b int) bool {
		pa, pb := strings.Split(keys[a], "."), strings.Split(keys[b], ".")
		if pa[0]+pa[1] != pb[0]+pb[1] {
			return pa[0]+pa[1] < pb[0]+pb[1]
		}
		x, _ := strconv.Atoi(pa[2])
		y, _ := strconv.Atoi(pb[2])
		return x < y
	})
	sb.WriteString("/-- QueryN.Get / MapN.Get / MapN.GetUnchecked: per return position (index of the type parameter in the cast, k of the id field used) -/\ndef genericGetFacts : List (String × Nat × List (Int × Int)) := [\n")
	for i, k := range keys {
		p := strings.Split(k, ".")
		sep := ","
		if i == len(keys)-1 {
			sep = ""
		}
		fmt.Fprintf(&sb, "  (%s, %s, %s)%s\n", leanStr(p[0]+"."+p[1]), p[2], pairs(gets[k]), sep)
	}
	sb.WriteString("]\n\n")
	return sb.String(), errs
}
